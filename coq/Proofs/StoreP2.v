(* Proofs about Model/Store.v, part 2: every transformer preserves well-formedness of the heap, hence the
   frame property holds along every finite history of applicable operations (T03_history). *)
From TenpyV Require Import Base.Prelude Model.Store Proofs.StoreP.
Open Scope nat_scope.

(* ---- well-formedness of an Array record only depends on the sizes of the three cell tables *)
Definition heap_le (h h' : heap) : Prop :=
  length (bufs h) <= length (bufs h') /\ length (tabs h) <= length (tabs h') /\
  length (legs h) <= length (legs h').

Lemma wf_arr_le h h' a : heap_le h h' -> wf_arr h a -> wf_arr h' a.
Proof.
  intros [L1 [L2 L3]] [Wb [Wt Wl]]. repeat split.
  - eapply Forall_impl; [|exact Wb]. cbn beta. intros; lia.
  - lia.
  - eapply Forall_impl; [|exact Wl]. cbn beta. intros; lia.
Qed.

Lemma In_upd {A} (l : list A) : forall i v a, In a (upd l i v) -> In a l \/ a = v.
Proof.
  induction l as [|x t IH]; intros [|i] v a Hin; cbn [upd] in Hin; auto.
  - destruct Hin as [<-|Hin]; [right; reflexivity|left; right; exact Hin].
  - destruct Hin as [<-|Hin]; [left; left; reflexivity|].
    destruct (IH i v a Hin) as [H|H]; [left; right; exact H|right; exact H].
Qed.

(* the objects of the new heap are old objects or objects that are well-formed in the new heap *)
Lemma wf_of h h' : wf h -> heap_le h h' ->
  (forall a, In a (objs h') -> In a (objs h) \/ wf_arr h' a) -> wf h'.
Proof.
  intros Hwf Hle Hcl. unfold wf in *. rewrite Forall_forall in *. intros a Ha.
  destruct (Hcl a Ha) as [H|H]; [|exact H]. apply (wf_arr_le h h' a Hle), Hwf, H.
Qed.

Lemma fresh_lt n m k : n + m <= k -> Forall (fun i => i < k) (fresh_ids n m).
Proof. intros Hk. apply Forall_forall. intros i Hi. unfold fresh_ids in Hi. apply in_seq in Hi. lia. Qed.

Lemma perm_lg_lt (l : list nat) perm k :
  Forall (fun i => i < k) l -> Forall (fun j => j < length l) perm ->
  Forall (fun i => i < k) (map (fun j => nth j l 0) perm).
Proof.
  intros Hl Hp. rewrite Forall_forall in *. intros i Hi. apply in_map_iff in Hi.
  destruct Hi as [j [<- Hj]]. apply Hl, nth_In, Hp, Hj.
Qed.

Lemma id_perm_ok h x : perm_ok h x (id_perm (obj h x)).
Proof. unfold perm_ok, id_perm. apply Forall_forall. intros k Hk. apply in_seq in Hk. lia. Qed.

Lemma obj_add_new h a : obj (add_obj h a) (length (objs h)) = a.
Proof. unfold obj, add_obj. cbn [objs]. rewrite app_nth2, Nat.sub_diag by lia. reflexivity. Qed.

(* ---- the building blocks of the transformers *)
Lemma wf_add_obj h a : wf h -> wf_arr h a -> wf (add_obj h a).
Proof.
  intros Hwf Ha. apply (wf_of h); [exact Hwf|unfold heap_le, add_obj; cbn [bufs tabs legs]; lia|].
  intros a0 Hin. unfold add_obj in Hin. cbn [objs] in Hin. apply in_app_or in Hin.
  destruct Hin as [Hin|[<-|[]]]; [left; exact Hin|right].
  apply (wf_arr_le h); [unfold heap_le, add_obj; cbn [bufs tabs legs]; lia|exact Ha].
Qed.

Lemma wf_same_sizes h bs : wf h -> length bs = length (bufs h) -> wf (mkHeap bs (tabs h) (legs h) (objs h)).
Proof.
  intros Hwf Hl. apply (wf_of h); [exact Hwf|unfold heap_le; cbn [bufs tabs legs]; lia|].
  intros a Hin. left. exact Hin.
Qed.

Lemma wf_arr_deep_copy h a : wf_arr h a -> wf_arr (fst (deep_copy h a)) (snd (deep_copy h a)).
Proof.
  intros [Wb [Wt Wl]]. unfold deep_copy. cbn [fst snd]. unfold wf_arr. cbn [bufs tabs legs blk tab lg].
  rewrite !app_length, map_length. cbn [length]. repeat split; [apply fresh_lt; lia|lia|exact Wl].
Qed.

Lemma wf_deep_copy_heap h a : wf h -> wf (fst (deep_copy h a)).
Proof.
  intros Hwf. apply (wf_of h); [exact Hwf|unfold heap_le, deep_copy; cbn [fst bufs tabs legs]; rewrite !app_length; lia|].
  intros a0 Hin. left. exact Hin.
Qed.

Lemma wf_arr_rebind h a f gt perm : wf_arr h a -> Forall (fun k => k < length (lg a)) perm ->
  wf_arr (fst (rebind h a f gt perm)) (snd (rebind h a f gt perm)).
Proof.
  intros [Wb [Wt Wl]] Hp. unfold rebind. cbn [fst snd]. unfold wf_arr. cbn [bufs tabs legs blk tab lg].
  rewrite !app_length, map_length. cbn [length].
  repeat split; [apply fresh_lt; lia|lia|apply perm_lg_lt; assumption].
Qed.

Lemma wf_rebind_heap h a f gt perm : wf h -> wf (fst (rebind h a f gt perm)).
Proof.
  intros Hwf. apply (wf_of h); [exact Hwf|unfold heap_le, rebind; cbn [fst bufs tabs legs]; rewrite !app_length; lia|].
  intros a0 Hin. left. exact Hin.
Qed.

Lemma wf_set_obj h x a : wf h -> wf_arr h a -> wf (set_obj h x a).
Proof.
  intros Hwf Ha. apply (wf_of h); [exact Hwf|unfold heap_le, set_obj; cbn [bufs tabs legs]; lia|].
  intros a0 Hin. unfold set_obj in Hin. cbn [objs] in Hin. apply In_upd in Hin.
  destruct Hin as [Hin| ->]; [left; exact Hin|right].
  apply (wf_arr_le h); [unfold heap_le, set_obj; cbn [bufs tabs legs]; lia|exact Ha].
Qed.

(* x.itranspose-like step: bind fresh buffers / table / permuted legs to the live tensor x *)
Lemma wf_rebind_set h x f gt perm : wf h -> live h x -> perm_ok h x perm ->
  wf (set_obj (fst (rebind h (obj h x) f gt perm)) x (snd (rebind h (obj h x) f gt perm))).
Proof.
  intros Hwf Hx Hp. apply wf_set_obj; [apply wf_rebind_heap, Hwf|].
  apply wf_arr_rebind; [apply wf_obj; assumption|exact Hp].
Qed.

Lemma wf_alloc_result h rb rt : wf h ->
  wf (add_obj (mkHeap (bufs h ++ rb) (tabs h ++ [rt]) (legs h) (objs h))
              (mkArr (fresh_ids (length (bufs h)) (length rb)) (length (tabs h)) [] [] [])).
Proof.
  intros Hwf. apply wf_add_obj.
  - apply (wf_of h); [exact Hwf|unfold heap_le; cbn [bufs tabs legs]; rewrite !app_length; lia|].
    intros a Hin. left. exact Hin.
  - unfold wf_arr. cbn [bufs tabs legs blk tab lg]. rewrite !app_length. cbn [length].
    repeat split; [apply fresh_lt; lia|lia|constructor].
Qed.

Lemma live_add_obj h a x : live h x -> live (add_obj h a) x.
Proof. unfold live, add_obj. cbn [objs]. rewrite app_length. lia. Qed.

Lemma live_set_obj h r a x : live h x -> live (set_obj h r a) x.
Proof. unfold live, set_obj. cbn [objs]. rewrite upd_length. lia. Qed.

(* ---- every transformer preserves well-formedness *)
Lemma wf_exec h o : wf h -> op_ok h o -> wf (fst (exec h o)).
Proof.
  intros Hwf Hok.
  destruct o as [nb lgs|deep r|r f|r b g|r f gt perm|r gt perm|r f gt newlegs|r f|r f|a b g|a b pa pb F];
    cbn [op_ok] in Hok.
  - (* ONew *)
    cbn [exec fst]. apply (wf_of h); [exact Hwf|unfold heap_le; cbn [bufs tabs legs]; rewrite !app_length; lia|].
    intros a Hin. cbn [objs] in Hin. apply in_app_or in Hin. destruct Hin as [Hin|[<-|[]]]; [left; exact Hin|right].
    unfold wf_arr. cbn [bufs tabs legs blk tab lg]. rewrite !app_length, repeat_length. cbn [length].
    repeat split; [apply fresh_lt; lia|lia|exact Hok].
  - (* OCopy *)
    destruct deep.
    + apply wf_deep_copy; assumption.
    + cbn [exec fst]. apply wf_add_obj; [exact Hwf|apply wf_obj; assumption].
  - (* OMapWrite *)
    cbn [exec fst]. apply wf_same_sizes; [exact Hwf|apply write_all_length].
  - (* OBinWrite *)
    cbn [exec fst]. apply wf_same_sizes; [exact Hwf|apply write_zip_length].
  - (* OMapRebind *)
    destruct Hok as [Hr Hp]. apply (wf_rebind_set h r f gt perm Hwf Hr Hp).
  - (* OMeta *)
    destruct Hok as [Hr Hp]. cbn [exec fst].
    pose proof (wf_obj h r Hwf Hr) as [Wb [Wt Wl]].
    apply wf_set_obj.
    + apply (wf_of h); [exact Hwf|unfold heap_le; cbn [bufs tabs legs]; rewrite !app_length; lia|].
      intros a Hin. left. exact Hin.
    + unfold wf_arr. cbn [bufs tabs legs blk tab lg]. rewrite !app_length. cbn [length].
      repeat split; [exact Wb|lia|apply perm_lg_lt; assumption].
  - (* OProject *)
    cbn [exec fst]. apply wf_set_obj.
    + apply (wf_of h); [exact Hwf|unfold heap_le; cbn [bufs tabs legs]; rewrite !app_length; lia|].
      intros a Hin. left. exact Hin.
    + unfold wf_arr. cbn [bufs tabs legs blk tab lg]. rewrite !app_length, map_length. cbn [length].
      repeat split; [apply fresh_lt; lia|lia|apply fresh_lt; lia].
  - (* OUnary *)
    pose proof (wf_add_obj _ _ (wf_deep_copy_heap h (obj h r) Hwf) (wf_arr_deep_copy h (obj h r) (wf_obj h r Hwf Hok))) as H2.
    apply (wf_same_sizes _ (write_all (blk (snd (deep_copy h (obj h r)))) f
                                      (bufs (add_obj (fst (deep_copy h (obj h r))) (snd (deep_copy h (obj h r))))))) in H2;
      [exact H2|apply write_all_length].
  - (* OScaleAxis *)
    cbn [exec]. change (wf (add_obj (fst (rebind h (obj h r) f (fun t => t) (id_perm (obj h r))))
                                     (snd (rebind h (obj h r) f (fun t => t) (id_perm (obj h r)))))).
    apply wf_add_obj; [apply wf_rebind_heap, Hwf|].
    apply wf_arr_rebind; [apply wf_obj; assumption|apply id_perm_ok].
  - (* OAdd *)
    destruct Hok as [Ha Hb].
    pose proof (wf_add_obj _ _ (wf_deep_copy_heap h (obj h a) Hwf) (wf_arr_deep_copy h (obj h a) (wf_obj h a Hwf Ha))) as H2.
    set (h2 := add_obj (fst (deep_copy h (obj h a))) (snd (deep_copy h (obj h a)))) in H2.
    apply (wf_same_sizes _ (write_zip (blk (snd (deep_copy h (obj h a)))) (map (buf h2) (blk (obj h2 b))) g (bufs h2))) in H2;
      [exact H2|apply write_zip_length].
  - (* OTensordot: shallow copy of a, itranspose on it, shallow copy of b, itranspose on it, fresh result *)
    destruct Hok as [Ha [Hb [Hpa Hpb]]].
    set (h1 := add_obj h (obj h a)).
    set (xa := length (objs h)).
    assert (W1 : wf h1) by (apply wf_add_obj; [exact Hwf|apply wf_obj; assumption]).
    assert (Hxa : live h1 xa) by (unfold live, h1, add_obj, xa; cbn [objs]; rewrite app_length; cbn [length]; lia).
    assert (Oxa : obj h1 xa = obj h a) by apply obj_add_new.
    assert (Ppa : perm_ok h1 xa pa) by (unfold perm_ok; rewrite Oxa; exact Hpa).
    pose proof (wf_rebind_set h1 xa (fun v => v) (fun t => t) pa W1 Hxa Ppa) as W3.
    set (h3 := set_obj (fst (rebind h1 (obj h1 xa) (fun v => v) (fun t => t) pa)) xa
                       (snd (rebind h1 (obj h1 xa) (fun v => v) (fun t => t) pa))) in W3.
    assert (Ob : obj h3 b = obj h b).
    { unfold h3. rewrite obj_set_other by (unfold xa, live in *; lia).
      unfold rebind, obj at 1. cbn [fst objs]. unfold h1. fold (obj (add_obj h (obj h a)) b). apply obj_add_old, Hb. }
    assert (Lb3 : live h3 b) by (unfold h3; apply live_set_obj; unfold rebind; cbn [fst]; unfold live; cbn [objs]; apply live_add_obj, Hb).
    set (h4 := add_obj h3 (obj h3 b)).
    set (xb := S xa).
    assert (W4 : wf h4) by (apply wf_add_obj; [exact W3|apply wf_obj; assumption]).
    assert (Lxb : length (objs h3) = xb).
    { unfold h3, set_obj, rebind. cbn [fst objs]. rewrite upd_length. unfold h1, add_obj. cbn [objs].
      rewrite app_length. cbn [length]. unfold xb, xa. lia. }
    assert (Hxb : live h4 xb) by (unfold live, h4, add_obj; cbn [objs]; rewrite app_length; cbn [length]; lia).
    assert (Oxb : obj h4 xb = obj h b) by (unfold h4; rewrite <- Lxb, obj_add_new; exact Ob).
    assert (Ppb : perm_ok h4 xb pb) by (unfold perm_ok; rewrite Oxb; exact Hpb).
    pose proof (wf_rebind_set h4 xb (fun v => v) (fun t => t) pb W4 Hxb Ppb) as W6.
    set (h6 := set_obj (fst (rebind h4 (obj h4 xb) (fun v => v) (fun t => t) pb)) xb
                       (snd (rebind h4 (obj h4 xb) (fun v => v) (fun t => t) pb))) in W6.
    change (wf (fst (let '(rb, rt) := F (denote h6 xa) (denote h6 xb) in
                     (add_obj (mkHeap (bufs h6 ++ rb) (tabs h6 ++ [rt]) (legs h6) (objs h6))
                              (mkArr (fresh_ids (length (bufs h6)) (length rb)) (length (tabs h6)) [] [] []), S xb)))).
    destruct (F (denote h6 xa) (denote h6 xb)) as [rb rt]. cbn [fst].
    apply wf_alloc_result, W6.
Qed.

(* ---- tensors are never deallocated *)
Lemma objs_mono h o : length (objs h) <= length (objs (fst (exec h o))).
Proof.
  destruct o as [nb lgs|deep r|r f|r b g|r f gt perm|r gt perm|r f gt newlegs|r f|r f|a b g|a b pa pb F];
    try (cbn [exec deep_copy rebind fst objs add_obj set_obj]; rewrite ?upd_length, ?app_length; lia).
  - destruct deep; cbn [exec deep_copy fst objs add_obj]; rewrite ?app_length; lia.
  - cbn [exec rebind]. destruct (F _ _) as [rb rt]. cbn [fst objs add_obj set_obj].
    rewrite ?app_length, ?upd_length, ?app_length, ?upd_length, ?app_length. lia.
Qed.

(* ---- histories *)
Lemma run_app h pre : forall post, run h (pre ++ post) = run (run h pre) post.
Proof. revert h. induction pre as [|o t IH]; intros h post; cbn [run app]; [reflexivity|apply IH]. Qed.

Lemma ops_ok_app pre : forall h post, ops_ok h (pre ++ post) -> ops_ok h pre /\ ops_ok (run h pre) post.
Proof.
  induction pre as [|o t IH]; intros h post Hok; cbn [run app ops_ok] in *; [split; [exact I|exact Hok]|].
  destruct Hok as [Ho Ht]. destruct (IH _ _ Ht) as [H1 H2]. repeat split; assumption.
Qed.

Lemma wf_run os : forall h, wf h -> ops_ok h os -> wf (run h os).
Proof.
  induction os as [|o t IH]; intros h Hwf Hok; cbn [run ops_ok] in *; [exact Hwf|].
  destruct Hok as [Ho Ht]. apply IH; [apply wf_exec; assumption|exact Ht].
Qed.

Lemma run_objs_mono os : forall h, length (objs h) <= length (objs (run h os)).
Proof.
  induction os as [|o t IH]; intros h; cbn [run]; [lia|].
  pose proof (objs_mono h o). pose proof (IH (fst (exec h o))). lia.
Qed.

(* a tensor that no step of the history may change has, at the end, the value it had at the start *)
Lemma history_untouched os : forall h x, wf h -> ops_ok h os -> x < length (objs h) ->
  (forall pre o post, os = pre ++ o :: post -> ~ In x (may_change (run h pre) o)) ->
  denote (run h os) x = denote h x.
Proof.
  induction os as [|o t IH]; intros h x Hwf Hok Hx Hno; cbn [run ops_ok] in *; [reflexivity|].
  destruct Hok as [Ho Ht].
  rewrite IH.
  - apply frame_may_change; [exact Hwf|exact Hx|]. apply (Hno [] o t). reflexivity.
  - apply wf_exec; assumption.
  - exact Ht.
  - pose proof (objs_mono h o). lia.
  - intros pre o' post Heq. apply (Hno (o :: pre) o' post). cbn [app]. rewrite Heq. reflexivity.
Qed.

Lemma history_frame os h : wf h -> ops_ok h os ->
  wf (run h os) /\
  (forall pre o post, os = pre ++ o :: post ->
     wf (run h pre) /\ wf (fst (exec (run h pre) o)) /\
     forall x, x < length (objs (run h pre)) -> ~ In x (may_change (run h pre) o) ->
               denote (fst (exec (run h pre) o)) x = denote (run h pre) x) /\
  (forall x, x < length (objs h) ->
     (forall pre o post, os = pre ++ o :: post -> ~ In x (may_change (run h pre) o)) ->
     denote (run h os) x = denote h x).
Proof.
  intros Hwf Hok. split; [apply wf_run; assumption|]. split.
  - intros pre o post ->. apply ops_ok_app in Hok. destruct Hok as [Hpre Hpost].
    cbn [ops_ok] in Hpost. destruct Hpost as [Ho _].
    pose proof (wf_run pre h Hwf Hpre) as Wk.
    split; [exact Wk|]. split; [apply wf_exec; assumption|].
    intros x Hx Hnot. apply frame_may_change; assumption.
  - intros x Hx Hno. apply history_untouched; assumption.
Qed.

Lemma example_history_ok :
  let h0 := mkHeap [] [] [dleg] [] in
  wf h0 /\
  ops_ok h0 [ONew 2 [0; 0]; OCopy false 0; OMapWrite 1 dbl; OBinWrite 0 1 (fun x y => x ++ y); OCopy true 1;
             OTensordot 0 0 [1; 0] [0; 1] (fun _ _ => ([[1%Z]], [[]])); OAdd 2 2 (fun x y => x ++ y);
             OMapRebind 1 dbl (fun t => t) [1; 0]; OMeta 0 (fun t => t) [1; 0]; OProject 2 dbl (fun t => t) [dleg; dleg];
             OScaleAxis 1 dbl; OUnary 0 dbl].
Proof. split; [constructor|]. vm_compute. repeat split; repeat constructor. Qed.

(* ---- the histories replayed by the harness (check_history) are applicable histories *)
Lemma legs_mono h o : length (legs h) <= length (legs (fst (exec h o))).
Proof.
  destruct o as [nb lgs|deep r|r f|r b g|r f gt perm|r gt perm|r f gt newlegs|r f|r f|a b g|a b pa pb F];
    try (cbn [exec deep_copy rebind fst legs add_obj set_obj]; rewrite ?app_length; lia).
  - destruct deep; cbn [exec deep_copy fst legs add_obj]; lia.
  - cbn [exec rebind]. destruct (F _ _) as [rb rt]. cbn [fst legs add_obj set_obj]. lia.
Qed.

Lemma res_live h o : op_ok h o -> live (fst (exec h o)) (snd (exec h o)).
Proof.
  intros Hok. unfold live.
  destruct o as [nb lgs|deep r|r f|r b g|r f gt perm|r gt perm|r f gt newlegs|r f|r f|a b g|a b pa pb F];
    cbn [op_ok] in Hok; unfold live in Hok;
    try (cbn [exec deep_copy rebind fst snd objs add_obj set_obj]; rewrite ?upd_length, ?app_length; cbn [length]; lia).
  - destruct deep; cbn [exec deep_copy fst snd objs add_obj]; rewrite ?app_length; cbn [length]; lia.
  - cbn [exec rebind]. destruct (F _ _) as [rb rt]. cbn [fst snd objs add_obj set_obj].
    rewrite ?app_length, ?upd_length, ?app_length, ?upd_length, ?app_length. cbn [length]. lia.
Qed.

Lemma to_op_ok h regs n k ra rb ch :
  n <= length (legs h) -> Forall (live h) regs -> hstep_ok n (length regs) (k, ra, rb, ch) = true ->
  op_ok h (to_op h k (nth ra regs 0) (nth rb regs 0)).
Proof.
  intros Hn Hregs Hok.
  assert (Hlive : forall r, Nat.ltb r (length regs) = true -> live h (nth r regs 0)).
  { intros r Hr. apply Nat.ltb_lt in Hr. rewrite Forall_forall in Hregs. apply Hregs, nth_In, Hr. }
  destruct k as [nb lgs|d| | | | | | | | | ]; cbn [hstep_ok] in Hok; cbn [to_op op_ok];
    try (apply Hlive, Hok).
  - apply Forall_forall. intros i Hi. rewrite forallb_forall in Hok. specialize (Hok i Hi).
    apply Nat.ltb_lt in Hok. lia.
  - apply andb_true_iff in Hok. destruct Hok as [H1 H2]. split; apply Hlive; assumption.
  - split; [apply Hlive, Hok|apply id_perm_ok].
  - split; [apply Hlive, Hok|apply id_perm_ok].
  - apply andb_true_iff in Hok. destruct Hok as [H1 H2]. split; apply Hlive; assumption.
  - apply andb_true_iff in Hok. destruct Hok as [H1 H2].
    repeat split; try (apply Hlive; assumption); apply id_perm_ok.
Qed.

Lemma history_ops_ok n steps : forall h regs,
  n <= length (legs h) -> Forall (live h) regs -> history_ok n (length regs) steps = true ->
  ops_ok h (history_ops h regs steps).
Proof.
  induction steps as [|[[[k ra] rb] ch] t IH]; intros h regs Hn Hregs Hok; cbn [history_ops ops_ok]; [exact I|].
  cbn [history_ok] in Hok. apply andb_true_iff in Hok. destruct Hok as [Hs Ht].
  pose proof (to_op_ok h regs n k ra rb ch Hn Hregs Hs) as Ho.
  split; [exact Ho|]. apply IH.
  - pose proof (legs_mono h (to_op h k (nth ra regs 0) (nth rb regs 0))). lia.
  - apply Forall_app. split.
    + eapply Forall_impl; [|exact Hregs]. intros x Hx. unfold live in *.
      pose proof (objs_mono h (to_op h k (nth ra regs 0) (nth rb regs 0))). lia.
    + constructor; [apply res_live, Ho|constructor].
  - rewrite app_length. cbn [length]. rewrite Nat.add_1_r. exact Ht.
Qed.

Lemma harness_history n steps : history_ok n 0 steps = true ->
  let h0 := mkHeap [] [] (repeat dleg n) [] in
  wf h0 /\ ops_ok h0 (history_ops h0 [] steps).
Proof.
  intros Hok h0. split; [constructor|].
  apply (history_ops_ok n); [unfold h0; cbn [legs]; rewrite repeat_length; lia|constructor|exact Hok].
Qed.

Lemma checked_history_applicable c : check_history_applicable c = true ->
  let h0 := mkHeap [] [] (repeat dleg (fst c)) [] in
  wf h0 /\ ops_ok h0 (history_ops h0 [] (snd c)).
Proof.
  intros H. unfold check_history_applicable in H. apply andb_true_iff in H. destruct H as [H _].
  apply harness_history, H.
Qed.
