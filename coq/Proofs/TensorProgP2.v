(* C02: the cached claim _qdata_sorted in itranspose / iswapaxes (truthful BECAUSE it is reset), and gauge_total_charge
   (charge rule for both directions of new_qconj).  Definitions: Model/TensorProg.v. *)
From TenpyV Require Import Base.Prelude Model.Charge Model.Tensor Model.TensorOps Model.TensorDot Model.TakeSlice Model.TensorProg.
From TenpyV Require Import Proofs.ChargeP Proofs.TensorP Proofs.TensorP2 Proofs.TensorP3 Proofs.TensorDotP Proofs.TakeSliceP.
Open Scope Z_scope.

(* ------------------------------------------------------------------ swap_perm is a permutation *)
Definition swapf (i j k : nat) : nat := if (k =? i)%nat then j else if (k =? j)%nat then i else k.

Lemma swapf_invol i j k : swapf i j (swapf i j k) = k.
Proof.
  unfold swapf. destruct (k =? i)%nat eqn:E1; destruct (k =? j)%nat eqn:E2;
    repeat match goal with |- context [(?a =? ?b)%nat] => destruct (a =? b)%nat eqn:? end; lia.
Qed.

Lemma swapf_lt r i j k : (i < r)%nat -> (j < r)%nat -> (k < r)%nat -> (swapf i j k < r)%nat.
Proof. intros Hi Hj Hk. unfold swapf. destruct (k =? i)%nat; [lia|]. destruct (k =? j)%nat; lia. Qed.

Lemma swap_perm_perm r i j : (i < r)%nat -> (j < r)%nat -> Permutation (swap_perm r i j) (seq 0 r).
Proof.
  intros Hi Hj. unfold swap_perm. fold (swapf i j). apply NoDup_Permutation.
  - apply NoDup_map_in; [|apply seq_NoDup]. intros x y _ _ E.
    rewrite <- (swapf_invol i j x), <- (swapf_invol i j y), E. reflexivity.
  - apply seq_NoDup.
  - intros x. rewrite in_map_iff, in_seq. split.
    + intros [k [<- Hk]]. apply in_seq in Hk. split; [lia|]. apply swapf_lt; lia.
    + intros Hx. exists (swapf i j x). split; [apply swapf_invol|]. apply in_seq. split; [lia|]. apply swapf_lt; lia.
Qed.

Lemma swap_perm_id r i : swap_perm r i i = seq 0 r.
Proof.
  unfold swap_perm. rewrite <- (map_id (seq 0 r)) at 2. apply map_ext. intros k.
  destruct (k =? i)%nat eqn:E; [apply Nat.eqb_eq in E; subst; reflexivity|reflexivity].
Qed.

(* ------------------------------------------------------------------ itranspose / iswapaxes *)
(* the claim is truthful after itranspose because it is RESET whenever a column of _qdata moves; it survives only when
   nothing was done; the dense form is the numpy transpose *)
Theorem wf_itranspose ci p a : Permutation p (seq 0 (rank a)) -> WF ci a ->
  WF ci (itranspose p a) /\
  (p <> seq 0 (rank a) -> qsorted (itranspose p a) = false) /\
  (p = seq 0 (rank a) -> itranspose p a = a) /\
  (forall idx, length idx = rank a -> to_ndarray (itranspose p a) (gather 0%nat p idx) = to_ndarray a idx).
Proof.
  intros HP W. unfold itranspose. destruct (row_eqb p (seq 0 (rank a))) eqn:E.
  - apply row_eqb_eq in E. split; [exact W|]. split; [intros N; contradiction|]. split; [reflexivity|].
    intros idx Hidx. f_equal. rewrite E. unfold gather. rewrite <- Hidx. apply map_nth_seq.
  - split; [apply wf_transpose; assumption|]. split; [reflexivity|]. split.
    + intros Hp. apply row_eqb_eq in Hp. congruence.
    + intros idx _. apply transpose_dense. exact HP.
Qed.

Theorem wf_iswapaxes ci i j a : (i < rank a)%nat -> (j < rank a)%nat -> WF ci a ->
  WF ci (iswapaxes i j a) /\
  (i <> j -> qsorted (iswapaxes i j a) = false) /\
  (i = j -> iswapaxes i j a = a) /\
  (forall idx, length idx = rank a ->
     to_ndarray (iswapaxes i j a) (gather 0%nat (swap_perm (rank a) i j) idx) = to_ndarray a idx).
Proof.
  intros Hi Hj W. pose proof (swap_perm_perm (rank a) i j Hi Hj) as HP. unfold iswapaxes. destruct (i =? j)%nat eqn:E.
  - apply Nat.eqb_eq in E. subst j. split; [exact W|]. split; [intros N; contradiction|]. split; [reflexivity|].
    intros idx Hidx. f_equal. unfold gather, swap_perm. rewrite map_map.
    transitivity (map (fun k => nth k idx 0%nat) (seq 0 (length idx))); [|apply map_nth_seq].
    rewrite Hidx. apply map_ext. intros k. destruct (k =? i)%nat eqn:Ek; [apply Nat.eqb_eq in Ek; subst; reflexivity|reflexivity].
  - apply Nat.eqb_neq in E. split; [apply wf_transpose; assumption|]. split; [reflexivity|]. split; [intros; contradiction|].
    intros idx _. apply transpose_dense. exact HP.
Qed.

(* the code without the reset: everything else of WF still holds, so the result is well-formed IFF the kept claim happens to be true
   for the permuted rows *)
Theorem keepflag_wf_iff ci p a : Permutation p (seq 0 (rank a)) -> WF ci a ->
  (WF ci (transpose_keepflag p a) <-> (qsorted a = true -> strictly_sorted (map (gather 0%nat p) (rows a)) = true)).
Proof.
  intros HP W. pose proof (wf_transpose ci p a HP W) as [T1 T2 T3 T4 T5]. split.
  - intros [K1 K2 K3 K4 K5] Hq. rewrite <- transpose_rows. apply K5. exact Hq.
  - intros H. constructor; try assumption. intros Hq. change (rows (transpose_keepflag p a)) with (rows (transpose p a)).
    rewrite transpose_rows. apply H. exact Hq.
Qed.

(* ... and it does not in general: a well-formed array (Z_2 charge, total charge 1) whose transpose with the claim kept makes a false
   claim; a later addition trusting it stores a duplicate block and loses an entry in to_ndarray *)
Definition kf_leg (qconj : Z) : leg := mkLeg [1%nat; 1%nat] [[0]; [1]] qconj.
Definition kf_a : arr :=
  mkArr [kf_leg 1; kf_leg 1] [1] [([1%nat; 0%nat], fun _ => (5, 0)); ([0%nat; 1%nat], fun _ => (7, 0))] true.

Lemma kf_a_wf : WF [2] kf_a.
Proof.
  constructor.
  - reflexivity.
  - intros r [<-|[<-|[]]]; reflexivity.
  - repeat constructor; cbn; intuition discriminate.
  - intros r [<-|[<-|[]]] j Hj; destruct j as [|j]; cbn in Hj; try lia; vm_compute; reflexivity.
  - intros _. reflexivity.
Qed.

Theorem keepflag_refuted :
  WF [2] kf_a /\ Permutation [1%nat; 0%nat] (seq 0 (rank kf_a)) /\
  WF [2] (transpose [1%nat; 0%nat] kf_a) /\
  ~ claim_truthful (transpose_keepflag [1%nat; 0%nat] kf_a) /\
  legs (transpose_keepflag [1%nat; 0%nat] kf_a) = legs kf_a /\ qtot (transpose_keepflag [1%nat; 0%nat] kf_a) = qtot kf_a /\
  (* history: t = a.transpose() with the claim kept; t + a *)
  to_ndarray (add (1, 0) (transpose_keepflag [1%nat; 0%nat] kf_a) kf_a) [1%nat; 0%nat] = (7, 0) /\
  cadd (to_ndarray (transpose_keepflag [1%nat; 0%nat] kf_a) [1%nat; 0%nat]) (cmul (1, 0) (to_ndarray kf_a [1%nat; 0%nat])) = (12, 0) /\
  (* the code as it is: *)
  to_ndarray (add (1, 0) (transpose [1%nat; 0%nat] kf_a) kf_a) [1%nat; 0%nat] = (12, 0).
Proof.
  assert (HP : Permutation [1%nat; 0%nat] (seq 0 (rank kf_a))) by apply perm_swap.
  split; [exact kf_a_wf|]. split; [exact HP|]. split; [apply wf_transpose; [exact HP|exact kf_a_wf]|].
  split; [intros H; specialize (H eq_refl); vm_compute in H; discriminate|].
  split; [reflexivity|]. split; [reflexivity|]. vm_compute. repeat split; reflexivity.
Qed.

(* ------------------------------------------------------------------ gauge_total_charge *)
Lemma replace_at_split {A} ax (x : A) l : (ax < length l)%nat -> replace_at ax x l = firstn ax l ++ x :: skipn (S ax) l.
Proof.
  revert ax. induction l as [|y l IH]; intros [|ax] H; cbn [length] in H; try lia; cbn [replace_at firstn skipn app]; [reflexivity|].
  f_equal. apply IH. lia.
Qed.

Lemma replace_at_length {A} ax (x : A) l : length (replace_at ax x l) = length l.
Proof. revert ax. induction l as [|y l IH]; intros [|ax]; cbn [replace_at length]; try reflexivity. f_equal. apply IH. Qed.

Lemma map_replace_at_same {A B} (f : A -> B) ax x l d : f x = f (nth ax l d) -> map f (replace_at ax x l) = map f l.
Proof.
  revert ax. induction l as [|y l IH]; intros [|ax] H; cbn [replace_at map nth] in *; try reflexivity.
  - rewrite H. reflexivity.
  - f_equal. apply IH. exact H.
Qed.

Lemma nth_vscale s a j : nth j (vscale s a) 0 = s * nth j a 0.
Proof. unfold vscale. revert j. induction a as [|x a IH]; intros [|j]; cbn [map nth]; try lia; apply IH. Qed.

Lemma mv1_shift m y n : 1 <= m -> mv1 m (y + n - mv1 m y) = mv1 m n.
Proof.
  intros Hm. unfold mv1. destruct (m =? 1) eqn:E; [lia|].
  assert (Hm0 : m <> 0) by lia. pose proof (Z.div_mod y m Hm0) as Hd.
  replace (y + n - y mod m) with (n + (y / m) * m) by lia. apply Z_mod_plus_full.
Qed.

Lemma gauge_sign oq nq x : (oq = 1 \/ oq = -1) -> (nq = 1 \/ nq = -1) ->
  nq * (if oq =? nq then x else - x) = oq * x.
Proof. intros [->| ->] [->| ->]; cbn; lia. Qed.

(* gauge_total_charge: the result is well-formed with qtotal = make_valid(newqtotal) for BOTH directions of the new leg, the claim and
   the dense form are unchanged *)
Theorem wf_gauge ci ax newq newqc a : valid_ci ci -> WF ci a -> (ax < rank a)%nat -> length newq = length ci ->
  (qc (nth ax (legs a) dleg) = 1 \/ qc (nth ax (legs a) dleg) = -1) -> (newqc = 1 \/ newqc = -1) ->
  Forall (fun c => length c = length ci) (bch (nth ax (legs a) dleg)) ->
  (forall r, In r (rows a) -> (nth ax r 0 < length (bch (nth ax (legs a) dleg)))%nat) ->
  WF ci (gauge_total_charge ci ax newq newqc a) /\
  qtot (gauge_total_charge ci ax newq newqc a) = make_valid ci newq /\
  qc (nth ax (legs (gauge_total_charge ci ax newq newqc a)) dleg) = newqc /\
  (forall idx, to_ndarray (gauge_total_charge ci ax newq newqc a) idx = to_ndarray a idx).
Proof.
  intros Hv [A1 A2 A3 A4 A5] Hax Hnq Hoq Hnqc Hch Hrng. unfold gauge_total_charge, gauge_gen.
  set (l := nth ax (legs a) dleg) in *. set (nq := make_valid ci newq).
  set (d := vadd nq (vneg (qtot a))).
  set (l' := mkLeg (bsz l) (map (gauge_charges ci true (qc l) newqc d) (bch l)) newqc).
  assert (Hnql : length nq = length ci) by (apply make_valid_length; exact Hnq).
  assert (Hdl : length d = length ci) by (unfold d; rewrite vadd_length; unfold vneg; rewrite ?map_length; lia).
  assert (Hbsz : map bsz (replace_at ax l' (legs a)) = map bsz (legs a)) by (apply (map_replace_at_same bsz ax l' (legs a) dleg); reflexivity).
  unfold rank in Hax.
  split; [|split; [reflexivity|split]].
  - constructor; cbn [qtot legs blks qsorted rows rank].
    + exact Hnql.
    + intros r Hr. unfold rank. cbn [legs]. rewrite replace_at_length. apply A2. exact Hr.
    + exact A3.
    + intros r Hr j Hj. cbn [legs qtot]. fold (rows a) in Hr. pose proof (A4 r Hr j Hj) as Hok. pose proof (A2 r Hr) as Hrl.
      unfold rank in Hrl. specialize (Hrng r Hr). set (q := nth ax r 0%nat) in *.
      rewrite replace_at_split by exact Hax.
      destruct (split_at ax (legs a) dleg Hax) as [El Ll]. fold l in El.
      destruct (split_at ax r 0%nat ltac:(lia)) as [Er Lr]. fold q in Er.
      rewrite El, Er in Hok. rewrite row_charge_split in Hok by lia.
      rewrite Er at 1. rewrite row_charge_split by lia.
      set (rest := row_charge (firstn ax (legs a) ++ skipn (S ax) (legs a)) (firstn ax r ++ skipn (S ax) r) j) in *.
      assert (Hm : 1 <= nth j ci 1) by (apply valid_ci_nth; exact Hv). set (m := nth j ci 1) in *.
      assert (Hcq : length (nth q (bch l) []) = length ci).
      { rewrite Forall_forall in Hch. apply Hch. apply nth_In. exact Hrng. }
      set (c := nth q (bch l) []) in *.
      assert (Hchg : chg l' q j = newqc * mv1 m (if qc l =? newqc then nth j c 0 + qc l * nth j d 0 else - (nth j c 0 + qc l * nth j d 0))).
      { unfold chg, l'. cbn [qc bch]. f_equal.
        rewrite (nth_map_in (gauge_charges ci true (qc l) newqc d) (bch l) q [] []) by exact Hrng. fold c.
        unfold gauge_charges. cbv iota.
        assert (Hl1 : length (vadd c (vscale (qc l) d)) = length ci) by (rewrite vadd_length; unfold vscale; rewrite ?map_length; lia).
        assert (Hn1 : nth j (vadd c (vscale (qc l) d)) 0 = nth j c 0 + qc l * nth j d 0).
        { rewrite nth_vadd by (unfold vscale; rewrite ?map_length; lia). rewrite nth_vscale. reflexivity. }
        destruct (qc l =? newqc).
        - rewrite nth_make_valid by lia. fold m. rewrite Hn1. reflexivity.
        - rewrite nth_make_valid by (unfold vneg; rewrite ?map_length; lia). fold m. rewrite nth_vneg, Hn1. reflexivity. }
      rewrite Hchg.
      assert (Hd : nth j d 0 = nth j nq 0 - nth j (qtot a) 0).
      { unfold d. rewrite nth_vadd by (unfold vneg; rewrite ?map_length; lia). rewrite nth_vneg. lia. }
      set (X := if qc l =? newqc then nth j c 0 + qc l * nth j d 0 else - (nth j c 0 + qc l * nth j d 0)).
      rewrite (mv1_add m rest (newqc * mv1 m X)) by exact Hm. rewrite (mv1_mul_r m newqc X) by exact Hm.
      rewrite <- (mv1_add m rest (newqc * X)) by exact Hm.
      unfold X. rewrite (gauge_sign (qc l) newqc) by assumption.
      assert (Hsq : qc l * qc l = 1) by (destruct Hoq as [-> | ->]; reflexivity).
      replace (rest + qc l * (nth j c 0 + qc l * nth j d 0)) with (rest + chg l q j + (qc l * qc l) * nth j d 0)
        by (unfold chg; fold c; lia).
      rewrite Hsq, Hd, <- Hok.
      replace (rest + chg l q j + 1 * (nth j nq 0 - mv1 m (rest + chg l q j)))
        with ((rest + chg l q j) + nth j nq 0 - mv1 m (rest + chg l q j)) by lia.
      rewrite mv1_shift by exact Hm. unfold nq. rewrite nth_make_valid by lia. fold m. apply mv1_idem. exact Hm.
    + exact A5.
  - cbn [legs]. rewrite replace_at_split by exact Hax. rewrite app_nth2 by (rewrite firstn_length; lia).
    rewrite firstn_length. replace (ax - Nat.min ax (length (legs a)))%nat with 0%nat by lia. reflexivity.
  - intros idx. unfold to_ndarray. cbn [legs blks]. f_equal. apply map_ext. intros b. unfold bval.
    rewrite (inb_bsz _ _ (fst b) idx Hbsz). rewrite (loc_bsz _ _ (fst b) idx Hbsz). reflexivity.
Qed.

(* the code with new_qconj * chdiff instead of old_qconj * chdiff violates the charge rule in the flipped branch (and the code as it is
   does not) *)
Definition gg_a : arr :=
  mkArr [mkLeg [1%nat; 1%nat] [[0]; [1]] 1; mkLeg [1%nat; 1%nat] [[0]; [1]] (-1)] [0]
        [([0%nat; 0%nat], fun _ => (1, 0)); ([1%nat; 1%nat], fun _ => (2, 0))] true.

Lemma gg_a_wf : WF [1] gg_a.
Proof.
  constructor.
  - reflexivity.
  - intros r [<-|[<-|[]]]; reflexivity.
  - repeat constructor; cbn; intuition discriminate.
  - intros r [<-|[<-|[]]] j Hj; destruct j as [|j]; cbn in Hj; try lia; vm_compute; reflexivity.
  - intros _. reflexivity.
Qed.

Theorem gauge_wrong_sign_refuted :
  WF [1] gg_a /\ valid_ci [1] /\
  Forall (fun c => length c = length [1]) (bch (nth 0 (legs gg_a) dleg)) /\
  (forall r, In r (rows gg_a) -> (nth 0 r 0 < length (bch (nth 0 (legs gg_a) dleg)))%nat) /\
  ~ charge_rule [1] (gauge_gen false [1] 0 [1] (-1) gg_a) /\
  WF [1] (gauge_total_charge [1] 0 [1] (-1) gg_a) /\
  bch (nth 0 (legs (gauge_total_charge [1] 0 [1] (-1) gg_a)) dleg) = [[-1]; [-2]].
Proof.
  assert (Hv : valid_ci [1]) by (repeat constructor; lia).
  assert (Hc : Forall (fun c => length c = length [1]) (bch (nth 0 (legs gg_a) dleg))) by (repeat constructor).
  assert (Hr : forall r, In r (rows gg_a) -> (nth 0 r 0 < length (bch (nth 0 (legs gg_a) dleg)))%nat).
  { intros r [<-|[<-|[]]]; cbn; lia. }
  split; [exact gg_a_wf|]. split; [exact Hv|]. split; [exact Hc|]. split; [exact Hr|]. split; [|split].
  - intros H. specialize (H [0%nat; 0%nat] (or_introl eq_refl) 0%nat ltac:(cbn; lia)). vm_compute in H. discriminate.
  - apply (wf_gauge [1] 0 [1] (-1) gg_a); try assumption; try reflexivity; [exact gg_a_wf|cbn; lia|left; reflexivity|right; reflexivity].
  - vm_compute. reflexivity.
Qed.
