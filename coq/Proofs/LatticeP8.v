(* Proofs about Model/Lattice.v + Model/LatticeTransform.v (property C19), part K: enlarge_mps_unit_cell(f) of an
   infinite lattice keeps the couplings: the couplings of the enlarged lattice are exactly the f translates
   (by 0, N_sites, ..., (f-1) * N_sites) of the couplings of the original lattice. *)
From TenpyV Require Import Base.Prelude Model.Lattice Model.LatticeTransform.
From TenpyV Require Import Proofs.LatticeP Proofs.LatticeTransformP Proofs.LatticeP7.
Open Scope Z_scope.

Lemma connected_enlarge f lat x0 xr dx0 dxr y0 yr : infinite lat = true ->
  connected (enlarge f lat) x0 xr dx0 dxr y0 yr <-> connected lat x0 xr dx0 dxr y0 yr.
Proof.
  intros Hi. unfold connected, enlarge. cbn [Lr openr shiftr L0 open0 infinite]. rewrite Hi. split.
  - intros (tot & k0 & Hr & He & Hk). assert (k0 = 0) by (apply Hk; now right). subst k0.
    exists tot, 0. split; [exact Hr|]. split; [lia|reflexivity].
  - intros (tot & k0 & Hr & He & Hk). assert (k0 = 0) by (apply Hk; now right). subst k0.
    exists tot, 0. split; [exact Hr|]. split; [lia|reflexivity].
Qed.

Lemma enlarge_couplings : forall (f : nat) lat, (0 < f)%nat -> wf lat -> infinite lat = true ->
  forall u1 u2 dx0 dxr i j,
  coupled (enlarge f lat) u1 u2 dx0 dxr i j <->
  exists m, 0 <= m < Z.of_nat f /\
    coupled lat u1 u2 dx0 dxr (i - m * nsites lat) (j - m * nsites lat).
Proof.
  intros f lat Hf Hwf Hi u1 u2 dx0 dxr i j.
  pose proof (Npos lat Hwf Hi) as HN.
  assert (Hne : lorder lat <> []) by (apply (wf_inf lat Hwf Hi)).
  destruct (enlarge_keeps_index_map f lat Hf Hi Hne) as (EN & _ & EM).
  assert (Hi' : infinite (enlarge f lat) = true) by exact Hi.
  set (N := nsites lat) in *.
  split.
  - intros (x0 & xr & y0 & yr & Hmi & Hmj & Hc & Hm). specialize (Hm Hi'). rewrite EN in Hm.
    rewrite EM in Hmi, Hmj. apply (connected_enlarge f lat) in Hc; [|exact Hi].
    set (mn := Z.min i j) in *. exists (mn / N).
    assert (Hd : mn = N * (mn / N) + mn mod N) by (apply Z.div_mod; lia).
    pose proof (Z.mod_pos_bound mn N HN) as Hb.
    split; [nia|].
    exists (x0 + (- (mn / N)) * L0 lat), xr, (y0 + (- (mn / N)) * L0 lat), yr.
    split; [|split; [|split]].
    + replace (i - mn / N * N) with (i + (- (mn / N)) * N) by ring. now apply mps2lat_translate.
    + replace (j - mn / N * N) with (j + (- (mn / N)) * N) by ring. now apply mps2lat_translate.
    + now apply connected_translate.
    + intros _. replace (Z.min (i - mn / N * N) (j - mn / N * N)) with (mn - mn / N * N) by (unfold mn; lia).
      lia.
  - intros (m & Hmr & (x0 & xr & y0 & yr & Hmi & Hmj & Hc & Hm)). specialize (Hm Hi).
    exists (x0 + m * L0 lat), xr, (y0 + m * L0 lat), yr. split; [|split; [|split]].
    + rewrite EM. replace i with (i - m * N + m * N) by ring. now apply mps2lat_translate.
    + rewrite EM. replace j with (j - m * N + m * N) by ring. now apply mps2lat_translate.
    + apply connected_enlarge; [exact Hi|]. now apply connected_translate.
    + intros _. rewrite EN.
      replace (Z.min (i - m * N) (j - m * N)) with (Z.min i j - m * N) in Hm by lia. nia.
Qed.
