(* from_product_state at the level of charges (Model/MpsProduct.v): charge rule, contractible bonds, total charge. *)
From TenpyV Require Import Base.Prelude Model.Charge Model.Tensor Model.TensorOps Model.MpsProduct Proofs.ChargeP.
Open Scope Z_scope.

(* ---------------------------------------------------------------- scalars *)
Lemma mv1_sub_r m a x : 1 <= m -> mv1 m (a + - mv1 m x) = mv1 m (a + - x).
Proof. intros Hm. rewrite <- mv1_add_r by exact Hm. rewrite mv1_opp by exact Hm. apply mv1_add_r. exact Hm. Qed.

Lemma mv1_detect m x : 1 <= m -> mv1 m (-1 * (0 + - mv1 m x)) = mv1 m x.
Proof. intros Hm. replace (-1 * (0 + - mv1 m x)) with (mv1 m x) by lia. apply mv1_idem. exact Hm. Qed.

Lemma mv1_self_sub m a : 1 <= m -> mv1 m (a + - mv1 m a) = 0.
Proof.
  intros Hm. rewrite mv1_sub_r by exact Hm. replace (a + - a) with 0 by lia.
  unfold mv1. destruct (m =? 1); [reflexivity|]. apply Z.mod_0_l. lia.
Qed.

Lemma mv1_0 m : 1 <= m -> mv1 m 0 = 0.
Proof. intros Hm. unfold mv1. destruct (m =? 1); [reflexivity|]. apply Z.mod_0_l. lia. Qed.

(* the re-gauged last tensor obeys the charge rule with the new qtotal *)
Lemma mv1_gauged m a x : 1 <= m -> mv1 m (a + - mv1 m (mv1 m a + - mv1 m x)) = mv1 m x.
Proof.
  intros Hm. rewrite mv1_sub_r by exact Hm.
  replace (a + - (mv1 m a + - mv1 m x)) with ((a + - mv1 m a) + mv1 m x) by lia.
  rewrite mv1_add_r by exact Hm. rewrite <- mv1_add_l by exact Hm.
  rewrite mv1_self_sub by exact Hm. f_equal.
Qed.

(* the re-gauged right leg has the charges of the first left leg *)
Lemma mv1_wrap m cl c0 : 1 <= m -> mv1 m (c0 + - mv1 m (cl + - mv1 m (mv1 m (cl + - c0)))) = mv1 m 0.
Proof.
  intros Hm. rewrite mv1_sub_r by exact Hm.
  replace (c0 + - (cl + - mv1 m (mv1 m (cl + - c0)))) with ((c0 + - cl) + mv1 m (mv1 m (cl + - c0))) by lia.
  rewrite mv1_idem by exact Hm. rewrite mv1_add_r by exact Hm. f_equal. lia.
Qed.

(* ---------------------------------------------------------------- vectors *)
Lemma nth_vscale s a j : nth j (vscale s a) 0 = s * nth j a 0.
Proof. unfold vscale. revert j. induction a as [|x a IH]; intros [|j]; cbn [map nth]; try lia; apply IH. Qed.

Lemma vscale_length s a : length (vscale s a) = length a.
Proof. apply map_length. Qed.

Lemma vneg_length a : length (vneg a) = length a.
Proof. apply map_length. Qed.

Lemma nth_zero_charge ci j : nth j (zero_charge ci) 0 = 0.
Proof. unfold zero_charge. revert j. induction ci as [|m ci IH]; intros [|j]; cbn [map nth]; auto. Qed.

Lemma zero_charge_length ci : length (zero_charge ci) = length ci.
Proof. apply map_length. Qed.

Lemma leg_charge_length ci l q : length (leg_charge ci l q) = length ci.
Proof. unfold leg_charge. rewrite map_length, seq_length. reflexivity. Qed.

Lemma nth_leg_charge ci l q j : (j < length ci)%nat -> nth j (leg_charge ci l q) 0 = chg l q j.
Proof.
  intros Hj. unfold leg_charge.
  rewrite nth_indep with (d' := chg l q 0) by (rewrite map_length, seq_length; exact Hj).
  rewrite (map_nth (fun j0 => chg l q j0)). rewrite seq_nth by exact Hj. reflexivity.
Qed.

Lemma vsub_length a b : length a = length b -> length (vsub a b) = length a.
Proof. intros H. unfold vsub. apply vadd_length. rewrite vneg_length. exact H. Qed.

Lemma nth_vsub a b j : (j < length a)%nat -> length a = length b -> nth j (vsub a b) 0 = nth j a 0 + - nth j b 0.
Proof. intros Hj Hl. unfold vsub. rewrite nth_vadd by (rewrite ?vneg_length; lia). rewrite nth_vneg. reflexivity. Qed.

Lemma vec_ext (a b : list Z) : length a = length b -> (forall j, (j < length a)%nat -> nth j a 0 = nth j b 0) -> a = b.
Proof. intros Hl H. apply nth_ext with (d := 0) (d' := 0); auto. Qed.

Lemma chg_bond c q j : chg (bond_leg c q) 0 j = q * nth j c 0.
Proof. reflexivity. Qed.

Lemma detect_vR_length ci q cL : length q = length ci -> length (detect_vR ci q cL) = length ci.
Proof.
  intros Hq. unfold detect_vR. apply make_valid_length. rewrite vscale_length.
  rewrite vsub_length; rewrite zero_charge_length; [reflexivity|].
  symmetry. apply make_valid_length. rewrite vadd_length; rewrite ?leg_charge_length; auto.
Qed.

Lemma nth_detect_vR ci q cL j : valid_ci ci -> length q = length ci -> (j < length ci)%nat ->
  nth j (detect_vR ci q cL) 0 = mv1 (nth j ci 1) (nth j q 0 + nth j cL 0).
Proof.
  intros Hv Hq Hj. pose proof (valid_ci_nth ci j Hv) as Hm. unfold detect_vR.
  assert (Hl1 : length (vadd q (leg_charge ci (bond_leg cL 1) 0)) = length ci)
    by (rewrite vadd_length; rewrite ?leg_charge_length; auto).
  assert (Hl2 : length (make_valid ci (vadd q (leg_charge ci (bond_leg cL 1) 0))) = length ci)
    by (apply make_valid_length; exact Hl1).
  rewrite nth_make_valid; [|exact Hj|rewrite vscale_length, vsub_length; rewrite zero_charge_length; lia].
  rewrite nth_vscale. rewrite nth_vsub by (rewrite zero_charge_length; lia).
  rewrite nth_zero_charge. rewrite nth_make_valid by lia.
  rewrite nth_vadd by (rewrite ?leg_charge_length; lia). rewrite nth_leg_charge by exact Hj. rewrite chg_bond.
  rewrite mv1_detect by exact Hm. f_equal. lia.
Qed.

Lemma vadd_zero_l ci x : length x = length ci -> vadd (zero_charge ci) x = x.
Proof.
  intros H. apply vec_ext.
  - rewrite vadd_length; rewrite zero_charge_length; lia.
  - intros j Hj. rewrite vadd_length in Hj by (rewrite zero_charge_length; lia). rewrite zero_charge_length in Hj.
    rewrite nth_vadd by (rewrite ?zero_charge_length; lia). rewrite nth_zero_charge. lia.
Qed.

Lemma vsum_length ci l : Forall (fun v => length v = length ci) l -> length (vsum ci l) = length ci.
Proof.
  induction 1 as [|v l Hv _ IH]; cbn [vsum fold_right]; [apply zero_charge_length|].
  fold (vsum ci l). rewrite vadd_length; lia.
Qed.

(* ---------------------------------------------------------------- one tensor *)
Lemma row_charge3 l0 l1 l2 q0 q1 q2 j :
  row_charge [l0; l1; l2] [q0; q1; q2] j = chg l0 q0 j + chg l1 q1 j + chg l2 q2 j.
Proof. unfold row_charge. cbn [length seq map nth sumZ]. lia. Qed.

Lemma mkB_WF ci cL s : valid_ci ci -> length cL = length ci ->
  WF ci (mkB ci cL s (detect_vR ci (state_charge ci s) cL)).
Proof.
  intros Hv Hc. constructor.
  - apply zero_charge_length.
  - intros r [<-|[]]. reflexivity.
  - cbn. repeat constructor. intros [].
  - intros r [<-|[]]. intros j Hj. cbn [legs qtot mkB fst].
    rewrite row_charge3, nth_zero_charge. rewrite !chg_bond.
    rewrite nth_detect_vR by (auto; apply leg_charge_length).
    unfold state_charge. rewrite nth_leg_charge by exact Hj.
    pose proof (valid_ci_nth ci j Hv) as Hm.
    set (m := nth j ci 1) in *. set (q := chg (pleg s) (pq s) j). set (c := nth j cL 0).
    replace (1 * c + q + -1 * mv1 m (q + c)) with ((q + c) + - mv1 m (q + c)) by lia.
    rewrite mv1_sub_r by exact Hm. replace (q + c + - (q + c)) with 0 by lia. apply mv1_0. exact Hm.
  - intros _. reflexivity.
Qed.

Lemma gauge_WF ci cL s newq : valid_ci ci -> length cL = length ci -> length newq = length ci ->
  WF ci (gauge_vR ci newq (mkB ci cL s (detect_vR ci (state_charge ci s) cL))).
Proof.
  intros Hv Hc Hn.
  assert (Hnq : length (make_valid ci newq) = length ci) by (apply make_valid_length; exact Hn).
  constructor.
  - exact Hnq.
  - intros r [<-|[]]. reflexivity.
  - cbn. repeat constructor. intros [].
  - intros r [<-|[]]. intros j Hj.
    unfold gauge_vR, legR_of, legL_of. cbn [legs qtot mkB fst nth bch bsz qc bond_leg].
    rewrite row_charge3. rewrite chg_bond. unfold chg at 2. cbn [qc bch nth].
    pose proof (valid_ci_nth ci j Hv) as Hm.
    assert (Hd : length (detect_vR ci (state_charge ci s) cL) = length ci)
      by (apply detect_vR_length; apply leg_charge_length).
    assert (Hs1 : length (vsub (make_valid ci newq) (zero_charge ci)) = length ci)
      by (rewrite vsub_length; rewrite ?zero_charge_length; lia).
    assert (Hs2 : length (vscale (-1) (vsub (make_valid ci newq) (zero_charge ci))) = length ci)
      by (rewrite vscale_length; exact Hs1).
    rewrite nth_make_valid; [|exact Hj|rewrite vadd_length; lia].
    rewrite nth_vadd by lia.
    rewrite nth_vscale. rewrite nth_vsub by (rewrite ?zero_charge_length; lia).
    rewrite nth_zero_charge.
    rewrite nth_detect_vR by (auto; apply leg_charge_length).
    unfold state_charge. rewrite nth_leg_charge by exact Hj.
    rewrite (nth_make_valid ci newq) by lia.
    set (m := nth j ci 1) in *. set (q := chg (pleg s) (pq s) j). set (c := nth j cL 0). set (x := nth j newq 0).
    replace (1 * c + q + -1 * mv1 m (mv1 m (q + c) + -1 * (mv1 m x + - 0)))
      with ((q + c) + - mv1 m (mv1 m (q + c) + - mv1 m x)).
    + rewrite mv1_gauged by exact Hm. reflexivity.
    + replace (-1 * (mv1 m x + - 0)) with (- mv1 m x) by lia. lia.
  - intros _. reflexivity.
Qed.

Lemma bond_contractible ci c : contractible ci (bond_leg c (-1)) (bond_leg c 1).
Proof.
  split; [reflexivity|]. intros q j Hj. f_equal. unfold chg, bond_leg. cbn [qc bch]. lia.
Qed.

(* ---------------------------------------------------------------- the chain *)
Fixpoint linked (ci : chinfo) (Bs : list arr) : Prop :=
  match Bs with
  | B1 :: t => match t with B2 :: _ => contractible ci (legR_of B1) (legL_of B2) /\ linked ci t | [] => True end
  | [] => True
  end.

Fixpoint cend (ci : chinfo) (cL : list Z) (sites : list psite) : list Z :=
  match sites with [] => cL | s :: t => cend ci (detect_vR ci (state_charge ci s) cL) t end.

Lemma cend_length ci : forall sites cL, length cL = length ci -> length (cend ci cL sites) = length ci.
Proof.
  induction sites as [|s t IH]; intros cL H; cbn [cend]; [exact H|].
  apply IH. apply detect_vR_length. apply leg_charge_length.
Qed.

Definition qsum (ci : chinfo) (sites : list psite) : list Z := vsum ci (map (state_charge ci) sites).

Lemma qsum_length ci sites : length (qsum ci sites) = length ci.
Proof.
  unfold qsum. apply vsum_length. apply Forall_forall. intros v Hv. apply in_map_iff in Hv.
  destruct Hv as [s [<- _]]. apply leg_charge_length.
Qed.

Lemma cend_sum ci : valid_ci ci -> forall sites cL j, length cL = length ci -> (j < length ci)%nat ->
  mv1 (nth j ci 1) (nth j (cend ci cL sites) 0) = mv1 (nth j ci 1) (nth j (qsum ci sites) 0 + nth j cL 0).
Proof.
  intros Hv. induction sites as [|s t IH]; intros cL j Hc Hj; cbn [cend].
  - unfold qsum. cbn [map vsum fold_right]. rewrite nth_zero_charge. f_equal.
  - pose proof (valid_ci_nth ci j Hv) as Hm.
    rewrite IH by (auto; apply detect_vR_length; apply leg_charge_length).
    rewrite nth_detect_vR by (auto; apply leg_charge_length).
    rewrite mv1_add_r by exact Hm.
    unfold qsum at 2. cbn [map vsum fold_right]. fold (vsum ci (map (state_charge ci) t)). fold (qsum ci t).
    rewrite nth_vadd by (rewrite ?qsum_length; unfold state_charge; rewrite ?leg_charge_length; lia).
    f_equal. lia.
Qed.

Definition darr : arr := mkArr [] [] [] true.

Lemma build_length ci : forall sites cL, length (build ci cL sites) = length sites.
Proof. induction sites as [|s t IH]; intros cL; cbn [build length]; auto. Qed.

Lemma build_hd ci s t cL : hd darr (build ci cL (s :: t)) = mkB ci cL s (detect_vR ci (state_charge ci s) cL).
Proof. reflexivity. Qed.

Lemma build_last ci : forall sites cL, sites <> [] -> length cL = length ci ->
  exists cL' s, length cL' = length ci /\
    last (build ci cL sites) darr = mkB ci cL' s (detect_vR ci (state_charge ci s) cL') /\
    detect_vR ci (state_charge ci s) cL' = cend ci cL sites.
Proof.
  induction sites as [|s t IH]; intros cL Hne Hc; [congruence|].
  destruct t as [|s2 t'].
  - exists cL, s. cbn [build last cend]. auto.
  - destruct (IH (detect_vR ci (state_charge ci s) cL)) as [cL' [s' [H1 [H2 H3]]]];
      [congruence|apply detect_vR_length; apply leg_charge_length|].
    exists cL', s'. split; [exact H1|]. split; [|exact H3].
    rewrite <- H2. cbn [build]. reflexivity.
Qed.

Definition is_B (ci : chinfo) (B : arr) : Prop :=
  exists cL s, length cL = length ci /\ B = mkB ci cL s (detect_vR ci (state_charge ci s) cL).

Lemma build_all ci : forall sites cL, length cL = length ci -> Forall (is_B ci) (build ci cL sites).
Proof.
  induction sites as [|s t IH]; intros cL Hc; cbn [build]; constructor.
  - exists cL, s. auto.
  - apply IH. apply detect_vR_length. apply leg_charge_length.
Qed.

Lemma build_linked ci : forall sites cL, linked ci (build ci cL sites).
Proof.
  induction sites as [|s t IH]; intros cL; cbn [build]; [exact I|].
  destruct t as [|s2 t']; cbn [build linked]; [exact I|].
  split; [apply bond_contractible|]. apply (IH (detect_vR ci (state_charge ci s) cL)).
Qed.

Lemma build_phys ci : forall sites cL,
  map (fun B => (nth 1 (legs B) dleg, rows B)) (build ci cL sites) =
  map (fun s => (pleg s, [[0%nat; pq s; 0%nat]])) sites.
Proof. induction sites as [|s t IH]; intros cL; cbn [build map]; [reflexivity|]. f_equal. apply IH. Qed.

(* ---------------------------------------------------------------- map_last *)
Lemma map_last_length {A} (f : A -> A) l : length (map_last f l) = length l.
Proof. induction l as [|x t IH]; [reflexivity|]. cbn [map_last]. destruct t; [reflexivity|]. cbn [length] in *. lia. Qed.

Lemma map_last_hd {A} (f : A -> A) (g : A -> leg) l d : (forall x, g (f x) = g x) ->
  g (hd d (map_last f l)) = g (hd d l).
Proof. intros H. destruct l as [|x t]; [reflexivity|]. cbn [map_last]. destruct t; cbn [hd]; auto. Qed.

Lemma map_last_last {A} (f : A -> A) l d : l <> [] -> last (map_last f l) d = f (last l d).
Proof.
  induction l as [|x t IH]; intros Hne; [congruence|]. cbn [map_last]. destruct t as [|y t']; [reflexivity|].
  change (last (x :: map_last f (y :: t')) d) with
    (match map_last f (y :: t') with [] => x | _ :: _ => last (map_last f (y :: t')) d end).
  assert (Hl := map_last_length f (y :: t')).
  destruct (map_last f (y :: t')) as [|z t'']; [cbn [length] in Hl; lia|].
  rewrite IH by congruence. reflexivity.
Qed.

Lemma map_last_Forall {A} (P : A -> Prop) (f : A -> A) l :
  Forall P l -> (forall x, P x -> P (f x)) -> Forall P (map_last f l).
Proof.
  intros Hl Hf. induction Hl as [|x t Hx Ht IH]; [constructor|]. cbn [map_last].
  destruct t; constructor; auto.
Qed.

Lemma map_last_Forall2 {A} (Q P : A -> Prop) (f : A -> A) l :
  Forall Q l -> (forall x, Q x -> P x) -> (forall x, Q x -> P (f x)) -> Forall P (map_last f l).
Proof.
  intros Hl Hp Hf. induction Hl as [|x t Hx Ht IH]; [constructor|]. cbn [map_last].
  destruct t; constructor; auto.
Qed.

Lemma map_last_linked ci f Bs : (forall b, legL_of (f b) = legL_of b) -> linked ci Bs -> linked ci (map_last f Bs).
Proof.
  intros Hf. induction Bs as [|b1 t IH]; intros H; [exact I|].
  cbn [map_last]. destruct t as [|b2 t']; [exact I|].
  cbn [linked] in H. destruct H as [H1 H2]. specialize (IH H2).
  pose proof (map_last_hd f legL_of (b2 :: t') darr Hf) as Hh. cbn [hd] in Hh.
  destruct (map_last f (b2 :: t')) as [|z t''] eqn:E.
  - assert (Hl := map_last_length f (b2 :: t')). rewrite E in Hl. cbn [length] in Hl. lia.
  - cbn [linked]. cbn [hd] in Hh. rewrite Hh. split; [exact H1|exact IH].
Qed.

Lemma map_last_map {A B} (f : A -> A) (g : A -> B) l : (forall x, g (f x) = g x) -> map g (map_last f l) = map g l.
Proof.
  intros H. induction l as [|x t IH]; [reflexivity|]. cbn [map_last]. destruct t as [|y t']; cbn [map]; [rewrite H; reflexivity|].
  f_equal. exact IH.
Qed.

(* sum of the qtotals when all but the last are zero *)
Lemma vsum_zeros_last ci (f : arr -> arr) Bs :
  Forall (fun B => qtot B = zero_charge ci) Bs -> Bs <> [] -> length (qtot (f (last Bs darr))) = length ci ->
  vsum ci (map qtot (map_last f Bs)) = qtot (f (last Bs darr)).
Proof.
  intros Hz. induction Hz as [|b t Hb Ht IH]; intros Hne Hl; [congruence|].
  cbn [map_last]. destruct t as [|b2 t'].
  - cbn [map vsum fold_right last]. unfold vsub.
    apply vec_ext.
    + rewrite vadd_length; rewrite ?zero_charge_length; cbn [last] in Hl; lia.
    + intros j Hj. cbn [last] in Hl. rewrite vadd_length in Hj by (rewrite zero_charge_length; lia).
      rewrite nth_vadd by (rewrite ?zero_charge_length; lia). rewrite nth_zero_charge. lia.
  - change (last (b :: b2 :: t') darr) with (last (b2 :: t') darr) in *.
    cbn [map vsum fold_right]. fold (vsum ci (map qtot (map_last f (b2 :: t')))).
    rewrite IH by (congruence || exact Hl). rewrite Hb. apply vadd_zero_l. exact Hl.
Qed.

Lemma vsum_zeros ci (Bs : list arr) : Forall (fun B => qtot B = zero_charge ci) Bs ->
  vsum ci (map qtot Bs) = zero_charge ci.
Proof.
  induction 1 as [|b t Hb _ IH]; [reflexivity|]. cbn [map vsum fold_right]. fold (vsum ci (map qtot t)).
  rewrite IH, Hb. apply vadd_zero_l. apply zero_charge_length.
Qed.

(* ---------------------------------------------------------------- T07_product_state *)
Definition site_shape (B : arr) : Prop :=
  bsz (legL_of B) = [1%nat] /\ bsz (legR_of B) = [1%nat] /\ qc (legL_of B) = 1 /\ qc (legR_of B) = -1.

Theorem product_state_charges : forall fin ci chargeL sites,
  valid_ci ci -> length chargeL = length ci -> sites <> [] ->
  let Bs := from_product_state fin ci chargeL sites in
  length Bs = length sites /\
  map (fun B => (nth 1 (legs B) dleg, rows B)) Bs = map (fun s => (pleg s, [[0%nat; pq s; 0%nat]])) sites /\
  Forall (fun B => WF ci B /\ site_shape B) Bs /\
  linked ci Bs /\
  (fin = false -> contractible ci (legR_of (last Bs darr)) (legL_of (hd darr Bs))) /\
  (fin = true -> Forall (fun B => qtot B = zero_charge ci) Bs) /\
  get_total_charge ci fin Bs = make_valid ci (qsum ci sites).
Proof.
  intros fin ci chargeL sites Hv Hc Hne.
  set (c0 := make_valid ci chargeL).
  assert (Hc0 : length c0 = length ci) by (apply make_valid_length; exact Hc).
  assert (Hc0v : make_valid ci c0 = c0) by (apply make_valid_idem; exact Hv).
  pose proof (build_all ci sites c0 Hc0) as Hall.
  destruct (build_last ci sites c0 Hne Hc0) as [cL' [sl [HcL' [Hlast Hcend]]]].
  destruct sites as [|s0 t0] eqn:Es; [congruence|]. rewrite <- Es in *.
  assert (Hhd : hd darr (build ci c0 sites) = mkB ci c0 s0 (detect_vR ci (state_charge ci s0) c0))
    by (rewrite Es; apply build_hd).
  assert (Hbne : build ci c0 sites <> []).
  { intros E. apply (f_equal (@length arr)) in E. rewrite build_length, Es in E. cbn in E. lia. }
  assert (Hz : Forall (fun B => qtot B = zero_charge ci) (build ci c0 sites)).
  { eapply Forall_impl; [|exact Hall]. intros B [cL [s [_ ->]]]. reflexivity. }
  assert (Hcl : length (cend ci c0 sites) = length ci) by (apply cend_length; exact Hc0).
  destruct fin; cbv zeta; unfold from_product_state; fold c0.
  - (* finite *)
    split; [apply build_length|]. split; [apply build_phys|].
    split.
    { eapply Forall_impl; [|exact Hall]. intros B [cL [s [HcL ->]]]. split; [apply mkB_WF; auto|].
      repeat split. }
    split; [apply build_linked|]. split; [discriminate|]. split; [intros _; exact Hz|].
    unfold get_total_charge. fold darr. rewrite (vsum_zeros ci _ Hz). rewrite Hhd, Hlast.
    unfold legL_of, legR_of. cbn [legs mkB nth]. rewrite Hcend.
    set (a := leg_charge ci (bond_leg c0 1) 0). set (b := leg_charge ci (bond_leg (cend ci c0 sites) (-1)) 0).
    assert (Ha : length a = length ci) by apply leg_charge_length.
    assert (Hb : length b = length ci) by apply leg_charge_length.
    assert (Hv1 : length (vsub (zero_charge ci) a) = length ci) by (rewrite vsub_length; rewrite zero_charge_length; lia).
    assert (Hv2 : length (vsub (vsub (zero_charge ci) a) b) = length ci) by (rewrite vsub_length; lia).
    pose proof (qsum_length ci sites) as Hql.
    apply vec_ext.
    + rewrite !make_valid_length; lia.
    + intros j Hj. rewrite make_valid_length in Hj by exact Hv2.
      pose proof (valid_ci_nth ci j Hv) as Hm.
      rewrite !nth_make_valid by lia.
      rewrite nth_vsub by lia. rewrite nth_vsub by (rewrite ?zero_charge_length; lia).
      rewrite nth_zero_charge. unfold a, b. rewrite !nth_leg_charge by exact Hj. rewrite !chg_bond.
      set (m := nth j ci 1) in *.
      replace (0 + - (1 * nth j c0 0) + - (-1 * nth j (cend ci c0 sites) 0))
        with (nth j (cend ci c0 sites) 0 + - nth j c0 0) by lia.
      rewrite <- mv1_add_l by exact Hm. unfold m. rewrite (cend_sum ci Hv sites c0 j Hc0 Hj). fold m.
      rewrite mv1_add_l by exact Hm. f_equal. lia.
  - (* infinite *)
    fold darr.
    set (newq := make_valid ci (vsub (nth 0 (bch (legR_of (last (build ci c0 sites) darr))) []) c0)).
    assert (Hnewq : length newq = length ci).
    { unfold newq. apply make_valid_length. rewrite Hlast. unfold legR_of. cbn [legs mkB nth bch bond_leg].
      rewrite Hcend. rewrite vsub_length; lia. }
    assert (HgL : forall b, legL_of (gauge_vR ci newq b) = legL_of b) by reflexivity.
    split; [rewrite map_last_length; apply build_length|].
    split; [rewrite map_last_map by reflexivity; apply build_phys|].
    assert (HlastR : legR_of (last (build ci c0 sites) darr) = bond_leg (cend ci c0 sites) (-1)).
    { rewrite Hlast. unfold legR_of. cbn [legs mkB nth]. rewrite Hcend. reflexivity. }
    assert (Hnq_j : forall j, (j < length ci)%nat ->
              nth j newq 0 = mv1 (nth j ci 1) (nth j (cend ci c0 sites) 0 + - nth j c0 0)).
    { intros j Hj. unfold newq. rewrite HlastR. cbn [bch bond_leg nth].
      rewrite nth_make_valid by (rewrite ?vsub_length; lia). rewrite nth_vsub by lia. reflexivity. }
    split.
    { apply map_last_Forall2 with (Q := is_B ci); [exact Hall| |].
      - intros B [cL [s [HcL ->]]]. split; [apply mkB_WF; auto|]. repeat split.
      - intros B [cL [s [HcL ->]]]. split; [apply gauge_WF; auto|]. repeat split. }
    split; [apply map_last_linked; [exact HgL|apply build_linked]|].
    split.
    { intros _. rewrite map_last_last by exact Hbne.
      rewrite (map_last_hd (gauge_vR ci newq) legL_of _ darr HgL). rewrite Hhd.
      unfold gauge_vR. rewrite HlastR. rewrite Hlast.
      unfold legR_of at 1, legL_of. cbn [legs mkB nth bch bsz qc bond_leg qtot].
      split; [reflexivity|]. intros q j Hj. pose proof (valid_ci_nth ci j Hv) as Hm.
      destruct q as [|q].
      - unfold chg, bond_leg. cbn [qc bch nth].
        assert (Hs1 : length (vsub (make_valid ci newq) (zero_charge ci)) = length ci)
          by (rewrite vsub_length; rewrite ?make_valid_length, ?zero_charge_length; lia).
        rewrite nth_make_valid; [|exact Hj|rewrite vadd_length; rewrite ?vscale_length; lia].
        rewrite nth_vadd by (rewrite ?vscale_length; lia).
        rewrite nth_vscale. rewrite nth_vsub by (rewrite ?make_valid_length, ?zero_charge_length; lia).
        rewrite nth_zero_charge. rewrite nth_make_valid by lia. rewrite Hnq_j by exact Hj.
        set (m := nth j ci 1) in *. set (cl := nth j (cend ci c0 sites) 0). set (x := nth j c0 0).
        replace (-1 * mv1 m (cl + -1 * (mv1 m (mv1 m (cl + - x)) + - 0)) + 1 * x)
          with (x + - mv1 m (cl + - mv1 m (mv1 m (cl + - x)))).
        + apply mv1_wrap. exact Hm.
        + replace (-1 * (mv1 m (mv1 m (cl + - x)) + - 0)) with (- mv1 m (mv1 m (cl + - x))) by lia. lia.
      - f_equal. unfold chg, bond_leg. cbn [qc bch nth]. destruct q; cbn [nth]; destruct j; lia. }
    split; [discriminate|].
    unfold get_total_charge. fold darr.
    rewrite (vsum_zeros_last ci (gauge_vR ci newq) _ Hz Hbne)
      by (unfold gauge_vR; cbn [qtot]; apply make_valid_length; exact Hnewq).
    unfold gauge_vR. cbn [qtot].
    pose proof (qsum_length ci sites) as Hql.
    assert (Hn1 : length (make_valid ci newq) = length ci) by (apply make_valid_length; exact Hnewq).
    assert (Hn2 : length (make_valid ci (make_valid ci newq)) = length ci) by (apply make_valid_length; exact Hn1).
    apply vec_ext.
    + rewrite Hn2. rewrite make_valid_length; lia.
    + intros j Hj. rewrite Hn2 in Hj.
      pose proof (valid_ci_nth ci j Hv) as Hm.
      rewrite !nth_make_valid by lia.
      rewrite Hnq_j by exact Hj. set (m := nth j ci 1) in *.
      rewrite !mv1_idem by exact Hm.
      rewrite <- mv1_add_l by exact Hm. unfold m. rewrite (cend_sum ci Hv sites c0 j Hc0 Hj). fold m.
      rewrite mv1_add_l by exact Hm. f_equal. lia.
Qed.
