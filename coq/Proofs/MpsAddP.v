(* MPS.add is linear: the product of the block matrices is alpha * prod A + beta * prod B (C09). *)
From TenpyV Require Import Base.Prelude Model.MpsAdd.
Open Scope Z_scope.

Lemma sumn_ext n f g : (forall k, (k < n)%nat -> f k = g k) -> sumn n f = sumn n g.
Proof.
  induction n as [|n IH]; intros H; cbn [sumn]; [reflexivity|].
  rewrite IH by (intros k Hk; apply H; lia). rewrite H by lia. reflexivity.
Qed.

Lemma sumn_split n m f : sumn (n + m) f = sumn n f + sumn m (fun k => f (n + k)%nat).
Proof.
  induction m as [|m IH]; cbn [sumn].
  - rewrite Nat.add_0_r. lia.
  - replace (n + Datatypes.S m)%nat with (Datatypes.S (n + m)) by lia. cbn [sumn]. rewrite IH. lia.
Qed.

Lemma sumn_zero n f : (forall k, (k < n)%nat -> f k = 0) -> sumn n f = 0.
Proof.
  induction n as [|n IH]; intros H; cbn [sumn]; [reflexivity|].
  rewrite IH by (intros k Hk; apply H; lia). rewrite H by lia. reflexivity.
Qed.

Lemma sumn_scale n a f : sumn n (fun k => a * f k) = a * sumn n f.
Proof. induction n as [|n IH]; cbn [sumn]; [lia|]. rewrite IH. lia. Qed.

(* diag(A, B) . (PA ; PB) = (A.PA ; B.PB) *)
Lemma bdiag_vcat ra ca cb A B PA PB i j :
  mmul (ca + cb) (bdiag ra ca A B) (vcat ca PA PB) i j = vcat ra (mmul ca A PA) (mmul cb B PB) i j.
Proof.
  unfold mmul, vcat at 2. rewrite sumn_split. unfold bdiag.
  destruct (i <? ra)%nat eqn:Ei.
  - rewrite (sumn_zero cb).
    + rewrite Z.add_0_r. apply sumn_ext. intros k Hk. unfold vcat.
      destruct (k <? ca)%nat eqn:E; [reflexivity|lia].
    + intros k Hk. destruct (ca + k <? ca)%nat eqn:E; [lia|]. lia.
  - rewrite (sumn_zero ca).
    + rewrite Z.add_0_l. apply sumn_ext. intros k Hk. unfold vcat.
      destruct (ca + k <? ca)%nat eqn:E; [lia|].
      replace (ca + k - ca)%nat with k by lia. reflexivity.
    + intros k Hk. destruct (k <? ca)%nat eqn:E; lia.
Qed.

(* (alpha A , beta B) . (PA ; PB) = alpha A.PA + beta B.PB *)
Lemma hcat_vcat ca cb alpha beta A B PA PB i j :
  mmul (ca + cb) (hcat ca (mscale alpha A) (mscale beta B)) (vcat ca PA PB) i j =
  alpha * mmul ca A PA i j + beta * mmul cb B PB i j.
Proof.
  unfold mmul. rewrite sumn_split. rewrite <- !sumn_scale. f_equal.
  - apply sumn_ext. intros k Hk. unfold hcat, vcat, mscale.
    destruct (k <? ca)%nat eqn:E; [lia|lia].
  - apply sumn_ext. intros k Hk. unfold hcat, vcat, mscale.
    destruct (ca + k <? ca)%nat eqn:E; [lia|].
    replace (ca + k - ca)%nat with k by lia. lia.
Qed.

Lemma mmul_ext n A A' B B' i j :
  (forall k, (k < n)%nat -> A i k = A' i k) -> (forall k, (k < n)%nat -> B k j = B' k j) ->
  mmul n A B i j = mmul n A' B' i j.
Proof. intros HA HB. unfold mmul. apply sumn_ext. intros k Hk. rewrite HA, HB by exact Hk. reflexivity. Qed.

Lemma chain_prod_cons n A rest : rest <> [] -> chain_prod ((n, A) :: rest) = mmul n A (chain_prod rest).
Proof. intros H. cbn [chain_prod]. destruct rest; [congruence|reflexivity]. Qed.

(* sites 2..L: the product of the block chain is the column block of the two products *)
Lemma add_tail_prod : forall As Bs ra, length As = length Bs -> As <> [] ->
  forall i j, chain_prod (add_tail ra As Bs) i j = vcat ra (chain_prod As) (chain_prod Bs) i j.
Proof.
  induction As as [|[ca A] As' IH]; intros Bs ra Hl Hne i j; [congruence|].
  destruct Bs as [|[cb B] Bs']; [discriminate|].
  cbn [add_tail]. destruct As' as [|a As'']; destruct Bs' as [|b Bs'']; cbn [length] in Hl; try lia.
  - reflexivity.
  - set (As' := a :: As'') in *. set (Bs' := b :: Bs'') in *.
    assert (HneA : As' <> []) by (unfold As'; congruence).
    assert (HneB : Bs' <> []) by (unfold Bs'; congruence).
    assert (HneT : add_tail ca As' Bs' <> []).
    { unfold As', Bs'. destruct a as [ca' A'], b as [cb' B']. cbn [add_tail].
      destruct As''; destruct Bs''; congruence. }
    rewrite (chain_prod_cons _ _ _ HneT), (chain_prod_cons _ _ _ HneA), (chain_prod_cons _ _ _ HneB).
    rewrite <- bdiag_vcat. apply mmul_ext; [reflexivity|].
    intros k _. apply IH; [unfold As', Bs'; cbn [length]; lia|exact HneA].
Qed.

Theorem add_linear : forall alpha beta As Bs, length As = length Bs -> (2 <= length As)%nat ->
  forall i j, chain_prod (add_chain alpha beta As Bs) i j =
              alpha * chain_prod As i j + beta * chain_prod Bs i j.
Proof.
  intros alpha beta As Bs Hl H2 i j.
  destruct As as [|[ca A] As']; [cbn in H2; lia|]. destruct Bs as [|[cb B] Bs']; [discriminate|].
  cbn [length] in *.
  assert (HneA : As' <> []) by (destruct As'; [cbn in H2; lia|congruence]).
  assert (HneB : Bs' <> []) by (destruct Bs'; [destruct As'; [congruence|cbn [length] in Hl; lia]|congruence]).
  assert (HneT : add_tail ca As' Bs' <> []).
  { destruct As' as [|[ca' A'] As'']; [congruence|]. destruct Bs' as [|[cb' B'] Bs'']; [congruence|].
    cbn [add_tail]. destruct As''; destruct Bs''; congruence. }
  cbn [add_chain].
  rewrite (chain_prod_cons _ _ _ HneT), (chain_prod_cons _ _ _ HneA), (chain_prod_cons _ _ _ HneB).
  rewrite <- hcat_vcat. apply mmul_ext; [reflexivity|].
  intros k _. apply add_tail_prod; [lia|exact HneA].
Qed.

(* with physical legs: selecting a configuration commutes with the construction *)
Lemma select_tadd_tail : forall TA TB ra ps, length TA = length TB -> length ps = length TA ->
  select (tadd_tail ra TA TB) ps = add_tail ra (select TA ps) (select TB ps).
Proof.
  induction TA as [|[ca A] TA' IH]; intros TB ra ps Hl Hp.
  - destruct TB; reflexivity.
  - destruct TB as [|[cb B] TB']; [discriminate|]. destruct ps as [|p ps']; [discriminate|].
    cbn [length] in *. cbn [tadd_tail select add_tail].
    destruct TA' as [|[ca' A'] TA'']; destruct TB' as [|[cb' B'] TB'']; cbn [length] in *; try lia.
    + destruct ps'; reflexivity.
    + destruct ps' as [|p' ps'']; [cbn [length] in Hp; lia|].
      cbn [select]. f_equal.
      specialize (IH ((cb', B') :: TB'') ca (p' :: ps'')). cbn [select length] in IH. cbn [length] in Hp. apply IH; lia.
Qed.

Theorem tadd_linear : forall alpha beta TA TB ps, length TA = length TB -> (2 <= length TA)%nat ->
  length ps = length TA ->
  forall i j, amplitude (tadd alpha beta TA TB) ps i j =
              alpha * amplitude TA ps i j + beta * amplitude TB ps i j.
Proof.
  intros alpha beta TA TB ps Hl H2 Hp i j. unfold amplitude.
  assert (Hs : select (tadd alpha beta TA TB) ps = add_chain alpha beta (select TA ps) (select TB ps)).
  { destruct TA as [|[ca A] TA']; [cbn in H2; lia|]. destruct TB as [|[cb B] TB']; [discriminate|].
    destruct ps as [|p ps']; [discriminate|]. cbn [length] in *.
    cbn [tadd select add_chain]. f_equal. apply select_tadd_tail; lia. }
  rewrite Hs.
  assert (Hlen : forall (T : tchain) (qs : list nat), length qs = length T -> length (select T qs) = length T).
  { clear. induction T as [|[c t] T IH]; intros [|p qs] H; cbn [select length] in *; try lia.
    rewrite IH; lia. }
  apply add_linear; rewrite !Hlen; lia.
Qed.
