(* outer: the grid of block pairs has no duplicate rows, is lexsorted when both operands are, hence WF (outer a b)
   and the dense form under the ASSIGNMENT semantics of to_ndarray is the dense outer product. *)
From TenpyV Require Import Base.Prelude Model.Charge Model.Tensor Model.TensorOps.
From TenpyV Require Import Proofs.ChargeP Proofs.TensorP Proofs.TensorP2.
Open Scope Z_scope.

(* ---- the rows of the result: all concatenations, rows of a changing fastest *)
Definition grid (A B : list (list nat)) : list (list nat) :=
  flat_map (fun rb => map (fun ra => ra ++ rb) A) B.

Lemma outer_rows ci a b : rows (outer ci a b) = grid (rows a) (rows b).
Proof.
  unfold outer, rows, grid. cbn [blks].
  induction (blks b) as [|bb tb IH]; cbn [flat_map map]; [reflexivity|].
  rewrite map_app. f_equal; [|exact IH]. rewrite !map_map. reflexivity.
Qed.

Lemma grid_in A B r : In r (grid A B) <-> exists ra rb, r = ra ++ rb /\ In ra A /\ In rb B.
Proof.
  unfold grid. rewrite in_flat_map. split.
  - intros [rb [Hb H]]. apply in_map_iff in H. destruct H as [ra [<- Ha]]. exists ra, rb. auto.
  - intros [ra [rb [-> [Ha Hb]]]]. exists rb. split; [exact Hb|]. apply in_map_iff. exists ra. auto.
Qed.

Lemma app_inj_len {A} (x x' y y' : list A) : length x = length x' -> x ++ y = x' ++ y' -> x = x' /\ y = y'.
Proof.
  revert x'. induction x as [|c x IH]; intros [|c' x'] Hl H; cbn [length app] in *; try discriminate.
  - auto.
  - injection H as -> H. destruct (IH x') as [-> ->]; [lia|exact H|]. auto.
Qed.

Lemma NoDup_app_intro {A} (l1 l2 : list A) :
  NoDup l1 -> NoDup l2 -> (forall x, In x l1 -> ~ In x l2) -> NoDup (l1 ++ l2).
Proof.
  induction l1 as [|x l1 IH]; intros H1 H2 Hd; cbn [app]; [exact H2|].
  inversion H1 as [|u v Hx Hn]; subst. constructor.
  - rewrite in_app_iff. intros [H|H]; [exact (Hx H)|]. exact (Hd x (or_introl eq_refl) H).
  - apply IH; [exact Hn|exact H2|]. intros y Hy. apply Hd. right. exact Hy.
Qed.

Lemma grid_nodup n A B : (forall r, In r A -> length r = n) -> NoDup A -> NoDup B -> NoDup (grid A B).
Proof.
  intros HA NA NB. unfold grid. induction B as [|rb B IH]; cbn [flat_map]; [constructor|].
  inversion NB as [|u v Hx Hn]; subst. apply NoDup_app_intro.
  - apply NoDup_map_in; [|exact NA]. intros x y Hx' Hy' E.
    apply app_inj_len in E; [tauto|]. rewrite (HA x Hx'), (HA y Hy'). reflexivity.
  - apply IH. exact Hn.
  - intros x H1 H2. apply in_map_iff in H1. destruct H1 as [ra [<- Ha]].
    apply (grid_in A B) in H2. destruct H2 as [ra' [rb' [E [Ha' Hb']]]].
    apply app_inj_len in E; [|rewrite (HA ra Ha), (HA ra' Ha'); reflexivity].
    destruct E as [_ ->]. exact (Hx Hb').
Qed.

(* ---- the order of the grid *)
Lemma lex_lt_app_same p x y : lex_lt (p ++ x) (p ++ y) = lex_lt x y.
Proof.
  induction p as [|c p IH]; cbn [app lex_lt]; [reflexivity|].
  rewrite Nat.ltb_irrefl, Nat.eqb_refl. cbn [orb andb]. exact IH.
Qed.

Lemma lex_lt_app_lt p q x y : length p = length q -> lex_lt p q = true -> lex_lt (p ++ x) (q ++ y) = true.
Proof.
  revert q. induction p as [|c p IH]; intros [|d q] Hl H; cbn [length app lex_lt] in *; try discriminate.
  apply orb_true_iff in H. apply orb_true_iff. destruct H as [H|H]; [left; exact H|right].
  apply andb_true_iff in H. destruct H as [H1 H2]. rewrite H1. cbn [andb]. apply IH; [lia|exact H2].
Qed.

Lemma row_lt_app_same ra ra' rb : row_lt (ra ++ rb) (ra' ++ rb) = row_lt ra ra'.
Proof. unfold row_lt. rewrite !rev_app_distr. apply lex_lt_app_same. Qed.

Lemma row_lt_app_lt ra ra' rb rb' : length rb = length rb' -> row_lt rb rb' = true ->
  row_lt (ra ++ rb) (ra' ++ rb') = true.
Proof.
  unfold row_lt. intros Hl H. rewrite !rev_app_distr. apply lex_lt_app_lt; [|exact H].
  rewrite !rev_length. exact Hl.
Qed.

Lemma ssorted_app l1 l2 : ssorted l1 -> ssorted l2 ->
  (forall x y, In x l1 -> In y l2 -> row_lt x y = true) -> ssorted (l1 ++ l2).
Proof.
  induction l1 as [|a l1 IH]; intros H1 H2 Hc; cbn [app]; [exact H2|].
  destruct H1 as [H1a H1b]. split.
  - intros x Hx. apply in_app_iff in Hx. destruct Hx as [Hx|Hx]; [apply H1a; exact Hx|].
    apply Hc; [left; reflexivity|exact Hx].
  - apply IH; [exact H1b|exact H2|]. intros x y Hx Hy. apply Hc; [right; exact Hx|exact Hy].
Qed.

Lemma ssorted_map_app A rb : ssorted A -> ssorted (map (fun ra => ra ++ rb) A).
Proof.
  induction A as [|a A IH]; intros H; [exact I|]. destruct H as [H1 H2]. cbn [map]. split.
  - intros x Hx. apply in_map_iff in Hx. destruct Hx as [ra [<- Hra]]. rewrite row_lt_app_same. apply H1. exact Hra.
  - apply IH. exact H2.
Qed.

Lemma grid_ssorted m A B : (forall r, In r B -> length r = m) -> ssorted A -> ssorted B -> ssorted (grid A B).
Proof.
  intros HB SA SB. unfold grid. induction B as [|rb B IH]; cbn [flat_map]; [exact I|].
  destruct SB as [S1 S2]. apply ssorted_app.
  - apply ssorted_map_app. exact SA.
  - apply IH; [|exact S2]. intros r Hr. apply HB. right. exact Hr.
  - intros x y Hx Hy. apply in_map_iff in Hx. destruct Hx as [ra [<- Hra]].
    apply (grid_in A B) in Hy. destruct Hy as [ra' [rb' [-> [Ha' Hb']]]].
    apply row_lt_app_lt; [|apply S1; exact Hb'].
    rewrite (HB rb (or_introl eq_refl)), (HB rb' (or_intror Hb')). reflexivity.
Qed.

(* ---- C02: outer returns a well-formed array; in particular the claim
        _qdata_sorted = a._qdata_sorted and b._qdata_sorted  ("since grid is lex sorted") is truthful *)
Lemma outer_nodup ci a b : rows_shape a -> NoDup (rows a) -> NoDup (rows b) -> NoDup (rows (outer ci a b)).
Proof. intros Hs Na Nb. rewrite outer_rows. apply (grid_nodup (rank a)); assumption. Qed.

Lemma outer_rows_shape ci a b : rows_shape a -> rows_shape b -> rows_shape (outer ci a b).
Proof.
  intros Ha Hb r Hr. destruct (outer_rows_in ci a b r Hr) as [ra [rb [-> [Ia Ib]]]].
  unfold rank, outer. cbn [legs]. rewrite !app_length. rewrite (Ha ra Ia), (Hb rb Ib). reflexivity.
Qed.

Lemma outer_claim ci a b : rows_shape b -> claim_truthful a -> claim_truthful b -> claim_truthful (outer ci a b).
Proof.
  intros Hs Ca Cb H. unfold outer in H. cbn [qsorted] in H. apply andb_true_iff in H. destruct H as [Ha Hb].
  apply strictly_of_ssorted. rewrite outer_rows. apply (grid_ssorted (rank b)).
  - exact Hs.
  - apply ssorted_of_strictly. apply Ca. exact Ha.
  - apply ssorted_of_strictly. apply Cb. exact Hb.
Qed.

Theorem wf_outer ci a b : valid_ci ci -> WF ci a -> WF ci b -> WF ci (outer ci a b).
Proof.
  intros Hv Wa Wb. pose proof (charge_rule_outer ci a b Hv Wa Wb) as Hr.
  destruct Wa as [A1 A2 A3 A4 A5], Wb as [B1 B2 B3 B4 B5]. constructor.
  - unfold outer. cbn [qtot]. apply make_valid_length. rewrite vadd_length; lia.
  - apply outer_rows_shape; assumption.
  - apply outer_nodup; assumption.
  - exact Hr.
  - apply outer_claim; assumption.
Qed.

(* ---- C01: dense form of outer under the assignment semantics of to_ndarray *)
Theorem outer_dense ci a b idx : WF ci a -> WF ci b -> (rank a <= length idx)%nat ->
  to_ndarray (outer ci a b) idx = cmul (to_ndarray a (firstn (rank a) idx)) (to_ndarray b (skipn (rank a) idx)).
Proof.
  intros [A1 A2 A3 A4 A5] [B1 B2 B3 B4 B5] Hl.
  rewrite to_ndarray_sum; [|apply outer_nodup; assumption|apply outer_rows_shape; assumption].
  rewrite (to_ndarray_sum a) by assumption. rewrite (to_ndarray_sum b) by assumption.
  rewrite <- (firstn_skipn (rank a) idx) at 1. apply outer_dense_sum; [exact A2|].
  rewrite firstn_length. lia.
Qed.

(* the same, with the index given in two parts *)
Corollary outer_dense_app ci a b ia ib : WF ci a -> WF ci b -> length ia = rank a ->
  to_ndarray (outer ci a b) (ia ++ ib) = cmul (to_ndarray a ia) (to_ndarray b ib).
Proof.
  intros Wa Wb Hl. rewrite (outer_dense ci a b (ia ++ ib) Wa Wb) by (rewrite app_length; lia).
  rewrite <- Hl, firstn_app_len, skipn_app_len. reflexivity.
Qed.

(* everything the property says about outer in one statement *)
Theorem outer_full ci a b : valid_ci ci -> WF ci a -> WF ci b ->
  WF ci (outer ci a b) /\
  qtot (outer ci a b) = make_valid ci (vadd (qtot a) (qtot b)) /\
  legs (outer ci a b) = legs a ++ legs b /\
  (forall idx, (rank a <= length idx)%nat ->
     to_ndarray (outer ci a b) idx = cmul (to_ndarray a (firstn (rank a) idx)) (to_ndarray b (skipn (rank a) idx))).
Proof.
  intros Hv Wa Wb. split; [apply wf_outer; assumption|]. split; [reflexivity|]. split; [reflexivity|].
  intros idx Hl. apply outer_dense; assumption.
Qed.

(* contractibility is symmetric *)
Lemma contractible_sym ci l l' : valid_ci ci -> contractible ci l l' -> contractible ci l' l.
Proof.
  intros _ [H1 H2]. split; [symmetry; exact H1|]. intros q j Hj. rewrite Z.add_comm. apply H2. exact Hj.
Qed.
