(* Property C13, unbounded part: in the model of Model/Sweep.v every read of a finite sweep is fresh and every stored
   environment is current, for EVERY chain length L > n (n = 1, 2) and EVERY number of sweeps.
   Invariant at schedule position i0 (Shape): stored LP have index <= i0, stored RP have index >= i0 + n - 1,
   LP[0] and RP[L-1] are stored, every stored environment carries the current versions. *)
From TenpyV Require Import Base.Prelude Model.Sweep Proofs.SweepP.
Local Open Scope nat_scope.

(* ---- lists *)
Lemma tag_eqb_refl (t : tag) : tag_eqb t t = true.
Proof.
  unfold tag_eqb. rewrite Nat.eqb_refl. cbn [andb].
  induction t as [|x t IH]; cbn [combine forallb fst snd]; [reflexivity|].
  rewrite Nat.eqb_refl. exact IH.
Qed.

Lemma set_nth_length {A} (l : list A) k x : length (set_nth l k x) = length l.
Proof. revert k. induction l as [|y t IH]; intros [|k]; cbn [set_nth length]; auto. Qed.

Lemma nth_set_nth_eq {A} (l : list A) k x d : k < length l -> nth k (set_nth l k x) d = x.
Proof.
  revert k. induction l as [|y t IH]; intros [|k] H; cbn [set_nth nth length] in *; try lia; auto.
  apply IH. lia.
Qed.

Lemma nth_set_nth_neq {A} (l : list A) k i x d : i <> k -> nth i (set_nth l k x) d = nth i l d.
Proof.
  revert k i. induction l as [|y t IH]; intros [|k] [|i] H; cbn [set_nth nth]; try reflexivity; try lia.
  apply IH. lia.
Qed.

Lemma nth_set_nth_some {A} (l : list (option A)) k i x t : length l = length l ->
  nth i (set_nth l k x) None = Some t ->
  (i = k /\ x = Some t) \/ (i <> k /\ nth i l None = Some t).
Proof.
  intros _ H. destruct (Nat.eq_dec i k) as [->|Hne].
  - destruct (Nat.lt_ge_cases k (length l)) as [Hlt|Hge].
    + rewrite nth_set_nth_eq in H by exact Hlt. left. split; [reflexivity|exact H].
    + rewrite nth_overflow in H by (rewrite set_nth_length; exact Hge). discriminate.
  - rewrite nth_set_nth_neq in H by exact Hne. right. split; assumption.
Qed.

Lemma firstn_set_nth {A} (v : list A) i k x : i <= k -> firstn i (set_nth v k x) = firstn i v.
Proof.
  revert i k. induction v as [|y t IH]; intros [|i] [|k] H; cbn [set_nth firstn]; try reflexivity; try lia.
  f_equal. apply IH. lia.
Qed.

Lemma skipn_set_nth {A} (v : list A) i k x : k < i -> skipn i (set_nth v k x) = skipn i v.
Proof.
  revert i k. induction v as [|y t IH]; intros [|i] [|k] H; cbn [set_nth skipn]; try reflexivity; try lia.
  apply IH. lia.
Qed.

Lemma firstn_snoc (v : list nat) j : j < length v -> firstn j v ++ [nth j v 0] = firstn (S j) v.
Proof.
  revert j. induction v as [|y t IH]; intros [|j] H; cbn [length firstn nth app] in *; try lia; try reflexivity.
  f_equal. apply IH. lia.
Qed.

Lemma skipn_cons (v : list nat) j : j < length v -> nth j v 0 :: skipn (S j) v = skipn j v.
Proof.
  revert j. induction v as [|y t IH]; intros [|j] H; cbn [length skipn nth] in *; try lia; try reflexivity.
  apply IH. lia.
Qed.

Lemma bump_length v i : length (bump v i) = length v.
Proof. unfold bump. apply set_nth_length. Qed.

Lemma firstn_bump v i k : i <= k -> firstn i (bump v k) = firstn i v.
Proof. intros H. unfold bump. apply firstn_set_nth. exact H. Qed.

Lemma skipn_bump v i k : k < i -> skipn i (bump v k) = skipn i v.
Proof. intros H. unfold bump. apply skipn_set_nth. exact H. Qed.

(* ---- the invariant *)
Definition Base (L : nat) (s : st) : Prop :=
  length (ver s) = L /\ length (lp s) = L /\ length (rp s) = L /\
  nth 0 (lp s) None = Some [] /\ nth (L - 1) (rp s) None = Some [].
(* stored LP: index <= b, current *)
Definition LPok (b : nat) (s : st) : Prop :=
  forall i t, nth i (lp s) None = Some t -> i <= b /\ t = firstn i (ver s).
(* stored RP: index >= a, current *)
Definition RPok (a : nat) (s : st) : Prop :=
  forall i t, nth i (rp s) None = Some t -> a <= i /\ t = skipn (S i) (ver s).
Definition Shape (L a b : nat) (s : st) : Prop := Base L s /\ LPok b s /\ RPok a s.

Lemma LPok_mono b b' s : b <= b' -> LPok b s -> LPok b' s.
Proof. intros Hb H i t Hi. destruct (H i t Hi) as [H1 H2]. split; [lia|exact H2]. Qed.

Lemma RPok_mono a a' s : a' <= a -> RPok a s -> RPok a' s.
Proof. intros Ha H i t Hi. destruct (H i t Hi) as [H1 H2]. split; [lia|exact H2]. Qed.

Lemma LPok_eq b s s' : ver s' = ver s -> lp s' = lp s -> LPok b s -> LPok b s'.
Proof. intros Hv Hl H i t. rewrite Hv, Hl. apply H. Qed.

Lemma RPok_eq a s s' : ver s' = ver s -> rp s' = rp s -> RPok a s -> RPok a s'.
Proof. intros Hv Hl H i t. rewrite Hv, Hl. apply H. Qed.

Lemma all_current_of_shape L a b s : Shape L a b s -> all_current s = true.
Proof.
  intros (_ & HL & HR). unfold all_current. apply andb_true_intro. split.
  - apply forallb_forall. intros i _. destruct (nth i (lp s) None) as [t|] eqn:E; [|reflexivity].
    destruct (HL i t E) as [_ ->]. apply tag_eqb_refl.
  - apply forallb_forall. intros i _. destruct (nth i (rp s) None) as [t|] eqn:E; [|reflexivity].
    destruct (HR i t E) as [_ ->]. apply tag_eqb_refl.
Qed.

(* ---- get_lp *)
Lemma find_left_some (l : list (option tag)) (t0 : tag) : nth 0 l None = Some t0 -> forall i,
  exists j t, find_left l i (S i) = Some (j, t) /\ j <= i /\ nth j l None = Some t.
Proof.
  intros H0 i. induction i as [|i IH].
  - exists 0, t0. cbn [find_left]. rewrite H0. auto.
  - cbn [find_left]. destruct (nth (S i) l None) as [t|] eqn:E.
    + exists (S i), t. auto.
    + destruct IH as (j & t & E1 & E2 & E3). exists j, t. split; [exact E1|]. split; [lia|exact E3].
Qed.

Lemma extend_left_spec L b cnt : forall s j t,
  length (ver s) = L -> length (lp s) = L -> j + cnt < L -> j + cnt <= b ->
  t = firstn j (ver s) -> LPok b s ->
  let r := extend_left s j cnt t true in
  ver (fst r) = ver s /\ rp (fst r) = rp s /\ length (lp (fst r)) = L /\
  nth 0 (lp (fst r)) None = nth 0 (lp s) None /\ LPok b (fst r) /\ snd r = firstn (j + cnt) (ver s).
Proof.
  induction cnt as [|c IH]; intros s j t Hv Hl Hj Hb Ht HL.
  - cbn [extend_left fst snd]. rewrite Nat.add_0_r. auto 10.
  - cbn [extend_left].
    set (t' := t ++ [nth j (ver s) 0]).
    set (s' := mkSt (ver s) (set_nth (lp s) (S j) (Some t')) (rp s)).
    assert (Ht' : t' = firstn (S j) (ver s)) by (unfold t'; rewrite Ht; apply firstn_snoc; lia).
    assert (HL' : LPok b s').
    { intros i t0 Hi. unfold s' in Hi. cbn [lp ver] in *.
      apply nth_set_nth_some in Hi; [|reflexivity]. destruct Hi as [[-> Hx]|[Hne Hi]].
      - injection Hx as <-. split; [lia|exact Ht'].
      - apply HL. exact Hi. }
    assert (Hl' : length (lp s') = L) by (unfold s'; cbn [lp]; rewrite set_nth_length; exact Hl).
    pose proof (IH s' (S j) t' Hv Hl' ltac:(lia) ltac:(lia) Ht' HL') as H.
    cbv zeta in H. destruct H as (I1 & I2 & I3 & I4 & I5 & I6).
    change (ver s') with (ver s) in *. change (rp s') with (rp s) in *.
    replace (j + S c) with (S j + c) by lia.
    split; [exact I1|]. split; [exact I2|]. split; [exact I3|]. split; [|split; [exact I5|exact I6]].
    rewrite I4. unfold s'. cbn [lp]. apply nth_set_nth_neq. lia.
Qed.

Lemma get_lp_spec L b s i : Base L s -> LPok b s -> i <= b -> i < L ->
  exists s', get_lp s i true = (s', Some (firstn i (ver s))) /\
    ver s' = ver s /\ rp s' = rp s /\ Base L s' /\ LPok b s'.
Proof.
  intros (Hv & Hl & Hr & H0 & HR) HL Hib HiL. unfold get_lp.
  destruct (find_left_some (lp s) [] H0 i) as (j & t & E & Hj & Hjt). rewrite E.
  destruct (HL j t Hjt) as [_ Ht].
  pose proof (extend_left_spec L b (i - j) s j t Hv Hl ltac:(lia) ltac:(lia) Ht HL) as H.
  cbv zeta in H. destruct H as (I1 & I2 & I3 & I4 & I5 & I6).
  exists (fst (extend_left s j (i - j) t true)). cbn [fst snd]. rewrite I6.
  replace (j + (i - j)) with i by lia.
  split; [reflexivity|]. split; [exact I1|]. split; [exact I2|]. split; [|exact I5].
  unfold Base. rewrite I1, I2, I4. auto.
Qed.

(* ---- get_rp *)
Lemma find_right_some L (l : list (option tag)) : length l = L -> nth (L - 1) l None = Some ([] : tag) -> forall f i,
  f = L - i -> i < L ->
  exists j t, find_right l i f = Some (j, t) /\ i <= j /\ j < L /\ nth j l None = Some t.
Proof.
  intros Hl HR f. induction f as [|f IH]; intros i Hf Hi; [lia|].
  cbn [find_right]. destruct (nth i l None) as [t|] eqn:E.
  - exists i, t. split; [reflexivity|]. split; [lia|]. split; [exact Hi|exact E].
  - assert (S i < L).
    { destruct (Nat.eq_dec i (L - 1)) as [->|]; [rewrite HR in E; discriminate|lia]. }
    destruct (IH (S i) ltac:(lia) ltac:(lia)) as (j & t & E1 & E2 & E3 & E4).
    exists j, t. split; [exact E1|]. split; [lia|]. split; assumption.
Qed.

Lemma extend_right_spec L a cnt : forall s j t,
  length (ver s) = L -> length (rp s) = L -> j < L -> cnt <= j -> a <= j - cnt ->
  t = skipn (S j) (ver s) -> RPok a s ->
  let r := extend_right s j cnt t true in
  ver (fst r) = ver s /\ lp (fst r) = lp s /\ length (rp (fst r)) = L /\
  nth (L - 1) (rp (fst r)) None = nth (L - 1) (rp s) None /\ RPok a (fst r) /\
  snd r = skipn (S (j - cnt)) (ver s).
Proof.
  induction cnt as [|c IH]; intros s j t Hv Hl Hj Hc Ha Ht HR.
  - cbn [extend_right fst snd]. rewrite Nat.sub_0_r. auto 10.
  - cbn [extend_right].
    set (t' := nth j (ver s) 0 :: t).
    set (s' := mkSt (ver s) (lp s) (set_nth (rp s) (j - 1) (Some t'))).
    assert (Ht' : t' = skipn (S (j - 1)) (ver s)).
    { unfold t'. rewrite Ht. replace (S (j - 1)) with j by lia. apply skipn_cons. lia. }
    assert (HR' : RPok a s').
    { intros i t0 Hi. unfold s' in Hi. cbn [rp ver] in *.
      apply nth_set_nth_some in Hi; [|reflexivity]. destruct Hi as [[-> Hx]|[Hne Hi]].
      - injection Hx as <-. split; [lia|exact Ht'].
      - apply HR. exact Hi. }
    assert (Hl' : length (rp s') = L) by (unfold s'; cbn [rp]; rewrite set_nth_length; exact Hl).
    pose proof (IH s' (j - 1) t' Hv Hl' ltac:(lia) ltac:(lia) ltac:(lia) Ht' HR') as H.
    cbv zeta in H. destruct H as (I1 & I2 & I3 & I4 & I5 & I6).
    change (ver s') with (ver s) in *. change (lp s') with (lp s) in *.
    replace (j - S c) with (j - 1 - c) by lia.
    split; [exact I1|]. split; [exact I2|]. split; [exact I3|]. split; [|split; [exact I5|exact I6]].
    rewrite I4. unfold s'. cbn [rp]. apply nth_set_nth_neq. lia.
Qed.

Lemma get_rp_spec L a s i : Base L s -> RPok a s -> a <= i -> i < L ->
  exists s', get_rp s i true = (s', Some (skipn (S i) (ver s))) /\
    ver s' = ver s /\ lp s' = lp s /\ Base L s' /\ RPok a s'.
Proof.
  intros (Hv & Hl & Hr & H0 & HR) HRok Hai HiL. unfold get_rp. rewrite Hr.
  destruct (find_right_some L (rp s) Hr HR (L - i) i eq_refl HiL) as (j & t & E & Hj & HjL & Hjt). rewrite E.
  destruct (HRok j t Hjt) as [_ Ht].
  pose proof (extend_right_spec L a (j - i) s j t Hv Hr HjL ltac:(lia) ltac:(lia) Ht HRok) as H.
  cbv zeta in H. destruct H as (I1 & I2 & I3 & I4 & I5 & I6).
  exists (fst (extend_right s j (j - i) t true)). cbn [fst snd]. rewrite I6.
  replace (j - (j - i)) with i by lia.
  split; [reflexivity|]. split; [exact I1|]. split; [exact I2|]. split; [|exact I5].
  unfold Base. rewrite I1, I2, I4. auto.
Qed.

(* ---- deletions, and the local update (two sites bumped, the two invalidated environments deleted) *)
Lemma del_lp_spec L a b s : Base L s -> LPok b s -> RPok a s -> 1 <= b ->
  Shape L a (b - 1) (del_lp s b).
Proof.
  intros (Hv & Hl & Hr & H0 & HR) HLP HRP Hb. unfold del_lp. split; [|split].
  - unfold Base. cbn [ver lp rp]. rewrite set_nth_length, nth_set_nth_neq by lia. auto.
  - intros i t Hi. cbn [ver lp] in *. apply nth_set_nth_some in Hi; [|reflexivity].
    destruct Hi as [[_ Hx]|[Hne Hi]]; [discriminate|]. destruct (HLP i t Hi) as [H1 H2]. split; [lia|exact H2].
  - exact HRP.
Qed.

Lemma del_rp_spec L a b s : Base L s -> LPok b s -> RPok a s -> a < L - 1 ->
  Shape L (S a) b (del_rp s a).
Proof.
  intros (Hv & Hl & Hr & H0 & HR) HLP HRP Ha. unfold del_rp. split; [|split].
  - unfold Base. cbn [ver lp rp]. rewrite set_nth_length, nth_set_nth_neq by lia. auto.
  - exact HLP.
  - intros i t Hi. cbn [ver rp] in *. apply nth_set_nth_some in Hi; [|reflexivity].
    destruct Hi as [[_ Hx]|[Hne Hi]]; [discriminate|]. destruct (HRP i t Hi) as [H1 H2]. split; [lia|exact H2].
Qed.

Lemma update_spec L a b s iL iR : Base L s -> LPok b s -> RPok a s ->
  iR = S iL -> b <= iR -> iL <= a -> iR < L ->
  Shape L iR iL (del_rp (del_lp (mkSt (bump (bump (ver s) iL) iR) (lp s) (rp s)) iR) iL).
Proof.
  intros (Hv & Hl & Hr & H0 & HR) HLP HRP -> Hb Ha HiL. unfold del_rp, del_lp. cbn [ver lp rp]. split; [|split].
  - unfold Base. cbn [ver lp rp]. rewrite !bump_length, !set_nth_length, !nth_set_nth_neq by lia. auto.
  - intros i t Hi. cbn [ver lp] in *. apply nth_set_nth_some in Hi; [|reflexivity].
    destruct Hi as [[_ Hx]|[Hne Hi]]; [discriminate|]. destruct (HLP i t Hi) as [H1 H2].
    split; [lia|]. rewrite !firstn_bump by lia. exact H2.
  - intros i t Hi. cbn [ver rp] in *. apply nth_set_nth_some in Hi; [|reflexivity].
    destruct Hi as [[_ Hx]|[Hne Hi]]; [discriminate|]. destruct (HRP i t Hi) as [H1 H2].
    split; [lia|]. rewrite !skipn_bump by lia. exact H2.
Qed.

(* the two reads of make_eff_H *)
Lemma reads_spec L a b s i j : Shape L a b s -> i <= b -> i < L -> a <= j -> j < L ->
  exists s1 s2, get_lp s i true = (s1, Some (firstn i (ver s2))) /\
    get_rp s1 j true = (s2, Some (skipn (S j) (ver s2))) /\ Shape L a b s2.
Proof.
  intros (HB & HLP & HRP) Hi HiL Hj HjL.
  destruct (get_lp_spec L b s i HB HLP Hi HiL) as (s1 & E1 & V1 & R1 & B1 & LP1).
  assert (RP1 : RPok a s1) by (apply (RPok_eq _ s); assumption).
  destruct (get_rp_spec L a s1 j B1 RP1 Hj HjL) as (s2 & E2 & V2 & L2 & B2 & RP2).
  assert (LP2 : LPok b s2) by (apply (LPok_eq _ s1); assumption).
  assert (V : ver s2 = ver s) by congruence.
  exists s1, s2. rewrite V. rewrite V1 in E2. split; [exact E1|]. split; [exact E2|].
  split; [exact B2|]. split; assumption.
Qed.

(* ---- one step of the finite schedule *)
Lemma step_right L n i0 s : n = 1 \/ n = 2 -> i0 + n < L -> Shape L (i0 + n - 1) i0 s ->
  exists s', step n s (i0, true, (true, false)) = (s', true) /\ Shape L (i0 + n) (S i0) s'.
Proof.
  intros Hn HL HS.
  destruct (reads_spec L _ _ s i0 (i0 + n - 1) HS (le_n _) ltac:(lia) (le_n _) ltac:(lia))
    as (s1 & s2 & E1 & E2 & (HB & HLP & HRP)).
  unfold step. cbv zeta. rewrite E1. cbn [fst snd]. rewrite E2. cbn [fst snd].
  unfold fresh_l, fresh_r. rewrite !tag_eqb_refl. cbn [andb].
  pose proof (update_spec L (i0 + n - 1) i0 s2 i0 (S i0) HB HLP HRP eq_refl ltac:(lia) ltac:(lia) ltac:(lia))
    as (B4 & LP4 & RP4).
  set (s4 := del_rp _ _) in *.
  destruct (get_lp_spec L (S i0) s4 (S i0) B4 (LPok_mono i0 (S i0) s4 ltac:(lia) LP4) (le_n _) ltac:(lia))
    as (s5 & E5 & V5 & R5 & B5 & LP5).
  assert (RP5 : RPok (S i0) s5) by (apply (RPok_eq _ s4); assumption).
  destruct Hn as [-> | ->]; unfold env_inds; cbn [Nat.eqb orb andb negb]; fold s4; rewrite E5; cbn [fst snd].
  - exists s5. split; [reflexivity|]. replace (i0 + 1) with (S i0) by lia. split; [exact B5|]. split; assumption.
  - exists (del_rp s5 (S i0)). split; [reflexivity|]. replace (i0 + 2) with (S (S i0)) by lia.
    apply del_rp_spec; try assumption. lia.
Qed.

Lemma step_left L n i0 s : n = 1 \/ n = 2 -> 1 <= i0 -> i0 + n - 1 < L -> Shape L (i0 + n - 1) i0 s ->
  exists s', step n s (i0, false, (false, true)) = (s', true) /\ Shape L (i0 + n - 2) (i0 - 1) s'.
Proof.
  intros Hn Hi0 HL HS.
  destruct (reads_spec L _ _ s i0 (i0 + n - 1) HS (le_n _) ltac:(lia) (le_n _) ltac:(lia))
    as (s1 & s2 & E1 & E2 & (HB & HLP & HRP)).
  unfold step. cbv zeta. rewrite E1. cbn [fst snd]. rewrite E2. cbn [fst snd].
  unfold fresh_l, fresh_r. rewrite !tag_eqb_refl. cbn [andb].
  destruct Hn as [-> | ->]; unfold env_inds; cbn [Nat.eqb orb andb negb].
  - pose proof (update_spec L (i0 + 1 - 1) i0 s2 (i0 - 1) i0 HB HLP HRP ltac:(lia) ltac:(lia) ltac:(lia) ltac:(lia))
      as (B4 & LP4 & RP4).
    set (s4 := del_rp _ _) in *.
    destruct (get_rp_spec L (i0 - 1) s4 (i0 - 1) B4 (RPok_mono i0 (i0 - 1) s4 ltac:(lia) RP4) (le_n _) ltac:(lia))
      as (s6 & E6 & V6 & L6 & B6 & RP6).
    assert (LP6 : LPok (i0 - 1) s6) by (apply (LPok_eq _ s4); assumption).
    rewrite E6. cbn [fst snd].
    exists s6. split; [reflexivity|]. replace (i0 + 1 - 2) with (i0 - 1) by lia. split; [exact B6|]. split; assumption.
  - pose proof (update_spec L (i0 + 2 - 1) i0 s2 i0 (S i0) HB HLP HRP eq_refl ltac:(lia) ltac:(lia) ltac:(lia))
      as (B4 & LP4 & RP4).
    set (s4 := del_rp _ _) in *.
    destruct (get_rp_spec L i0 s4 i0 B4 (RPok_mono (S i0) i0 s4 ltac:(lia) RP4) (le_n _) ltac:(lia))
      as (s6 & E6 & V6 & L6 & B6 & RP6).
    assert (LP6 : LPok i0 s6) by (apply (LPok_eq _ s4); assumption).
    rewrite E6. cbn [fst snd].
    exists (del_lp s6 i0). split; [reflexivity|]. replace (i0 + 2 - 2) with i0 by lia.
    apply del_lp_spec; assumption.
Qed.

(* ---- runs *)
Definition exec (n : nat) (s : st) (es : list entry) : st := fold_left (fun s e => fst (step n s e)) es s.

Lemma run_ok_app n l1 : forall s l2, run_ok n s (l1 ++ l2) = run_ok n s l1 && run_ok n (exec n s l1) l2.
Proof.
  induction l1 as [|e l1 IH]; intros s l2; [reflexivity|].
  cbn [app run_ok exec fold_left]. rewrite IH. unfold exec. rewrite !andb_assoc. reflexivity.
Qed.

Lemma exec_app n l1 l2 s : exec n s (l1 ++ l2) = exec n (exec n s l1) l2.
Proof. unfold exec. apply fold_left_app. Qed.

Lemma exec_cons n e l s : exec n s (e :: l) = exec n (fst (step n s e)) l.
Proof. reflexivity. Qed.

Definition right_entry (i : nat) : entry := (i, true, (true, false)).
Definition left_entry (i : nat) : entry := (i, false, (false, true)).

Lemma right_phase L n : n = 1 \/ n = 2 -> forall cnt i0 s, i0 + cnt + n <= L -> Shape L (i0 + n - 1) i0 s ->
  run_ok n s (map right_entry (seq i0 cnt)) = true /\
  Shape L (i0 + cnt + n - 1) (i0 + cnt) (exec n s (map right_entry (seq i0 cnt))).
Proof.
  intros Hn. induction cnt as [|c IH]; intros i0 s HL HS.
  - cbn [seq map run_ok exec fold_left]. rewrite Nat.add_0_r. auto.
  - cbn [seq map]. rewrite exec_cons. cbn [run_ok].
    destruct (step_right L n i0 s Hn ltac:(lia) HS) as (s' & E & HS').
    change (right_entry i0) with (i0, true, (true, false)). rewrite E. cbn [fst snd].
    replace (i0 + n) with (S i0 + n - 1) in HS' by lia.
    destruct (IH (S i0) s' ltac:(lia) HS') as [R1 R2].
    rewrite (all_current_of_shape _ _ _ _ HS'), R1. split; [reflexivity|].
    replace (i0 + S c) with (S i0 + c) by lia. exact R2.
Qed.

Lemma left_phase L n : n = 1 \/ n = 2 -> forall m s, m + n <= L -> Shape L (m + n - 1) m s ->
  run_ok n s (map left_entry (rev (seq 1 m))) = true /\
  Shape L (n - 1) 0 (exec n s (map left_entry (rev (seq 1 m)))).
Proof.
  intros Hn. induction m as [|m IH]; intros s HL HS.
  - cbn [seq rev map run_ok exec fold_left]. auto.
  - rewrite seq_S, rev_app_distr. cbn [rev app map plus]. rewrite exec_cons. cbn [run_ok].
    destruct (step_left L n (S m) s Hn ltac:(lia) ltac:(lia) HS) as (s' & E & HS').
    change (left_entry (S m)) with (S m, false, (false, true)). rewrite E. cbn [fst snd].
    replace (S m + n - 2) with (m + n - 1) in HS' by lia. replace (S m - 1) with m in HS' by lia.
    destruct (IH s' ltac:(lia) HS') as [R1 R2].
    rewrite (all_current_of_shape _ _ _ _ HS'), R1. split; [reflexivity|exact R2].
Qed.

(* ---- the finite schedule is: right moves at 0..m-1, then left moves at m..1 *)
Lemma combine_app2 {A B} (l1 l1' : list A) (l2 l2' : list B) : length l1 = length l2 ->
  combine (l1 ++ l1') (l2 ++ l2') = combine l1 l2 ++ combine l1' l2'.
Proof.
  revert l2. induction l1 as [|x t IH]; intros [|y u] H; cbn [length app combine] in *; try lia; try reflexivity.
  f_equal. apply IH. lia.
Qed.

Lemma combine_repeat {A B} (l : list A) (x : B) k : k = length l ->
  combine l (repeat x k) = map (fun a => (a, x)) l.
Proof.
  intros ->. induction l as [|a l IH]; cbn [length repeat combine map]; [reflexivity|]. f_equal. exact IH.
Qed.

Lemma schedule_finite_eq L n :
  schedule true L n = map right_entry (seq 0 (L - n)) ++ map left_entry (rev (seq 1 (L - n))).
Proof.
  unfold schedule. cbn [right_moves]. set (m := L - n). cbv zeta.
  unfold i0s, move_rights, flags_finite.
  rewrite combine_app2 by (rewrite seq_length, repeat_length; reflexivity).
  rewrite !combine_repeat by (rewrite ?rev_length, seq_length; reflexivity).
  rewrite combine_app2 by (rewrite map_length, seq_length, repeat_length; reflexivity).
  rewrite !combine_repeat by (rewrite map_length, ?rev_length, seq_length; reflexivity).
  rewrite !map_map. reflexivity.
Qed.

Lemma sweep_spec L n s : n = 1 \/ n = 2 -> n < L -> Shape L (n - 1) 0 s ->
  run_ok n s (schedule true L n) = true /\ Shape L (n - 1) 0 (exec n s (schedule true L n)).
Proof.
  intros Hn HL HS. rewrite schedule_finite_eq, run_ok_app, exec_app.
  destruct (right_phase L n Hn (L - n) 0 s ltac:(lia) HS) as [R1 R2]. cbn [plus] in R2.
  destruct (left_phase L n Hn (L - n) _ ltac:(lia) R2) as [R3 R4].
  rewrite R1, R3. split; [reflexivity|exact R4].
Qed.

Lemma init_shape L n : 1 <= n -> n < L -> Shape L (n - 1) 0 (init_st L).
Proof.
  intros Hn HL. unfold init_st. split; [|split].
  - unfold Base. cbn [ver lp rp length]. rewrite app_length, !repeat_length. cbn [length].
    split; [reflexivity|]. split; [lia|]. split; [lia|]. split; [reflexivity|].
    rewrite app_nth2 by (rewrite repeat_length; lia). rewrite repeat_length, Nat.sub_diag. reflexivity.
  - intros i t Hi. cbn [lp ver] in *. destruct i as [|i].
    + cbn [nth] in Hi. injection Hi as <-. split; [lia|reflexivity].
    + cbn [nth] in Hi. rewrite nth_repeat in Hi. discriminate.
  - intros i t Hi. cbn [rp ver] in *.
    destruct (Nat.lt_ge_cases i (L - 1)) as [Hlt|Hge].
    + rewrite app_nth1 in Hi by (rewrite repeat_length; exact Hlt). rewrite nth_repeat in Hi. discriminate.
    + rewrite app_nth2 in Hi by (rewrite repeat_length; exact Hge). rewrite repeat_length in Hi.
      destruct (i - (L - 1)) as [|d] eqn:Ed.
      * cbn [nth] in Hi. injection Hi as <-. split; [lia|].
        symmetry. apply skipn_all2. rewrite repeat_length. lia.
      * cbn [nth] in Hi. destruct d; discriminate.
Qed.

Lemma sweeps_ok L n : n = 1 \/ n = 2 -> n < L -> forall k s, Shape L (n - 1) 0 s ->
  run_ok n s (repeat_list (schedule true L n) k) = true.
Proof.
  intros Hn HL. induction k as [|k IH]; intros s HS; [reflexivity|].
  cbn [repeat_list]. rewrite run_ok_app. destruct (sweep_spec L n s Hn HL HS) as [R1 R2].
  rewrite R1, (IH _ R2). reflexivity.
Qed.

(* every read of every sweep is fresh and every stored environment stays current: all L, all numbers of sweeps *)
Lemma no_stale_all : forall L n k, (n = 1 \/ n = 2)%nat -> (n < L)%nat -> no_stale L n k = true.
Proof.
  intros L n k Hn HL. unfold no_stale. apply sweeps_ok; [exact Hn|exact HL|].
  apply init_shape; lia.
Qed.

(* the invariant itself, exported: after any number of complete sweeps the stored environments are exactly within
   LP[0], RP[n-1..L-1], all current *)
Lemma shape_after_sweeps L n k : n = 1 \/ n = 2 -> n < L ->
  Shape L (n - 1) 0 (exec n (init_st L) (repeat_list (schedule true L n) k)).
Proof.
  intros Hn HL. assert (H : forall s, Shape L (n - 1) 0 s -> Shape L (n - 1) 0 (exec n s (repeat_list (schedule true L n) k))).
  { induction k as [|k IH]; intros s HS; [exact HS|].
    cbn [repeat_list]. rewrite exec_app. apply IH. apply (sweep_spec L n s Hn HL HS). }
  apply H. apply init_shape; lia.
Qed.
