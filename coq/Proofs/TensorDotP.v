(* tensordot: dense form of the block-sparse contraction = finite sum over the contracted multi-index (Model/TensorDot.v). *)
From TenpyV Require Import Base.Prelude Model.Charge Model.Tensor Model.TensorOps Model.TensorDot.
From TenpyV Require Import Proofs.ChargeP Proofs.TensorP Proofs.TensorP2.
Open Scope Z_scope.

(* ------------------------------------------------------------------ finite sums in Z[i] *)
Ltac cring := intros; repeat match goal with x : C |- _ => destruct x end;
  unfold cadd, cmul, c0; cbn [fst snd]; f_equal; ring.

Lemma csum_cons x l : csum (x :: l) = cadd x (csum l).
Proof. reflexivity. Qed.
Lemma csum_app l1 l2 : csum (l1 ++ l2) = cadd (csum l1) (csum l2).
Proof.
  induction l1 as [|x l1 IH]; cbn [app]; [symmetry; apply cadd_0_l|].
  rewrite !csum_cons, IH. apply cadd_assoc.
Qed.
Lemma csum_zero {A} (f : A -> C) l : (forall x, In x l -> f x = c0) -> csum (map f l) = c0.
Proof.
  induction l as [|x l IH]; intros H; [reflexivity|]. cbn [map]. rewrite csum_cons.
  rewrite (H x (or_introl eq_refl)), IH; [reflexivity|]. intros y Hy. apply H. right. exact Hy.
Qed.
Lemma csum_ext {A} (f g : A -> C) l : (forall x, In x l -> f x = g x) -> csum (map f l) = csum (map g l).
Proof. intros H. f_equal. apply map_ext_in. exact H. Qed.
Lemma csum_map_add {A} (f g : A -> C) l :
  csum (map (fun x => cadd (f x) (g x)) l) = cadd (csum (map f l)) (csum (map g l)).
Proof.
  induction l as [|x l IH]; cbn [map]; [reflexivity|]. rewrite !csum_cons, IH.
  generalize (f x) (g x) (csum (map f l)) (csum (map g l)). cring.
Qed.
Lemma csum_mul_l {A} s (f : A -> C) l : csum (map (fun x => cmul s (f x)) l) = cmul s (csum (map f l)).
Proof.
  induction l as [|x l IH]; cbn [map]; [symmetry; apply cmul_0_r|]. rewrite !csum_cons, IH.
  symmetry. apply cmul_add_r.
Qed.
Lemma csum_mul_r {A} s (f : A -> C) l : csum (map (fun x => cmul (f x) s) l) = cmul (csum (map f l)) s.
Proof.
  induction l as [|x l IH]; cbn [map]; [symmetry; apply cmul_0_l|]. rewrite !csum_cons, IH.
  symmetry. apply cmul_add_l.
Qed.
Lemma csum_swap {A B} (f : A -> B -> C) lx ly :
  csum (map (fun x => csum (map (fun y => f x y) ly)) lx) = csum (map (fun y => csum (map (fun x => f x y) lx)) ly).
Proof.
  induction lx as [|x lx IH]; cbn [map].
  - symmetry. apply csum_zero. reflexivity.
  - rewrite csum_cons, IH. rewrite <- csum_map_add. reflexivity.
Qed.
Lemma csum_flat_map {A B} (f : B -> C) (h : A -> list B) l :
  csum (map f (flat_map h l)) = csum (map (fun x => csum (map f (h x))) l).
Proof.
  induction l as [|x l IH]; cbn [flat_map map]; [reflexivity|]. rewrite map_app, csum_app, IH. reflexivity.
Qed.

Definition oval (o : option C) : C := match o with Some v => v | None => c0 end.
Lemma osum_csum {A} (g : A -> option C) l : osum (map g l) = csum (map (fun x => oval (g x)) l).
Proof.
  induction l as [|x l IH]; cbn [map]; [reflexivity|]. rewrite osum_cons, csum_cons, IH.
  destruct (g x); cbn [oval]; [reflexivity|symmetry; apply cadd_0_l].
Qed.

(* ------------------------------------------------------------------ one contracted leg: restriction to a charge block *)
Lemma list_sum_firstn_le (l : list nat) q : (list_sum (firstn q l) <= list_sum l)%nat.
Proof.
  revert q. induction l as [|x l IH]; intros [|q]; cbn [firstn list_sum fold_right]; try lia.
  specialize (IH q). unfold list_sum in IH. lia.
Qed.

Lemma block_inside l q : (bstart l q + bsize l q <= ind_len l)%nat.
Proof.
  unfold bstart, bsize, ind_len. rewrite <- firstn_sum_step. apply list_sum_firstn_le.
Qed.

Lemma sum_in1 l q (G : nat -> C) :
  csum (map (fun x => if in1 l q x then G (x - bstart l q)%nat else c0) (seq 0 (ind_len l)))
  = csum (map G (seq 0 (bsize l q))).
Proof.
  pose proof (block_inside l q) as Hin. set (s := bstart l q) in *. set (m := bsize l q) in *.
  replace (ind_len l) with (s + (m + (ind_len l - s - m)))%nat by lia.
  rewrite !seq_app, !map_app, !csum_app. cbn [Nat.add].
  rewrite (csum_zero _ (seq 0 s)).
  2:{ intros x Hx. apply in_seq in Hx. unfold in1. fold s. destruct (s <=? x)%nat eqn:E; [|reflexivity].
      apply Nat.leb_le in E. lia. }
  rewrite (csum_zero _ (seq (s + m) _)).
  2:{ intros x Hx. apply in_seq in Hx. unfold in1. fold s m. destruct (x <? s + m)%nat eqn:E; [|rewrite andb_false_r; reflexivity].
      apply Nat.ltb_lt in E. lia. }
  rewrite cadd_0_l, cadd_0_r. rewrite (map_seq_shift _ s m). apply csum_ext. intros y Hy. apply in_seq in Hy.
  unfold in1. fold s m. replace (s <=? s + y)%nat with true by (symmetry; apply Nat.leb_le; lia).
  replace (s + y <? s + m)%nat with true by (symmetry; apply Nat.ltb_lt; lia). cbn [andb]. f_equal. lia.
Qed.

(* ------------------------------------------------------------------ several contracted legs *)
Lemma multi_idx_cons n sh : multi_idx (n :: sh) = flat_map (fun i => map (cons i) (multi_idx sh)) (seq 0 n).
Proof. reflexivity. Qed.

Lemma multi_idx_length sh c : In c (multi_idx sh) -> length c = length sh.
Proof.
  revert c. induction sh as [|n sh IH]; intros c H.
  - destruct H as [<-|[]]. reflexivity.
  - rewrite multi_idx_cons in H. apply in_flat_map in H. destruct H as [i [_ H]].
    apply in_map_iff in H. destruct H as [c' [<- Hc']]. cbn [length]. rewrite (IH c' Hc'). reflexivity.
Qed.

Lemma inb_cons l ls q qs x idx : inb (l :: ls) (q :: qs) (x :: idx) = in1 l q x && inb ls qs idx.
Proof.
  change (inb ([l] ++ ls) ([q] ++ qs) ([x] ++ idx) = in1 l q x && inb ls qs idx).
  rewrite inb_app by reflexivity. f_equal. unfold inb. cbn [length seq forallb nth]. apply andb_true_r.
Qed.
Lemma loc_cons l ls q qs x idx : loc (l :: ls) (q :: qs) (x :: idx) = (x - bstart l q)%nat :: loc ls qs idx.
Proof.
  change (loc ([l] ++ ls) ([q] ++ qs) ([x] ++ idx) = (x - bstart l q)%nat :: loc ls qs idx).
  rewrite loc_app by reflexivity. reflexivity.
Qed.

Lemma sum_inb lc : forall qc (g : list nat -> C), length qc = length lc ->
  csum (map (fun c => if inb lc qc c then g (loc lc qc c) else c0) (multi_idx (map ind_len lc)))
  = csum (map g (multi_idx (box lc qc))).
Proof.
  induction lc as [|l lc IH]; intros [|q qc] g Hl; cbn [length] in Hl; try discriminate.
  - reflexivity.
  - cbn [map]. unfold box. cbn [combine map fst snd]. fold (box lc qc). rewrite !multi_idx_cons, !csum_flat_map.
    rewrite <- (sum_in1 l q (fun y => csum (map g (map (cons y) (multi_idx (box lc qc)))))).
    apply csum_ext. intros x _. rewrite !map_map.
    destruct (in1 l q x) eqn:E.
    + rewrite <- (IH qc (fun c' => g ((x - bstart l q)%nat :: c'))) by lia.
      apply csum_ext. intros c _. rewrite inb_cons, loc_cons, E. reflexivity.
    + apply csum_zero. intros c _. rewrite inb_cons, E. reflexivity.
Qed.

(* ------------------------------------------------------------------ inb / loc / box depend on the block sizes only *)
Lemma bsz_nth l1 l2 k : map bsz l1 = map bsz l2 -> bsz (nth k l1 dleg) = bsz (nth k l2 dleg).
Proof.
  intros H. transitivity (nth k (map bsz l1) (bsz dleg)); [symmetry; apply map_nth|rewrite H; apply map_nth].
Qed.

Lemma inb_bsz l1 l2 qs idx : map bsz l1 = map bsz l2 -> inb l1 qs idx = inb l2 qs idx.
Proof.
  intros H. unfold inb. assert (Hl : length l1 = length l2) by (rewrite <- (map_length bsz l1), H, map_length; reflexivity).
  rewrite Hl. apply forallb_ext_in. intros k _. unfold in1, bstart, bsize. rewrite (bsz_nth l1 l2 k H). reflexivity.
Qed.
Lemma loc_bsz l1 l2 qs idx : map bsz l1 = map bsz l2 -> loc l1 qs idx = loc l2 qs idx.
Proof.
  intros H. unfold loc. assert (Hl : length l1 = length l2) by (rewrite <- (map_length bsz l1), H, map_length; reflexivity).
  rewrite Hl. apply map_ext. intros k. unfold bstart. rewrite (bsz_nth l1 l2 k H). reflexivity.
Qed.

Lemma loc_length ls qs idx : length (loc ls qs idx) = length ls.
Proof. unfold loc. rewrite map_length, seq_length. reflexivity. Qed.

(* ------------------------------------------------------------------ one pair of blocks *)
(* a = (lak ++ lac) with block (qak ++ qac, fa);  b = (lbc ++ lbk) with block (qbc ++ qbk, fb); lac, lbc have equal block sizes.
   Summing the product of the two embedded blocks over ALL contracted multi-indices gives the embedded block-matrix
   product if the contracted qindices agree, and 0 otherwise: entries whose contracted multi-indices lie in different
   charge blocks never meet. *)
Lemma pair_sum lak lac lbc lbk qak qac qbc qbk fa fb ia ib :
  map bsz lac = map bsz lbc ->
  length qak = length lak -> length qac = length lac -> length qbc = length lbc -> length ia = length lak ->
  csum (map (fun c => cmul (oval (bval (lak ++ lac) (ia ++ c) (qak ++ qac, fa)))
                           (oval (bval (lbc ++ lbk) (c ++ ib) (qbc ++ qbk, fb))))
            (multi_idx (map ind_len lac)))
  = if row_eqb qac qbc
    then oval (bval (lak ++ lbk) (ia ++ ib) (tdot_block (length lak) (length lac) lac (qak ++ qac, fa) (qbc ++ qbk, fb)))
    else c0.
Proof.
  intros Hbsz Hqak Hqac Hqbc Hia.
  assert (Hlc : length lac = length lbc) by (rewrite <- (map_length bsz lac), Hbsz, map_length; reflexivity).
  (* normal form of every term *)
  assert (Hterm : forall c, In c (multi_idx (map ind_len lac)) ->
     cmul (oval (bval (lak ++ lac) (ia ++ c) (qak ++ qac, fa))) (oval (bval (lbc ++ lbk) (c ++ ib) (qbc ++ qbk, fb)))
     = if inb lak qak ia && inb lbk qbk ib
       then cmul (if inb lac qac c then fa (loc lak qak ia ++ loc lac qac c) else c0)
                 (if inb lac qbc c then fb (loc lac qbc c ++ loc lbk qbk ib) else c0)
       else c0).
  { intros c Hc. apply multi_idx_length in Hc. rewrite map_length in Hc.
    unfold bval. cbn [fst snd]. rewrite !inb_app, !loc_app by lia.
    rewrite <- (inb_bsz lac lbc qbc c Hbsz), <- (loc_bsz lac lbc qbc c Hbsz).
    destruct (inb lak qak ia), (inb lbk qbk ib), (inb lac qac c), (inb lac qbc c); cbn [andb oval];
      rewrite ?cmul_0_l, ?cmul_0_r; reflexivity. }
  rewrite (csum_ext _ _ _ Hterm). clear Hterm.
  (* the block of the result *)
  assert (Hres : oval (bval (lak ++ lbk) (ia ++ ib) (tdot_block (length lak) (length lac) lac (qak ++ qac, fa) (qbc ++ qbk, fb)))
     = if inb lak qak ia && inb lbk qbk ib
       then csum (map (fun c' => cmul (fa (loc lak qak ia ++ c')) (fb (c' ++ loc lbk qbk ib))) (multi_idx (box lac qac)))
       else c0).
  { unfold bval, tdot_block. cbn [fst snd].
    assert (F1 : firstn (length lak) (qak ++ qac) = qak) by (rewrite <- Hqak; apply firstn_app_len).
    assert (F2 : skipn (length lak) (qak ++ qac) = qac) by (rewrite <- Hqak; apply skipn_app_len).
    assert (F3 : skipn (length lac) (qbc ++ qbk) = qbk) by (rewrite Hlc, <- Hqbc; apply skipn_app_len).
    rewrite !F1, F2, F3. rewrite inb_app, loc_app by lia.
    destruct (inb lak qak ia && inb lbk qbk ib); [|reflexivity]. cbn [oval].
    rewrite <- (loc_length lak qak ia). rewrite firstn_app_len, skipn_app_len. reflexivity. }
  rewrite Hres. clear Hres.
  destruct (inb lak qak ia && inb lbk qbk ib).
  2:{ rewrite csum_zero by reflexivity. destruct (row_eqb qac qbc); reflexivity. }
  destruct (row_eqb qac qbc) eqn:E.
  - apply row_eqb_eq in E. subst qbc.
    rewrite <- (sum_inb lac qac (fun c' => cmul (fa (loc lak qak ia ++ c')) (fb (c' ++ loc lbk qbk ib)))) by exact Hqac.
    apply csum_ext. intros c _. destruct (inb lac qac c); [reflexivity|apply cmul_0_l].
  - apply csum_zero. intros c _.
    destruct (inb lac qac c) eqn:E1; [|apply cmul_0_l].
    rewrite (inb_disjoint lac qac qbc c); [apply cmul_0_r|exact Hqac|lia| |exact E1].
    intros Heq. subst qbc. assert (row_eqb qac qac = true) by (apply row_eqb_eq; reflexivity). congruence.
Qed.

(* ------------------------------------------------------------------ all pairs: dense form on the level of sums of blocks *)
Theorem tdot_pairs_dense_sum k a b idx :
  rows_shape a -> rows_shape b -> (k <= rank a)%nat -> (k <= rank b)%nat ->
  map bsz (skipn (rank a - k) (legs a)) = map bsz (firstn k (legs b)) ->
  (rank a - k <= length idx)%nat ->
  osum (map (bval (tdot_legs k a b) idx) (tdot_pairs k a b))
  = d_tensordot (dense_sum a) (dense_sum b) (map ind_len (skipn (rank a - k) (legs a))) (rank a - k) idx.
Proof.
  intros Sa Sb Hka Hkb Hbsz Hidx. unfold rank in *. set (nk := (length (legs a) - k)%nat) in *.
  set (ia := firstn nk idx). set (ib := skipn nk idx).
  assert (Hia : length ia = nk) by (unfold ia; rewrite firstn_length; lia).
  set (lak := firstn nk (legs a)). set (lac := skipn nk (legs a)) in *.
  set (lbc := firstn k (legs b)) in *. set (lbk := skipn k (legs b)).
  assert (Hlak : length lak = nk) by (unfold lak; rewrite firstn_length; lia).
  assert (Hlac : length lac = k) by (unfold lac; rewrite skipn_length; lia).
  assert (Hlbc : length lbc = k) by (unfold lbc; rewrite firstn_length; lia).
  (* right-hand side: bilinearity and exchange of the sums *)
  unfold d_tensordot. fold ia ib.
  transitivity (csum (map (fun bb => csum (map (fun ba =>
      csum (map (fun c => cmul (oval (bval (legs a) (ia ++ c) ba)) (oval (bval (legs b) (c ++ ib) bb)))
                (multi_idx (map ind_len lac)))) (blks a))) (blks b))).
  2:{ rewrite (csum_ext _ (fun bb => csum (map (fun c => csum (map (fun ba =>
          cmul (oval (bval (legs a) (ia ++ c) ba)) (oval (bval (legs b) (c ++ ib) bb))) (blks a)))
          (multi_idx (map ind_len lac)))) (blks b)) by (intros bb _; apply csum_swap).
      rewrite csum_swap. apply csum_ext. intros c _.
      unfold dense_sum. rewrite !osum_csum.
      rewrite <- csum_mul_l. apply csum_ext. intros bb _. rewrite csum_mul_r. reflexivity. }
  (* left-hand side: one term per pair *)
  rewrite osum_csum. unfold tdot_pairs. fold nk lac. rewrite csum_flat_map.
  apply csum_ext. intros bb Hbb. rewrite csum_flat_map. apply csum_ext. intros ba Hba.
  pose proof (Sa (fst ba) (in_map fst _ _ Hba)) as Lra. pose proof (Sb (fst bb) (in_map fst _ _ Hbb)) as Lrb.
  unfold rank in Lra, Lrb.
  destruct ba as [ra fa], bb as [rb fb]. cbn [fst snd] in *.
  pose proof (pair_sum lak lac lbc lbk (firstn nk ra) (skipn nk ra) (firstn k rb) (skipn k rb) fa fb ia ib Hbsz) as P.
  rewrite !firstn_skipn in P. unfold lak, lac, lbc, lbk in P. rewrite !firstn_skipn in P. fold lak lac lbc lbk in P.
  rewrite P.
  - rewrite Hlak, Hlac. unfold tdot_legs, rank. fold nk lak lbk. unfold ia, ib. rewrite (firstn_skipn nk idx).
    destruct (row_eqb (skipn nk ra) (firstn k rb)); cbn [map csum]; [apply cadd_0_r|reflexivity].
  - rewrite firstn_length. lia.
  - rewrite skipn_length. lia.
  - rewrite firstn_length. lia.
  - lia.
Qed.

(* ------------------------------------------------------------------ adding up the products with equal result rows *)
Lemma add_block_osum ls idx b l :
  osum (map (bval ls idx) (add_block b l)) = cadd (oval (bval ls idx b)) (osum (map (bval ls idx) l)).
Proof.
  induction l as [|c t IH]; cbn [add_block map].
  - rewrite osum_cons, osum_nil. destruct (bval ls idx b); reflexivity.
  - destruct (row_eqb (fst c) (fst b)) eqn:E.
    + apply row_eqb_eq in E. destruct c as [rc fc], b as [rb fb]. cbn [fst snd] in *. subst rb.
      cbn [map]. rewrite !osum_cons, bval_badd. unfold bval. cbn [fst snd].
      destruct (inb ls rc idx); cbn [oval]; [|symmetry; apply cadd_0_l].
      generalize (osum (map (bval ls idx) t)) (fc (loc ls rc idx)) (fb (loc ls rc idx)). cring.
    + cbn [map]. rewrite !osum_cons, IH.
      generalize (osum (map (bval ls idx) t)) (oval (bval ls idx b)). destruct (bval ls idx c); cring.
Qed.

Lemma collect_osum ls idx l : osum (map (bval ls idx) (collect l)) = osum (map (bval ls idx) l).
Proof.
  induction l as [|b l IH]; [reflexivity|]. cbn [collect fold_right map]. fold (collect l).
  rewrite add_block_osum, IH, osum_cons. destruct (bval ls idx b); cbn [oval]; [reflexivity|apply cadd_0_l].
Qed.

Lemma add_block_rows_in b l r : In r (map fst (add_block b l)) <-> r = fst b \/ In r (map fst l).
Proof.
  induction l as [|c t IH]; cbn [add_block map In].
  - intuition.
  - destruct (row_eqb (fst c) (fst b)) eqn:E.
    + apply row_eqb_eq in E. cbn [map fst In]. rewrite E. intuition.
    + cbn [map In]. rewrite IH. intuition.
Qed.

Lemma add_block_nodup b l : NoDup (map fst l) -> NoDup (map fst (add_block b l)).
Proof.
  induction l as [|c t IH]; intros H; cbn [add_block map].
  - constructor; [intros []|constructor].
  - cbn [map] in H. inversion H as [|x y Hx Hy]; subst.
    destruct (row_eqb (fst c) (fst b)) eqn:E; cbn [map fst]; [exact H|].
    constructor; [|apply IH; exact Hy].
    intros Hin. apply add_block_rows_in in Hin. destruct Hin as [Hin|Hin]; [|exact (Hx Hin)].
    apply row_eqb_eq in Hin. congruence.
Qed.

Lemma collect_nodup l : NoDup (map fst (collect l)).
Proof.
  induction l as [|b l IH]; [constructor|]. cbn [collect fold_right]. fold (collect l). apply add_block_nodup. exact IH.
Qed.

Lemma collect_rows_in l r : In r (map fst (collect l)) <-> In r (map fst l).
Proof.
  induction l as [|b l IH]; [reflexivity|]. cbn [collect fold_right]. fold (collect l).
  rewrite add_block_rows_in, IH. cbn [map In]. intuition.
Qed.

(* ------------------------------------------------------------------ the rows: tie to the correspondence-checked tdot_rows *)
Lemma tdot_pairs_rows k a b : map fst (tdot_pairs k a b) = tdot_rows k a b.
Proof.
  unfold tdot_pairs, tdot_rows, rows.
  induction (blks b) as [|bb tb IHb]; cbn [flat_map map]; [reflexivity|].
  rewrite map_app. f_equal; [clear IHb|exact IHb].
  induction (blks a) as [|ba ta IHa]; cbn [flat_map map]; [reflexivity|].
  rewrite map_app. f_equal; [|exact IHa].
  destruct (row_eqb (skipn (rank a - k) (fst ba)) (firstn k (fst bb))); reflexivity.
Qed.

Lemma tensordot_rows_perm ci k a b :
  Permutation (rows (tensordot ci k a b)) (map fst (collect (tdot_pairs k a b))).
Proof. unfold tensordot, rows. cbn [blks]. apply Permutation_map. apply sort_blocks_perm. Qed.

Lemma tensordot_rows_in ci k a b r : In r (rows (tensordot ci k a b)) <-> In r (tdot_rows k a b).
Proof.
  rewrite <- tdot_pairs_rows, <- collect_rows_in. split; intros H.
  - eapply Permutation_in; [apply tensordot_rows_perm|exact H].
  - eapply Permutation_in; [apply Permutation_sym; apply tensordot_rows_perm|exact H].
Qed.

Lemma tensordot_ssorted ci k a b : ssorted (rows (tensordot ci k a b)).
Proof. unfold tensordot, rows. cbn [blks]. apply sort_blocks_ssorted. apply collect_nodup. Qed.

Lemma tensordot_rank ci k a b : (k <= rank a)%nat -> (k <= rank b)%nat ->
  rank (tensordot ci k a b) = (rank a - k + (rank b - k))%nat.
Proof.
  intros Ha Hb. unfold rank, tensordot, tdot_legs in *. cbn [legs]. unfold rank.
  rewrite app_length, firstn_length, skipn_length. lia.
Qed.

Lemma tensordot_rows_shape ci k a b : rows_shape a -> rows_shape b -> (k <= rank a)%nat -> (k <= rank b)%nat ->
  rows_shape (tensordot ci k a b).
Proof.
  intros Sa Sb Ha Hb r Hr. apply tensordot_rows_in in Hr.
  destruct (tdot_rows_in k a b r Hr) as [ra [rb [Ia [Ib [_ ->]]]]].
  rewrite tensordot_rank by assumption. rewrite app_length, firstn_length, skipn_length.
  rewrite (Sa ra Ia), (Sb rb Ib). lia.
Qed.

Lemma contractible_bsz ci l1 l2 : Forall2 (contractible ci) l1 l2 -> map bsz l1 = map bsz l2.
Proof. induction 1 as [|x y l1 l2 [H _] _ IH]; cbn [map]; [reflexivity|]. rewrite H, IH. reflexivity. Qed.

(* ------------------------------------------------------------------ C02: the result of tensordot is well-formed *)
Theorem wf_tensordot ci k a b : valid_ci ci -> WF ci a -> WF ci b -> (k <= rank a)%nat -> (k <= rank b)%nat ->
  Forall2 (contractible ci) (skipn (rank a - k) (legs a)) (firstn k (legs b)) ->
  WF ci (tensordot ci k a b).
Proof.
  intros Hv Wa Wb Hka Hkb HF.
  pose proof (charge_rule_tensordot ci k a b Hv Wa Wb Hka Hkb HF) as Hrule.
  destruct Wa as [A1 A2 A3 A4 A5], Wb as [B1 B2 B3 B4 B5]. constructor.
  - unfold tensordot, tdot_qtot. cbn [qtot]. apply make_valid_length. rewrite vadd_length; lia.
  - apply tensordot_rows_shape; assumption.
  - apply ssorted_nodup. apply tensordot_ssorted.
  - intros r Hr. apply tensordot_rows_in in Hr. exact (Hrule r Hr).
  - intros _. apply strictly_of_ssorted. apply tensordot_ssorted.
Qed.

(* ------------------------------------------------------------------ C01: dense form of tensordot *)
Theorem tensordot_dense_sum ci k a b idx :
  rows_shape a -> rows_shape b -> (k <= rank a)%nat -> (k <= rank b)%nat ->
  map bsz (skipn (rank a - k) (legs a)) = map bsz (firstn k (legs b)) ->
  (rank a - k <= length idx)%nat ->
  dense_sum (tensordot ci k a b) idx
  = d_tensordot (dense_sum a) (dense_sum b) (map ind_len (skipn (rank a - k) (legs a))) (rank a - k) idx.
Proof.
  intros Sa Sb Hka Hkb Hbsz Hidx. rewrite <- tdot_pairs_dense_sum by assumption.
  unfold dense_sum, tensordot. cbn [legs blks]. rewrite <- (collect_osum (tdot_legs k a b) idx (tdot_pairs k a b)).
  apply osum_perm. apply Permutation_map. apply sort_blocks_perm.
Qed.

Lemma d_tensordot_ext A A' B B' sh nk idx : (forall x, A x = A' x) -> (forall x, B x = B' x) ->
  d_tensordot A B sh nk idx = d_tensordot A' B' sh nk idx.
Proof. intros HA HB. unfold d_tensordot. apply csum_ext. intros c _. rewrite HA, HB. reflexivity. Qed.

Theorem tensordot_dense ci k a b idx : WF ci a -> WF ci b -> (k <= rank a)%nat -> (k <= rank b)%nat ->
  Forall2 (contractible ci) (skipn (rank a - k) (legs a)) (firstn k (legs b)) ->
  (rank a - k <= length idx)%nat ->
  to_ndarray (tensordot ci k a b) idx
  = d_tensordot (to_ndarray a) (to_ndarray b) (map ind_len (skipn (rank a - k) (legs a))) (rank a - k) idx.
Proof.
  intros [A1 A2 A3 A4 A5] [B1 B2 B3 B4 B5] Hka Hkb HF Hidx.
  rewrite to_ndarray_sum; [|apply ssorted_nodup; apply tensordot_ssorted|apply tensordot_rows_shape; assumption].
  rewrite (d_tensordot_ext (to_ndarray a) (dense_sum a) (to_ndarray b) (dense_sum b))
    by (intros x; apply to_ndarray_sum; assumption).
  apply tensordot_dense_sum; try assumption. apply (contractible_bsz ci). exact HF.
Qed.

(* everything the property says about tensordot in one statement *)
Theorem tensordot_full ci k a b : valid_ci ci -> WF ci a -> WF ci b -> (k <= rank a)%nat -> (k <= rank b)%nat ->
  Forall2 (contractible ci) (skipn (rank a - k) (legs a)) (firstn k (legs b)) ->
  WF ci (tensordot ci k a b) /\
  qtot (tensordot ci k a b) = make_valid ci (vadd (qtot a) (qtot b)) /\
  legs (tensordot ci k a b) = firstn (rank a - k) (legs a) ++ skipn k (legs b) /\
  (forall r, In r (rows (tensordot ci k a b)) <-> In r (tdot_rows k a b)) /\
  (forall idx, (rank a - k <= length idx)%nat ->
     to_ndarray (tensordot ci k a b) idx
     = d_tensordot (to_ndarray a) (to_ndarray b) (map ind_len (skipn (rank a - k) (legs a))) (rank a - k) idx).
Proof.
  intros Hv Wa Wb Hka Hkb HF. split; [apply wf_tensordot; assumption|]. split; [reflexivity|]. split; [reflexivity|].
  split; [intros r; apply tensordot_rows_in|]. intros idx Hidx. apply tensordot_dense; assumption.
Qed.

(* the value model is tied to the row model of Model/TensorOps.v *)
Lemma tensordot_rows_tie ci k a b :
  map fst (tdot_pairs k a b) = tdot_rows k a b /\
  (forall r, In r (rows (tensordot ci k a b)) <-> In r (tdot_rows k a b)) /\
  legs (tensordot ci k a b) = tdot_legs k a b /\ qtot (tensordot ci k a b) = tdot_qtot ci a b.
Proof.
  split; [apply tdot_pairs_rows|]. split; [intros r; apply tensordot_rows_in|]. split; reflexivity.
Qed.
