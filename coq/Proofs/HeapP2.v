(* C17 - proofs about Model/Heap.v, part 2: totality of the memoised copy with LATE nodes (the loader: tuples are
   memoised after their children).  A late node can be entered again while it is being copied (it is not in the memo
   yet), so the recursion depth is not bounded by the number of nodes.  It is bounded by (nodes+1)^2 when no late node
   lies on a reference cycle of late nodes only: on the stack of active visits every early node occurs once (it is in
   the memo), and between two early nodes the late nodes form a path of late steps, which cannot repeat a node.
   Measure: (unvisited nodes) * (nodes+1) + (nodes - length of the current late path). *)
From TenpyV Require Import Base.Prelude Model.Heap Proofs.HeapP.

Lemma path_short (h : heap) (P : list nat) : NoDup P -> (forall p, In p P -> p < length h) -> length P <= length h.
Proof.
  intros ND Hlt. rewrite <- (seq_length (length h) 0). apply NoDup_incl_length; [exact ND|].
  intros p Hp. apply in_seq. specialize (Hlt p Hp). lia.
Qed.

Section Total.
  Variable late : node -> bool.
  Variable h : heap.
  Hypothesis Hclosed : closed h.
  Hypothesis Hacyc : no_late_cycle late h.
  (* K bounds the number of distinct nodes on a path of late steps that ends in a late node *)
  Variable K : nat.
  Hypothesis HK : forall x nd P, nth_error h x = Some nd -> late nd = true -> NoDup (x :: P) ->
    (forall p, In p P -> p < length h /\ late_reach late h p x) -> S (length P) <= K.

  Lemma visit_total_gen : forall fuel x st P, WF st -> x < length h -> NoDup P ->
    (forall p, In p P -> p < length h /\ late_reach late h p x) ->
    unvisited (length h) (st_memo st) * S K + (K - length P) + 1 <= fuel ->
    exists st' x', visit late h fuel x st = Some (st', x').
  Proof.
    induction fuel as [|f IH]; intros x st P W Hx ND HP Hfuel; [lia|].
    cbn [visit]. destruct (lookup x (st_memo st)) as [v|] eqn:L; [eauto|].
    destruct (nth_error h x) as [nd|] eqn:Hn; [|apply nth_error_None in Hn; lia].
    assert (Hcs : Forall (fun c => c < length h) (children nd)) by exact (Hclosed x nd Hn).
    destruct (late nd) eqn:Hl.
    - (* late: x joins the current late path *)
      assert (HnotP : ~ In x P).
      { intros Hin. destruct (HP x Hin) as [_ Hr]. exact (Hacyc x Hr). }
      assert (ND' : NoDup (x :: P)) by (constructor; assumption).
      assert (Hlen : S (length P) <= K) by exact (HK x nd P Hn Hl ND' HP).
      assert (HL : forall cs st0, Forall (fun c => c < length h) cs -> (forall c, In c cs -> In c (children nd)) ->
                 WF st0 -> unvisited (length h) (st_memo st0) <= unvisited (length h) (st_memo st) ->
                 exists st1 cs', visit_list (visit late h f) cs st0 = Some (st1, cs')).
      { induction cs as [|c t IHc]; intros st0 Fc Hsub W1 U1; cbn [visit_list]; [eauto|].
        inversion Fc as [|? ? Hc1 Ft]; subst.
        assert (Hstep : late_step late h x c).
        { exists nd. split; [exact Hn|]. split; [exact Hl|]. apply Hsub. left. reflexivity. }
        destruct (IH c st0 (x :: P) W1 Hc1 ND') as (st1 & c1 & V1).
        { intros p [<-|Hp]; [split; [exact Hx|apply lr_step, Hstep]|].
          destruct (HP p Hp) as [Hplt Hpr]. split; [exact Hplt|]. eapply lr_trans; eassumption. }
        { cbn [length].
          pose proof (Nat.mul_le_mono_r _ _ (S K) U1). lia. }
        rewrite V1.
        destruct (visit_ok late h f c st0 st1 c1 W1 V1) as [(W2 & [new E2] & _) _].
        assert (U2 : unvisited (length h) (st_memo st1) <= unvisited (length h) (st_memo st)).
        { rewrite E2. pose proof (unvisited_ext (length h) new (st_memo st0)). lia. }
        destruct (IHc st1 Ft (fun c0 Hc0 => Hsub c0 (or_intror Hc0)) W2 U2) as (st2 & t' & V2).
        rewrite V2. eauto. }
      destruct (HL (children nd) st Hcs (fun c Hc => Hc) W (le_n _)) as (st1 & cs' & V). rewrite V.
      destruct (lookup x (st_memo st1)); eauto.
    - (* early: x enters the memo, a new late path starts below it *)
      assert (W0 := WF_alloc st x nd W L).
      pose proof (unvisited_cons (length h) x (length (st_out st)) (st_memo st) Hx L) as Hu0.
      assert (HL : forall cs st0, Forall (fun c => c < length h) cs -> WF st0 ->
                 unvisited (length h) (st_memo st0) < unvisited (length h) (st_memo st) ->
                 exists st1 cs', visit_list (visit late h f) cs st0 = Some (st1, cs')).
      { induction cs as [|c t IHc]; intros st0 Fc W1 U1; cbn [visit_list]; [eauto|].
        inversion Fc as [|? ? Hc1 Ft]; subst.
        destruct (IH c st0 [] W1 Hc1 (NoDup_nil _)) as (st1 & c1 & V1).
        { intros p []. }
        { cbn [length].
          pose proof (Nat.mul_le_mono_r _ _ (S K) U1) as HM. cbn [Nat.mul] in HM. lia. }
        rewrite V1.
        destruct (visit_ok late h f c st0 st1 c1 W1 V1) as [(W2 & [new E2] & _) _].
        assert (U2 : unvisited (length h) (st_memo st1) < unvisited (length h) (st_memo st)).
        { rewrite E2. pose proof (unvisited_ext (length h) new (st_memo st0)). lia. }
        destruct (IHc st1 Ft W2 U2) as (st2 & t' & V2). rewrite V2. eauto. }
      destruct (HL (children nd) _ Hcs W0 Hu0) as (st1 & cs' & V). rewrite V. eauto.
  Qed.

  Lemma copy_total_K r : r < length h ->
    exists h1 r1, copy late (S (length h) * S K) h r = Some (h1, r1).
  Proof.
    intros Hr. unfold copy.
    destruct (visit_total_gen (S (length h) * S K) r (mkState [] []) [] WF_init Hr (NoDup_nil _)) as (st & r1 & V).
    { intros p []. }
    { cbn [st_memo length]. pose proof (unvisited_le (length h) []) as HU.
      pose proof (Nat.mul_le_mono_r _ _ (S K) HU). lia. }
    rewrite V. eauto.
  Qed.
End Total.

Lemma copy_total late h : closed h -> no_late_cycle late h -> forall r, r < length h ->
  exists h1 r1, copy late (S (length h) * S (length h)) h r = Some (h1, r1).
Proof.
  intros Hc Ha. apply (copy_total_K late h Hc Ha (length h)).
  intros x nd P Hn Hl ND HP. change (length (x :: P) <= length h). apply path_short; [exact ND|].
  intros p [<-|Hp]; [apply nth_error_Some; rewrite Hn; discriminate|apply HP, Hp].
Qed.

Lemma load_total h r : closed h -> no_late_cycle is_tuple h -> r < length h ->
  exists h1 r1, load (S (length h) * S (length h)) h r = Some (h1, r1).
Proof. intros Hc Ha Hr. unfold load. apply copy_total; assumption. Qed.

(* ---- criteria for the absence of late cycles *)
Lemma late_reach_source late h x c : late_reach late h x c -> exists nd, nth_error h x = Some nd /\ late nd = true.
Proof.
  induction 1 as [x c Hs|x y c Hr IH Hs]; [|exact IH].
  destruct Hs as [nd [Hn [Hl _]]]. exists nd. split; assumption.
Qed.

(* a rank that decreases along every step from a late node to a late child *)
Lemma ranked_no_late_cycle late h (rk : nat -> nat) :
  (forall x c nd', late_step late h x c -> nth_error h c = Some nd' -> late nd' = true -> rk c < rk x) ->
  no_late_cycle late h.
Proof.
  intros Hrk.
  assert (H : forall x c, late_reach late h x c ->
              forall nd', nth_error h c = Some nd' -> late nd' = true -> rk c < rk x).
  { induction 1 as [x c Hs|x y c Hr IH Hs]; intros nd' Hn Hl.
    - eapply Hrk; eassumption.
    - pose proof (Hrk y c nd' Hs Hn Hl) as H1. destruct Hs as [ndy [Hy [Hly Hin]]].
      pose proof (IH ndy Hy Hly). lia. }
  intros x Hr. destruct (late_reach_source late h x x Hr) as [nd [Hn Hl]].
  specialize (H x x Hr nd Hn Hl). lia.
Qed.

Lemma flat_no_late_cycle late h : late_flat late h -> no_late_cycle late h.
Proof.
  intros Hf. apply (ranked_no_late_cycle late h (fun _ => 0)).
  intros x c nd' Hs Hn Hl. rewrite (Hf x c nd' Hs Hn) in Hl. discriminate.
Qed.

Lemma load_total_flat h r : closed h -> late_flat is_tuple h -> r < length h ->
  exists h1 r1, load (S (length h) * S (length h)) h r = Some (h1, r1).
Proof. intros Hc Hf Hr. apply load_total; [exact Hc|apply flat_no_late_cycle, Hf|exact Hr]. Qed.

(* without late nodes nothing is required *)
Lemma never_no_late_cycle h : no_late_cycle never h.
Proof. intros x Hr. destruct (late_reach_source never h x x Hr) as [nd [_ Hl]]. discriminate. Qed.

(* ---- examples: nested tuples on cycles through lists; a tuple is re-entered while it is being loaded, so fuel =
   nodes + 1 is NOT enough, the quadratic bound is *)
Definition ex_reentry : heap :=
  [NTuple [1]; NTuple [2; 3]; NList [0]; NList [0; 4]; Leaf 7%Z].

Lemma ex_reentry_ok :
  closed ex_reentry /\ no_late_cycle is_tuple ex_reentry /\ ~ late_flat is_tuple ex_reentry /\
  load (S (length ex_reentry)) ex_reentry 0 = None /\
  exists h1, load (S (length ex_reentry) * S (length ex_reentry)) ex_reentry 0 = Some (h1, 3) /\
             canon h1 3 = canon ex_reentry 0.
Proof.
  split; [|split; [|split; [|split]]].
  - intros x n H. do 5 (destruct x as [|x]; [inversion H; subst; cbn; repeat constructor|]).
    destruct x; discriminate.
  - apply (ranked_no_late_cycle is_tuple ex_reentry (fun x => 10 - x)).
    intros x c nd' [nd [Hn [Hl Hin]]] Hc Hlc.
    do 5 (destruct x as [|x]; [inversion Hn; subst nd; cbn in Hl, Hin; try discriminate;
                               repeat (destruct Hin as [<-|Hin]; [cbn in Hc; inversion Hc; subst nd'; cbn in Hlc; try discriminate; cbn; lia|]);
                               try contradiction|]).
    destruct x; discriminate.
  - intros Hf. specialize (Hf 0 1 (NTuple [2; 3])). cbn in Hf.
    assert (H : true = false); [apply Hf; [|reflexivity]|discriminate].
    exists (NTuple [1]). cbn. auto.
  - vm_compute. reflexivity.
  - vm_compute. eexists. split; reflexivity.
Qed.

(* ---------------------------------------------------------------- more fuel does not change the result *)
Lemma visit_list_mono (f g : nat -> state -> option (state * nat)) :
  (forall c st r, f c st = Some r -> g c st = Some r) ->
  forall cs st r, visit_list f cs st = Some r -> visit_list g cs st = Some r.
Proof.
  intros Hfg. induction cs as [|c t IH]; intros st r H; cbn [visit_list] in *; [exact H|].
  destruct (f c st) as [[st1 c1]|] eqn:F; [|discriminate].
  rewrite (Hfg _ _ _ F).
  destruct (visit_list f t st1) as [[st2 t']|] eqn:V; [|discriminate].
  rewrite (IH _ _ V). exact H.
Qed.

Lemma visit_fuel_mono late h : forall f x st r, visit late h f x st = Some r ->
  forall f', f <= f' -> visit late h f' x st = Some r.
Proof.
  induction f as [|f IH]; intros x st r H f' Hle.
  - destruct f'; cbn [visit] in *; destruct (lookup x (st_memo st)); try exact H; discriminate.
  - destruct f' as [|f']; [lia|]. cbn [visit] in H |- *.
    assert (Hmono : forall c st0 r0, visit late h f c st0 = Some r0 -> visit late h f' c st0 = Some r0).
    { intros c st0 r0 Hc. apply (IH c st0 r0 Hc). lia. }
    destruct (lookup x (st_memo st)); [exact H|].
    destruct (nth_error h x) as [nd|]; [|exact H].
    destruct (late nd).
    + destruct (visit_list (visit late h f) (children nd) st) as [[st1 cs']|] eqn:V; [|discriminate].
      rewrite (visit_list_mono _ _ Hmono _ _ _ V). exact H.
    + match type of H with context [visit_list ?g ?cs ?s] =>
        destruct (visit_list g cs s) as [[st1 cs']|] eqn:V; [|discriminate] end.
      rewrite (visit_list_mono _ _ Hmono _ _ _ V). exact H.
Qed.

Lemma copy_fuel_mono late h r f f' res : copy late f h r = Some res -> f <= f' -> copy late f' h r = Some res.
Proof.
  unfold copy. destruct (visit late h f r (mkState [] [])) as [[st r1]|] eqn:V; [|discriminate].
  intros H Hle. rewrite (visit_fuel_mono late h f r _ _ V f' Hle). exact H.
Qed.

(* ---------------------------------------------------------------- what an isomorphism transports *)
Lemma node_rel_children m n n' : node_rel m n n' -> rel_ids m (children n) (children n').
Proof.
  destruct n, n'; cbn; try contradiction; unfold rel_ids; intros H; try exact H.
  - constructor.
  - destruct H as [A B]. apply Forall2_app; assumption.
  - destruct H as (_ & _ & C). exact C.
Qed.

Lemma node_rel_tuple m n n' : node_rel m n n' -> is_tuple n' = is_tuple n.
Proof. destruct n, n'; cbn; try contradiction; reflexivity. Qed.

Lemma rel_ids_in_r m cs cs' c' : rel_ids m cs cs' -> In c' cs' -> exists c, In c cs /\ m c = Some c'.
Proof.
  unfold rel_ids. induction 1 as [|c d cs cs' Hcd _ IH]; intros Hin; [contradiction|].
  destruct Hin as [<-|Hin].
  - exists c. split; [left; reflexivity|exact Hcd].
  - destruct (IH Hin) as [c0 [H1 H2]]. exists c0. split; [right; exact H1|exact H2].
Qed.

Section IsoTransport.
  Variables (m : nat -> option nat) (h : heap) (r : nat) (h' : heap) (r' : nat).
  Hypothesis I : iso m h r h' r'.

  Lemma iso_lt x x' : m x = Some x' -> x < length h /\ x' < length h'.
  Proof.
    intros Hx. destruct I as [_ Nd _ _]. destruct (Nd x x' Hx) as (n & n' & A & B & _).
    split; apply nth_error_Some; [rewrite A|rewrite B]; discriminate.
  Qed.

  Lemma iso_root_lt : r' < length h'.
  Proof. destruct I as [R _ _ _]. exact (proj2 (iso_lt r r' R)). Qed.

  Lemma iso_closed : closed h'.
  Proof.
    intros x' n' Hn'.
    assert (Hlt : x' < length h') by (apply nth_error_Some; rewrite Hn'; discriminate).
    pose proof I as [_ Nd _ Sj]. destruct (Sj x' Hlt) as [x Hx].
    destruct (Nd x x' Hx) as (n & n'' & A & B & C). rewrite Hn' in B. inversion B; subst n''.
    apply node_rel_children in C. apply Forall_forall. intros c' Hc'.
    destruct (rel_ids_in_r _ _ _ _ C Hc') as [c [_ Hc]]. exact (proj2 (iso_lt c c' Hc)).
  Qed.

  Lemma iso_tuple_step x' c' : late_step is_tuple h' x' c' -> forall x, m x = Some x' ->
    exists c, m c = Some c' /\ late_step is_tuple h x c.
  Proof.
    intros [n' [Hn' [Hl Hin]]] x Hx. pose proof I as [_ Nd _ _].
    destruct (Nd x x' Hx) as (n & n'' & A & B & C). rewrite Hn' in B. inversion B; subst n''.
    pose proof (node_rel_tuple _ _ _ C) as Ht. apply node_rel_children in C.
    destruct (rel_ids_in_r _ _ _ _ C Hin) as [c [Hcin Hmc]].
    exists c. split; [exact Hmc|]. exists n. split; [exact A|]. split; [congruence|exact Hcin].
  Qed.

  Lemma iso_tuple_reach x' y' : late_reach is_tuple h' x' y' -> forall x, m x = Some x' ->
    exists y, m y = Some y' /\ late_reach is_tuple h x y.
  Proof.
    induction 1 as [x' c' Hs|x' y' c' Hr IH Hs]; intros x Hx.
    - destruct (iso_tuple_step x' c' Hs x Hx) as [c [Hc Hsc]]. exists c. split; [exact Hc|apply lr_step, Hsc].
    - destruct (IH x Hx) as [y [Hy Hry]].
      destruct (iso_tuple_step y' c' Hs y Hy) as [c [Hc Hsc]].
      exists c. split; [exact Hc|]. eapply lr_trans; eassumption.
  Qed.

  Lemma iso_no_tuple_cycle : no_late_cycle is_tuple h -> no_late_cycle is_tuple h'.
  Proof.
    intros Ha x' Hr. destruct (late_reach_source _ _ _ _ Hr) as [n' [Hn' _]].
    assert (Hlt : x' < length h') by (apply nth_error_Some; rewrite Hn'; discriminate).
    pose proof I as [_ _ Inj Sj]. destruct (Sj x' Hlt) as [x Hx].
    destruct (iso_tuple_reach x' x' Hr x Hx) as [y [Hy Hry]].
    assert (x = y) by (eapply Inj; eassumption). subst y. exact (Ha x Hry).
  Qed.

  Lemma iso_length_le : length h' <= length h.
  Proof.
    pose proof I as [_ _ _ Sj].
    assert (H : forall k, k <= length h' -> exists l, length l = k /\ NoDup l /\
                 forall x, In x l -> x < length h /\ exists i, i < k /\ m x = Some i).
    { induction k as [|k IH]; intros Hk.
      - exists []. split; [reflexivity|]. split; [constructor|]. intros x [].
      - destruct (IH ltac:(lia)) as (l & Hl & ND & Hin). destruct (Sj k ltac:(lia)) as [xk Hxk].
        exists (xk :: l). split; [cbn [length]; lia|]. split.
        + constructor; [|exact ND]. intros Hc. destruct (Hin xk Hc) as [_ [i [Hi Hm]]].
          rewrite Hxk in Hm. inversion Hm. lia.
        + intros x [<-|Hx].
          * split; [exact (proj1 (iso_lt xk k Hxk))|]. exists k. split; [lia|exact Hxk].
          * destruct (Hin x Hx) as [Hlt [i [Hi Hm]]]. split; [exact Hlt|]. exists i. split; [lia|exact Hm]. }
    destruct (H (length h') (le_n _)) as (l & Hl & ND & Hin).
    rewrite <- Hl, <- (seq_length (length h) 0). apply NoDup_incl_length; [exact ND|].
    intros x Hx. apply in_seq. destruct (Hin x Hx) as [Hlt _]. lia.
  Qed.
End IsoTransport.

(* ---------------------------------------------------------------- the round trip is total and isomorphic *)
Lemma roundtrip_total h r : closed h -> no_late_cycle is_tuple h -> r < length h ->
  exists h2 r2 m, roundtrip (S (length h)) (S (length h) * S (length h)) h r = Some (h2, r2) /\ iso m h r h2 r2.
Proof.
  intros Hc Ha Hr.
  destruct (save_total h r Hc Hr) as (h1 & r1 & S1).
  destruct (copy_iso _ _ _ _ _ _ S1) as [m1 I1].
  pose proof (iso_closed _ _ _ _ _ I1) as Hc1.
  pose proof (iso_no_tuple_cycle _ _ _ _ _ I1 Ha) as Ha1.
  pose proof (iso_root_lt _ _ _ _ _ I1) as Hr1.
  pose proof (iso_length_le _ _ _ _ _ I1) as Hle.
  destruct (load_total h1 r1 Hc1 Ha1 Hr1) as (h2 & r2 & L).
  assert (L' : load (S (length h) * S (length h)) h1 r1 = Some (h2, r2)).
  { unfold load in *. apply (copy_fuel_mono _ _ _ _ _ _ L). apply Nat.mul_le_mono; lia. }
  assert (RT : roundtrip (S (length h)) (S (length h) * S (length h)) h r = Some (h2, r2)).
  { unfold roundtrip. rewrite S1. exact L'. }
  destruct (roundtrip_iso _ _ _ _ _ _ RT) as [m Im].
  exists h2, r2, m. split; assumption.
Qed.

(* ---------------------------------------------------------------- flat tuples: the fuel used by check_case suffices *)
Lemma flat_reach_target late h p x : late_flat late h -> late_reach late h p x ->
  forall nd, nth_error h x = Some nd -> late nd = false.
Proof. intros Hf Hr nd Hn. destruct Hr as [y c Hs|y z c _ Hs]; exact (Hf _ _ nd Hs Hn). Qed.

Lemma copy_total_flat late h : closed h -> late_flat late h -> forall r, r < length h ->
  exists h1 r1, copy late (2 * length h + 2) h r = Some (h1, r1).
Proof.
  intros Hc Hf r Hr. replace (2 * length h + 2) with (S (length h) * 2) by lia.
  apply (copy_total_K late h Hc (flat_no_late_cycle late h Hf) 1); [|exact Hr].
  intros x nd P Hn Hl _ HP. destruct P as [|p P]; [cbn [length]; lia|].
  destruct (HP p (or_introl eq_refl)) as [_ Hreach].
  rewrite (flat_reach_target late h p x Hf Hreach nd Hn) in Hl. discriminate.
Qed.

Lemma iso_flat_tuples m h r h' r' : iso m h r h' r' -> late_flat is_tuple h -> late_flat is_tuple h'.
Proof.
  intros I Hf x' c' nd' Hs Hn'.
  destruct (late_reach_source _ _ _ _ (lr_step _ _ _ _ Hs)) as [n' [Hx' _]].
  assert (Hlt : x' < length h') by (apply nth_error_Some; rewrite Hx'; discriminate).
  pose proof I as [_ Nd _ Sj]. destruct (Sj x' Hlt) as [x Hx].
  destruct (iso_tuple_step _ _ _ _ _ I x' c' Hs x Hx) as [c [Hc Hsc]].
  destruct (Nd c c' Hc) as (nc & nc' & A & B & C). rewrite Hn' in B. inversion B; subst nc'.
  rewrite (node_rel_tuple _ _ _ C). exact (Hf x c nc Hsc A).
Qed.

(* exactly the call made by check_case: roundtrip (S (length h)) (2 * length h + 2) *)
Lemma roundtrip_total_flat h r : closed h -> late_flat is_tuple h -> r < length h ->
  exists h2 r2 m, roundtrip (S (length h)) (2 * length h + 2) h r = Some (h2, r2) /\ iso m h r h2 r2.
Proof.
  intros Hc Hf Hr.
  destruct (save_total h r Hc Hr) as (h1 & r1 & S1).
  destruct (copy_iso _ _ _ _ _ _ S1) as [m1 I1].
  pose proof (iso_closed _ _ _ _ _ I1) as Hc1.
  pose proof (iso_flat_tuples _ _ _ _ _ I1 Hf) as Hf1.
  pose proof (iso_root_lt _ _ _ _ _ I1) as Hr1.
  pose proof (iso_length_le _ _ _ _ _ I1) as Hle.
  destruct (copy_total_flat is_tuple h1 Hc1 Hf1 r1 Hr1) as (h2 & r2 & L).
  assert (L' : load (2 * length h + 2) h1 r1 = Some (h2, r2)).
  { unfold load. apply (copy_fuel_mono _ _ _ _ _ _ L). lia. }
  assert (RT : roundtrip (S (length h)) (2 * length h + 2) h r = Some (h2, r2)).
  { unfold roundtrip. rewrite S1. exact L'. }
  destruct (roundtrip_iso _ _ _ _ _ _ RT) as [m Im].
  exists h2, r2, m. split; assumption.
Qed.

(* the linear fuel of check_case is NOT enough in general: three nested tuples on cycles through three lists, rooted
   at the outer tuple (T0 = (T1,), T1 = (T2,), T2 = (L3, L4, L5), Li = [T0]) need depth 15 > 2 * 6 + 2 *)
Definition ex_deep : heap := [NTuple [1]; NTuple [2]; NTuple [3; 4; 5]; NList [0]; NList [0]; NList [0]].

Lemma ex_deep_ok :
  closed ex_deep /\ no_late_cycle is_tuple ex_deep /\
  load (2 * length ex_deep + 2) ex_deep 0 = None /\
  exists h1 r1, load (S (length ex_deep) * S (length ex_deep)) ex_deep 0 = Some (h1, r1).
Proof.
  split; [|split; [|split]].
  - intros x n H. do 6 (destruct x as [|x]; [inversion H; subst; cbn; repeat constructor|]).
    destruct x; discriminate.
  - apply (ranked_no_late_cycle is_tuple ex_deep (fun x => 10 - x)).
    intros x c nd' [nd [Hn [Hl Hin]]] Hc Hlc.
    do 6 (destruct x as [|x]; [inversion Hn; subst nd; cbn in Hl, Hin; try discriminate;
                               repeat (destruct Hin as [<-|Hin]; [cbn in Hc; inversion Hc; subst nd'; cbn in Hlc; try discriminate; cbn; lia|]);
                               try contradiction|]).
    destruct x; discriminate.
  - vm_compute. reflexivity.
  - vm_compute. eexists. eexists. reflexivity.
Qed.
