(* Proofs about Model/Automaton.v (properties C10, C11), part 1:
   Gaussian integers, reflection lemmas, polynomials (peq / normalize / peqb), generic list
   lemmas, dagger, scaling, edge insertion, MPO addition. *)
From TenpyV Require Import Base.Prelude Model.Automaton.
Open Scope Z_scope.

(* ------------------------------------------------------------------ Gaussian integers *)
Lemma c_eq (x y : C) : fst x = fst y -> snd x = snd y -> x = y.
Proof. destruct x, y; cbn [fst snd]; intros H1 H2; subst; reflexivity. Qed.

Ltac csolve := apply c_eq; unfold cadd, cmul, cconj, c0, c1; cbn [fst snd]; ring.

Lemma cadd_comm x y : cadd x y = cadd y x.
Proof. csolve. Qed.
Lemma cadd_assoc x y z : cadd (cadd x y) z = cadd x (cadd y z).
Proof. csolve. Qed.
Lemma cadd_0_l x : cadd c0 x = x.
Proof. csolve. Qed.
Lemma cadd_0_r x : cadd x c0 = x.
Proof. csolve. Qed.
Lemma cmul_1_l x : cmul c1 x = x.
Proof. csolve. Qed.
Lemma cmul_1_r x : cmul x c1 = x.
Proof. csolve. Qed.
Lemma cmul_assoc x y z : cmul (cmul x y) z = cmul x (cmul y z).
Proof. csolve. Qed.
Lemma cmul_comm x y : cmul x y = cmul y x.
Proof. csolve. Qed.
Lemma cmul_0_r x : cmul x c0 = c0.
Proof. csolve. Qed.
Lemma cmul_cadd_distr_l a x y : cmul a (cadd x y) = cadd (cmul a x) (cmul a y).
Proof. csolve. Qed.
Lemma cconj_cmul x y : cconj (cmul x y) = cmul (cconj x) (cconj y).
Proof. csolve. Qed.
Lemma cconj_cadd x y : cconj (cadd x y) = cadd (cconj x) (cconj y).
Proof. csolve. Qed.
Lemma cconj_invol x : cconj (cconj x) = x.
Proof. csolve. Qed.

Lemma ceqb_eq x y : ceqb x y = true <-> x = y.
Proof.
  destruct x as [a b], y as [a' b']. unfold ceqb. cbn [fst snd]. split; intro H.
  - assert (a = a' /\ b = b') as [-> ->] by lia. reflexivity.
  - injection H as -> ->. lia.
Qed.

(* ------------------------------------------------------------------ reflection *)
Lemma key_eqb_eq k k' : key_eqb k k' = true <-> k = k'.
Proof.
  revert k'. induction k as [| |i a s|n|k IH|k IH]; intros [| |i' a' s'|n'|k'|k']; cbn [key_eqb];
    split; intro H; try discriminate H; try reflexivity.
  - assert (i = i' /\ a = a' /\ s = s') as (-> & -> & ->) by lia. reflexivity.
  - injection H as -> -> ->. lia.
  - f_equal. lia.
  - injection H as ->. lia.
  - f_equal. apply IH. exact H.
  - injection H as ->. apply IH. reflexivity.
  - f_equal. apply IH. exact H.
  - injection H as ->. apply IH. reflexivity.
Qed.

Lemma key_eqb_refl k : key_eqb k k = true.
Proof. apply key_eqb_eq. reflexivity. Qed.

Lemma key_eqb_neq k k' : key_eqb k k' = false <-> k <> k'.
Proof.
  split.
  - intros H E. apply key_eqb_eq in E. congruence.
  - intro H. destruct (key_eqb k k') eqn:E; [|reflexivity]. apply key_eqb_eq in E. contradiction.
Qed.

Lemma key_eqb_sym k k' : key_eqb k k' = key_eqb k' k.
Proof.
  destruct (key_eqb k k') eqn:E.
  - apply key_eqb_eq in E. subst. symmetry. apply key_eqb_refl.
  - apply key_eqb_neq in E. symmetry. apply key_eqb_neq. congruence.
Qed.

Lemma key_eq_dec (k k' : key) : k = k' \/ k <> k'.
Proof.
  destruct (key_eqb k k') eqn:E; [left; apply key_eqb_eq; exact E|right; apply key_eqb_neq; exact E].
Qed.

Lemma letter_eqb_eq x y : letter_eqb x y = true <-> x = y.
Proof.
  destruct x as [i a], y as [i' a']. unfold letter_eqb. cbn [fst snd]. split; intro H.
  - assert (i = i' /\ a = a') as [-> ->] by lia. reflexivity.
  - injection H as -> ->. lia.
Qed.

Lemma word_eqb_eq u v : word_eqb u v = true <-> u = v.
Proof.
  revert v. induction u as [|x u IH]; intros [|y v]; cbn [word_eqb]; split; intro H;
    try discriminate H; try reflexivity.
  - apply andb_true_iff in H. destruct H as [H1 H2].
    apply letter_eqb_eq in H1. apply IH in H2. subst. reflexivity.
  - injection H as -> ->. apply andb_true_iff. split; [apply letter_eqb_eq|apply IH]; reflexivity.
Qed.

Lemma word_eqb_refl u : word_eqb u u = true.
Proof. apply word_eqb_eq. reflexivity. Qed.

Lemma word_eqb_neq u v : word_eqb u v = false <-> u <> v.
Proof.
  split.
  - intros H E. apply word_eqb_eq in E. congruence.
  - intro H. destruct (word_eqb u v) eqn:E; [|reflexivity]. apply word_eqb_eq in E. contradiction.
Qed.

Lemma letter_cmp_eq x y : letter_cmp x y = Eq <-> x = y.
Proof.
  destruct x as [i a], y as [i' a']. unfold letter_cmp. cbn [fst snd]. split; intro H.
  - destruct (Nat.compare i i') eqn:E; try discriminate H.
    apply Nat.compare_eq_iff in E. apply Z.compare_eq_iff in H. subst. reflexivity.
  - injection H as -> ->. rewrite Nat.compare_refl. apply Z.compare_refl.
Qed.

Lemma word_cmp_eq u v : word_cmp u v = Eq <-> u = v.
Proof.
  revert v. induction u as [|x u IH]; intros [|y v]; cbn [word_cmp]; split; intro H;
    try discriminate H; try reflexivity.
  - destruct (letter_cmp x y) eqn:E; try discriminate H.
    apply letter_cmp_eq in E. apply IH in H. subst. reflexivity.
  - injection H as -> ->. assert (E : letter_cmp y y = Eq) by (apply letter_cmp_eq; reflexivity).
    rewrite E. apply IH. reflexivity.
Qed.

Lemma mono_eqb_eq m n : mono_eqb m n = true <-> m = n.
Proof.
  destruct m as [c u], n as [d v]. unfold mono_eqb. cbn [fst snd]. split; intro H.
  - apply andb_true_iff in H. destruct H as [H1 H2].
    apply ceqb_eq in H1. apply word_eqb_eq in H2. subst. reflexivity.
  - injection H as -> ->. apply andb_true_iff. split; [apply ceqb_eq|apply word_eqb_eq]; reflexivity.
Qed.

Lemma list_eqb_eq {A} (eqb : A -> A -> bool) :
  (forall x y, eqb x y = true -> x = y) -> forall l1 l2, list_eqb eqb l1 l2 = true -> l1 = l2.
Proof.
  intros Heq. induction l1 as [|x l1 IH]; intros [|y l2] H; cbn [list_eqb] in H;
    try discriminate H; try reflexivity.
  apply andb_true_iff in H. destruct H as [H1 H2]. apply Heq in H1. apply IH in H2. subst. reflexivity.
Qed.

(* ------------------------------------------------------------------ polynomials *)
Lemma peq_refl p : peq p p.
Proof. intro w. reflexivity. Qed.
Lemma peq_sym p q : peq p q -> peq q p.
Proof. intros H w. symmetry. apply H. Qed.
Lemma peq_trans p q r : peq p q -> peq q r -> peq p r.
Proof. intros H1 H2 w. rewrite H1. apply H2. Qed.

Lemma coef_app p q w : coef (p ++ q) w = cadd (coef p w) (coef q w).
Proof.
  induction p as [|[c v] t IH]; cbn [app coef].
  - symmetry. apply cadd_0_l.
  - destruct (word_eqb v w); [rewrite IH; symmetry; apply cadd_assoc|exact IH].
Qed.

Lemma peq_app p p' q q' : peq p p' -> peq q q' -> peq (p ++ q) (p' ++ q').
Proof. intros H1 H2 w. rewrite !coef_app, H1, H2. reflexivity. Qed.

Lemma peq_app_comm p q : peq (p ++ q) (q ++ p).
Proof. intro w. rewrite !coef_app. apply cadd_comm. Qed.

Lemma peq_cons m p q : peq p q -> peq (m :: p) (m :: q).
Proof. intros H. apply (peq_app [m] [m]); [apply peq_refl|exact H]. Qed.

Lemma peq_perm p q : Permutation p q -> peq p q.
Proof.
  induction 1 as [|[c v] l l' _ IH|[c v] [d u] l|l l' l'' _ IH1 _ IH2]; intro w.
  - reflexivity.
  - cbn [coef]. rewrite (IH w). reflexivity.
  - cbn [coef]. destruct (word_eqb v w), (word_eqb u w); try reflexivity.
    rewrite <- !cadd_assoc. f_equal. apply cadd_comm.
  - rewrite (IH1 w). apply IH2.
Qed.

Lemma coef_pinsert m p w : coef (pinsert m p) w = coef (m :: p) w.
Proof.
  destruct m as [cm wm]. induction p as [|[c v] t IH]; cbn [pinsert fst snd]; [reflexivity|].
  destruct (word_cmp wm v) eqn:E.
  - apply word_cmp_eq in E. subst v. cbn [coef]. destruct (word_eqb wm w); [apply cadd_assoc|reflexivity].
  - reflexivity.
  - cbn [coef]. rewrite IH. cbn [coef].
    destruct (word_eqb v w), (word_eqb wm w); try reflexivity.
    rewrite <- !cadd_assoc. f_equal. apply cadd_comm.
Qed.

Lemma coef_fold_pinsert p w : coef (fold_right pinsert [] p) w = coef p w.
Proof.
  induction p as [|[c v] t IH]; cbn [fold_right]; [reflexivity|].
  rewrite coef_pinsert. cbn [coef]. rewrite IH. reflexivity.
Qed.

Lemma coef_filter_nz p w : coef (filter (fun m => negb (ceqb (fst m) c0)) p) w = coef p w.
Proof.
  induction p as [|[c v] t IH]; cbn [filter fst]; [reflexivity|].
  destruct (ceqb c c0) eqn:E; cbn [negb coef]; rewrite IH.
  - apply ceqb_eq in E. subst c. destruct (word_eqb v w); [symmetry; apply cadd_0_l|reflexivity].
  - reflexivity.
Qed.

Lemma coef_normalize p w : coef (normalize p) w = coef p w.
Proof. unfold normalize. rewrite coef_filter_nz. apply coef_fold_pinsert. Qed.

Lemma peq_normalize p : peq (normalize p) p.
Proof. intro w. apply coef_normalize. Qed.

Lemma peqb_sound p q : peqb p q = true -> peq p q.
Proof.
  intros H w. unfold peqb in H.
  apply (list_eqb_eq mono_eqb (fun x y => proj1 (mono_eqb_eq x y))) in H.
  rewrite <- (coef_normalize p), <- (coef_normalize q), H. reflexivity.
Qed.

(* ------------------------------------------------------------------ generic list lemmas *)
Lemma flat_map_map {A B X} (f : B -> list X) (g : A -> B) l :
  flat_map f (map g l) = flat_map (fun x => f (g x)) l.
Proof. induction l as [|x l IH]; cbn [map flat_map]; [reflexivity|]. rewrite IH. reflexivity. Qed.

Lemma map_flat_map {A B X} (f : B -> X) (g : A -> list B) l :
  map f (flat_map g l) = flat_map (fun x => map f (g x)) l.
Proof.
  induction l as [|x l IH]; cbn [map flat_map]; [reflexivity|]. rewrite map_app, IH. reflexivity.
Qed.

Lemma flat_map_ext_in' {A B} (f g : A -> list B) l :
  (forall x, In x l -> f x = g x) -> flat_map f l = flat_map g l.
Proof.
  induction l as [|x l IH]; intro H; cbn [flat_map]; [reflexivity|].
  rewrite (H x (or_introl eq_refl)), IH; [reflexivity|]. intros y Hy. apply H. right. exact Hy.
Qed.

Lemma flat_map_nil_in {A B} (f : A -> list B) l : (forall x, In x l -> f x = []) -> flat_map f l = [].
Proof.
  induction l as [|x l IH]; intro H; cbn [flat_map]; [reflexivity|].
  rewrite (H x (or_introl eq_refl)), IH; [reflexivity|]. intros y Hy. apply H. right. exact Hy.
Qed.

Lemma filter_flat_map {A B} (p : B -> bool) (f : A -> list B) l :
  filter p (flat_map f l) = flat_map (fun x => filter p (f x)) l.
Proof.
  induction l as [|x l IH]; cbn [flat_map]; [reflexivity|]. rewrite filter_app, IH. reflexivity.
Qed.

Lemma filter_map_comm {A B} (p : B -> bool) (f : A -> B) l :
  filter p (map f l) = map f (filter (fun x => p (f x)) l).
Proof.
  induction l as [|x l IH]; cbn [map filter]; [reflexivity|].
  destruct (p (f x)); cbn [map]; rewrite IH; reflexivity.
Qed.

Lemma filter_ext_in' {A} (p q : A -> bool) l : (forall x, In x l -> p x = q x) -> filter p l = filter q l.
Proof.
  induction l as [|x l IH]; intro H; cbn [filter]; [reflexivity|].
  rewrite (H x (or_introl eq_refl)), IH; [reflexivity|]. intros y Hy. apply H. right. exact Hy.
Qed.

Lemma filter_filter {A} (p q : A -> bool) l : filter p (filter q l) = filter (fun x => q x && p x) l.
Proof.
  induction l as [|x l IH]; cbn [filter]; [reflexivity|].
  destruct (q x); cbn [filter andb]; [destruct (p x)|]; rewrite IH; reflexivity.
Qed.

Lemma filter_nil_in {A} (p : A -> bool) l : (forall x, In x l -> p x = false) -> filter p l = [].
Proof.
  induction l as [|x l IH]; intro H; cbn [filter]; [reflexivity|].
  rewrite (H x (or_introl eq_refl)). apply IH. intros y Hy. apply H. right. exact Hy.
Qed.

Lemma filter_all_in {A} (p : A -> bool) l : (forall x, In x l -> p x = true) -> filter p l = l.
Proof.
  induction l as [|x l IH]; intro H; cbn [filter]; [reflexivity|].
  rewrite (H x (or_introl eq_refl)). f_equal. apply IH. intros y Hy. apply H. right. exact Hy.
Qed.

Lemma perm_flat_map_pointwise {A B} (f g : A -> list B) l :
  (forall x, In x l -> Permutation (f x) (g x)) -> Permutation (flat_map f l) (flat_map g l).
Proof.
  induction l as [|x l IH]; intro H; cbn [flat_map]; [constructor|].
  apply Permutation_app; [apply H; left; reflexivity|]. apply IH. intros y Hy. apply H. right. exact Hy.
Qed.

Lemma perm_flat_map_split {A B} (f h : A -> list B) l :
  Permutation (flat_map (fun x => f x ++ h x) l) (flat_map f l ++ flat_map h l).
Proof.
  induction l as [|x l IH]; cbn [flat_map]; [constructor|].
  eapply perm_trans; [apply Permutation_app; [apply Permutation_refl|exact IH]|].
  rewrite <- !app_assoc. apply Permutation_app_head.
  rewrite !app_assoc. apply Permutation_app_tail. apply Permutation_app_comm.
Qed.

(* ------------------------------------------------------------------ paths, rden: unfolding *)
Definition mstep (i : nat) (e : edge) (m : mono) : mono :=
  (cmul (ew e) (fst m), consop i (eop e) (snd m)).
Definition out (k : key) (es : list edge) : list edge := filter (fun e => key_eqb (eL e) k) es.

Lemma paths_cons_out es g i k :
  paths (es :: g) i k = flat_map (fun e => map (pstep i e) (paths g (S i) (eR e))) (out k es).
Proof.
  cbn [paths]. unfold out. induction es as [|e es IH]; cbn [flat_map filter]; [reflexivity|].
  destruct (key_eqb (eL e) k); cbn [flat_map app]; rewrite IH; reflexivity.
Qed.

Lemma ending_app kf l1 l2 : ending kf (l1 ++ l2) = ending kf l1 ++ ending kf l2.
Proof. unfold ending. rewrite filter_app, map_app. reflexivity. Qed.

Lemma ending_flat_map {A} kf (f : A -> list (C * word * key)) l :
  ending kf (flat_map f l) = flat_map (fun x => ending kf (f x)) l.
Proof. unfold ending. rewrite filter_flat_map, map_flat_map. reflexivity. Qed.

Lemma ending_pstep kf i e l : ending kf (map (pstep i e) l) = map (mstep i e) (ending kf l).
Proof.
  unfold ending. rewrite filter_map_comm, !map_map. cbn [pstep snd fst]. reflexivity.
Qed.

Lemma rden_cons es g i k :
  rden (es :: g) i k = flat_map (fun e => map (mstep i e) (rden g (S i) (eR e))) (out k es).
Proof.
  unfold rden. rewrite paths_cons_out, ending_flat_map. apply flat_map_ext_in'.
  intros e _. apply ending_pstep.
Qed.

Lemma rden_nil i k : rden [] i k = if key_eqb k IdR then [(c1, [])] else [].
Proof. unfold rden, ending. cbn [paths filter snd]. destruct (key_eqb k IdR); reflexivity. Qed.

Lemma out_app k l1 l2 : out k (l1 ++ l2) = out k l1 ++ out k l2.
Proof. apply filter_app. Qed.

Lemma out_single_eq' x e : eL e = x -> out x [e] = [e].
Proof. intro H. unfold out. cbn [filter]. rewrite H, key_eqb_refl. reflexivity. Qed.

Lemma in_out k e es : In e (out k es) <-> In e es /\ eL e = k.
Proof. unfold out. rewrite filter_In, key_eqb_eq. reflexivity. Qed.

(* ------------------------------------------------------------------ (B) dagger, scaling *)
Definition hcl (hc : Z -> Z) (l : letter) : letter := (fst l, hc (snd l)).
Definition dagp (hc : Z -> Z) (p : C * word * key) : C * word * key :=
  (cconj (fst (fst p)), map (hcl hc) (snd (fst p)), snd p).

Lemma consop_hc hc i op w : hc 0 = 0 -> (forall x, x <> 0 -> hc x <> 0) ->
  consop i (hc op) (map (hcl hc) w) = map (hcl hc) (consop i op w).
Proof.
  intros H0 Hn. unfold consop. destruct (op =? 0) eqn:E.
  - assert (op = 0) by lia. subst op. rewrite H0. reflexivity.
  - assert (Hop : op <> 0) by lia. apply Hn in Hop.
    destruct (hc op =? 0) eqn:E'; [lia|]. reflexivity.
Qed.

Lemma paths_dagger hc g : hc 0 = 0 -> (forall x, x <> 0 -> hc x <> 0) ->
  forall i k, paths (gdagger hc g) i k = map (dagp hc) (paths g i k).
Proof.
  intros H0 Hn. induction g as [|es g IH]; intros i k.
  - reflexivity.
  - change (gdagger hc (es :: g)) with
      (map (fun e => mkE (eL e) (eR e) (hc (eop e)) (cconj (ew e))) es :: gdagger hc g).
    cbn [paths]. rewrite flat_map_map, map_flat_map. apply flat_map_ext_in'. intros e _.
    cbn [eL eR]. destruct (key_eqb (eL e) k); [|reflexivity].
    rewrite IH, !map_map. apply map_ext. intros [[c w] kf].
    unfold pstep, dagp. cbn [fst snd eop ew]. rewrite cconj_cmul, consop_hc by assumption. reflexivity.
Qed.

Lemma ending_dagp hc kf l : ending kf (map (dagp hc) l) = pdagger hc (ending kf l).
Proof.
  unfold ending, pdagger. rewrite filter_map_comm, !map_map. cbn [dagp snd fst]. reflexivity.
Qed.

Lemma rden_dagger hc g : hc 0 = 0 -> (forall x, x <> 0 -> hc x <> 0) ->
  forall i k, rden (gdagger hc g) i k = pdagger hc (rden g i k).
Proof. intros H0 Hn i k. unfold rden. rewrite paths_dagger by assumption. apply ending_dagp. Qed.

Lemma denote_dagger hc g : hc 0 = 0 -> (forall x, x <> 0 -> hc x <> 0) ->
  denote (gdagger hc g) = pdagger hc (denote g).
Proof. intros H0 Hn. apply rden_dagger; assumption. Qed.

Lemma hermitian_graph hc g : hc 0 = 0 -> (forall x, x <> 0 -> hc x <> 0) ->
  peq (pdagger hc (denote g)) (denote g) -> peq (denote (gdagger hc g)) (denote g).
Proof. intros H0 Hn H. rewrite denote_dagger by assumption. exact H. Qed.

Definition scp (c : C) (p : C * word * key) : C * word * key :=
  (cmul c (fst (fst p)), snd (fst p), snd p).

Lemma paths_scale0 c es g i k :
  paths (gscale0 c (es :: g)) i k = map (scp c) (paths (es :: g) i k).
Proof.
  cbn [gscale0 paths]. rewrite flat_map_map, map_flat_map. apply flat_map_ext_in'. intros e _.
  cbn [eL eR]. destruct (key_eqb (eL e) k); [|reflexivity].
  rewrite map_map. apply map_ext. intros [[d w] kf].
  unfold pstep, scp. cbn [fst snd eop ew]. rewrite cmul_assoc. reflexivity.
Qed.

Lemma ending_scp c kf l : ending kf (map (scp c) l) = pscale c (ending kf l).
Proof.
  unfold ending, pscale. rewrite filter_map_comm, !map_map. cbn [scp snd fst]. reflexivity.
Qed.

Lemma denote_scale0 c g : g <> [] -> denote (gscale0 c g) = pscale c (denote g).
Proof.
  intro Hg. destruct g as [|es g]; [contradiction|].
  unfold denote, rden. rewrite paths_scale0. apply ending_scp.
Qed.

(* ------------------------------------------------------------------ (C) inserting an edge *)
Lemma paths_insert_edge g1 es g2 e : forall i k,
  Permutation (paths (g1 ++ (es ++ [e]) :: g2) i k)
              (paths (g1 ++ es :: g2) i k ++ paths (g1 ++ [e] :: g2) i k).
Proof.
  induction g1 as [|fs g1 IH]; intros i k; cbn [app paths].
  - rewrite flat_map_app. apply Permutation_refl.
  - eapply perm_trans; [|apply perm_flat_map_split].
    apply perm_flat_map_pointwise. intros f _.
    destruct (key_eqb (eL f) k); [|apply Permutation_refl].
    rewrite <- map_app. apply Permutation_map. apply IH.
Qed.

Lemma flat_map_flat_map {A B X} (f : B -> list X) (g : A -> list B) l :
  flat_map f (flat_map g l) = flat_map (fun x => flat_map f (g x)) l.
Proof.
  induction l as [|x l IH]; cbn [flat_map]; [reflexivity|]. rewrite flat_map_app, IH. reflexivity.
Qed.

Lemma consop_app i op u v : consop i op (u ++ v) = consop i op u ++ v.
Proof. unfold consop. destruct (op =? 0); reflexivity. Qed.

Lemma paths_app g1 g2 : forall i k,
  paths (g1 ++ g2) i k =
  flat_map (fun p => map (fun q => (cmul (fst (fst p)) (fst (fst q)), snd (fst p) ++ snd (fst q), snd q))
                         (paths g2 (i + length g1) (snd p))) (paths g1 i k).
Proof.
  induction g1 as [|es g1 IH]; intros i k.
  - cbn [app paths flat_map length fst snd]. rewrite Nat.add_0_r, app_nil_r.
    rewrite <- (map_id (paths g2 i k)) at 1. apply map_ext. intros [[c w] kf].
    cbn [fst snd app]. rewrite cmul_1_l. reflexivity.
  - cbn [app paths length]. rewrite flat_map_flat_map. apply flat_map_ext_in'. intros e _.
    destruct (key_eqb (eL e) k); [|reflexivity].
    rewrite IH, map_flat_map, flat_map_map. apply flat_map_ext_in'. intros [[c w] kf] _.
    cbn [pstep fst snd]. replace (i + S (length g1))%nat with (S i + length g1)%nat by lia.
    rewrite map_map. apply map_ext. intros [[d v] kq]. unfold pstep. cbn [fst snd].
    rewrite cmul_assoc, consop_app. reflexivity.
Qed.

(* ------------------------------------------------------------------ (D) MPO.__add__ *)
Lemma tagA_IdL k : key_eqb (tagA k) IdL = key_eqb k IdL.
Proof. destruct k; reflexivity. Qed.
Lemma tagB_IdL k : key_eqb (tagB k) IdL = key_eqb k IdL.
Proof. destruct k; reflexivity. Qed.
Lemma tagA_IdR k : key_eqb (tagA k) IdR = key_eqb k IdR.
Proof. destruct k; reflexivity. Qed.
Lemma tagB_IdR k : key_eqb (tagB k) IdR = key_eqb k IdR.
Proof. destruct k; reflexivity. Qed.
Lemma tagA_inj x y : key_eqb (tagA x) (tagA y) = key_eqb x y.
Proof. destruct x, y; reflexivity. Qed.
Lemma tagB_inj x y : key_eqb (tagB x) (tagB y) = key_eqb x y.
Proof. destruct x, y; reflexivity. Qed.
Lemma tagAB_true x y : key_eqb (tagA x) (tagB y) = true -> x = y /\ (x = IdL \/ x = IdR).
Proof. destruct x, y; cbn [tagA tagB key_eqb]; intro H; try discriminate H; auto. Qed.
Lemma tagBA_true x y : key_eqb (tagB x) (tagA y) = true -> x = y /\ (x = IdL \/ x = IdR).
Proof. destruct x, y; cbn [tagA tagB key_eqb]; intro H; try discriminate H; auto. Qed.

Lemma id_loop_inv k e : id_loop k e = true -> eL e = k /\ eR e = k /\ eop e = 0 /\ ew e = c1.
Proof.
  unfold id_loop. intro H. apply andb_true_iff in H. destruct H as [H H4].
  apply andb_true_iff in H. destruct H as [H H3]. apply andb_true_iff in H. destruct H as [H1 H2].
  apply key_eqb_eq in H1, H2. apply ceqb_eq in H4. repeat split; try assumption. lia.
Qed.

Lemma is_loop_inv e : is_loop e = true -> (eL e = IdL /\ eR e = IdL) \/ (eL e = IdR /\ eR e = IdR).
Proof.
  unfold is_loop. intro H. apply orb_true_iff in H.
  destruct H as [H|H]; apply andb_true_iff in H; destruct H as [H1 H2]; apply key_eqb_eq in H1, H2; auto.
Qed.

Lemma id_loop_is_loop k e : k = IdL \/ k = IdR -> id_loop k e = true -> is_loop e = true.
Proof.
  intros Hk H. apply id_loop_inv in H. destruct H as (H1 & H2 & _). unfold is_loop. rewrite H1, H2.
  destruct Hk; subst k; reflexivity.
Qed.

Lemma mstep_id_loop k e i p : id_loop k e = true -> map (mstep i e) p = p.
Proof.
  intro H. apply id_loop_inv in H. destruct H as (_ & _ & H3 & H4).
  rewrite <- (map_id p) at 2. apply map_ext. intros [c w]. unfold mstep. rewrite H3, H4, cmul_1_l.
  reflexivity.
Qed.

Lemma length1 {A} (l : list A) : length l = 1%nat -> exists x, l = [x].
Proof. destruct l as [|x [|y l]]; intro H; try discriminate H. exists x. reflexivity. Qed.

Lemma std_site_inv es : std_site es = true ->
  (exists l, filter (id_loop IdL) es = [l]) /\ (exists r, filter (id_loop IdR) es = [r]) /\
  (forall e, In e es -> (eR e = IdL -> id_loop IdL e = true) /\ (eL e = IdR -> id_loop IdR e = true)).
Proof.
  unfold std_site. intro H. apply andb_true_iff in H. destruct H as [H H3].
  apply andb_true_iff in H. destruct H as [H1 H2].
  apply Nat.eqb_eq in H1, H2. apply length1 in H1, H2. split; [exact H1|]. split; [exact H2|].
  rewrite forallb_forall in H3. intros e He. specialize (H3 e He).
  apply andb_true_iff in H3. destruct H3 as [Ha Hb]. split; intro E.
  - rewrite E in Ha. cbn [key_eqb negb orb] in Ha. exact Ha.
  - rewrite E in Hb. cbn [key_eqb negb orb] in Hb. exact Hb.
Qed.

Lemma filter_single_in {A} (p : A -> bool) l x : filter p l = [x] -> In x l /\ p x = true.
Proof. intro H. apply filter_In. rewrite H. left. reflexivity. Qed.

Lemma rden_IdR_std g : std_form g = true -> forall i, rden g i IdR = [(c1, [])].
Proof.
  induction g as [|es g IH]; intros H i.
  - reflexivity.
  - cbn [std_form forallb] in H. apply andb_true_iff in H. destruct H as [Hs Hg].
    destruct (std_site_inv es Hs) as (_ & [r Hr] & Hall).
    rewrite rden_cons. unfold out.
    rewrite (filter_ext_in' (fun e => key_eqb (eL e) IdR) (id_loop IdR) es).
    + rewrite Hr. cbn [flat_map]. rewrite app_nil_r.
      destruct (filter_single_in _ _ _ Hr) as [_ Hl].
      rewrite (mstep_id_loop _ _ _ _ Hl). destruct (id_loop_inv _ _ Hl) as (_ & -> & _).
      apply IH. exact Hg.
    + intros e He. destruct (key_eqb (eL e) IdR) eqn:E.
      * apply key_eqb_eq in E. symmetry. apply (Hall e He). exact E.
      * destruct (id_loop IdR e) eqn:E'; [|reflexivity].
        apply id_loop_inv in E'. destruct E' as (E' & _). rewrite E' in E. discriminate E.
Qed.

Lemma coef_flat_map_partition {A} (p : A -> bool) (f : A -> poly) l w :
  coef (flat_map f l) w =
  cadd (coef (flat_map f (filter p l)) w) (coef (flat_map f (filter (fun x => negb (p x)) l)) w).
Proof.
  induction l as [|x l IH]; cbn [flat_map filter].
  - symmetry. apply cadd_0_l.
  - rewrite coef_app, IH. destruct (p x); cbn [negb flat_map]; rewrite coef_app.
    + apply eq_sym, cadd_assoc.
    + rewrite <- !cadd_assoc. f_equal. apply cadd_comm.
Qed.

Lemma out_retag_A k es : out (tagA k) (map (retag tagA) es) = map (retag tagA) (out k es).
Proof.
  unfold out. rewrite filter_map_comm. f_equal. apply filter_ext_in'. intros e _.
  cbn [retag eL]. apply tagA_inj.
Qed.
Lemma out_retag_B k es : out (tagB k) (map (retag tagB) es) = map (retag tagB) (out k es).
Proof.
  unfold out. rewrite filter_map_comm. f_equal. apply filter_ext_in'. intros e _.
  cbn [retag eL]. apply tagB_inj.
Qed.

Lemma std_out_IdL_split es : std_site es = true ->
  exists l, id_loop IdL l = true /\ filter (id_loop IdL) (out IdL es) = [l] /\
    out IdL (filter (fun e => negb (is_loop e)) es) = filter (fun e => negb (id_loop IdL e)) (out IdL es) /\
    (forall e, In e (filter (fun e => negb (id_loop IdL e)) (out IdL es)) -> In e es /\ eR e <> IdL).
Proof.
  intro Hs. destruct (std_site_inv es Hs) as ([l Hl] & _ & Hall).
  exists l. destruct (filter_single_in _ _ _ Hl) as [_ Hll]. split; [exact Hll|]. split; [|split].
  - unfold out. rewrite filter_filter, <- Hl. apply filter_ext_in'. intros e _.
    destruct (id_loop IdL e) eqn:E; [|apply andb_false_r].
    apply id_loop_inv in E. destruct E as (-> & _). reflexivity.
  - unfold out. rewrite !filter_filter. apply filter_ext_in'. intros e He.
    destruct (key_eqb (eL e) IdL) eqn:E; [|apply andb_false_r]. cbn [andb]. rewrite andb_true_r.
    f_equal. unfold is_loop. rewrite E. apply key_eqb_eq in E. rewrite E. cbn [key_eqb andb].
    rewrite orb_false_r.
    destruct (key_eqb (eR e) IdL) eqn:E2.
    + apply key_eqb_eq in E2. symmetry. apply (Hall e He). exact E2.
    + destruct (id_loop IdL e) eqn:E3; [|reflexivity].
      apply id_loop_inv in E3. destruct E3 as (_ & E3 & _). rewrite E3 in E2. discriminate E2.
  - intros e He. apply filter_In in He. destruct He as [He Hn]. apply in_out in He.
    destruct He as [He _]. split; [exact He|]. intro E. apply (Hall e He) in E. rewrite E in Hn.
    discriminate Hn.
Qed.

Lemma gadd_rden : forall A B i, length A = length B -> std_form A = true -> std_form B = true ->
  (forall k, k <> IdL -> rden (gadd A B) i (tagA k) = rden A i k) /\
  (forall k, k <> IdL -> rden (gadd A B) i (tagB k) = rden B i k) /\
  peq (rden (gadd A B) i IdL) (rden A i IdL ++ rden B i IdL).
Proof.
  induction A as [|ea A IH]; intros [|eb B] i Hlen HA HB; try discriminate Hlen.
  - cbn [gadd]. split; [|split].
    + intros k _. rewrite !rden_nil, tagA_IdR. reflexivity.
    + intros k _. rewrite !rden_nil, tagB_IdR. reflexivity.
    + apply peq_refl.
  - cbn [length] in Hlen. injection Hlen as Hlen.
    cbn [std_form forallb] in HA, HB.
    apply andb_true_iff in HA. destruct HA as [Hsa HA].
    apply andb_true_iff in HB. destruct HB as [Hsb HB].
    destruct (IH B (S i) Hlen HA HB) as (IHa & IHb & IHl). clear IH.
    destruct (std_site_inv ea Hsa) as (_ & _ & HallA).
    destruct (std_site_inv eb Hsb) as (_ & _ & HallB).
    assert (IHb' := IHb).
    assert (SA : forall k, k <> IdL ->
              rden (gadd (ea :: A) (eb :: B)) i (tagA k) = rden (ea :: A) i k).
    { intros k Hk. cbn [gadd]. rewrite !rden_cons, out_app, flat_map_app.
      assert (E2 : out (tagA k) (map (retag tagB) (filter (fun e => negb (is_loop e)) eb)) = []).
      { unfold out. rewrite filter_map_comm. rewrite filter_nil_in; [reflexivity|].
        intros e He. cbn [retag eL]. apply filter_In in He. destruct He as [He Hn].
        destruct (key_eqb (tagB (eL e)) (tagA k)) eqn:E; [|reflexivity].
        apply tagBA_true in E. destruct E as [E [E'|E']]; [congruence|].
        assert (Hl : id_loop IdR e = true) by (apply (HallB e He); exact E').
        rewrite (id_loop_is_loop IdR e (or_intror eq_refl) Hl) in Hn. discriminate Hn. }
      rewrite E2. cbn [flat_map]. rewrite app_nil_r, out_retag_A, flat_map_map.
      apply flat_map_ext_in'. intros e He. apply in_out in He. destruct He as [He HeL].
      cbn [retag eR]. rewrite IHa; [reflexivity|].
      intro E. apply (HallA e He) in E. apply id_loop_inv in E. destruct E as (E & _). congruence. }
    split; [exact SA|]. split.
    + intros k Hk. destruct (key_eq_dec k IdR) as [->|HkR].
      * change (tagB IdR) with (tagA IdR). rewrite SA by discriminate.
        rewrite !rden_IdR_std; [reflexivity| |]; cbn [std_form forallb]; apply andb_true_iff; auto.
      * cbn [gadd]. rewrite !rden_cons, out_app, flat_map_app.
        assert (E1 : out (tagB k) (map (retag tagA) ea) = []).
        { unfold out. rewrite filter_map_comm. rewrite filter_nil_in; [reflexivity|].
          intros e He. cbn [retag eL].
          destruct (key_eqb (tagA (eL e)) (tagB k)) eqn:E; [|reflexivity].
          apply tagAB_true in E. destruct E as [E [E'|E']]; congruence. }
        rewrite E1. cbn [flat_map app]. rewrite out_retag_B, flat_map_map.
        assert (E3 : out k (filter (fun e => negb (is_loop e)) eb) = out k eb).
        { unfold out. rewrite filter_filter. apply filter_ext_in'. intros e He.
          destruct (key_eqb (eL e) k) eqn:E; [|apply andb_false_r]. rewrite andb_true_r.
          apply key_eqb_eq in E. destruct (is_loop e) eqn:El; [|reflexivity].
          apply is_loop_inv in El. destruct El as [[El _]|[El _]]; congruence. }
        rewrite E3. apply flat_map_ext_in'. intros e He. apply in_out in He. destruct He as [He HeL].
        cbn [retag eR]. rewrite IHb'; [reflexivity|].
        intro E. apply (HallB e He) in E. apply id_loop_inv in E. destruct E as (E & _). congruence.
    + intro w. rewrite coef_app. cbn [gadd]. rewrite !rden_cons, out_app, flat_map_app, coef_app.
      change IdL with (tagA IdL) at 1. rewrite out_retag_A.
      change IdL with (tagB IdL) at 2. rewrite out_retag_B. cbn [tagA tagB].
      rewrite !flat_map_map.
      destruct (std_out_IdL_split ea Hsa) as (la & Hla & Fa & _ & Ra).
      destruct (std_out_IdL_split eb Hsb) as (lb & Hlb & Fb & Sb & Rb).
      rewrite Sb.
      rewrite (coef_flat_map_partition (id_loop IdL) _ (out IdL ea)), Fa.
      rewrite (coef_flat_map_partition (id_loop IdL) _ (out IdL ea)), Fa.
      rewrite (coef_flat_map_partition (id_loop IdL) _ (out IdL eb)), Fb.
      cbn [flat_map retag eR]. rewrite !app_nil_r.
      change (mstep i (retag tagA la)) with (mstep i la).
      rewrite !(mstep_id_loop _ _ _ _ Hla), !(mstep_id_loop _ _ _ _ Hlb).
      destruct (id_loop_inv _ _ Hla) as (_ & -> & _). destruct (id_loop_inv _ _ Hlb) as (_ & -> & _).
      cbn [tagA]. rewrite (IHl w), coef_app.
      set (ra := filter (fun x => negb (id_loop IdL x)) (out IdL ea)) in *.
      set (rb := filter (fun x => negb (id_loop IdL x)) (out IdL eb)) in *.
      assert (EA : flat_map (fun x => map (mstep i (retag tagA x))
                                          (rden (gadd A B) (S i) (tagA (eR x)))) ra =
                   flat_map (fun e => map (mstep i e) (rden A (S i) (eR e))) ra).
      { apply flat_map_ext_in'. intros e He. destruct (Ra e He) as [_ HR].
        rewrite IHa by exact HR. reflexivity. }
      assert (EB : flat_map (fun x => map (mstep i (retag tagB x))
                                          (rden (gadd A B) (S i) (tagB (eR x)))) rb =
                   flat_map (fun e => map (mstep i e) (rden B (S i) (eR e))) rb).
      { apply flat_map_ext_in'. intros e He. destruct (Rb e He) as [_ HR].
        rewrite IHb' by exact HR. reflexivity. }
      rewrite EA, EB.
      csolve.
Qed.

Lemma denote_gadd A B : length A = length B -> std_form A = true -> std_form B = true ->
  peq (denote (gadd A B)) (denote A ++ denote B).
Proof. intros Hl HA HB. exact (proj2 (proj2 (gadd_rden A B 0%nat Hl HA HB))). Qed.

(* ------------------------------------------------------------------ MPO.plus_identity *)
Lemma denote_gplus_id a b g : g <> [] -> std_form g = true ->
  peq (denote (gplus_id a b g)) ((a, []) :: pscale b (denote g)).
Proof.
  intros Hg Hs. destruct g as [|es g]; [contradiction|].
  cbn [std_form forallb] in Hs. apply andb_true_iff in Hs. destruct Hs as [_ Hs].
  unfold denote. cbn [gplus_id]. rewrite !rden_cons, out_app, flat_map_app.
  set (f := fun e => if key_eqb (eL e) IdL then mkE (eL e) (eR e) (eop e) (cmul b (ew e)) else e).
  assert (E1 : out IdL (map f es) = map f (out IdL es)).
  { unfold out. rewrite filter_map_comm. f_equal. apply filter_ext_in'. intros e _.
    unfold f. destruct (key_eqb (eL e) IdL) eqn:E; [cbn [eL]; exact E|exact E]. }
  rewrite E1, flat_map_map. rewrite (out_single_eq' IdL) by reflexivity.
  cbn [flat_map eR]. rewrite app_nil_r, (rden_IdR_std g Hs). cbn [map]. unfold mstep at 2.
  cbn [ew eop fst snd consop Z.eqb]. rewrite cmul_1_r.
  apply peq_trans with ([(a, [])] ++ pscale b (flat_map (fun e => map (mstep 0 e) (rden g 1 (eR e))) (out IdL es)));
    [|apply peq_refl].
  eapply peq_trans; [apply peq_app_comm|]. apply peq_app; [apply peq_refl|].
  unfold pscale. rewrite map_flat_map.
  rewrite (flat_map_ext_in' (fun x => map (mstep 0 (f x)) (rden g 1 (eR (f x))))
             (fun x => map (fun m => (cmul b (fst m), snd m)) (map (mstep 0 x) (rden g 1 (eR x)))));
    [apply peq_refl|].
  intros e He. apply in_out in He. destruct He as [_ He]. unfold f. rewrite He. cbn [key_eqb eR].
  rewrite map_map. apply map_ext. intros [c v]. unfold mstep. cbn [ew eop fst snd].
  rewrite cmul_assoc. reflexivity.
Qed.

(* ------------------------------------------------------------------ completeness of peqb *)
Lemma letter_cmp_antisym x y : letter_cmp y x = CompOpp (letter_cmp x y).
Proof.
  unfold letter_cmp. rewrite (Nat.compare_antisym (fst x) (fst y)).
  destruct (Nat.compare (fst x) (fst y)); cbn [CompOpp]; try reflexivity. apply Z.compare_antisym.
Qed.

Lemma word_cmp_antisym u : forall v, word_cmp v u = CompOpp (word_cmp u v).
Proof.
  induction u as [|x u IH]; intros [|y v]; cbn [word_cmp CompOpp]; try reflexivity.
  rewrite (letter_cmp_antisym x y). destruct (letter_cmp x y); cbn [CompOpp]; try reflexivity. apply IH.
Qed.

Lemma word_cmp_gt_lt u v : word_cmp u v = Gt -> word_cmp v u = Lt.
Proof. intro H. rewrite (word_cmp_antisym u v), H. reflexivity. Qed.

Lemma letter_cmp_lt x y : letter_cmp x y = Lt <->
  (fst x < fst y)%nat \/ (fst x = fst y /\ snd x < snd y).
Proof.
  unfold letter_cmp. destruct (Nat.compare_spec (fst x) (fst y)) as [E|E|E].
  - rewrite Z.compare_lt_iff. split; intro H; lia.
  - split; intro H; [lia|reflexivity].
  - split; intro H; [discriminate H|lia].
Qed.

Lemma letter_cmp_trans x y z : letter_cmp x y = Lt -> letter_cmp y z = Lt -> letter_cmp x z = Lt.
Proof. rewrite !letter_cmp_lt. lia. Qed.

Lemma word_cmp_trans u : forall v t, word_cmp u v = Lt -> word_cmp v t = Lt -> word_cmp u t = Lt.
Proof.
  induction u as [|x u IH]; intros [|y v] [|z t] H1 H2; cbn [word_cmp] in *;
    try discriminate H1; try discriminate H2; try reflexivity.
  destruct (letter_cmp x y) eqn:E1; try discriminate H1.
  - apply letter_cmp_eq in E1. subst y. destruct (letter_cmp x z); try discriminate H2; try reflexivity.
    eapply IH; eassumption.
  - destruct (letter_cmp y z) eqn:E2; try discriminate H2.
    + apply letter_cmp_eq in E2. subst z. rewrite E1. reflexivity.
    + rewrite (letter_cmp_trans x y z E1 E2). reflexivity.
Qed.

Definition mlt (m n : mono) : Prop := word_cmp (snd m) (snd n) = Lt.
Definition wlb (x : word) (p : poly) : Prop := Forall (fun n => word_cmp x (snd n) = Lt) p.

Lemma wlb_pinsert x m p : wlb x p -> word_cmp x (snd m) = Lt -> wlb x (pinsert m p).
Proof.
  unfold wlb. intros Hp Hm. induction p as [|[c v] t IH]; cbn [pinsert].
  - constructor; [exact Hm|constructor].
  - inversion Hp as [|? ? Hv Ht]; subst. cbn [snd] in Hv.
    destruct (word_cmp (snd m) v).
    + constructor; [exact Hv|exact Ht].
    + constructor; [exact Hm|exact Hp].
    + constructor; [exact Hv|apply IH; exact Ht].
Qed.

Lemma pinsert_sorted m p : StronglySorted mlt p -> StronglySorted mlt (pinsert m p).
Proof.
  induction 1 as [|[c v] t Ht IH Hv]; cbn [pinsert].
  - constructor; constructor.
  - destruct (word_cmp (snd m) v) eqn:E.
    + constructor; [exact Ht|exact Hv].
    + constructor; [constructor; assumption|]. constructor; [exact E|].
      eapply Forall_impl; [|exact Hv]. intros n Hn. unfold mlt in *. cbn [snd] in Hn.
      eapply word_cmp_trans; eassumption.
    + constructor; [exact IH|]. apply wlb_pinsert; [exact Hv|]. cbn [snd]. apply word_cmp_gt_lt. exact E.
Qed.

Lemma fold_pinsert_sorted p : StronglySorted mlt (fold_right pinsert [] p).
Proof. induction p as [|m p IH]; cbn [fold_right]; [constructor|]. apply pinsert_sorted. exact IH. Qed.

Lemma Forall_filter {A} (P : A -> Prop) (f : A -> bool) l : Forall P l -> Forall P (filter f l).
Proof.
  induction 1 as [|x l Hx _ IH]; cbn [filter]; [constructor|].
  destruct (f x); [constructor; assumption|exact IH].
Qed.

Lemma filter_sorted {A} (R : A -> A -> Prop) (f : A -> bool) l :
  StronglySorted R l -> StronglySorted R (filter f l).
Proof.
  induction 1 as [|x l _ IH Hx]; cbn [filter]; [constructor|].
  destruct (f x); [|exact IH]. constructor; [exact IH|]. apply Forall_filter. exact Hx.
Qed.

Definition nzp (p : poly) : Prop := Forall (fun m => fst m <> c0) p.

Lemma normalize_sorted p : StronglySorted mlt (normalize p).
Proof. unfold normalize. apply filter_sorted. apply fold_pinsert_sorted. Qed.

Lemma normalize_nz p : nzp (normalize p).
Proof.
  unfold normalize, nzp. apply Forall_forall. intros m Hm. apply filter_In in Hm.
  destruct Hm as [_ Hm]. intro E. rewrite E in Hm. discriminate Hm.
Qed.

Lemma coef_wlb x p : wlb x p -> coef p x = c0.
Proof.
  unfold wlb. induction 1 as [|[c v] t Hv _ IH]; cbn [coef]; [reflexivity|].
  cbn [snd] in Hv. destruct (word_eqb v x) eqn:E; [|exact IH].
  apply word_eqb_eq in E. subst v.
  assert (E : word_cmp x x = Eq) by (apply word_cmp_eq; reflexivity). congruence.
Qed.

Lemma cadd_cancel_l c x y : cadd c x = cadd c y -> x = y.
Proof.
  destruct c, x, y. unfold cadd. cbn [fst snd]. intro H. injection H as H1 H2. f_equal; lia.
Qed.

Lemma coef_head_sorted c v t : Forall (mlt (c, v)) t -> coef ((c, v) :: t) v = c.
Proof.
  intro H. cbn [coef]. rewrite word_eqb_refl, (coef_wlb v t); [apply cadd_0_r|exact H].
Qed.

Lemma sorted_peq_eq l1 : forall l2, StronglySorted mlt l1 -> StronglySorted mlt l2 ->
  nzp l1 -> nzp l2 -> peq l1 l2 -> l1 = l2.
Proof.
  induction l1 as [|[c v] t1 IH]; intros [|[d u] t2] S1 S2 N1 N2 H.
  - reflexivity.
  - exfalso. inversion S2 as [|? ? _ Hu]; subst. inversion N2 as [|? ? Hd _]; subst.
    apply Hd. exact (eq_sym (eq_trans (H u) (coef_head_sorted d u t2 Hu))).
  - exfalso. inversion S1 as [|? ? _ Hv]; subst. inversion N1 as [|? ? Hc _]; subst.
    apply Hc. exact (eq_trans (eq_sym (coef_head_sorted c v t1 Hv)) (H v)).
  - inversion S1 as [|? ? St1 Hv]; subst. inversion S2 as [|? ? St2 Hu]; subst.
    inversion N1 as [|? ? Hc Nt1]; subst. inversion N2 as [|? ? Hd Nt2]; subst. cbn [fst] in Hc, Hd.
    destruct (word_cmp v u) eqn:E.
    + apply word_cmp_eq in E. subst u.
      assert (Ecd : c = d).
      { exact (eq_trans (eq_sym (coef_head_sorted c v t1 Hv))
                        (eq_trans (H v) (coef_head_sorted d v t2 Hu))). }
      subst d. f_equal. apply IH; try assumption.
      intro x. specialize (H x). cbn [coef] in H. destruct (word_eqb v x); [|exact H].
      eapply cadd_cancel_l. exact H.
    + exfalso. apply Hc.
      assert (W : wlb v ((d, u) :: t2)).
      { constructor; [exact E|]. eapply Forall_impl; [|exact Hu]. intros n Hn. unfold mlt in Hn.
        cbn [snd] in Hn. eapply word_cmp_trans; eassumption. }
      exact (eq_trans (eq_sym (coef_head_sorted c v t1 Hv)) (eq_trans (H v) (coef_wlb v _ W))).
    + exfalso. apply word_cmp_gt_lt in E. apply Hd.
      assert (W : wlb u ((c, v) :: t1)).
      { constructor; [exact E|]. eapply Forall_impl; [|exact Hv]. intros n Hn. unfold mlt in Hn.
        cbn [snd] in Hn. eapply word_cmp_trans; eassumption. }
      exact (eq_trans (eq_sym (coef_head_sorted d u t2 Hu)) (eq_trans (eq_sym (H u)) (coef_wlb u _ W))).
Qed.

Lemma list_eqb_refl {A} (eqb : A -> A -> bool) : (forall x, eqb x x = true) ->
  forall l, list_eqb eqb l l = true.
Proof. intros H l. induction l as [|x l IH]; cbn [list_eqb]; [reflexivity|]. rewrite H, IH. reflexivity. Qed.

Lemma peqb_complete p q : peq p q -> peqb p q = true.
Proof.
  intro H. unfold peqb.
  assert (E : normalize p = normalize q).
  { apply sorted_peq_eq; try apply normalize_sorted; try apply normalize_nz.
    intro x. rewrite !coef_normalize. apply H. }
  rewrite E. apply list_eqb_refl. intro m. apply mono_eqb_eq. reflexivity.
Qed.

Lemma peqb_iff p q : peqb p q = true <-> peq p q.
Proof. split; [apply peqb_sound|apply peqb_complete]. Qed.
