(* C05: isometry of assembled block matrices whose blocks sit at pairwise distinct row blocks and pairwise distinct
   column blocks that cover the column leg: Q of qr (reduced: projected inner leg; complete: identity fill-in),
   U and VH of svd(full_matrices=True) when every sector has a stored block. *)
From TenpyV Require Import Base.Prelude Model.ChargeL Model.Leg Model.Factor Model.FactorDense Model.FactorDense2
  Model.FactorDense3 Proofs.FactorDenseP Proofs.FactorDenseP2.
Open Scope Z_scope.

Lemma NoDup_map_inj {A B} (f : A -> B) l : NoDup (map f l) -> forall a b, In a l -> In b l -> f a = f b -> a = b.
Proof.
  induction l as [|x l IH]; intros ND a b Ha Hb E; [destruct Ha|]. cbn [map] in ND. inversion ND as [|? ? Hni ND']; subst.
  destruct Ha as [<-|Ha], Hb as [<-|Hb].
  - reflexivity.
  - exfalso. apply Hni. rewrite E. apply in_map, Hb.
  - exfalso. apply Hni. rewrite <- E. apply in_map, Ha.
  - apply IH; assumption.
Qed.

Lemma NoDup_app_disj {A} (l1 l2 : list A) :
  NoDup l1 -> NoDup l2 -> (forall x, In x l1 -> In x l2 -> False) -> NoDup (l1 ++ l2).
Proof.
  induction l1 as [|a l1 IH]; intros N1 N2 D; [exact N2|]. inversion N1 as [|? ? Hni N1']; subst. cbn [app]. constructor.
  - intros HI. apply in_app_or in HI. destruct HI as [HI|HI]; [exact (Hni HI)|exact (D a (or_introl eq_refl) HI)].
  - apply IH; [exact N1'|exact N2|]. intros x H1 H2. exact (D x (or_intror H1) H2).
Qed.

Lemma bval_eq rs cs r c e :
  bval rs cs r c e = if inblk rs (erow e) r && inblk cs (ecol e) c
                     then emat e (r - boff rs (erow e))%nat (c - boff cs (ecol e))%nat else 0.
Proof. destruct e as [[i j] M]. reflexivity. Qed.

(* at an index of column block m only the entry of column block m counts *)
Lemma dense_col_single rs ns es : forall e r t m,
  NoDup (map ecol es) -> In e es -> ecol e = m -> inblk ns m t = true ->
  dense rs ns es r t = bval rs ns r t e.
Proof.
  unfold dense. induction es as [|e0 es IH]; intros e r t m ND Hin Em Ht; [destruct Hin|].
  cbn [map] in ND. inversion ND as [|? ? Hni ND']; subst. cbn [map sumZ]. destruct Hin as [<-|Hin].
  - rewrite sumZ_map_zero; [lia|]. intros x Hx. rewrite bval_eq.
    destruct (inblk ns (ecol x) t) eqn:E; [|rewrite andb_false_r; reflexivity].
    exfalso. apply Hni. rewrite <- (inblk_unique ns _ _ t E Ht). apply in_map, Hx.
  - rewrite (IH e r t (ecol e) ND' Hin eq_refl Ht). rewrite (bval_eq rs ns r t e0).
    destruct (inblk ns (ecol e0) t) eqn:E; [|rewrite andb_false_r; lia].
    exfalso. apply Hni. rewrite (inblk_unique ns _ _ t E Ht). apply in_map, Hin.
Qed.

Lemma dense_tent ns cs es t c : dense ns cs es t c = dense cs ns (map tent es) c t.
Proof.
  unfold dense. rewrite map_map. f_equal. apply map_ext. intros [[i j] M]. unfold tent, bval, erow, ecol, emat, mT.
  cbn [fst snd]. rewrite andb_comm. reflexivity.
Qed.

(* the general statement: D^T D = 1 on the column leg *)
Theorem ents_isometry rs ns (es : list bent) :
  NoDup (map erow es) -> NoDup (map ecol es) ->
  (forall x, (x < length ns)%nat -> (0 < bsize ns x)%nat -> In x (map ecol es)) ->
  (forall e, In e es -> forall a b, (a < bsize ns (ecol e))%nat -> (b < bsize ns (ecol e))%nat ->
     sumn (bsize rs (erow e)) (fun x => emat e x a * emat e x b) = delta a b) ->
  forall t t', (t < list_sum ns)%nat -> (t' < list_sum ns)%nat ->
  sumn (list_sum rs) (fun r => dense rs ns es r t * dense rs ns es r t') = delta t t'.
Proof.
  intros NR NC Cov Hiso t t' Ht Ht'.
  destruct (locate_ex ns t Ht) as [m Hm]. destruct (locate_ex ns t' Ht') as [m' Hm'].
  assert (Em : exists e, In e es /\ ecol e = m).
  { pose proof (inblk_lt ns m t Hm) as [_ L]. pose proof (proj1 (inblk_iff ns m t) Hm) as B.
    destruct (proj1 (in_map_iff ecol es m) (Cov m L ltac:(lia))) as [e [E I]]. exists e. split; assumption. }
  assert (Em' : exists e, In e es /\ ecol e = m').
  { pose proof (inblk_lt ns m' t' Hm') as [_ L]. pose proof (proj1 (inblk_iff ns m' t') Hm') as B.
    destruct (proj1 (in_map_iff ecol es m') (Cov m' L ltac:(lia))) as [e [E I]]. exists e. split; assumption. }
  destruct Em as [e [Ie Ee]]. destruct Em' as [e' [Ie' Ee']].
  rewrite (sumn_ext _ _ (fun r => bval rs ns r t e * bval rs ns r t' e')).
  2:{ intros r _. rewrite (dense_col_single rs ns es e r t m NC Ie Ee Hm).
      rewrite (dense_col_single rs ns es e' r t' m' NC Ie' Ee' Hm'). reflexivity. }
  destruct (Nat.eq_dec m m') as [E|NE].
  - rewrite <- E in Hm', Ee'. clear E m'. assert (e' = e) as -> by (apply (NoDup_map_inj ecol es NC); [assumption|assumption|congruence]).
    rewrite (sumn_ext _ _ (fun r => if inblk rs (erow e) r
               then emat e (r - boff rs (erow e))%nat (t - boff ns m)%nat * emat e (r - boff rs (erow e))%nat (t' - boff ns m)%nat else 0)).
    2:{ intros r _. rewrite !bval_eq, Ee, Hm, Hm'. destruct (inblk rs (erow e) r); cbn [andb]; [reflexivity|lia]. }
    pose proof (sumn_inblk rs (erow e) (fun x => emat e x (t - boff ns m)%nat * emat e x (t' - boff ns m)%nat)) as SI.
    cbv beta in SI. rewrite SI. clear SI. apply inblk_iff in Hm. apply inblk_iff in Hm'.
    rewrite Hiso; [|exact Ie|rewrite Ee; lia|rewrite Ee; lia].
    rewrite <- (delta_shift (boff ns m)). f_equal; lia.
  - assert (NX : erow e <> erow e').
    { intros EX. apply NE. rewrite <- Ee, <- Ee'. f_equal. apply (NoDup_map_inj erow es NR); assumption. }
    rewrite sumn_zero.
    + unfold delta. destruct (Nat.eqb t t') eqn:E; [|reflexivity]. apply Nat.eqb_eq in E. subst t'.
      exfalso. apply NE. exact (inblk_unique ns m m' t Hm Hm').
    + intros r _. rewrite !bval_eq. destruct (inblk rs (erow e) r) eqn:E1; cbn [andb]; [|lia].
      destruct (inblk rs (erow e') r) eqn:E2; cbn [andb]; [|lia].
      exfalso. apply NX. exact (inblk_unique rs _ _ r E1 E2).
Qed.

(* the transposed statement: D D^T = 1 on the row leg *)
Theorem ents_isometry_T ns cs (es : list bent) :
  NoDup (map erow es) -> NoDup (map ecol es) ->
  (forall x, (x < length ns)%nat -> (0 < bsize ns x)%nat -> In x (map erow es)) ->
  (forall e, In e es -> forall a b, (a < bsize ns (erow e))%nat -> (b < bsize ns (erow e))%nat ->
     sumn (bsize cs (ecol e)) (fun y => emat e a y * emat e b y) = delta a b) ->
  forall t t', (t < list_sum ns)%nat -> (t' < list_sum ns)%nat ->
  sumn (list_sum cs) (fun c => dense ns cs es t c * dense ns cs es t' c) = delta t t'.
Proof.
  intros NR NC Cov Hiso t t' Ht Ht'.
  rewrite (sumn_ext _ _ (fun c => dense cs ns (map tent es) c t * dense cs ns (map tent es) c t')).
  2:{ intros c _. rewrite (dense_tent ns cs es t c), (dense_tent ns cs es t' c). reflexivity. }
  assert (M1 : map erow (map tent es) = map ecol es) by (rewrite map_map; apply map_ext; intros [[i j] M]; reflexivity).
  assert (M2 : map ecol (map tent es) = map erow es) by (rewrite map_map; apply map_ext; intros [[i j] M]; reflexivity).
  apply ents_isometry; [rewrite M1; exact NC|rewrite M2; exact NR|rewrite M2; exact Cov| |exact Ht|exact Ht'].
  intros e' He' a b Ha Hb. apply in_map_iff in He'. destruct He' as [e [<- He]].
  destruct e as [[i j] M]. unfold tent, erow, ecol, emat, mT in *. cbn [fst snd] in *.
  exact (Hiso (i, j, M) He a b Ha Hb).
Qed.

(* ---------------------------------------------------------------- qr, reduced mode (also lq by transposition) *)
Lemma pairs_L_rows ps : map erow (pairs_L ps) = map p_i ps.
Proof. unfold pairs_L. rewrite map_map. reflexivity. Qed.
Lemma pairs_L_cols ps : map ecol (pairs_L ps) = map p_x ps.
Proof. unfold pairs_L. rewrite map_map. reflexivity. Qed.

Theorem qr_isometry_assembled rs ns ps :
  NoDup (map p_i ps) -> NoDup (map p_x ps) ->
  (forall x, (x < length ns)%nat -> (0 < bsize ns x)%nat -> In x (map p_x ps)) ->
  (forall p, In p ps -> forall a b, (a < bsize ns (p_x p))%nat -> (b < bsize ns (p_x p))%nat ->
     sumn (bsize rs (p_i p)) (fun r => p_A p r a * p_A p r b) = delta a b) ->
  forall t t', (t < list_sum ns)%nat -> (t' < list_sum ns)%nat ->
  sumn (list_sum rs) (fun r => dense rs ns (pairs_L ps) r t * dense rs ns (pairs_L ps) r t') = delta t t'.
Proof.
  intros NI NX Cov Hiso. apply ents_isometry.
  - rewrite pairs_L_rows. exact NI.
  - rewrite pairs_L_cols. exact NX.
  - rewrite pairs_L_cols. exact Cov.
  - intros e He. unfold pairs_L in He. apply in_map_iff in He. destruct He as [p [<- Hp]].
    unfold erow, ecol, emat. cbn [fst snd]. apply Hiso, Hp.
Qed.

(* ---------------------------------------------------------------- qr, complete mode: identity fill-in *)
Lemma existsb_eqb_In q l : existsb (Nat.eqb q) l = true <-> In q l.
Proof.
  rewrite existsb_exists. split.
  - intros [x [Hx E]]. apply Nat.eqb_eq in E. subst x. exact Hx.
  - intros H. exists q. split; [exact H|apply Nat.eqb_refl].
Qed.

Lemma qr_fill_spec n stored q : In q (qr_fill n stored) <-> (q < n)%nat /\ ~ In q stored.
Proof.
  unfold qr_fill. rewrite filter_In, in_seq. split.
  - intros [H1 H2]. split; [lia|]. intros HI. apply existsb_eqb_In in HI. rewrite HI in H2. discriminate.
  - intros [H1 H2]. split; [lia|]. destruct (existsb (Nat.eqb q) stored) eqn:E; [|reflexivity].
    exfalso. apply H2. apply existsb_eqb_In, E.
Qed.

Lemma qr_fill_NoDup n stored : NoDup (qr_fill n stored).
Proof. unfold qr_fill. apply NoDup_filter, seq_NoDup. Qed.

Lemma delta_sym a b : delta a b = delta b a.
Proof. unfold delta. rewrite Nat.eqb_sym. reflexivity. Qed.

Lemma eye_isometry n a b : (a < n)%nat -> sumn n (fun x => delta x a * delta x b) = delta a b.
Proof.
  intros Ha. rewrite (sumn_ext _ _ (fun x => delta a x * delta x b)) by (intros x _; rewrite (delta_sym x a); reflexivity).
  exact (sumn_delta n a (fun x => delta x b) Ha).
Qed.

Theorem qr_complete_isometry rs ps :
  (forall p, In p ps -> p_x p = p_i p) -> NoDup (map p_i ps) ->
  (forall p, In p ps -> forall a b, (a < bsize rs (p_i p))%nat -> (b < bsize rs (p_i p))%nat ->
     sumn (bsize rs (p_i p)) (fun r => p_A p r a * p_A p r b) = delta a b) ->
  forall t t', (t < list_sum rs)%nat -> (t' < list_sum rs)%nat ->
  sumn (list_sum rs) (fun r => dense rs rs (qr_complete_Q rs ps) r t * dense rs rs (qr_complete_Q rs ps) r t') = delta t t'.
Proof.
  intros Hx NI Hiso.
  assert (Px : map p_x ps = map p_i ps) by (apply map_ext_in; exact Hx).
  assert (R : map erow (qr_complete_Q rs ps) = map p_i ps ++ qr_fill (length rs) (map p_i ps)).
  { unfold qr_complete_Q. rewrite map_app, pairs_L_rows, map_map. f_equal. apply map_id. }
  assert (C : map ecol (qr_complete_Q rs ps) = map p_i ps ++ qr_fill (length rs) (map p_i ps)).
  { unfold qr_complete_Q. rewrite map_app, pairs_L_cols, Px, map_map. f_equal. apply map_id. }
  assert (ND : NoDup (map p_i ps ++ qr_fill (length rs) (map p_i ps))).
  { apply NoDup_app_disj; [exact NI|apply qr_fill_NoDup|]. intros q H1 H2. apply qr_fill_spec in H2. tauto. }
  apply ents_isometry.
  - rewrite R. exact ND.
  - rewrite C. exact ND.
  - intros x Lx _. rewrite C. apply in_or_app. destruct (in_dec Nat.eq_dec x (map p_i ps)) as [I|NI'].
    + left. exact I.
    + right. apply qr_fill_spec. split; assumption.
  - intros e He. unfold qr_complete_Q in He. apply in_app_or in He. destruct He as [He|He].
    + unfold pairs_L in He. apply in_map_iff in He. destruct He as [p [<- Hp]].
      unfold erow, ecol, emat. cbn [fst snd]. rewrite (Hx p Hp). apply Hiso, Hp.
    + apply in_map_iff in He. destruct He as [q [<- Hq]]. unfold erow, ecol, emat. cbn [fst snd].
      intros a b Ha Hb. apply eye_isometry, Ha.
Qed.

(* ---------------------------------------------------------------- svd(full_matrices=True), every sector stored *)
Lemma svd_U_full_rows fs : map erow (svd_U_full fs) = map sb_row fs.
Proof. unfold svd_U_full. rewrite map_map. reflexivity. Qed.
Lemma svd_U_full_cols fs : map ecol (svd_U_full fs) = map sb_row fs.
Proof. unfold svd_U_full. rewrite map_map. reflexivity. Qed.
Lemma svd_V_full_rows fs : map erow (svd_V_full fs) = map sb_col fs.
Proof. unfold svd_V_full. rewrite map_map. reflexivity. Qed.
Lemma svd_V_full_cols fs : map ecol (svd_V_full fs) = map sb_col fs.
Proof. unfold svd_V_full. rewrite map_map. reflexivity. Qed.

Theorem svd_full_unitary rs cs fs :
  NoDup (map sb_row fs) -> NoDup (map sb_col fs) ->
  (forall q, (q < length rs)%nat -> (0 < bsize rs q)%nat -> In q (map sb_row fs)) ->
  (forall q, (q < length cs)%nat -> (0 < bsize cs q)%nat -> In q (map sb_col fs)) ->
  (forall e, In e fs -> forall a b, (a < bsize rs (sb_row e))%nat -> (b < bsize rs (sb_row e))%nat ->
     sumn (bsize rs (sb_row e)) (fun x => f_U (sb_fac e) x a * f_U (sb_fac e) x b) = delta a b /\
     sumn (bsize rs (sb_row e)) (fun x => f_U (sb_fac e) a x * f_U (sb_fac e) b x) = delta a b) ->
  (forall e, In e fs -> forall a b, (a < bsize cs (sb_col e))%nat -> (b < bsize cs (sb_col e))%nat ->
     sumn (bsize cs (sb_col e)) (fun y => f_V (sb_fac e) a y * f_V (sb_fac e) b y) = delta a b /\
     sumn (bsize cs (sb_col e)) (fun y => f_V (sb_fac e) y a * f_V (sb_fac e) y b) = delta a b) ->
  let U := dense rs rs (svd_U_full fs) in
  let V := dense cs cs (svd_V_full fs) in
  (forall t t', (t < list_sum rs)%nat -> (t' < list_sum rs)%nat ->
     sumn (list_sum rs) (fun r => U r t * U r t') = delta t t' /\ sumn (list_sum rs) (fun c => U t c * U t' c) = delta t t') /\
  (forall t t', (t < list_sum cs)%nat -> (t' < list_sum cs)%nat ->
     sumn (list_sum cs) (fun c => V t c * V t' c) = delta t t' /\ sumn (list_sum cs) (fun r => V r t * V r t') = delta t t').
Proof.
  intros NR NC CovR CovC HU HV U V. split; intros t t' Ht Ht'; split.
  - apply ents_isometry; try assumption.
    + rewrite svd_U_full_rows. exact NR.
    + rewrite svd_U_full_cols. exact NR.
    + rewrite svd_U_full_cols. exact CovR.
    + intros e He. unfold svd_U_full in He. apply in_map_iff in He. destruct He as [s [<- Hs]].
      unfold erow, ecol, emat. cbn [fst snd]. intros a b Ha Hb. apply (HU s Hs a b Ha Hb).
  - apply ents_isometry_T; try assumption.
    + rewrite svd_U_full_rows. exact NR.
    + rewrite svd_U_full_cols. exact NR.
    + rewrite svd_U_full_rows. exact CovR.
    + intros e He. unfold svd_U_full in He. apply in_map_iff in He. destruct He as [s [<- Hs]].
      unfold erow, ecol, emat. cbn [fst snd]. intros a b Ha Hb. apply (HU s Hs a b Ha Hb).
  - apply ents_isometry_T; try assumption.
    + rewrite svd_V_full_rows. exact NC.
    + rewrite svd_V_full_cols. exact NC.
    + rewrite svd_V_full_rows. exact CovC.
    + intros e He. unfold svd_V_full in He. apply in_map_iff in He. destruct He as [s [<- Hs]].
      unfold erow, ecol, emat. cbn [fst snd]. intros a b Ha Hb. apply (HV s Hs a b Ha Hb).
  - apply ents_isometry; try assumption.
    + rewrite svd_V_full_rows. exact NC.
    + rewrite svd_V_full_cols. exact NC.
    + rewrite svd_V_full_cols. exact CovC.
    + intros e He. unfold svd_V_full in He. apply in_map_iff in He. destruct He as [s [<- Hs]].
      unfold erow, ecol, emat. cbn [fst snd]. intros a b Ha Hb. apply (HV s Hs a b Ha Hb).
Qed.
