(* Property C01: block-sparse tensor algebra agrees with dense numpy algebra.
   Only statements; every proof is `exact <lemma from Proofs/>`.
   Model: Model/Tensor.v (storage of np_conserved.Array, to_ndarray = assignment of the stored blocks in storage order,
   dense_sum = sum of the stored blocks), Model/TensorOps.v (operations as the code performs them on _data/_qdata),
   Model/Labels.v (label functions).  All statements are for every rank, every number and size of charge blocks,
   every number of charges and every number of stored blocks.
   Model/TensorDot.v adds the block VALUES of tensordot (block matrix products, summed per result row) to the row / charge
   bookkeeping of TensorOps.v, and np.tensordot on dense arrays as a finite sum (d_tensordot); Model/LabelGrammar.v is the
   grammar of (nested) leg labels as a syntax tree.
   Model/TakeSlice.v is take_slice on one axis as read from the source (correspondence: stream coq2 of harness/c02.py).
   NOT proved here (checked by the numpy oracle of harness/c01.py only): inner, trace, combine/split_legs,
   general indexing, concatenation, scale_axis, permutations. *)
From TenpyV Require Import Base.Prelude Model.Charge Model.Tensor Model.TensorOps Model.Labels Model.TensorDot Model.LabelGrammar.
From TenpyV Require Import Model.TensorDotFilter Model.TakeSlice.
From TenpyV Require Import Proofs.ChargeP Proofs.TensorP Proofs.TensorP2 Proofs.LabelsP.
From TenpyV Require Import Proofs.TensorP3 Proofs.TensorDotP Proofs.LabelsP2 Proofs.TensorDotFilterP Proofs.TakeSliceP.
From TenpyV Require Import Model.TensorProg Proofs.TensorProgP Proofs.TensorProgEx.
From Coq Require Import Ascii.
Open Scope Z_scope.

(* np.transpose(D, p)[i_p(0), i_p(1), ...] = D[i_0, i_1, ...]  (gather p i = [i_p(0); i_p(1); ...]) *)
Theorem T01_transpose : forall p a idx, Permutation p (seq 0 (rank a)) ->
  to_ndarray (transpose p a) (gather 0%nat p idx) = to_ndarray a idx /\
  dense_sum (transpose p a) (gather 0%nat p idx) = dense_sum a idx.
Proof. exact transpose_dense. Qed.

Theorem T01_conj : forall ci a idx,
  to_ndarray (conj ci a) idx = cconj (to_ndarray a idx) /\ dense_sum (conj ci a) idx = cconj (dense_sum a idx).
Proof. exact conj_dense. Qed.

Theorem T01_scale : forall s a idx,
  to_ndarray (scale s a) idx = cmul s (to_ndarray a idx) /\ dense_sum (scale s a) idx = cmul s (dense_sum a idx).
Proof. exact scale_dense. Qed.

(* with at most one stored block per combination of charge blocks (C02), the assignment semantics of to_ndarray
   is the sum of the embedded blocks: blocks of different _qdata rows never overlap *)
Theorem T01_blocks_disjoint : forall a idx, NoDup (rows a) -> rows_shape a -> to_ndarray a idx = dense_sum a idx.
Proof. exact to_ndarray_sum. Qed.

(* a + alpha * b  (iadd_prefactor_other = sorted merge of ibinary_blockwise).  THIS is where C01 needs C02:
   the merge trusts the cached claim _qdata_sorted of both operands (hypotheses WF). *)
Theorem T01_add : forall ci alpha a b idx, WF ci a -> WF ci b -> legs a = legs b -> qtot a = qtot b ->
  to_ndarray (add alpha a b) idx = cadd (to_ndarray a idx) (cmul alpha (to_ndarray b idx)).
Proof. exact add_dense. Qed.

(* ... on the level of sums of blocks the merge is correct for every order of the block lists *)
Theorem T01_add_blocksum : forall alpha a b idx, legs a = legs b ->
  dense_sum (add alpha a b) idx = cadd (dense_sum a idx) (cmul alpha (dense_sum b idx)).
Proof. exact add_dense_sum. Qed.

(* ... and with a false claim the result of the real algorithm is wrong (one block is lost in to_ndarray) *)
Theorem T01_add_needs_truthful_claim :
  (to_ndarray (add (1, 0) bad_claim_example good_claim_example) [0%nat] = (7, 0)) /\
  (cadd (to_ndarray bad_claim_example [0%nat]) (cmul (1, 0) (to_ndarray good_claim_example [0%nat])) = (14, 0)).
Proof. exact bad_claim_breaks_add. Qed.

(* outer: c[i ++ j] = a[i] * b[j] for the ASSIGNMENT semantics of to_ndarray, for well-formed operands and every index with at
   least rank(a) entries (the grid of block pairs has pairwise distinct rows, so no block overwrites another one;
   WF of the result, including the truth of the claim _qdata_sorted = a.sorted and b.sorted, is T02_wf_outer) *)
Theorem T01_outer : forall ci a b idx, WF ci a -> WF ci b -> (rank a <= length idx)%nat ->
  to_ndarray (outer ci a b) idx = cmul (to_ndarray a (firstn (rank a) idx)) (to_ndarray b (skipn (rank a) idx)).
Proof. exact outer_dense. Qed.

(* ... on the level of sums of blocks no well-formedness of b is needed *)
Theorem T01_outer_blocksum : forall ci a b ia ib, rows_shape a -> length ia = rank a ->
  dense_sum (outer ci a b) (ia ++ ib) = cmul (dense_sum a ia) (dense_sum b ib).
Proof. exact outer_dense_sum. Qed.

(* tensordot(a, b, axes=k) over the last k legs of a and the first k legs of b, any ranks, any k:
   the dense form of the block-sparse result (blocks = sums of block matrix products over the pairs of blocks with equal
   contracted qindices) is the finite sum over ALL contracted multi-indices c of  A[ia ++ c] * B[c ++ ib].
   Entries whose contracted multi-indices lie in different charge blocks never meet; missing blocks contribute 0 on both sides. *)
Theorem T01_tensordot : forall ci k a b idx, WF ci a -> WF ci b -> (k <= rank a)%nat -> (k <= rank b)%nat ->
  Forall2 (contractible ci) (skipn (rank a - k) (legs a)) (firstn k (legs b)) ->
  (rank a - k <= length idx)%nat ->
  to_ndarray (tensordot ci k a b) idx
  = d_tensordot (to_ndarray a) (to_ndarray b) (map ind_len (skipn (rank a - k) (legs a))) (rank a - k) idx.
Proof. exact tensordot_dense. Qed.

(* ... on the level of sums of blocks only equal block sizes of the contracted legs are needed (no charge rule, any block order,
   duplicate rows allowed) *)
Theorem T01_tensordot_blocksum : forall ci k a b idx,
  rows_shape a -> rows_shape b -> (k <= rank a)%nat -> (k <= rank b)%nat ->
  map bsz (skipn (rank a - k) (legs a)) = map bsz (firstn k (legs b)) ->
  (rank a - k <= length idx)%nat ->
  dense_sum (tensordot ci k a b) idx
  = d_tensordot (dense_sum a) (dense_sum b) (map ind_len (skipn (rank a - k) (legs a))) (rank a - k) idx.
Proof. exact tensordot_dense_sum. Qed.

(* the value model is tied to the correspondence-checked row model of TensorOps.v: one product per row of tdot_rows *)
Theorem T01_tensordot_rows : forall ci k a b,
  map fst (tdot_pairs k a b) = tdot_rows k a b /\
  (forall r, In r (rows (tensordot ci k a b)) <-> In r (tdot_rows k a b)) /\
  legs (tensordot ci k a b) = tdot_legs k a b /\ qtot (tensordot ci k a b) = tdot_qtot ci a b.
Proof. exact tensordot_rows_tie. Qed.

(* THIS is where tensordot needs C02: _tensordot_worker only computes result blocks whose kept charges are compatible with the
   new total charge (a_lookup_charges / b_charges_match; Model/TensorDotFilter.v drops the other blocks).  For well-formed
   operands (charge rule) nothing is dropped ... *)
Theorem T01_tensordot_charge_lookup : forall ci k a b, valid_ci ci -> WF ci a -> WF ci b -> (k <= rank a)%nat -> (k <= rank b)%nat ->
  Forall2 (contractible ci) (skipn (rank a - k) (legs a)) (firstn k (legs b)) ->
  tensordot_filtered ci k a b = tensordot ci k a b.
Proof. exact tensordot_filter_id. Qed.

(* ... and for an operand violating the charge rule the look-up loses a non-zero entry *)
Theorem T01_tensordot_lookup_needs_charge_rule :
  to_ndarray (tensordot [1] 1 nf_a nf_a) [0%nat; 0%nat] = (1, 0) /\
  to_ndarray (tensordot_filtered [1] 1 nf_a nf_a) [0%nat; 0%nat] = (0, 0).
Proof. exact filter_needs_charge_rule. Qed.

(* take_slice(i, axis) on one axis (Model/TakeSlice.v, the algorithm read from the source; correspondence: stream coq2 of harness/c02.py):
   the result is well-formed and  res[idx] = a[idx with i inserted at position ax] *)
Theorem T01_take_slice : forall ci ax i a, valid_ci ci -> WF ci a -> (ax < rank a)%nat ->
  (i < ind_len (nth ax (legs a) dleg))%nat ->
  length (nth (get_qindex (nth ax (legs a) dleg) i) (bch (nth ax (legs a) dleg)) []) = length ci ->
  WF ci (take_slice ci ax i a) /\
  (forall idx, (ax <= length idx)%nat -> to_ndarray (take_slice ci ax i a) idx = to_ndarray a (insert_at ax i idx)).
Proof. exact take_slice_full. Qed.

(* ... on the level of sums of blocks *)
Theorem T01_take_slice_blocksum : forall ci ax i a idx, rows_shape a -> (ax < rank a)%nat ->
  (i < ind_len (nth ax (legs a) dleg))%nat -> (ax <= length idx)%nat ->
  dense_sum (take_slice ci ax i a) idx = dense_sum a (insert_at ax i idx).
Proof. exact take_slice_dense_sum. Qed.

(* ---- COMPOSITIONS (Model/TensorProg.v).  A program is any finite list of instructions over the operations above (transpose, conj,
   scaling, a + alpha*b, outer, tensordot over k legs, take_slice) and iswapaxes / gauge_total_charge (Props/C02.v: T02_wf_iswapaxes,
   T02_wf_gauge_total_charge) applied to positions of an environment, each result either appended or overwriting an entry (see Props/C02.v, T02_history, for the well-formedness of every intermediate tensor).
   d_run interprets the SAME program on dense arrays (shape, function of the multi-index) with the numpy-level definitions only
   (np.transpose, np.conj, *, +, np.multiply.outer, np.tensordot, D[..., i, ...], np.swapaxes, identity for gauge_total_charge); it never
   looks at charges, blocks or flags.
   to_ndarray COMMUTES with running any applicable program from well-formed tensors: every entry of the final (hence of every
   intermediate) environment has the shape and, at every multi-index with one entry per axis, the value of the dense run (deq). *)
Theorem T01_program : forall ci prog e, valid_ci ci -> Forall (WF ci) e -> applicable_prog ci prog e ->
  Forall2 deq (map to_dense (run ci prog e)) (d_run prog (map to_dense e)).
Proof. exact program_dense. Qed.

(* ... read off entry by entry *)
Theorem T01_program_entry : forall ci prog e x idx, valid_ci ci -> Forall (WF ci) e -> applicable_prog ci prog e ->
  (x < length (run ci prog e))%nat ->
  map ind_len (legs (get (run ci prog e) x)) = fst (dget (d_run prog (map to_dense e)) x) /\
  (length idx = rank (get (run ci prog e) x) ->
   to_ndarray (get (run ci prog e) x) idx = snd (dget (d_run prog (map to_dense e)) x) idx).
Proof. exact program_dense_entry. Qed.

(* labels: _split_leg_label(_combine_leg_labels(ls), len(ls)) = ls with '?#' -> None, nested parentheses of any depth *)
Theorem T01_split_combine_labels : forall ls, ls <> [] -> Forall wf_label ls ->
  split_label (combine_labels ls) (length ls) = Some (map strip_q ls).
Proof. exact split_combine. Qed.

(* _conj_leg_label on EVERY label of the grammar  label ::= atom | atom STAR | LPAR label (DOT label)... RPAR  (any nesting depth,
   Model/LabelGrammar.v): the algorithm of the code (insert a star after every atom, then str.replace of two stars by nothing)
   computes the documented structural conjugation tconj (toggle the star of every atom), the result is again a label of the
   grammar, and conjugating twice gives the label back *)
Theorem T01_conj_label_involutive : forall t, twf t = true ->
  conj_label (render t) = render (tconj t) /\ twf (tconj t) = true /\ conj_label (conj_label (render t)) = render t.
Proof. exact conj_label_involutive. Qed.

(* the labels of the grammar are labels in the sense of T01_split_combine_labels *)
Theorem T01_grammar_wf_label : forall t, twf t = true -> wf_label (render t).
Proof. exact render_wf_label. Qed.

(* non-vacuity: a well-formed array with two charges (U(1) x Z_2), unsorted duplicated charge blocks, nonzero qtotal *)
Definition ex_leg1 : leg := mkLeg [1%nat; 2%nat; 0%nat] [[1; 1]; [0; 0]; [1; 1]] 1.
Definition ex_leg2 : leg := mkLeg [2%nat; 1%nat] [[0; 1]; [1; 0]] (-1).
Definition ex_arr : arr :=
  mkArr [ex_leg1; ex_leg2] [1; 0]
        [([0%nat; 0%nat], fun i => (Z.of_nat (nth 1 i 0%nat) + 1, 2)); ([2%nat; 0%nat], fun i => (3, 0))] true.
Example T01_example_wf : WF [1; 2] ex_arr.
Proof.
  constructor.
  - reflexivity.
  - intros r [<-|[<-|[]]]; reflexivity.
  - repeat constructor; cbn; intuition discriminate.
  - intros r [<-|[<-|[]]] j Hj; destruct j as [|[|j]]; cbn in Hj; try lia; vm_compute; reflexivity.
  - intros _. reflexivity.
Qed.
Example T01_example_values : map (to_ndarray ex_arr) [[0%nat; 1%nat]; [1%nat; 2%nat]; [0%nat; 2%nat]] = [(2, 2); (0, 0); (0, 0)].
Proof. vm_compute. reflexivity. Qed.
Example T01_example_labels :
  split_label (combine_labels [["a"%char]; ["("; "b"; "."; "?"; "1"; ")"]%char; ["?"; "2"]%char]) 3 =
  Some [Some ["a"%char]; Some ["("; "b"; "."; "?"; "1"; ")"]%char; None].
Proof. vm_compute. reflexivity. Qed.

(* non-vacuity of T01_outer: an entry of outer(ex_arr, ex_arr) that is a product of two non-zero entries *)
Example T01_example_outer :
  to_ndarray (outer [1; 2] ex_arr ex_arr) [0%nat; 1%nat; 0%nat; 0%nat] = cmul (2, 2) (1, 2) /\
  length (blks (outer [1; 2] ex_arr ex_arr)) = 4%nat.
Proof. vm_compute. split; reflexivity. Qed.

(* non-vacuity of T01_tensordot: b = conj(transpose(ex_arr)) has the leg conj(ex_leg2) first, contractible with the last leg of ex_arr *)
Definition ex_arr_b : arr := conj [1; 2] (transpose [1%nat; 0%nat] ex_arr).
Example T01_example_wf_b : WF [1; 2] ex_arr_b.
Proof.
  apply wf_conj; [repeat constructor; lia|]. apply wf_transpose; [|exact T01_example_wf].
  apply perm_swap.
Qed.
Example T01_example_contractible :
  Forall2 (contractible [1; 2]) (skipn (rank ex_arr - 1) (legs ex_arr)) (firstn 1 (legs ex_arr_b)).
Proof. repeat constructor; apply (contractible_conj [1; 2] ex_leg2). Qed.
(* sum_j a[0, j] * conj(a[0, j]) = |1+2i|^2 + |2+2i|^2 = 13 *)
Example T01_example_tensordot_value :
  to_ndarray (tensordot [1; 2] 1 ex_arr ex_arr_b) [0%nat; 0%nat] = (13, 0) /\
  d_tensordot (to_ndarray ex_arr) (to_ndarray ex_arr_b) [3%nat] 1 [0%nat; 0%nat] = (13, 0).
Proof. vm_compute. split; reflexivity. Qed.

(* non-vacuity of T01_take_slice: ex_arr[1, :] (index 1 of the first leg lies in charge block 1, which stores nothing) and
   ex_arr[0, :] (block 0) *)
Example T01_example_take_slice :
  length (nth (get_qindex (nth 0 (legs ex_arr) dleg) 0) (bch (nth 0 (legs ex_arr) dleg)) []) = length [1; 2] /\
  map (to_ndarray (take_slice [1; 2] 0 0 ex_arr)) [[0%nat]; [1%nat]; [2%nat]] = [(1, 2); (2, 2); (0, 0)] /\
  qtot (take_slice [1; 2] 0 0 ex_arr) = [0; 1] /\ rows (take_slice [1; 2] 0 0 ex_arr) = [[0%nat]].
Proof. vm_compute. repeat split; reflexivity. Qed.

(* non-vacuity of T01_conj_label_involutive: the example of the docstring of _conj_leg_label (see the strings below) *)
Definition ex_tree : ltree := LPipe [LAtom ["a"%char] false; LPipe [LAtom ["b"%char] true; LAtom ["c"%char] false]].
Example T01_example_label_tree :
  twf ex_tree = true /\
  render ex_tree = ["("; "a"; "."; "("; "b"; "*"; "."; "c"; ")"; ")"]%char /\
  conj_label (render ex_tree) = ["("; "a"; "*"; "."; "("; "b"; "."; "c"; "*"; ")"; ")"]%char.
Proof. vm_compute. repeat split; reflexivity. Qed.

(* non-vacuity of T01_program: the 9-step history of Proofs/TensorProgEx.v (transpose, in-place conj, tensordot, addition with aliased
   operands, outer with an earlier result, take_slice, in-place iswapaxes, gauge_total_charge flipping a leg, in-place scaling by 0)
   on a U(1) x Z_2 tensor: entries of the sliced and swapped rank-3 result and of the re-gauged matrix computed block-sparse and by
   the dense interpreter, the re-gauged legs, and the shapes of the dense run *)
Example T01_example_program :
  valid_ci ep_ci /\ Forall (WF ep_ci) [ep_a] /\ applicable_prog ep_ci ep_prog [ep_a] /\
  map (to_ndarray (get (run ep_ci ep_prog [ep_a]) 5)) [[2; 1; 1]; [2; 2; 2]; [1; 0; 0]]%nat = [(22, 4); (40, 20); (0, 0)] /\
  map (snd (dget (d_run ep_prog (map to_dense [ep_a])) 5)) [[2; 1; 1]; [2; 2; 2]; [1; 0; 0]]%nat = [(22, 4); (40, 20); (0, 0)] /\
  map (to_ndarray (get (run ep_ci ep_prog [ep_a]) 6)) [[0; 0]; [1; 2]; [2; 2]]%nat = [(13, 0); (7, -1); (10, 0)] /\
  map (snd (dget (d_run ep_prog (map to_dense [ep_a])) 6)) [[0; 0]; [1; 2]; [2; 2]]%nat = [(13, 0); (7, -1); (10, 0)] /\
  map (fun l => (bch l, qc l)) (legs (get (run ep_ci ep_prog [ep_a]) 6)) = [([[1; 1]; [2; 0]], 1); ([[4; 0]; [3; 1]], 1)] /\
  map fst (d_run ep_prog (map to_dense [ep_a])) = [[3; 3; 3]; [3; 3]; [3; 3]; [3; 3]; [3; 3; 3; 3]; [3; 3; 3]; [3; 3]]%nat.
Proof. split; [exact ep_valid|]. split; [exact ep_a_wf|]. split; [exact ep_applicable|]. exact (proj2 ep_result). Qed.

Print Assumptions T01_program.
Print Assumptions T01_program_entry.
Print Assumptions T01_transpose.
Print Assumptions T01_conj.
Print Assumptions T01_scale.
Print Assumptions T01_blocks_disjoint.
Print Assumptions T01_add.
Print Assumptions T01_add_blocksum.
Print Assumptions T01_add_needs_truthful_claim.
Print Assumptions T01_outer.
Print Assumptions T01_outer_blocksum.
Print Assumptions T01_tensordot.
Print Assumptions T01_tensordot_blocksum.
Print Assumptions T01_tensordot_rows.
Print Assumptions T01_tensordot_charge_lookup.
Print Assumptions T01_tensordot_lookup_needs_charge_rule.
Print Assumptions T01_take_slice.
Print Assumptions T01_take_slice_blocksum.
Print Assumptions T01_split_combine_labels.
Print Assumptions T01_conj_label_involutive.
Print Assumptions T01_grammar_wf_label.
