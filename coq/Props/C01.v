From TenpyV Require Import Base.Prelude.
