(* Property C01: block-sparse tensor algebra agrees with dense numpy algebra.
   Only statements; every proof is `exact <lemma from Proofs/>`.
   Model: Model/Tensor.v (storage of np_conserved.Array, to_ndarray = assignment of the stored blocks in storage order,
   dense_sum = sum of the stored blocks), Model/TensorOps.v (operations as the code performs them on _data/_qdata),
   Model/Labels.v (label functions).  All statements are for every rank, every number and size of charge blocks,
   every number of charges and every number of stored blocks.
   NOT proved here (checked by the numpy oracle of harness/c01.py only): tensordot values, inner, trace, combine/split_legs,
   indexing, concatenation, scale_axis, permutations; the nested case of _conj_leg_label. *)
From TenpyV Require Import Base.Prelude Model.Charge Model.Tensor Model.TensorOps Model.Labels.
From TenpyV Require Import Proofs.ChargeP Proofs.TensorP Proofs.TensorP2 Proofs.LabelsP.
From Coq Require Import Ascii.
Open Scope Z_scope.

(* np.transpose(D, p)[i_p(0), i_p(1), ...] = D[i_0, i_1, ...]  (gather p i = [i_p(0); i_p(1); ...]) *)
Theorem T01_transpose : forall p a idx, Permutation p (seq 0 (rank a)) ->
  to_ndarray (transpose p a) (gather 0%nat p idx) = to_ndarray a idx /\
  dense_sum (transpose p a) (gather 0%nat p idx) = dense_sum a idx.
Proof. exact transpose_dense. Qed.

Theorem T01_conj : forall ci a idx,
  to_ndarray (conj ci a) idx = cconj (to_ndarray a idx) /\ dense_sum (conj ci a) idx = cconj (dense_sum a idx).
Proof. exact conj_dense. Qed.

Theorem T01_scale : forall s a idx,
  to_ndarray (scale s a) idx = cmul s (to_ndarray a idx) /\ dense_sum (scale s a) idx = cmul s (dense_sum a idx).
Proof. exact scale_dense. Qed.

(* with at most one stored block per combination of charge blocks (C02), the assignment semantics of to_ndarray
   is the sum of the embedded blocks: blocks of different _qdata rows never overlap *)
Theorem T01_blocks_disjoint : forall a idx, NoDup (rows a) -> rows_shape a -> to_ndarray a idx = dense_sum a idx.
Proof. exact to_ndarray_sum. Qed.

(* a + alpha * b  (iadd_prefactor_other = sorted merge of ibinary_blockwise).  THIS is where C01 needs C02:
   the merge trusts the cached claim _qdata_sorted of both operands (hypotheses WF). *)
Theorem T01_add : forall ci alpha a b idx, WF ci a -> WF ci b -> legs a = legs b -> qtot a = qtot b ->
  to_ndarray (add alpha a b) idx = cadd (to_ndarray a idx) (cmul alpha (to_ndarray b idx)).
Proof. exact add_dense. Qed.

(* ... on the level of sums of blocks the merge is correct for every order of the block lists *)
Theorem T01_add_blocksum : forall alpha a b idx, legs a = legs b ->
  dense_sum (add alpha a b) idx = cadd (dense_sum a idx) (cmul alpha (dense_sum b idx)).
Proof. exact add_dense_sum. Qed.

(* ... and with a false claim the result of the real algorithm is wrong (one block is lost in to_ndarray) *)
Theorem T01_add_needs_truthful_claim :
  (to_ndarray (add (1, 0) bad_claim_example good_claim_example) [0%nat] = (7, 0)) /\
  (cadd (to_ndarray bad_claim_example [0%nat]) (cmul (1, 0) (to_ndarray good_claim_example [0%nat])) = (14, 0)).
Proof. exact bad_claim_breaks_add. Qed.

(* outer: c[i, j] = a[i] * b[j], proved for the sum of the stored blocks.
   Missing for the full statement about to_ndarray: that the rows of the grid of block pairs are pairwise distinct
   (then T01_blocks_disjoint applies). *)
Theorem T01_outer_partial : forall ci a b ia ib, rows_shape a -> length ia = rank a ->
  dense_sum (outer ci a b) (ia ++ ib) = cmul (dense_sum a ia) (dense_sum b ib).
Proof. exact outer_dense_sum. Qed.

(* labels: _split_leg_label(_combine_leg_labels(ls), len(ls)) = ls with '?#' -> None, nested parentheses of any depth *)
Theorem T01_split_combine_labels : forall ls, ls <> [] -> Forall wf_label ls ->
  split_label (combine_labels ls) (length ls) = Some (map strip_q ls).
Proof. exact split_combine. Qed.

(* _conj_leg_label: 'a' -> 'a*' -> 'a' for atomic labels of any length.
   Missing: labels with parentheses (str.replace('**', '') on nested labels); checked by correspondence only. *)
Theorem T01_conj_label_involutive_partial : forall a, a <> [] -> forallb atom_char a = true ->
  conj_label a = (a ++ ["*"%char])%list /\ conj_label (a ++ ["*"%char]) = a.
Proof. exact conj_label_atom. Qed.

(* non-vacuity: a well-formed array with two charges (U(1) x Z_2), unsorted duplicated charge blocks, nonzero qtotal *)
Definition ex_leg1 : leg := mkLeg [1%nat; 2%nat; 0%nat] [[1; 1]; [0; 0]; [1; 1]] 1.
Definition ex_leg2 : leg := mkLeg [2%nat; 1%nat] [[0; 1]; [1; 0]] (-1).
Definition ex_arr : arr :=
  mkArr [ex_leg1; ex_leg2] [1; 0]
        [([0%nat; 0%nat], fun i => (Z.of_nat (nth 1 i 0%nat) + 1, 2)); ([2%nat; 0%nat], fun i => (3, 0))] true.
Example T01_example_wf : WF [1; 2] ex_arr.
Proof.
  constructor.
  - reflexivity.
  - intros r [<-|[<-|[]]]; reflexivity.
  - repeat constructor; cbn; intuition discriminate.
  - intros r [<-|[<-|[]]] j Hj; destruct j as [|[|j]]; cbn in Hj; try lia; vm_compute; reflexivity.
  - intros _. reflexivity.
Qed.
Example T01_example_values : map (to_ndarray ex_arr) [[0%nat; 1%nat]; [1%nat; 2%nat]; [0%nat; 2%nat]] = [(2, 2); (0, 0); (0, 0)].
Proof. vm_compute. reflexivity. Qed.
Example T01_example_labels :
  split_label (combine_labels [["a"%char]; ["("; "b"; "."; "?"; "1"; ")"]%char; ["?"; "2"]%char]) 3 =
  Some [Some ["a"%char]; Some ["("; "b"; "."; "?"; "1"; ")"]%char; None].
Proof. vm_compute. reflexivity. Qed.

Print Assumptions T01_transpose.
Print Assumptions T01_conj.
Print Assumptions T01_scale.
Print Assumptions T01_blocks_disjoint.
Print Assumptions T01_add.
Print Assumptions T01_add_blocksum.
Print Assumptions T01_add_needs_truthful_claim.
Print Assumptions T01_outer_partial.
Print Assumptions T01_split_combine_labels.
Print Assumptions T01_conj_label_involutive_partial.
