(* Property C08: MPS measurements equal dense quantum mechanics -- the ordering / sign logic, for all sites i, j and all terms
   (unbounded).  Only statements; proofs are `exact <lemma>`.  The contraction numerics (LP/RP environments, transfer matrices)
   are NOT modelled; they are checked against dense numpy by harness/c08.py. *)
From TenpyV Require Import Base.Prelude Model.JW Model.Corr Proofs.JWP Proofs.CorrP.
Open Scope Z_scope.

(* correlation_function: for ALL i, j (i<j, i=j, i>j), any opstr and str_on_first, the operator word contracted on every site k
   is the tensor factor of the documented ordered product
     i<j: ops1[i] prod_{i<=r<j} opstr[r] ops2[j]   i>j: prod_{j<=r<i} opstr[r] ops1[i] ops2[j]   i=j: ops1[i] ops2[i] *)
Theorem T08_corr_order : forall op1 op2 opstr str_on_first i j k,
  corr_words op1 op2 opstr str_on_first i j k = site_word (doc_factors op1 op2 opstr str_on_first i j) k.
Proof. exact corr_order. Qed.

(* with autoJW (opstr = JW, str_on_first) and two operators that need a string: on every site from min(i,j) on, the contracted
   word IS the site factor of the Jordan-Wigner product  (JW_0..JW_{i-1} a_i) (JW_0..JW_{j-1} b_j); left of min(i,j) nothing is
   contracted and the factor JW JW of the product is the identity (normal form) -- for all three orderings *)
Theorem T08_corr_fermion : forall a b i j k,
  let cw := corr_words (fun _ => Op a true) (fun _ => Op b true) (Some (fun _ => JWl)) true i j k in
  let pw := phys_word [mkItem a i true; mkItem b j true] k in
  (Z.min i j <= k -> cw = pw) /\ (k < Z.min i j -> cw = [] /\ nf pw = (false, false, [])).
Proof. exact corr_fermion. Qed.

(* _term_to_ops_list (autoJW=True): for every term (any number of operators, any order of sites, repeated sites) the operator
   list produced for the sites i_min..i_max is, site by site, the ordered product of the JW-transformed operators (plus the JW
   of a string coming from the right), and has_extra_JW is the parity of the operators needing a string *)
Theorem T08_term_ops_list : forall term jfr, term <> [] ->
  let '(ops, imin, extra) := term_to_ops_list term true jfr in
  let from_right := match jfr with Some b => b | None => total_parity term end in
  imin = min_site term /\
  Z.of_nat (length ops) = max_site term - min_site term + 1 /\
  (forall k, min_site term <= k <= max_site term ->
     nth (Z.to_nat (k - imin)) ops [] = phys_word term k ++ (if from_right then [JWl] else [])) /\
  extra = match jfr with Some b => xorb (total_parity term) b | None => total_parity term end.
Proof. exact term_to_ops_list_spec. Qed.

(* the words of a term, read with the relations JW^2 = 1, JW f = -f JW, JW b = b JW: sign, remaining string and operators *)
Theorem T08_term_normal_form : forall term k,
  nf (phys_word term k) = (sgn_at term k, jw_gt term k, ops_at term k).
Proof. exact nf_phys. Qed.

(* left of all operators of a term with even fermion parity only JW^even = 1 remains: no string leaves the window *)
Theorem T08_no_string_left_of_term : forall term k, total_parity term = false ->
  (forall t, In t term -> k < it_site t) -> nf (phys_word term k) = (false, false, []).
Proof. exact no_string_left_of_term. Qed.

(* autoJW decision and the hermitian shortcut *)
Theorem T08_auto_opstr : forall need sof,
  (forallb (fun b => negb b) need = true -> auto_opstr need sof = Some None) /\
  (need <> [] -> forallb (fun b => b) need = true -> sof = true -> exists s, auto_opstr need sof = Some (Some s) /\ forall k, s k = JWl).
Proof. exact auto_opstr_spec. Qed.

Theorem T08_hermitian_only_equal_sites : forall flag s1 s2, use_hermitian flag s1 s2 = true -> flag = true /\ s1 = s2.
Proof. exact hermitian_only_equal_sites. Qed.

(* non-vacuity *)
Example T08_example_ops_list :
  term_to_ops_list [mkItem 7 3 true; mkItem 8 1 true; mkItem 9 3 false] true None =
  ([[JWl; Op 8 true]; [JWl]; [Op 7 true; Op 9 false]], 1, false).
Proof. vm_compute. reflexivity. Qed.

Example T08_example_corr :
  map (corr_words (fun _ => Op 1 true) (fun _ => Op 2 true) (Some (fun _ => JWl)) true 4 2) [1; 2; 3; 4; 5] =
  [[]; [JWl; Op 2 true]; [JWl]; [Op 1 true]; []].
Proof. vm_compute. reflexivity. Qed.

Print Assumptions T08_corr_order.
Print Assumptions T08_corr_fermion.
Print Assumptions T08_term_ops_list.
Print Assumptions T08_term_normal_form.
Print Assumptions T08_no_string_left_of_term.
Print Assumptions T08_auto_opstr.
Print Assumptions T08_hermitian_only_equal_sites.
