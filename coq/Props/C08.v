(* Property C08: MPS measurements equal dense quantum mechanics -- the ordering / sign logic, for all sites i, j and all terms
   (unbounded).  Only statements; proofs are `exact <lemma>`.  The contraction numerics (LP/RP environments, transfer matrices)
   are NOT modelled; they are checked against dense numpy by harness/c08.py. *)
From TenpyV Require Import Base.Prelude Model.JW Model.Corr Proofs.JWP Proofs.CorrP.
From TenpyV Require Import Model.Sample Proofs.SampleP Proofs.SampleQcP Model.MpsIndex Model.Window Proofs.WindowP
  Model.CorrTerm Proofs.CorrP2.
Open Scope Z_scope.

(* correlation_function: for ALL i, j (i<j, i=j, i>j), any opstr and str_on_first, the operator word contracted on every site k
   is the tensor factor of the documented ordered product
     i<j: ops1[i] prod_{i<=r<j} opstr[r] ops2[j]   i>j: prod_{j<=r<i} opstr[r] ops1[i] ops2[j]   i=j: ops1[i] ops2[i] *)
Theorem T08_corr_order : forall op1 op2 opstr str_on_first i j k,
  corr_words op1 op2 opstr str_on_first i j k = site_word (doc_factors op1 op2 opstr str_on_first i j) k.
Proof. exact corr_order. Qed.

(* with autoJW (opstr = JW, str_on_first) and two operators that need a string: on every site from min(i,j) on, the contracted
   word IS the site factor of the Jordan-Wigner product  (JW_0..JW_{i-1} a_i) (JW_0..JW_{j-1} b_j); left of min(i,j) nothing is
   contracted and the factor JW JW of the product is the identity (normal form) -- for all three orderings *)
Theorem T08_corr_fermion : forall a b i j k,
  let cw := corr_words (fun _ => Op a true) (fun _ => Op b true) (Some (fun _ => JWl)) true i j k in
  let pw := phys_word [mkItem a i true; mkItem b j true] k in
  (Z.min i j <= k -> cw = pw) /\ (k < Z.min i j -> cw = [] /\ nf pw = (false, false, [])).
Proof. exact corr_fermion. Qed.

(* _term_to_ops_list (autoJW=True): for every term (any number of operators, any order of sites, repeated sites) the operator
   list produced for the sites i_min..i_max is, site by site, the ordered product of the JW-transformed operators (plus the JW
   of a string coming from the right), and has_extra_JW is the parity of the operators needing a string *)
Theorem T08_term_ops_list : forall term jfr, term <> [] ->
  let '(ops, imin, extra) := term_to_ops_list term true jfr in
  let from_right := match jfr with Some b => b | None => total_parity term end in
  imin = min_site term /\
  Z.of_nat (length ops) = max_site term - min_site term + 1 /\
  (forall k, min_site term <= k <= max_site term ->
     nth (Z.to_nat (k - imin)) ops [] = phys_word term k ++ (if from_right then [JWl] else [])) /\
  extra = match jfr with Some b => xorb (total_parity term) b | None => total_parity term end.
Proof. exact term_to_ops_list_spec. Qed.

(* the words of a term, read with the relations JW^2 = 1, JW f = -f JW, JW b = b JW: sign, remaining string and operators *)
Theorem T08_term_normal_form : forall term k,
  nf (phys_word term k) = (sgn_at term k, jw_gt term k, ops_at term k).
Proof. exact nf_phys. Qed.

(* left of all operators of a term with even fermion parity only JW^even = 1 remains: no string leaves the window *)
Theorem T08_no_string_left_of_term : forall term k, total_parity term = false ->
  (forall t, In t term -> k < it_site t) -> nf (phys_word term k) = (false, false, []).
Proof. exact no_string_left_of_term. Qed.

(* autoJW decision and the hermitian shortcut *)
Theorem T08_auto_opstr : forall need sof,
  (forallb (fun b => negb b) need = true -> auto_opstr need sof = Some None) /\
  (need <> [] -> forallb (fun b => b) need = true -> sof = true -> exists s, auto_opstr need sof = Some (Some s) /\ forall k, s k = JWl).
Proof. exact auto_opstr_spec. Qed.

Theorem T08_hermitian_only_equal_sites : forall flag s1 s2, use_hermitian flag s1 s2 = true -> flag = true /\ s1 = s2.
Proof. exact hermitian_only_equal_sites. Qed.

(* ---- sample_measurements (Model/Sample.v; hand-modelled from the source).  Tie to the code: the operator selection is run
   against the implementation (stream sample_ops); the weight loop is run against the implementation in the stream sample_loop
   of harness/c08.py: Model/SampleCheck.v instantiates the abstract K / V of the model with exact Gaussian rationals and rank-3
   tensors (proj = take_slice, attach i = tensordot with the observed get_B(i mod L), vnorm = exact Frobenius norm) and
   check_sample_case evaluates sample_factors / sample_weight on the observed theta0 = get_theta(first_site, 1) and the
   outcome drawn by the implementation; compared EXACTLY (rationals): every per-site `weight` (the values npc.norm returned
   inside the call) and the returned total_weight, for complex_amplitude True/False, finite (incl. the full-chain phase
   branch theta[0,0] / weight) and infinite MPS, any first_site.  Inputs: MPS of 1-5 sites of dimension 4 / 7, bond
   dimensions 1 / 4, entries unit * 2^-k, so that all floating-point operations of the implementation are exact; ops=None only
   (the rotation to the eigenbasis of an operator is part of the abstract `proj` and is oracle-checked only).  The returned
   weights are in addition compared with the dense Born amplitudes by the oracle (stream sample). ---- *)
(* the loop visits the sites first..last once each in ascending order; the m-th visited site first+m is measured in the
   eigenbasis of ops[m mod len(ops)] (the list is repeated periodically starting at first_site, whatever first_site is) *)
Theorem T08_sample_ops : forall first last nops, 0 < nops ->
  (forall i, In i (sample_sites first last) <-> first <= i <= last) /\
  length (sample_op_indices first last nops) = Z.to_nat (last + 1 - first) /\
  forall m, (m < Z.to_nat (last + 1 - first))%nat ->
    nth m (sample_op_indices first last nops) (0, 0) = (first + Z.of_nat m, Z.of_nat m mod nops) /\
    0 <= Z.of_nat m mod nops < nops.
Proof. exact sample_ops_spec. Qed.

(* the weight.  For EVERY structure of amplitudes K / tensors V with the operations the loop uses that satisfies `amp_laws`
   (commutative multiplication, the norms that occur are invertible, |.|^2 multiplicative, slicing / attaching a tensor /
   norm / theta[0,0] linear in theta), every first site, every initial theta and every outcome of ANY length (each prefix
   having non-zero probability):
   - the per-site `weight`s of the loop are the conditional amplitudes N_k / N_(k-1), N_k = norm of the un-normalised
     projected state <sigma_first .. sigma_k|psi>;
   - the returned weight is their product and equals N_last (telescoping) = sqrt P(outcome);
   - on a full finite chain the returned weight is the amplitude <sigmas|psi> itself (theta[0,0] of the un-normalised
     projection, phase included);
   - with complex_amplitude=False the result is |.|^2 of that, applied ONCE: the product of the conditional probabilities
     |N_k / N_(k-1)|^2 = |N_last|^2, resp. |<sigmas|psi>|^2. *)
Theorem T08_sample_weights :
  forall (K V : Type) (kone : K) (kmul : K -> K -> K) (kinv abs2 : K -> K) (pos : K -> Prop) (vnorm : V -> K)
         (vscale : K -> V -> V) (vscalar : V -> K) (proj : Z -> Z -> V -> V) (attach : Z -> V -> V),
  amp_laws K V kone kmul kinv abs2 pos vnorm vscale vscalar proj attach ->
  forall (first : Z) (theta0 : V) (sig : list Z),
  sig <> [] ->
  Forall pos (joint_norms K V vnorm proj attach first theta0 sig) ->
  let fac := sample_factors K V kinv vnorm vscale proj attach first theta0 sig in
  let amp := raw_final V proj attach first theta0 sig in
  let weight := sample_weight K V kone kmul kinv abs2 vnorm vscale vscalar proj attach in
  fac = ratios K kmul kinv kone (joint_norms K V vnorm proj attach first theta0 sig) /\
  weight false true first theta0 sig = kprod K kone kmul fac /\
  weight false true first theta0 sig = vnorm amp /\
  weight true true first theta0 sig = vscalar amp /\
  weight false false first theta0 sig = kprod K kone kmul (map abs2 fac) /\
  weight false false first theta0 sig = abs2 (vnorm amp) /\
  weight true false first theta0 sig = abs2 (vscalar amp).
Proof. exact sample_weights_spec. Qed.

(* ---- expectation_value(ops, sites) / get_theta windows (Model/Window.v on top of Model/MpsIndex.v of property C07) ---- *)
(* infinite MPS, any integer start s, any n-site operator, any unit cell L and any length of `ops`: the operator is
   ops[(s mod L) mod len(ops)], the k-th tensor of theta is unit-cell site (s+k) mod L of cell (s+k) div L; consecutive
   tensors are neighbours also across the cell boundary; translating s by m cells only adds m to the cell counters *)
Theorem T08_window : forall L nops s n, 0 < L -> 0 < nops ->
  let reads := map (fun t => (t mod L, t / L)) (wrange s n) in
  ev_site false L nops s n = Some ((s mod L) mod nops, (s mod L) / nops, s / L, reads) /\
  length reads = n /\
  (forall k, (k < n)%nat ->
     let '(r, c) := nth k reads (0, 0) in
     c * L + r = s + Z.of_nat k /\ 0 <= r < L /\
     ((S k < n)%nat -> nth (S k) reads (0, 0) = if r =? L - 1 then (0, c + 1) else (r + 1, c))) /\
  (forall m, ev_site false L nops (s + m * L) n =
             Some ((s mod L) mod nops, (s mod L) / nops, s / L + m, map (fun a => (fst a, snd a + m)) reads)).
Proof. exact window_infinite_spec. Qed.

(* finite / segment chains: windows inside [0, L) are read as they are (cell 0), a window sticking out on the right is an
   error; the default `sites` are exactly the starts whose window fits *)
Theorem T08_window_finite : forall L nops s n, 0 < L -> 0 < nops -> (1 <= n)%nat -> 0 <= s ->
  (s + Z.of_nat n <= L ->
     ev_site true L nops s n = Some (s mod nops, s / nops, 0, map (fun t => (t, 0)) (wrange s n))) /\
  (L < s + Z.of_nat n -> ev_site true L nops s n = None) /\
  (forall s', In s' (ev_default_sites true L n) <-> 0 <= s' /\ s' + Z.of_nat n <= L) /\
  (forall s', In s' (ev_default_sites false L n) <-> 0 <= s' < L).
Proof. exact window_finite_spec. Qed.

(* ---- term_correlation_function_right / _left (Model/CorrTerm.v on top of term_to_ops_list).  Tie to the code: stream
   tcf_words of harness/c08.py runs both functions (autoJW=True) on product states with the receivers of the per-site
   operators recorded from outside (multiply_operators returns the names; _corr_ops_LP / _corr_ops_RP record their operator
   lists and first site; get_B / get_op calls of the loop over the gap give the sites and the string applied there) and
   Model/CorrTermCheck.v (check_tcf_case) compares, for every entry of the result (every offset of the moving term), the word
   on every site of a window reaching one site beyond everything contracted with tcf_right_words / tcf_left_words, letter by
   letter, and `None` with the two ValueErrors (odd total parity; term_L not left of term_R); random terms with fermionic
   and bosonic operators, several operators per site, any order, negative relative sites, 1-3 offsets, gaps -1..4, finite and
   infinite chains with mixed site classes.  On the one-site overlap that the left variant accepts (example below) the
   implementation contracts the common site twice (in CL with the word of term_L, in CR with the word of term_R); the model
   has the word of term_L there and the stream compares that one. ---- *)
(* the symmetry: for the same offsets (i, j) of the two terms -- whatever the first entries i0 / j0 of the lists i_L / j_R
   that the functions use to set up the strings -- the left and the right variant contract the same operator word on every
   site k, namely the documented one (string of term_R across term_L and the gap iff term_R is fermion-odd) *)
Theorem T08_tcf_left_right_agree : forall tL tR i0 i j0 j k wl wr, tL <> [] -> tR <> [] ->
  tcf_left_words tL tR i0 i j k = Some wl -> tcf_right_words tL tR i j0 j k = Some wr ->
  wl = wr /\ wr = tcf_doc_words tL tR i j k.
Proof. exact tcf_left_right_agree. Qed.

(* both succeed exactly as documented: equal fermion parity, term_L strictly left of term_R *)
Theorem T08_tcf_defined : forall tL tR i j k, tL <> [] -> tR <> [] ->
  total_parity tL = total_parity tR -> max_site tL + i < min_site tR + j ->
  (exists w, tcf_right_words tL tR i j j k = Some w) /\ (exists w, tcf_left_words tL tR i i j k = Some w).
Proof. exact tcf_defined. Qed.

(* and the contracted words are, up to JW^2 = 1 / JW f = -f JW, the site factors of the Jordan-Wigner product
   (term_L shifted by i)(term_R shifted by j) with NO sign lost; left of term_L nothing is contracted and the product has
   no string there *)
Theorem T08_tcf_JW_product : forall tL tR i j k, tL <> [] -> tR <> [] ->
  total_parity tL = total_parity tR -> max_site tL + i < min_site tR + j ->
  let w := tcf_doc_words tL tR i j k in
  let pw := phys_word (shift_term i tL ++ shift_term j tR) k in
  (min_site tL + i <= k -> nf_sign w = nf_sign pw /\ nf_jw w = nf_jw pw /\ nf_ops w = nf_ops pw) /\
  (k < min_site tL + i -> w = [] /\ nf pw = (false, false, [])).
Proof. exact doc_words_are_JW_product. Qed.

(* non-vacuity *)
Example T08_example_ops_list :
  term_to_ops_list [mkItem 7 3 true; mkItem 8 1 true; mkItem 9 3 false] true None =
  ([[JWl; Op 8 true]; [JWl]; [Op 7 true; Op 9 false]], 1, false).
Proof. vm_compute. reflexivity. Qed.

Example T08_example_corr :
  map (corr_words (fun _ => Op 1 true) (fun _ => Op 2 true) (Some (fun _ => JWl)) true 4 2) [1; 2; 3; 4; 5] =
  [[]; [JWl; Op 2 true]; [JWl]; [Op 1 true]; []].
Proof. vm_compute. reflexivity. Qed.

(* a structure satisfying amp_laws: rational amplitudes (Qc), a product state with negative amplitudes, norm = |.| *)
Example T08_example_sample_laws :
  amp_laws Qcanon.Qc Qcanon.Qc qc_one Qcanon.Qcmult Qcanon.Qcinv qc_abs2 qc_pos Qcabs.Qcabs Qcanon.Qcmult (fun v => v)
           qc_proj qc_attach.
Proof. exact qc_laws. Qed.

Example T08_example_sample_pos :
  Forall qc_pos (joint_norms Qcanon.Qc Qcanon.Qc Qcabs.Qcabs qc_proj qc_attach 0 qc_one [0; 1; 1]).
Proof. exact qc_example_pos. Qed.

Example T08_example_sample_values :
  qc_weight true true 0 qc_one [0; 1; 1] = qc_frac (-48) 125 /\
  qc_weight false true 0 qc_one [0; 1; 1] = qc_frac 48 125 /\
  qc_weight false false 0 qc_one [0; 1; 1] = qc_frac 2304 15625 /\
  qc_weight true false 0 qc_one [0; 1; 1] = qc_frac 2304 15625.
Proof. exact qc_example_values. Qed.

Example T08_example_sample_ops : sample_op_indices 3 7 2 = [(3, 0); (4, 1); (5, 0); (6, 1); (7, 0)].
Proof. vm_compute. reflexivity. Qed.

Example T08_example_window : ev_site false 3 2 (-2) 4 = Some (1, 0, -1, [(1, -1); (2, -1); (0, 0); (1, 0)]).
Proof. vm_compute. reflexivity. Qed.

Example T08_example_tcf :
  let tL := [mkItem 1 0 true; mkItem 2 1 false] in let tR := [mkItem 3 1 false; mkItem 4 0 true] in
  map (fun k => tcf_left_words tL tR 2 1 5 k) [0; 1; 2; 3; 4; 5; 6; 7] =
  map (fun k => tcf_right_words tL tR 1 4 5 k) [0; 1; 2; 3; 4; 5; 6; 7] /\
  map (fun k => tcf_right_words tL tR 1 4 5 k) [1; 2; 3; 4; 5; 6] =
  [Some [Op 1 true; JWl]; Some [Op 2 false; JWl]; Some [JWl]; Some [JWl]; Some [Op 4 true]; Some [Op 3 false]].
Proof. vm_compute. split; reflexivity. Qed.

(* as the code has it: the overlap test of the LEFT variant is off by one (`> j` where the right variant effectively has `>= j`):
   a one-site overlap of term_L and term_R is rejected by the right variant and accepted by the left one (replayed on the code
   in every run of the stream tcf_words: ValueError vs. a number); the model then has only the operators of term_L on the
   common site, the implementation contracts that site once more in CR with the operators of term_R *)
Example T08_example_tcf_left_accepts_overlap :
  let tL := [mkItem 1 0 false; mkItem 2 1 false] in let tR := [mkItem 3 0 false; mkItem 4 1 false] in
  tcf_right_words tL tR 1 2 2 2 = None /\ tcf_left_words tL tR 1 1 2 2 = Some [Op 2 false].
Proof. vm_compute. split; reflexivity. Qed.

Print Assumptions T08_corr_order.
Print Assumptions T08_corr_fermion.
Print Assumptions T08_term_ops_list.
Print Assumptions T08_term_normal_form.
Print Assumptions T08_no_string_left_of_term.
Print Assumptions T08_auto_opstr.
Print Assumptions T08_hermitian_only_equal_sites.
Print Assumptions T08_sample_ops.
Print Assumptions T08_sample_weights.
Print Assumptions T08_window.
Print Assumptions T08_window_finite.
Print Assumptions T08_tcf_left_right_agree.
Print Assumptions T08_tcf_defined.
Print Assumptions T08_tcf_JW_product.
