(* Property C16: Krylov solvers return Ritz data of the operator they are given.
   Index/coefficient bookkeeping of krylov_based.py (Model/Krylov.v); only statements here, every proof is
   `exact <lemma from Proofs/KrylovP.v>`.  The spectral clauses (Rayleigh quotient >= lambda_min for an
   arbitrary Hermitian operator, equality at full Krylov dimension, accuracy of exp) are decided by the
   oracle of harness/c16.py only; see T16_ritz_bound_partial. *)
From TenpyV Require Import Base.Prelude Model.Truncate Model.Krylov Proofs.KrylovP.

(* the cache never holds more than N_cache vectors and always holds exactly the last min(k, N_cache) *)
Theorem T16_cache_bounded : forall nc k, (1 <= nc)%nat ->
  cache_after nc k = seq (k - min k nc) (min k nc) /\ (length (cache_after nc k) <= nc)%nat.
Proof. exact cache_bounded. Qed.

(* in iteration k, _cache[-1] is v_k and (k >= 1) _cache[-2] is v_{k-1}, whatever N_cache >= 2 is:
   the three-term recurrence subtracts alpha v_k and beta v_{k-1} *)
Theorem T16_three_term_indices : forall nc k, (2 <= nc)%nat ->
  from_end (cache_after nc (S k)) 1 = k /\
  ((1 <= k)%nat -> from_end (cache_after nc (S k)) 2 = (k - 1)%nat).
Proof. exact three_term. Qed.

(* the rebuild loop orthogonalises H v_k against the same vectors, with the same coefficient classes, as
   the build loop did in its iteration k (exact arithmetic: same recurrence => same v_{k+1}) *)
Theorem T16_rebuild_same_recurrence : forall nc re N n, (n <= N)%nat ->
  rebuild_ortho nc re 0 n [] = firstn n (build_ortho nc re 0 N []).
Proof. exact rebuild_same_recurrence. Qed.

(* _calc_result_full assembles sum_k vf[k] v_k with EACH Krylov index exactly once, for every N, N_cache *)
Theorem T16_result_full_indices : forall nc N, (1 <= nc)%nat -> (2 <= N)%nat ->
  Permutation (result_terms nc N) (map (fun k => (k, k)) (seq 0 N)).
Proof. exact result_indices. Qed.

(* hence the assembled combination does not depend on N_cache *)
Theorem T16_cache_independence : forall nc nc' N, (1 <= nc)%nat -> (1 <= nc')%nat -> (2 <= N)%nat ->
  Permutation (result_terms nc N) (result_terms nc' N).
Proof. exact cache_independence. Qed.

(* Arnoldi: Ritz values are returned in the order `which` requests (argsort model) *)
Theorem T16_arnoldi_order : forall w zs,
  Permutation (argsort_model w zs) (seq 0 (length zs)) /\
  StronglySorted Z.le (keys_along w zs (argsort_model w zs)).
Proof. exact arnoldi_order. Qed.

(* PARTIAL: Rayleigh-Ritz inequality only in an eigenbasis of the operator (diagonal d, integer vector x):
   <x|H|x> >= lambda <x|x> when lambda bounds the spectrum from below.  Missing: the spectral theorem
   (existence of the eigenbasis for every Hermitian operator over R/C) and equality at full Krylov
   dimension; those clauses are oracle-checked (dense eigh) in harness/c16.py. *)
Theorem T16_ritz_bound_partial : forall lam d x,
  Forall (fun di => (lam <= di)%Z) d -> (lam * rq_den d x <= rq_num d x)%Z.
Proof. exact ritz_bound_diag. Qed.

(* non-vacuity: N = 7 iterations with N_cache = 3: cache, the assembled terms, a piece of the trace *)
Example T16_example_cache : cache_after 3 7 = [4; 5; 6]%nat.
Proof. vm_compute. reflexivity. Qed.
Example T16_example_terms :
  result_terms 3 7 = [(0,0); (6,6); (5,5); (4,4); (1,1); (2,2); (3,3)]%nat.
Proof. vm_compute. reflexivity. Qed.
Example T16_example_argsort :
  argsort_model LM [(1, 0); (0, -3); (2, 2)]%Z = [1; 2; 0]%nat.
Proof. vm_compute. reflexivity. Qed.
Example T16_example_ritz : (rq_num [2; 5; 3] [1; -2; 1] = 25 /\ rq_den [2; 5; 3] [1; -2; 1] = 6)%Z.
Proof. vm_compute. split; reflexivity. Qed.

Print Assumptions T16_cache_bounded.
Print Assumptions T16_three_term_indices.
Print Assumptions T16_rebuild_same_recurrence.
Print Assumptions T16_result_full_indices.
Print Assumptions T16_cache_independence.
Print Assumptions T16_arnoldi_order.
Print Assumptions T16_ritz_bound_partial.
