(* Property C16: Krylov solvers return Ritz data of the operator they are given.
   Index/coefficient bookkeeping of krylov_based.py (Model/Krylov.v); only statements here, every proof is
   `exact <lemma from Proofs/KrylovP.v or Proofs/KrylovP2.v>`.  The spectral clauses (Rayleigh quotient >= lambda_min for an
   arbitrary Hermitian operator, equality at full Krylov dimension, accuracy of exp) are decided by the
   oracle of harness/c16.py only; see T16_ritz_bound_partial. *)
From TenpyV Require Import Base.Prelude Model.Truncate Model.Krylov Proofs.KrylovP Model.Krylov2 Proofs.KrylovP2.
From TenpyV Require Import Model.KrylovGmres Proofs.KrylovGmresP.

(* the cache never holds more than N_cache vectors and always holds exactly the last min(k, N_cache) *)
Theorem T16_cache_bounded : forall nc k, (1 <= nc)%nat ->
  cache_after nc k = seq (k - min k nc) (min k nc) /\ (length (cache_after nc k) <= nc)%nat.
Proof. exact cache_bounded. Qed.

(* in iteration k, _cache[-1] is v_k and (k >= 1) _cache[-2] is v_{k-1}, whatever N_cache >= 2 is:
   the three-term recurrence subtracts alpha v_k and beta v_{k-1} *)
Theorem T16_three_term_indices : forall nc k, (2 <= nc)%nat ->
  from_end (cache_after nc (S k)) 1 = k /\
  ((1 <= k)%nat -> from_end (cache_after nc (S k)) 2 = (k - 1)%nat).
Proof. exact three_term. Qed.

(* the rebuild loop orthogonalises H v_k against the same vectors, with the same coefficient classes, as
   the build loop did in its iteration k (exact arithmetic: same recurrence => same v_{k+1}) *)
Theorem T16_rebuild_same_recurrence : forall nc re N n, (n <= N)%nat ->
  rebuild_ortho nc re 0 n [] = firstn n (build_ortho nc re 0 N []).
Proof. exact rebuild_same_recurrence. Qed.

(* _calc_result_full assembles sum_k vf[k] v_k with EACH Krylov index exactly once, for every N, N_cache *)
Theorem T16_result_full_indices : forall nc N, (1 <= nc)%nat -> (2 <= N)%nat ->
  Permutation (result_terms nc N) (map (fun k => (k, k)) (seq 0 N)).
Proof. exact result_indices. Qed.

(* hence the assembled combination does not depend on N_cache *)
Theorem T16_cache_independence : forall nc nc' N, (1 <= nc)%nat -> (1 <= nc')%nat -> (2 <= N)%nat ->
  Permutation (result_terms nc N) (result_terms nc' N).
Proof. exact cache_independence. Qed.

(* Arnoldi: Ritz values are returned in the order `which` requests (argsort model) *)
Theorem T16_arnoldi_order : forall w zs,
  Permutation (argsort_model w zs) (seq 0 (length zs)) /\
  StronglySorted Z.le (keys_along w zs (argsort_model w zs)).
Proof. exact arnoldi_order. Qed.

(* PARTIAL: Rayleigh-Ritz inequality only in an eigenbasis of the operator (diagonal d, integer vector x):
   <x|H|x> >= lambda <x|x> when lambda bounds the spectrum from below.  Missing: the spectral theorem
   (existence of the eigenbasis for every Hermitian operator over R/C) and equality at full Krylov
   dimension; those clauses are oracle-checked (dense eigh) in harness/c16.py. *)
Theorem T16_ritz_bound_partial : forall lam d x,
  Forall (fun di => (lam <= di)%Z) d -> (lam * rq_den d x <= rq_num d x)%Z.
Proof. exact ritz_bound_diag. Qed.

(* ---- T16_tridiagonal: the accesses to the small matrix h = _h_krylov (Model/Krylov2.v: lanczos_hevents is the event
   list of Model/Krylov.v with the writes HW / block reads HRB / entry reads HR of h interleaved in program order;
   Alpha k, Beta k name the floats computed in iteration k, HZero the np.zeros content; cv[k] says whether
   LanczosGroundState._converged(k) was called).  Tie to the code: check_hevents compares this interleaved list
   with the instrumented run (ndarray subclass logging __setitem__/__getitem__ of _h_krylov) for every Lanczos case
   of harness/c16.py; the instrumentation also checks at each block read that the float block is the symmetric
   tridiagonal matrix of the values written so far.  Float values themselves are not modelled. *)

(* (a) for every N: the run writes exactly h[k,k], h[k,k+1], h[k+1,k] for k < N, each exactly once, with
   Alpha k / Beta k (= tri_entry), all inside the (N_max+1)x(N_max+1) array when N <= N_max *)
Theorem T16_tridiagonal_writes : forall nc re N cv,
  let ws := h_writes (lanczos_hevents nc re N cv) in
  ws = build_writes N /\
  NoDup (map wpos ws) /\
  (forall i j, In (i, j) (map wpos ws) <->
     (i = j /\ i < N)%nat \/ (j = S i /\ i < N)%nat \/ (i = S j /\ j < N)%nat) /\
  (forall i j v, In (i, j, v) ws -> v = tri_entry i j) /\
  (forall nmax i j, (N <= nmax)%nat -> In (i, j) (map wpos ws) -> (i < S nmax /\ j < S nmax)%nat).
Proof. exact tridiagonal_writes. Qed.

(* (b)+(c) for every N >= 1 and every position of a read in the program-order event list: the content of h
   determined by the writes BEFORE the read (last write wins, zeros initially) is
   - for a block read h[:n,:n] (_calc_result_krylov(n-1), 2 <= n <= N): entry (i,j) = Alpha i on the diagonal,
     Beta (min i j) next to it, HZero elsewhere: symmetric, tridiagonal, no entry of a later iteration, no band
     entry that was not yet written;
   - for an entry read h[i,j] (k = 0 of _calc_result_krylov, _converged, the N = 1 debug message, and
     alpha = h[k,k], beta = h[k,k+1] of the rebuild loop): i < N and the value is Alpha i (i = j) or Beta i
     (j = i+1), i.e. exactly what iteration i of the build loop wrote (read after write) *)
Theorem T16_tridiagonal_reads : forall nc re N cv, (1 <= N)%nat ->
  let evs := lanczos_hevents nc re N cv in
  (forall pre post n, evs = pre ++ HRB n :: post ->
     (2 <= n <= N)%nat /\
     forall i j, (i < n)%nat -> (j < n)%nat ->
       h_lookup (h_writes pre) i j = tri_entry i j /\ tri_entry i j = tri_entry j i) /\
  (forall pre post i j, evs = pre ++ HR i j :: post ->
     (i < N)%nat /\ ((i = j /\ h_lookup (h_writes pre) i j = Alpha i) \/
                     (j = S i /\ h_lookup (h_writes pre) i j = Beta i))).
Proof. exact tridiagonal_reads. Qed.

(* program order: erasing the h accesses gives exactly the correspondence-checked event list of Model/Krylov.v;
   keeping only them gives: per build iteration k  h[k,k]=, read (h[0,0] or block k+1), h[k,k+1]=, h[k+1,k]=,
   [read h[k,k+1]]; then (N = 1) reads h[0,0], h[0,1], or (N > 1) per rebuild iteration k < N - len(cache) - 1 <= N - 1
   reads h[k,k], h[k,k+1]; the build loop has one matvec per iteration k = 0..N-1 *)
Theorem T16_tridiagonal_order : forall nc re N cv,
  h_erase (lanczos_hevents nc re N cv) = lanczos_events nc re N /\
  h_only (lanczos_hevents nc re N cv) = h_accesses nc N cv /\
  filter is_matvec (build_loop nc re 0 N []) = map (fun k => (2, k, 0, 0)%nat) (seq 0 N) /\
  (N - length (cache_after nc N) - 1 <= N - 1)%nat.
Proof. exact tridiagonal_order. Qed.

(* ---- T16_shift: control flow of the E_shift bookkeeping over Z (floats not modelled).
   krylov_init = the `if self.E_shift is not None` block of KrylovBased.__init__ on operator expressions,
   run_return = the tail of LanczosGroundState.run (both return paths).  total_shift o = sum of the shifts in o.
   For every operator expression H, option E_shift, N >= 1: __init__ adds E_shift exactly once to the operator;
   if the Ritz value of the operator used is (e + shifts already in H) + E_shift (covariance, T16_shift_rayleigh) the
   returned energy is e + shifts already in H, on the N = 1 and on the N > 1 path; for a caller's operator without
   shift the returned energy is e. *)
Theorem T16_shift : forall H es N e, (1 <= N)%nat ->
  total_shift (fst (krylov_init H es)) = (total_shift H + es_shift es)%Z /\
  run_return es N (e + total_shift H + es_shift es)%Z = ((e + total_shift H)%Z, negb (N =? 1)%nat) /\
  (total_shift H = 0%Z -> solve_energy H es N e = e).
Proof. exact shift_net_zero. Qed.

(* shift covariance, exact algebra over Z: for a diagonal operator d and any vector x the numerator of the Rayleigh
   quotient shifts by s <x|x> and the denominator is unchanged; for the symmetric tridiagonal matrix (alphas al,
   betas be) x^T T x with alphas + s equals x^T T x + s x^T x; the three-term recurrence step of H + s with
   alpha + s gives the same vector as that of H with alpha (so beta and the Krylov vectors are unchanged) *)
Theorem T16_shift_rayleigh : forall s : Z,
  (forall d x, rq_num (map (Z.add s) d) x = (rq_num d x + s * rq_den d x)%Z /\
               rq_den (map (Z.add s) d) x = rq_den d x) /\
  (forall al be x, tri_form (map (Z.add s) al) be x = (tri_form al be x + s * rq_den al x)%Z) /\
  (forall d v u a b, lanczos_step (map (Z.add s) d) v u (a + s)%Z b = lanczos_step d v u a b).
Proof. exact shift_rayleigh. Qed.

(* two solver instances built one after the other on the SAME operator object (total shift 0): the first returns e;
   the second returns e unless the object is an OrthogonalNpcLinearOperator, whose orig_operator __init__ overwrites
   in place: then the shift is in the operator twice and subtracted once *)
Theorem T16_shift_twice : forall H es N1 N2 e, total_shift H = 0%Z ->
  solve_twice H es N1 N2 e = (e, match H with OOrtho _ => (e + es_shift es)%Z | _ => e end).
Proof. exact shift_twice. Qed.

(* REFUTED for a shared OrthogonalNpcLinearOperator (known finding F16.1, replayed on the code by harness/c16.py,
   stream lanczos, option `twice`) *)
Theorem T16_shift_shared_operator_refuted : exists H es N1 N2 e,
  total_shift H = 0%Z /\ (1 <= N1)%nat /\ (1 <= N2)%nat /\
  fst (solve_twice H es N1 N2 e) = e /\ snd (solve_twice H es N1 N2 e) <> e.
Proof. exact shift_shared_refuted. Qed.

(* ---- Gram-Schmidt indices of the build loop (model build_ortho of Model/Krylov.v, the per-iteration events
   (3, t, v, c) "w_t -= coef * v_v" that check_lanczos compares with the instrumented run).  For every N_cache >= 2,
   every N and every iteration k < N: without reortho, w_{k+1} = H v_k is orthogonalised against exactly v_k (alpha)
   and, for k >= 1, v_{k-1} (beta); with reortho against v_k (alpha) and each v_j, max(0, k+1-N_cache) <= j < k
   (projection coefficient), every index once; that is against ALL earlier vectors v_0..v_k iff k < N_cache; a vector
   that left the cache (j < k+1-N_cache) is never used again by any later iteration k' >= k.
   Index level only: that the float coefficients make the vectors orthogonal is oracle-checked. *)
Theorem T16_gram_schmidt_indices : forall nc N k, (2 <= nc)%nat -> (k < N)%nat ->
  nth k (build_ortho nc false 0 N []) [] =
    (3, S k, k, 0)%nat :: match k with O => [] | S k' => [(3, S k, k', 1)%nat] end /\
  nth k (build_ortho nc true 0 N []) [] =
    (3, S k, k, 0)%nat :: map (fun v => (3, S k, v, 2)%nat) (seq (S k - nc) (k - (S k - nc))) /\
  NoDup (ortho_targets (nth k (build_ortho nc true 0 N []) [])) /\
  (forall j, In j (ortho_targets (nth k (build_ortho nc true 0 N []) [])) <-> (S k - nc <= j <= k)%nat) /\
  ((forall j, (j <= k)%nat -> In j (ortho_targets (nth k (build_ortho nc true 0 N []) []))) <-> (k < nc)%nat) /\
  (forall k' j, (k <= k')%nat -> (k' < N)%nat -> (j < S k - nc)%nat ->
     ~ In j (ortho_targets (nth k' (build_ortho nc true 0 N []) []))).
Proof. exact gram_schmidt_indices. Qed.

(* ---- GMRES.run / GMRES.reset: restart bookkeeping (Model/KrylovGmres.v).  Inputs observed on the run, per Arnoldi step:
   below = `error < res`, exhausted = `error <= eps * (residual at the start of the cycle)`.
   A cycle stops at the first Arnoldi step whose residual estimate is below the tolerance and that is either a step k >= N_min or
   has exhausted the Krylov space (estimate at the rounding level); otherwise it runs N_max steps
   (K = number of steps, cv = converged) *)
Theorem T16_gmres_stop_rule : forall N_min N_max fl K cv, gm_inner N_min 0 N_max fl = (K, cv) ->
  (cv = true -> (1 <= K <= N_max)%nat /\ gm_below fl (K - 1) = true /\
                ((N_min <= K - 1)%nat \/ gm_exh fl (K - 1) = true) /\
                (forall j, (j < K - 1)%nat ->
                   ~ (gm_below fl j = true /\ ((N_min <= j)%nat \/ gm_exh fl j = true)))) /\
  (cv = false -> K = N_max /\
                 (forall j, (j < N_max)%nat ->
                    ~ (gm_below fl j = true /\ ((N_min <= j)%nat \/ gm_exh fl j = true)))).
Proof. exact gm_stop_rule. Qed.

(* an exhausted Krylov space (estimate below the tolerance AND at the rounding level) ends the run whatever N_min is:
   no Arnoldi step is made on the zero vector (the 0/0 of finding F16.6) *)
Theorem T16_gmres_exhausted_stops : forall N_min N_max fl k, (k < N_max)%nat ->
  gm_below fl k = true -> gm_exh fl k = true ->
  (fst (gm_inner N_min 0 N_max fl) <= S k)%nat /\ snd (gm_inner N_min 0 N_max fl) = true.
Proof. exact gm_exhausted_stops. Qed.

(* at most `restart` cycles of 1..N_max steps; every cycle but the last one ran N_max steps without convergence;
   a run that never converged used all `restart` cycles *)
Theorem T16_gmres_cycles : forall N_min N_max r fls, (1 <= N_max)%nat ->
  let l := gm_cycles N_min N_max r fls in
  (length l <= r)%nat /\
  Forall (fun p => (1 <= fst p <= N_max)%nat) l /\
  (forall i, (S i < length l)%nat -> nth i l (0%nat, true) = (N_max, false)) /\
  ((forall p, In p l -> snd p = false) -> length l = r).
Proof. exact gm_cycles_spec. Qed.

(* operator applications: one per Arnoldi step, one per residual (initial, every reset, returned); one fresh start state per
   residual computed before a cycle; the update of x adds one term per Arnoldi step *)
Theorem T16_gmres_matvec_count : forall N_min N_max restart fls,
  let l := gm_cycles N_min N_max restart fls in
  let evs := gmres_events N_min N_max restart false fls in
  (count_tag 11 evs + count_tag 14 evs + count_tag 15 evs = 2 + sum_nat (map fst l) + gm_resets l)%nat /\
  count_tag 10 evs = S (gm_resets l) /\ count_tag 13 evs = gm_resets l /\
  count_tag 12 evs = sum_nat (map fst l).
Proof. exact gmres_matvec_count. Qed.

(* every reset is followed by the residual of the current x and a start state that satisfies ALL restart invariants (one Krylov
   vector r/|r|, r_norm = |r| absolute, e1 = r_norm e_1, H / rotations zero), and the Arnoldi steps of the new cycle count their
   Krylov vectors from one again *)
Theorem T16_gmres_restart_state : forall N_min N_max restart ib fls,
  Forall ev_fresh (gmres_events N_min N_max restart ib fls) /\
  (forall c K t, gm_run_events c ((K, false) :: t) =
     gm_cycle_events c K ++ [(13, c, 0, 0); (14, S c, 0, 0); (10, S c, 0, 0)]%nat ++ gm_run_events (S c) t) /\
  (forall c K, gm_cycle_events c (S K) =
     (11, c, 0, 1)%nat :: map (fun k => (11, c, k, S k)%nat) (seq 1 K) ++ map (fun i => (12, c, i, 0)%nat) (seq 0 (S K))).
Proof. exact gmres_restart_state. Qed.

(* GMRES(2), N_min = 0, restart = 3: first cycle without convergence, second converges in its step 1;
   N_min = 5: an exhausted step 0 stops the run (1x1 system with the default options), a merely small one does not *)
Example T16_example_gmres :
  let n := (false, false) in let b := (true, false) in let x := (true, true) in
  gmres_events 0 2 3 false [[n; n]; [n; b]] =
  [(14,0,0,0); (10,0,0,0); (11,0,0,1); (11,0,1,2); (12,0,0,0); (12,0,1,0); (13,0,0,0); (14,1,0,0); (10,1,0,0);
   (11,1,0,1); (11,1,1,2); (12,1,0,0); (12,1,1,0); (15,0,0,0)]%nat /\
  gmres_iters 0 2 3 false [[n; n]; [n; b]] = [2; 2]%nat /\
  gmres_iters 1 3 2 false [[b; b; n]; []] = [2]%nat /\ gmres_iters 1 3 2 false [[b; n; n]; []] = [3; 3]%nat /\
  gmres_iters 5 20 10 false [[x]] = [1]%nat /\ gmres_iters 5 3 2 false [[b; b; b]; [b; x]] = [3; 2]%nat /\
  gmres_events 5 20 10 true [] = [(14,0,0,0); (10,0,0,0)]%nat.
Proof. vm_compute. repeat split; reflexivity. Qed.

(* non-vacuity: N = 7 iterations with N_cache = 3: cache, the assembled terms, a piece of the trace *)
Example T16_example_cache : cache_after 3 7 = [4; 5; 6]%nat.
Proof. vm_compute. reflexivity. Qed.
Example T16_example_terms :
  result_terms 3 7 = [(0,0); (6,6); (5,5); (4,4); (1,1); (2,2); (3,3)]%nat.
Proof. vm_compute. reflexivity. Qed.
Example T16_example_argsort :
  argsort_model LM [(1, 0); (0, -3); (2, 2)]%Z = [1; 2; 0]%nat.
Proof. vm_compute. reflexivity. Qed.
Example T16_example_ritz : (rq_num [2; 5; 3] [1; -2; 1] = 25 /\ rq_den [2; 5; 3] [1; -2; 1] = 6)%Z.
Proof. vm_compute. split; reflexivity. Qed.

(* N = 3, N_cache = 2 (rebuild of one vector), _converged called in iterations 1 and 2: all accesses to h in order *)
Example T16_example_h_accesses :
  h_only (lanczos_hevents 2 false 3 [false; true; true]) =
  [HW 0 0 (Alpha 0); HR 0 0; HW 0 1 (Beta 0); HW 1 0 (Beta 0);
   HW 1 1 (Alpha 1); HRB 2; HW 1 2 (Beta 1); HW 2 1 (Beta 1); HR 1 2;
   HW 2 2 (Alpha 2); HRB 3; HW 2 3 (Beta 2); HW 3 2 (Beta 2); HR 2 3]%nat.
Proof. vm_compute. reflexivity. Qed.
Example T16_example_h_rebuild :
  skipn 17 (h_only (lanczos_hevents 2 true 5 [])) =
  [HRB 5; HW 4 5 (Beta 4); HW 5 4 (Beta 4); HR 0 0; HR 0 1; HR 1 1; HR 1 2]%nat.
Proof. vm_compute. reflexivity. Qed.
(* the block read in iteration 2 sees the 3x3 tridiagonal matrix; Beta 2 is not yet there *)
Example T16_example_h_block :
  let w := h_writes (firstn 22 (lanczos_hevents 2 false 3 [false; true; true])) in
  nth 22 (lanczos_hevents 2 false 3 [false; true; true]) (HR 9 9) = HRB 3 /\
  map (fun i => map (h_lookup w i) (seq 0 4)) (seq 0 4) =
  [[Alpha 0; Beta 0; HZero; HZero]; [Beta 0; Alpha 1; Beta 1; HZero]; [HZero; Beta 1; Alpha 2; HZero];
   [HZero; HZero; HZero; HZero]]%nat.
Proof. vm_compute. split; reflexivity. Qed.
Example T16_example_shift :
  (solve_energy OBase (Some (-20)) 1 7 = 7 /\ solve_energy (OOrtho OBase) (Some 3) 4 7 = 7 /\
   fst (krylov_init (OOrtho OBase) (Some 3)) = OOrtho (OShift OBase 3) /\
   tri_form [2; 5; 3] [1; -1] [1; -2; 1] = 25 + 2 * (1 * 1 * -2) + 2 * (-1 * -2 * 1) /\
   tri_form (map (Z.add 10) [2; 5; 3]) [1; -1] [1; -2; 1] = tri_form [2; 5; 3] [1; -1] [1; -2; 1] + 10 * 6)%Z.
Proof. vm_compute. repeat split; reflexivity. Qed.

Example T16_example_gs :
  map ortho_targets (build_ortho 3 true 0 5 []) = [[0]; [1; 0]; [2; 0; 1]; [3; 1; 2]; [4; 2; 3]]%nat /\
  map ortho_targets (build_ortho 3 false 0 5 []) = [[0]; [1; 0]; [2; 1]; [3; 2]; [4; 3]]%nat.
Proof. vm_compute. split; reflexivity. Qed.

Print Assumptions T16_cache_bounded.
Print Assumptions T16_three_term_indices.
Print Assumptions T16_rebuild_same_recurrence.
Print Assumptions T16_result_full_indices.
Print Assumptions T16_cache_independence.
Print Assumptions T16_arnoldi_order.
Print Assumptions T16_ritz_bound_partial.
Print Assumptions T16_tridiagonal_writes.
Print Assumptions T16_tridiagonal_reads.
Print Assumptions T16_tridiagonal_order.
Print Assumptions T16_shift.
Print Assumptions T16_shift_rayleigh.
Print Assumptions T16_shift_twice.
Print Assumptions T16_shift_shared_operator_refuted.
Print Assumptions T16_gram_schmidt_indices.
Print Assumptions T16_gmres_stop_rule.
Print Assumptions T16_gmres_exhausted_stops.
Print Assumptions T16_gmres_cycles.
Print Assumptions T16_gmres_matvec_count.
Print Assumptions T16_gmres_restart_state.
