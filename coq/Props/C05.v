(* Property C05 (part): the new internal leg of svd / qr / lq makes the factors contractible and gives them exactly
   the requested total charges (T05_svd_charges, T05_svd_request, T05_qr_charges, T05_lq_charges); structure of the
   eigh / eig results (T05_eig_structure); the block algebra around the per-block LAPACK calls of svd: exact per-block
   factorisations give an exact dense product, per-block isometries give isometries in reduced mode, not with
   full_matrices and a missing block (T05_block_reconstruct, T05_block_product, T05_block_isometry_U/_V,
   T05_svd_full_refuted, T05_svd_inner_sizes); eigenpairs A V = V diag(w) of the assembled eigh / eig result
   (T05_eig_pairs); the block product of qr / lq factors (T05_matched_product, T05_qr_block_reconstruct); isometry of the
   assembled Q of qr in reduced and complete mode (T05_qr_isometry_assembled, T05_qr_complete_isometry) and unitarity of the
   full_matrices factors when every sector is stored (T05_svd_full_unitary); the phase bookkeeping of qr(pos_diag_R=True) for
   real blocks (T05_qr_pos_diag).  Only statements; proofs are `exact <lemma of Proofs/Factor*P*.v>`.
   LAPACK itself is NOT modelled: its results are universally quantified inputs with their specification as
   hypotheses.  The remaining numeric clauses of C05 (triangular R from numpy, A v = w v, Moore-Penrose, expm, polar,
   orthogonal_columns, speigs, complex entries) are NOT proved; they are checked by the dense oracle of harness/c05.py.
   Tie of Model/Factor2.v and Model/FactorDense.v to the code (Model/FactorCase2.v, evaluated by harness/c05.py on every
   run): lq_charges is run on the blocked structure of the matrix ITSELF against npc.lq (check_lq_case: L.legs[1], Q.qtotal,
   L.qtotal, both modes); eig_plan, pos_diag and the svd assembly (kept, svd_U, svd_V, svd_S, inner_sizes, svd_U_full) are
   run against npc.eigh / eig, npc.qr(pos_diag_R=True) and npc.svd in the 'plan' stream, where the per-block LAPACK entry
   points (np.linalg.eigh / eig / qr, np_conserved.svd_flat) are replaced in the runner process by a stub returning
   recorded integer-valued matrices (any kept rank, zeros on the R diagonal included) - the models are parametric in
   exactly these per-block results, so the comparison is exact (check_eig_case: resv._qdata/_data and resw;
   check_posdiag_case: the stored q / r blocks or NaN; check_svd_dense_case: U / VH _qdata and blocks, S, block sizes of
   VH.legs[0]).  Model/FactorDense3.v (qr_complete_Q: identity fill-in of mode='complete'; svd_V_full) is run against
   npc.qr / npc.svd by Model/FactorCase3.v in the same stream (check_qr_fill_case, check_svd_vfull_case).
   Model/FactorDense2.v (eig_A / eig_V, pairs_L / pairs_R) is proof vocabulary built on these definitions. *)
From TenpyV Require Import Base.Prelude Model.ChargeL Model.Leg Model.Factor Proofs.LegP Proofs.FactorP
  Model.Factor2 Model.FactorDense Model.FactorDense2 Proofs.FactorP2 Proofs.FactorDenseP Proofs.FactorDenseP2
  Model.FactorDense3 Proofs.FactorDenseP3.
Open Scope Z_scope.

(* svd (reduced): for every completely blocked rank-2 charge structure (mat_wf: stored blocks obey the charge rule),
   every qtotal_LR request (None / given, consistent), both inner_qconj and ANY kept ranks `nums` (rank deficient,
   zero, one-sided sectors included): qtotal U + qtotal VH = qtotal a, every block of U and of VH obeys the charge rule
   for these totals, the inner legs are contractible, VH.legs[0].qconj = inner_qconj, only blocks with kept values remain *)
Theorem T05_svd_charges : forall ci a nums oL oR iq p,
  (iq = 1 \/ iq = -1) -> mat_wf ci a -> req_wf ci oL -> req_wf ci oR ->
  svd_charges ci a nums oL oR iq = Some p ->
  make_valid ci (vadd (s_qU p) (s_qV p)) = mq a /\
  Forall (krow_ok ci a iq (s_qU p) (s_qV p)) (s_rows p) /\
  contractible ci (s_legL p) (s_legR p) = true /\ qc (s_legR p) = iq /\ blocks (s_legR p) = map snd (s_rows p).
Proof. exact svd_charges_ok. Qed.

(* a given entry of qtotal_LR is the total charge of that factor *)
Theorem T05_svd_request : forall ci a nums oL oR iq p, svd_charges ci a nums oL oR iq = Some p ->
  (forall l, oL = Some l -> s_qU p = make_valid ci l) /\ (forall r, oR = Some r -> s_qV p = make_valid ci r).
Proof. exact svd_request. Qed.

(* qr (reduced / complete; lq by transposition): Q.qtotal = requested qtotal_Q (default 0), Q.qtotal + R.qtotal = a.qtotal,
   every block of Q and R on the projected, shifted and possibly flipped inner leg obeys the charge rule, for ANY numbers
   of kept columns; inner legs contractible, R.legs[0].qconj = inner_qconj *)
Theorem T05_qr_charges : forall ci a ks complete qQ iq,
  (iq = 1 \/ iq = -1) -> (qc (mL a) = 1 \/ qc (mL a) = -1) -> mat_wf ci a -> req_wf ci qQ ->
  let p := qr_charges ci a ks complete qQ iq in
  make_valid ci (vadd (r_qQ p) (r_qR p)) = mq a /\
  r_qQ p = make_valid ci (q_req ci qQ) /\
  Forall (qrow_ok ci a iq (r_qQ p) (r_qR p)) (r_map p) /\
  qc (r_inner p) = iq /\ blocks (r_inner p) = map snd (r_map p) /\
  contractible ci (conj_leg (r_inner p)) (r_inner p) = true.
Proof. exact qr_charges_ok. Qed.

(* non-vacuity: Z_3 x U(1), non-zero qtotal, a one-sided sector, a block that keeps nothing *)
Definition ex_mat : mat :=
  mkMat (mkLeg [(2, [0; 1]); (1, [1; 0]); (2, [2; -1])] 1) (mkLeg [(2, [2; 0]); (3, [1; 1])] (-1)) [2; 0] [(0%nat, 1%nat); (1%nat, 0%nat)].
Example T05_example_wf : mat_wf [3; 1] ex_mat.
Proof. repeat split; repeat constructor. Qed.
Example T05_example :
  option_map (fun p => (blocks (s_legR p), s_qU p, s_qV p)) (svd_charges [3; 1] ex_mat [2; 0] (Some [1; 5]) None (-1))
  = Some ([(2, [1; 4])], [1; 5], [1; -5])
  /\ blocks (r_inner (qr_charges [3; 1] ex_mat [2; 1] false (Some [2; 1]) (-1))) = [(2, [2; 0]); (1, [1; 1])].
Proof. vm_compute. split; reflexivity. Qed.

(* lq (reduced / complete) = transposed qr of the transposed matrix: L.legs = [a.legs[0], inner], Q.legs = [inner.conj(),
   a.legs[1]]; Q.qtotal = requested qtotal_Q (default 0), L.qtotal + Q.qtotal = a.qtotal, every block of Q (row = inner
   block, column = block j of a.legs[1]) and every block of L (stored block (i, j) of a) obeys the charge rule, for ANY
   numbers of kept rows; L.legs[1].qconj = inner_qconj; inner legs contractible *)
Theorem T05_lq_charges : forall ci a ks complete qQ iq,
  (iq = 1 \/ iq = -1) -> (qc (mR a) = 1 \/ qc (mR a) = -1) -> mat_wf ci a -> req_wf ci qQ ->
  let p := lq_charges ci a ks complete qQ iq in
  make_valid ci (vadd (r_qR p) (r_qQ p)) = mq a /\
  r_qQ p = make_valid ci (q_req ci qQ) /\
  Forall (lrow_ok ci a iq (r_qR p) (r_qQ p)) (r_map p) /\
  qc (r_inner p) = iq /\ blocks (r_inner p) = map snd (r_map p) /\
  contractible ci (r_inner p) (conj_leg (r_inner p)) = true.
Proof. exact lq_charges_ok. Qed.

Example T05_lq_example :
  (let p := lq_charges [3; 1] ex_mat [3; 1] false (Some [2; 1]) 1 in (r_map p, qc (r_inner p), r_qQ p, r_qR p))
    = ([(0%nat, (1, [2; -1])); (1%nat, (3, [0; -2]))], 1, [2; 1], [0; -1]) /\
  (let p := lq_charges [3; 1] ex_mat [3; 1] true None (-1) in (r_map p, qc (r_inner p), r_qQ p, r_qR p))
    = ([(0%nat, (2, [2; 0])); (1%nat, (3, [1; 1]))], -1, [0; 0], [2; 0]).
Proof. vm_compute. split; reflexivity. Qed.

(* eigh / eig (_eig_worker after as_completely_blocked, qtotal = 0 as the code checks, legs [l, l.conj()]), for ANY
   result `eigb k = (rw, rv)` of the LAPACK call on stored block number k that returns as many eigenvalues as the block
   has rows (eig_sizes), one stored block per row sector (NoDup): the eigenvector matrix has exactly one block (q, q)
   per charge sector q in leg order - LAPACK's rv for the stored block of that sector, the identity for a sector without
   stored block; the eigenvalue vector is the concatenation over the sectors in leg order of rw resp. zeros, so its
   length is the dimension of the leg; every block (q, q) obeys the charge rule with total charge 0; the two legs are
   contractible.  (The imperative plan - item assignment into diag(1) and slice assignment into zeros - equals the
   sector-wise description.) *)
Theorem T05_eig_structure : forall (B W : Type) (eye : Z -> B) (w0 : W) (eigb : nat -> list W * B) ci l data,
  sizes_nonneg l -> charges_wf ci l -> NoDup (map fst data) ->
  Forall (fun ij => (fst ij < nblocks l)%nat) data -> eig_sizes eigb l data 0 ->
  eig_plan eye w0 eigb l data =
    (map (fun q => (q, q, sector_v eye eigb l data q)) (seq 0 (nblocks l)),
     concat (map (sector_w w0 eigb l data) (seq 0 (nblocks l)))) /\
  (forall q, (q < nblocks l)%nat ->
     rule2 ci (leg_charge l q) (leg_charge (conj_leg l) q) (vzero (length ci)) = true) /\
  contractible ci l (conj_leg l) = true /\
  Z.of_nat (length (snd (eig_plan eye w0 eigb l data))) = ind_len l.
Proof. exact eig_structure_full. Qed.

(* non-vacuity: three sectors, the middle one without stored block, blocks stored out of leg order *)
Definition ex_leg : leg := mkLeg [(2, [0; 1]); (1, [1; 0]); (2, [2; -1])] 1.
Definition ex_eye (n : Z) : list (list Z) :=
  map (fun i => map (fun j => if Nat.eqb i j then 1 else 0) (seq 0 (Z.to_nat n))) (seq 0 (Z.to_nat n)).
Definition ex_eigb (k : nat) : list Z * list (list Z) :=
  match k with 0%nat => ([5; 7], [[1; 1]; [1; -1]]) | _ => ([-3; 4], [[2; 1]; [1; -2]]) end.
Definition ex_edata : list (nat * nat) := [(2%nat, 2%nat); (0%nat, 0%nat)].
Example T05_eig_example_hyps :
  sizes_nonneg ex_leg /\ charges_wf [3; 1] ex_leg /\ NoDup (map fst ex_edata) /\
  Forall (fun ij => (fst ij < nblocks ex_leg)%nat) ex_edata /\ eig_sizes ex_eigb ex_leg ex_edata 0.
Proof.
  split; [repeat constructor; cbn; lia|]. split; [repeat constructor|]. split; [repeat constructor; cbn; intuition lia|].
  split; [repeat constructor; cbn; lia|].
  intros k qi qj H. destruct k as [|[|[|k]]]; cbn in H; try discriminate; injection H as <- <-; reflexivity.
Qed.
Example T05_eig_example :
  eig_plan ex_eye 0 ex_eigb ex_leg ex_edata =
  ([(0%nat, 0%nat, [[2; 1]; [1; -2]]); (1%nat, 1%nat, [[1]]); (2%nat, 2%nat, [[1; 1]; [1; -1]])], [-3; 4; 0; 5; 7]).
Proof. vm_compute. reflexivity. Qed.

(* svd, the algebraic core of "U S VH = a" (values in Z, blocks as functions with the dimensions of the legs):
   for ANY function `fac` (LAPACK + cutoff on a block of the given shape) whose result is exact on every block
   (fac_exact: U_b diag(S_b) VH_b = M_b), any block sizes rs / cs of the two legs and any list of stored blocks `a`
   (any number of sectors, sectors without stored block, one-sided sectors, blocks with no kept value, which are dropped):
   the dense product of the assembled factors - U with _qdata [qi_L, arange], S = concatenate, VH with _qdata
   [arange, qi_R], new leg with slices = cumulative kept ranks - is the dense input, at every index (r, c). *)
Theorem T05_block_reconstruct : forall (fac : nat -> nat -> dmat -> fac3),
  (forall nr nc M x y, (x < nr)%nat -> (y < nc)%nat -> fac_prod (fac nr nc M) x y = M x y) ->
  forall rs cs a r c,
  let ks := kept (factor_blocks fac rs cs a) in
  usv (list_sum (inner_sizes ks)) (dense rs (inner_sizes ks) (svd_U ks)) (svd_S ks) (dense (inner_sizes ks) cs (svd_V ks)) r c
  = dense rs cs a r c.
Proof. exact svd_reconstruct. Qed.

(* the same without any hypothesis on the per-block results (e.g. with a cutoff): the dense product of the assembled
   factors is the block matrix of the per-block products U_b diag(S_b) VH_b - the discarded part of `a` is exactly the
   part discarded inside the blocks *)
Theorem T05_block_product : forall rs cs fs r c,
  let ks := kept fs in
  usv (list_sum (inner_sizes ks)) (dense rs (inner_sizes ks) (svd_U ks)) (svd_S ks) (dense (inner_sizes ks) cs (svd_V ks)) r c
  = dense rs cs (map prod_ent fs) r c.
Proof. exact svd_product. Qed.

(* reduced mode: per-block isometries U_b^T U_b = 1 and at most one kept block per row sector (complete blocking)
   give U^T U = 1 on the new leg; likewise VH VH^T = 1 *)
Theorem T05_block_isometry_U : forall rs ks,
  let ns := inner_sizes ks in
  NoDup (map sb_row ks) ->
  (forall e, In e ks -> forall a b, (a < f_n (sb_fac e))%nat -> (b < f_n (sb_fac e))%nat ->
     sumn (bsize rs (sb_row e)) (fun x => f_U (sb_fac e) x a * f_U (sb_fac e) x b) = delta a b) ->
  forall t t', (t < list_sum ns)%nat -> (t' < list_sum ns)%nat ->
  sumn (list_sum rs) (fun r => dense rs ns (svd_U ks) r t * dense rs ns (svd_U ks) r t') = delta t t'.
Proof. exact svd_U_isometry. Qed.

Theorem T05_block_isometry_V : forall cs ks,
  let ns := inner_sizes ks in
  NoDup (map sb_col ks) ->
  (forall e, In e ks -> forall a b, (a < f_n (sb_fac e))%nat -> (b < f_n (sb_fac e))%nat ->
     sumn (bsize cs (sb_col e)) (fun y => f_V (sb_fac e) a y * f_V (sb_fac e) b y) = delta a b) ->
  forall t t', (t < list_sum ns)%nat -> (t' < list_sum ns)%nat ->
  sumn (list_sum cs) (fun c => dense ns cs (svd_V ks) t c * dense ns cs (svd_V ks) t' c) = delta t t'.
Proof. exact svd_V_isometry. Qed.

(* full_matrices=True (U.legs = [legs[0], legs[0].conj()], U._qdata = [qi_L, qi_L] for the stored blocks only):
   with unitary per-block U_b and one block per stored row sector, U^T U is NOT the identity when a row sector has no
   stored block (finding F05.1) *)
Theorem T05_svd_full_refuted : exists rs fs,
  NoDup (map sb_row fs) /\
  (forall e, In e fs -> forall a b, (a < bsize rs (sb_row e))%nat -> (b < bsize rs (sb_row e))%nat ->
     sumn (bsize rs (sb_row e)) (fun x => f_U (sb_fac e) x a * f_U (sb_fac e) x b) = delta a b) /\
  exists t, (t < list_sum rs)%nat /\ gram (list_sum rs) (dense rs rs (svd_U_full fs)) t t <> delta t t.
Proof. exact svd_full_refuted. Qed.

(* link of the dense assembly to the correspondence-checked charge plan: fed with the same stored blocks and kept ranks,
   svd_charges keeps the same blocks at the same coordinates, and the sizes of VH.legs[0] are the inner sizes *)
Theorem T05_svd_inner_sizes : forall ci a fs oL oR iq p,
  mdata a = map (fun e => (sb_row e, sb_col e)) fs ->
  svd_charges ci a (map (fun e => Z.of_nat (f_n (sb_fac e))) fs) oL oR iq = Some p ->
  map (fun r : krow => (fst (fst r), snd (fst r), fst (snd r))) (s_rows p)
    = map (fun e => (sb_row e, sb_col e, Z.of_nat (f_n (sb_fac e)))) (kept fs) /\
  bsz (s_legR p) = map Z.of_nat (inner_sizes (kept fs)).
Proof. exact svd_plan_link. Qed.

(* non-vacuity: an exact `fac` exists (U = 1, S = 1, VH = M); a concrete rank-1 block, a block without kept value (dropped; its
   row sector 2 and column sector 0 stay empty), two blocks in one column sector, evaluated at every index *)
Example T05_fac_exact_example : forall nr nc M x y, (x < nr)%nat -> (y < nc)%nat -> fac_prod (triv_fac nr nc M) x y = M x y.
Proof. exact triv_fac_exact. Qed.
Definition ex_fs : list sblock :=
  [(0%nat, 1%nat, mkFac3 1 (of_rows [[1]; [2]]) (of_list [3]) (of_rows [[1; -1]]));
   (2%nat, 0%nat, mkFac3 0 (of_rows []) (of_list []) (of_rows []));
   (1%nat, 1%nat, mkFac3 1 (of_rows [[-1]]) (of_list [2]) (of_rows [[0; 1]]))].
Definition tab (nr nc : nat) (A : dmat) : list (list Z) := map (fun r => map (fun c => A r c) (seq 0 nc)) (seq 0 nr).
Example T05_block_product_example :
  let ks := kept ex_fs in
  tab 5 3 (usv (list_sum (inner_sizes ks)) (dense [2; 1; 2]%nat (inner_sizes ks) (svd_U ks)) (svd_S ks)
               (dense (inner_sizes ks) [1; 2]%nat (svd_V ks)))
  = [[0; 3; -3]; [0; 6; -6]; [0; 0; -2]; [0; 0; 0]; [0; 0; 0]] /\ inner_sizes ks = [1; 1]%nat.
Proof. vm_compute. split; reflexivity. Qed.
(* isometry hypotheses are satisfiable: columns (1,0)^T of sector 0 and (1) of sector 1 *)
Definition ex_iso : list sblock :=
  [(0%nat, 1%nat, mkFac3 1 (of_rows [[1]; [0]]) (of_list [3]) (of_rows [[1; 0]]));
   (1%nat, 0%nat, mkFac3 1 (of_rows [[-1]]) (of_list [2]) (of_rows [[1]]))].
Example T05_block_isometry_example :
  NoDup (map sb_row ex_iso) /\
  (forall e, In e ex_iso -> forall a b, (a < f_n (sb_fac e))%nat -> (b < f_n (sb_fac e))%nat ->
     sumn (bsize [2; 1; 2]%nat (sb_row e)) (fun x => f_U (sb_fac e) x a * f_U (sb_fac e) x b) = delta a b).
Proof.
  split; [repeat constructor; cbn; intuition lia|].
  intros e [<-|[<-|[]]] a b Ha Hb; cbn in Ha, Hb; assert (a = 0%nat) by lia; assert (b = 0%nat) by lia; subst; reflexivity.
Qed.

(* eigh / eig, "A v = w v": the leg has one sector per entry of `es` (sizes inner_sizes es); sector q carries the block of
   a (f_V, zero if not stored), the block of resv (f_U: LAPACK's rv, or the identity) and the slice of resw (f_S: rw, or
   zeros) - the sector-wise result established by T05_eig_structure.  If every sector satisfies M_q V_q = V_q diag(w_q)
   (LAPACK's specification for a stored block; trivially true for 0, identity, 0) then the dense matrices satisfy
   (A V)[r, c] = V[r, c] * w[c] at every index, for any number of sectors *)
Theorem T05_eig_pairs : forall es,
  let rs := inner_sizes es in
  (forall e, In e es -> forall x y, (x < f_n (sb_fac e))%nat -> (y < f_n (sb_fac e))%nat ->
     sumn (f_n (sb_fac e)) (fun b => f_V (sb_fac e) x b * f_U (sb_fac e) b y) = f_U (sb_fac e) x y * f_S (sb_fac e) y) ->
  forall r c, (c < list_sum rs)%nat ->
  sumn (list_sum rs) (fun x => dense rs rs (eig_A es) r x * dense rs rs (eig_V es) x c)
  = dense rs rs (eig_V es) r c * svd_S es c.
Proof. exact eig_pairs. Qed.

(* non-vacuity: sector 0 = [[0,1],[1,0]] with eigenvectors (1,1), (1,-1) and eigenvalues 1, -1 (integer multiples of the
   normalised vectors); sector 1 without stored block *)
Definition ex_es : list sblock :=
  [(0%nat, 0%nat, mkFac3 2 (of_rows [[1; 1]; [1; -1]]) (of_list [1; -1]) (of_rows [[0; 1]; [1; 0]]));
   (1%nat, 1%nat, mkFac3 1 delta (fun _ => 0) (fun _ _ => 0))].
Example T05_eig_pairs_example :
  forall e, In e ex_es -> forall x y, (x < f_n (sb_fac e))%nat -> (y < f_n (sb_fac e))%nat ->
     sumn (f_n (sb_fac e)) (fun b => f_V (sb_fac e) x b * f_U (sb_fac e) b y) = f_U (sb_fac e) x y * f_S (sb_fac e) y.
Proof.
  intros e [<-|[<-|[]]] x y Hx Hy; cbn in Hx, Hy; destruct x as [|[|x]], y as [|[|y]]; try lia; reflexivity.
Qed.

(* qr / lq (reduced or complete), the algebraic core of "Q R = a": the k-th stored block gives the pair Q-block (i_k, x_k),
   R-block (x_k, j_k) where x_k is the number of its block of the inner leg (map_qind[qi_L] resp. qi_L); if these inner
   blocks are pairwise distinct, the dense product of the assembled factors is the block matrix of the per-pair products
   (any sizes ns of the inner leg, any number of sectors) ... *)
Theorem T05_matched_product : forall rs ns cs ps r c, NoDup (map p_x ps) ->
  mmul (list_sum ns) (dense rs ns (pairs_L ps)) (dense ns cs (pairs_R ps)) r c = dense rs cs (pairs_prod ns ps) r c.
Proof. exact matched_product. Qed.

(* ... hence exact per-block factorisations Q_b R_b = M_b give Q R = a at every index *)
Theorem T05_qr_block_reconstruct : forall rs ns cs ps (a : list bent) r c, NoDup (map p_x ps) ->
  Forall2 (fun p (e : bent) => fst (fst e) = p_i p /\ snd (fst e) = p_j p /\
     forall x y, (x < bsize rs (p_i p))%nat -> (y < bsize cs (p_j p))%nat ->
       mmul (bsize ns (p_x p)) (p_A p) (p_B p) x y = snd e x y) ps a ->
  mmul (list_sum ns) (dense rs ns (pairs_L ps)) (dense ns cs (pairs_R ps)) r c = dense rs cs a r c.
Proof. exact matched_reconstruct. Qed.

(* non-vacuity: row sectors of sizes 2, 1 (the second without stored block, so the projected inner leg has one block) *)
Definition ex_ps : list mpair := [mkPair 0 0 1 (of_rows [[1; 0]; [0; -1]]) (of_rows [[1; 2]; [0; 3]])].
Definition ex_qr_a : list bent := [(0%nat, 1%nat, of_rows [[1; 2]; [0; -3]])].
Example T05_qr_block_example :
  NoDup (map p_x ex_ps) /\
  Forall2 (fun p (e : bent) => fst (fst e) = p_i p /\ snd (fst e) = p_j p /\
     forall x y, (x < bsize [2; 1]%nat (p_i p))%nat -> (y < bsize [1; 2]%nat (p_j p))%nat ->
       mmul (bsize [2]%nat (p_x p)) (p_A p) (p_B p) x y = snd e x y) ex_ps ex_qr_a.
Proof.
  split; [repeat constructor; cbn; tauto|]. repeat constructor.
  intros x y Hx Hy. cbn in Hx, Hy. destruct x as [|[|x]], y as [|[|y]]; try lia; reflexivity.
Qed.

(* qr(pos_diag_R=True) on one real block, R of shape (P, N), K = min(P, N) = len(diag(R)), phase = r_kk / |r_kk|:
   if no diagonal entry of R is zero, the call succeeds and Q' = Q.phase, R' = conj(phase).R satisfy Q'R' = QR
   (every entry), diag R' > 0, zeros of R stay zeros (triangularity is preserved), orthonormal columns of Q stay
   orthonormal.  With a zero on the diagonal (rank-deficient block) the phase is 1 (the row of R and the column of Q
   are kept; before the fix of finding F05.3 the code divided 0/0 = NaN): T05_qr_pos_diag_zero. *)
Theorem T05_qr_pos_diag : forall P N Q R, (forall k, (k < Nat.min P N)%nat -> R k k <> 0) ->
  exists Q' R', pos_diag P N Q R = Some (Q', R') /\
    (forall r c, sumn P (fun k => Q' r k * R' k c) = sumn P (fun k => Q r k * R k c)) /\
    (forall k, (k < Nat.min P N)%nat -> 0 < R' k k) /\
    (forall k c, R k c = 0 -> R' k c = 0) /\
    (forall M, (forall k k', (k < P)%nat -> (k' < P)%nat -> sumn M (fun r => Q r k * Q r k') = delta k k') ->
               forall k k', (k < P)%nat -> (k' < P)%nat -> sumn M (fun r => Q' r k * Q' r k') = delta k k').
Proof. exact qr_pos_diag_ok. Qed.

Example T05_qr_pos_diag_example :
  match pos_diag 2 3 (of_rows [[1; 0]; [0; 1]]) (of_rows [[-2; 1; 5]; [0; 3; -1]]) with
  | Some (Q, R) => Some (tab 2 2 Q, tab 2 3 R) | None => None end
  = Some ([[-1; 0]; [0; 1]], [[2; -1; -5]; [0; 3; -1]]).
Proof. vm_compute. reflexivity. Qed.
Example T05_qr_pos_diag_zero :
  match pos_diag 2 2 (of_rows [[1; 0]; [0; 1]]) (of_rows [[-2; 1]; [0; 0]]) with
  | Some (Q, R) => Some (tab 2 2 Q, tab 2 2 R) | None => None end
  = Some ([[-1; 0]; [0; 1]], [[2; -1]; [0; 0]]).
Proof. vm_compute. reflexivity. Qed.

(* qr / lq, "Q is an isometry", reduced mode: the k-th stored block gives the Q-block (i_k, x_k) = Q_k with x_k = map_qind[i_k] its
   block of the projected inner leg (sizes ns).  If the row blocks i_k are pairwise distinct (complete blocking: one stored block
   per row sector), the inner blocks x_k are pairwise distinct and cover the inner leg (every block of the projected leg comes from a
   stored block - how the leg is built), and every Q_k has orthonormal columns (LAPACK's specification), then the assembled dense Q
   satisfies Q^T Q = 1 on the inner leg, for any number of sectors and any sizes *)
Theorem T05_qr_isometry_assembled : forall rs ns ps,
  NoDup (map p_i ps) -> NoDup (map p_x ps) ->
  (forall x, (x < length ns)%nat -> (0 < bsize ns x)%nat -> In x (map p_x ps)) ->
  (forall p, In p ps -> forall a b, (a < bsize ns (p_x p))%nat -> (b < bsize ns (p_x p))%nat ->
     sumn (bsize rs (p_i p)) (fun r => p_A p r a * p_A p r b) = delta a b) ->
  forall t t', (t < list_sum ns)%nat -> (t' < list_sum ns)%nat ->
  sumn (list_sum rs) (fun r => dense rs ns (pairs_L ps) r t * dense rs ns (pairs_L ps) r t') = delta t t'.
Proof. exact qr_isometry_assembled. Qed.

(* mode='complete': inner leg = legs[0] (x_k = i_k), Q = the square blocks Q_k of the stored blocks followed by an identity block
   (q, q) for every row sector q without stored block (qr_complete_Q, correspondence-checked: check_qr_fill_case).  With one stored
   block per row sector and orthonormal columns in every Q_k the assembled Q satisfies Q^T Q = 1 on the whole leg - the fill-in
   makes the coverage hypothesis of the reduced statement true by construction *)
Theorem T05_qr_complete_isometry : forall rs ps,
  (forall p, In p ps -> p_x p = p_i p) -> NoDup (map p_i ps) ->
  (forall p, In p ps -> forall a b, (a < bsize rs (p_i p))%nat -> (b < bsize rs (p_i p))%nat ->
     sumn (bsize rs (p_i p)) (fun r => p_A p r a * p_A p r b) = delta a b) ->
  forall t t', (t < list_sum rs)%nat -> (t' < list_sum rs)%nat ->
  sumn (list_sum rs) (fun r => dense rs rs (qr_complete_Q rs ps) r t * dense rs rs (qr_complete_Q rs ps) r t') = delta t t'.
Proof. exact qr_complete_isometry. Qed.

(* non-vacuity: row sectors of sizes 2, 1, only the first stored; reduced: inner leg [1], Q_0 = (1, 0)^T; complete: Q_0 = a 2x2
   permutation, identity fill-in for sector 1, and the Gram matrix of the assembled Q evaluated *)
Definition ex_qiso : list mpair := [mkPair 0 0 1 (of_rows [[1]; [0]]) (of_rows [[1; 2]])].
Example T05_qr_isometry_example :
  NoDup (map p_i ex_qiso) /\ NoDup (map p_x ex_qiso) /\
  (forall x, (x < length [1%nat])%nat -> (0 < bsize [1%nat] x)%nat -> In x (map p_x ex_qiso)) /\
  (forall p, In p ex_qiso -> forall a b, (a < bsize [1%nat] (p_x p))%nat -> (b < bsize [1%nat] (p_x p))%nat ->
     sumn (bsize [2; 1]%nat (p_i p)) (fun r => p_A p r a * p_A p r b) = delta a b).
Proof.
  split; [repeat constructor; cbn; tauto|]. split; [repeat constructor; cbn; tauto|]. split.
  - intros x Hx _. cbn in Hx. assert (x = 0%nat) by lia. subst. left. reflexivity.
  - intros p [<-|[]] a b Ha Hb. cbn in Ha, Hb. assert (a = 0%nat) by lia. assert (b = 0%nat) by lia. subst. reflexivity.
Qed.
Definition ex_qcomp : list mpair := [mkPair 0 0 1 (of_rows [[0; 1]; [1; 0]]) (of_rows [[1; 2]; [0; 3]])].
Example T05_qr_complete_example :
  (forall p, In p ex_qcomp -> p_x p = p_i p) /\ NoDup (map p_i ex_qcomp) /\
  (forall p, In p ex_qcomp -> forall a b, (a < bsize [2; 1]%nat (p_i p))%nat -> (b < bsize [2; 1]%nat (p_i p))%nat ->
     sumn (bsize [2; 1]%nat (p_i p)) (fun r => p_A p r a * p_A p r b) = delta a b) /\
  map (fun e : bent => (fst (fst e), snd (fst e))) (qr_complete_Q [2; 1]%nat ex_qcomp) = [(0, 0); (1, 1)]%nat /\
  tab 3 3 (gram 3 (dense [2; 1]%nat [2; 1]%nat (qr_complete_Q [2; 1]%nat ex_qcomp))) = [[1; 0; 0]; [0; 1; 0]; [0; 0; 1]].
Proof.
  split; [intros p [<-|[]]; reflexivity|]. split; [repeat constructor; cbn; tauto|]. split.
  - intros p [<-|[]] a b Ha Hb. cbn in Ha, Hb. destruct a as [|[|a]], b as [|[|b]]; try lia; reflexivity.
  - split; vm_compute; reflexivity.
Qed.

(* svd(full_matrices=True), the positive counterpart of T05_svd_full_refuted: U._qdata = [qi_L, qi_L], VH._qdata = [qi_R, qi_R]
   (svd_U_full, svd_V_full; correspondence-checked).  If every row sector and every column sector of non-zero size has a stored
   block, one block per sector (complete blocking; this is the situation of a matrix with qtotal = 0 - or any fixed qtotal - whose
   sectors are all stored), and every U_b, VH_b is unitary (square, orthonormal columns and rows: LAPACK's specification), then
   U^T U = U U^T = 1 and VH VH^T = VH^T VH = 1 on the full legs, for any number of sectors.  (The charge rule of these factors for
   qtotal_L / qtotal_R <> 0 is finding F05.2 and is not part of this statement.) *)
Theorem T05_svd_full_unitary : forall rs cs fs,
  NoDup (map sb_row fs) -> NoDup (map sb_col fs) ->
  (forall q, (q < length rs)%nat -> (0 < bsize rs q)%nat -> In q (map sb_row fs)) ->
  (forall q, (q < length cs)%nat -> (0 < bsize cs q)%nat -> In q (map sb_col fs)) ->
  (forall e, In e fs -> forall a b, (a < bsize rs (sb_row e))%nat -> (b < bsize rs (sb_row e))%nat ->
     sumn (bsize rs (sb_row e)) (fun x => f_U (sb_fac e) x a * f_U (sb_fac e) x b) = delta a b /\
     sumn (bsize rs (sb_row e)) (fun x => f_U (sb_fac e) a x * f_U (sb_fac e) b x) = delta a b) ->
  (forall e, In e fs -> forall a b, (a < bsize cs (sb_col e))%nat -> (b < bsize cs (sb_col e))%nat ->
     sumn (bsize cs (sb_col e)) (fun y => f_V (sb_fac e) a y * f_V (sb_fac e) b y) = delta a b /\
     sumn (bsize cs (sb_col e)) (fun y => f_V (sb_fac e) y a * f_V (sb_fac e) y b) = delta a b) ->
  let U := dense rs rs (svd_U_full fs) in
  let V := dense cs cs (svd_V_full fs) in
  (forall t t', (t < list_sum rs)%nat -> (t' < list_sum rs)%nat ->
     sumn (list_sum rs) (fun r => U r t * U r t') = delta t t' /\ sumn (list_sum rs) (fun c => U t c * U t' c) = delta t t') /\
  (forall t t', (t < list_sum cs)%nat -> (t' < list_sum cs)%nat ->
     sumn (list_sum cs) (fun c => V t c * V t' c) = delta t t' /\ sumn (list_sum cs) (fun r => V r t * V r t') = delta t t').
Proof. exact svd_full_unitary. Qed.

(* non-vacuity: row sectors 2, 1, column sectors 1, 2, blocks (0, 1) (2x2) and (1, 0) (1x1), both stored *)
Definition ex_full : list sblock :=
  [(0%nat, 1%nat, mkFac3 2 (of_rows [[0; 1]; [1; 0]]) (of_list [3; 2]) (of_rows [[0; -1]; [1; 0]]));
   (1%nat, 0%nat, mkFac3 1 (of_rows [[-1]]) (of_list [5]) (of_rows [[1]]))].
Example T05_svd_full_example :
  NoDup (map sb_row ex_full) /\ NoDup (map sb_col ex_full) /\
  (forall q, (q < length [2; 1]%nat)%nat -> (0 < bsize [2; 1]%nat q)%nat -> In q (map sb_row ex_full)) /\
  (forall q, (q < length [1; 2]%nat)%nat -> (0 < bsize [1; 2]%nat q)%nat -> In q (map sb_col ex_full)) /\
  (forall e, In e ex_full -> forall a b, (a < bsize [2; 1]%nat (sb_row e))%nat -> (b < bsize [2; 1]%nat (sb_row e))%nat ->
     sumn (bsize [2; 1]%nat (sb_row e)) (fun x => f_U (sb_fac e) x a * f_U (sb_fac e) x b) = delta a b /\
     sumn (bsize [2; 1]%nat (sb_row e)) (fun x => f_U (sb_fac e) a x * f_U (sb_fac e) b x) = delta a b) /\
  (forall e, In e ex_full -> forall a b, (a < bsize [1; 2]%nat (sb_col e))%nat -> (b < bsize [1; 2]%nat (sb_col e))%nat ->
     sumn (bsize [1; 2]%nat (sb_col e)) (fun y => f_V (sb_fac e) a y * f_V (sb_fac e) b y) = delta a b /\
     sumn (bsize [1; 2]%nat (sb_col e)) (fun y => f_V (sb_fac e) y a * f_V (sb_fac e) y b) = delta a b).
Proof.
  split; [repeat constructor; cbn; intuition lia|]. split; [repeat constructor; cbn; intuition lia|].
  split; [intros q Hq _; cbn in Hq; destruct q as [|[|q]]; [left; reflexivity|right; left; reflexivity|lia]|].
  split; [intros q Hq _; cbn in Hq; destruct q as [|[|q]]; [right; left; reflexivity|left; reflexivity|lia]|].
  split; intros e [<-|[<-|[]]] a b Ha Hb; cbn in Ha, Hb; destruct a as [|[|a]], b as [|[|b]]; try lia; split; reflexivity.
Qed.

Print Assumptions T05_svd_charges.
Print Assumptions T05_svd_request.
Print Assumptions T05_qr_charges.
Print Assumptions T05_lq_charges.
Print Assumptions T05_eig_structure.
Print Assumptions T05_block_reconstruct.
Print Assumptions T05_block_product.
Print Assumptions T05_block_isometry_U.
Print Assumptions T05_block_isometry_V.
Print Assumptions T05_svd_full_refuted.
Print Assumptions T05_svd_inner_sizes.
Print Assumptions T05_qr_pos_diag.
Print Assumptions T05_eig_pairs.
Print Assumptions T05_matched_product.
Print Assumptions T05_qr_block_reconstruct.
Print Assumptions T05_qr_isometry_assembled.
Print Assumptions T05_qr_complete_isometry.
Print Assumptions T05_svd_full_unitary.
