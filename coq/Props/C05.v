(* Property C05 (part): the new internal leg of svd / qr / lq makes the factors contractible and gives them exactly
   the requested total charges.  Only statements; proofs are `exact <lemma of Proofs/FactorP.v>`.
   The numeric clauses of C05 (U S VH = a, isometry, triangular R, A v = w v, Moore-Penrose, expm, polar,
   orthogonal_columns, speigs) are NOT proved; they are checked by the dense oracle of harness/c05.py. *)
From TenpyV Require Import Base.Prelude Model.ChargeL Model.Leg Model.Factor Proofs.LegP Proofs.FactorP.
Open Scope Z_scope.

(* svd (reduced): for every completely blocked rank-2 charge structure (mat_wf: stored blocks obey the charge rule),
   every qtotal_LR request (None / given, consistent), both inner_qconj and ANY kept ranks `nums` (rank deficient,
   zero, one-sided sectors included): qtotal U + qtotal VH = qtotal a, every block of U and of VH obeys the charge rule
   for these totals, the inner legs are contractible, VH.legs[0].qconj = inner_qconj, only blocks with kept values remain *)
Theorem T05_svd_charges : forall ci a nums oL oR iq p,
  (iq = 1 \/ iq = -1) -> mat_wf ci a -> req_wf ci oL -> req_wf ci oR ->
  svd_charges ci a nums oL oR iq = Some p ->
  make_valid ci (vadd (s_qU p) (s_qV p)) = mq a /\
  Forall (krow_ok ci a iq (s_qU p) (s_qV p)) (s_rows p) /\
  contractible ci (s_legL p) (s_legR p) = true /\ qc (s_legR p) = iq /\ blocks (s_legR p) = map snd (s_rows p).
Proof. exact svd_charges_ok. Qed.

(* a given entry of qtotal_LR is the total charge of that factor *)
Theorem T05_svd_request : forall ci a nums oL oR iq p, svd_charges ci a nums oL oR iq = Some p ->
  (forall l, oL = Some l -> s_qU p = make_valid ci l) /\ (forall r, oR = Some r -> s_qV p = make_valid ci r).
Proof. exact svd_request. Qed.

(* qr (reduced / complete; lq by transposition): Q.qtotal = requested qtotal_Q (default 0), Q.qtotal + R.qtotal = a.qtotal,
   every block of Q and R on the projected, shifted and possibly flipped inner leg obeys the charge rule, for ANY numbers
   of kept columns; inner legs contractible, R.legs[0].qconj = inner_qconj *)
Theorem T05_qr_charges : forall ci a ks complete qQ iq,
  (iq = 1 \/ iq = -1) -> (qc (mL a) = 1 \/ qc (mL a) = -1) -> mat_wf ci a -> req_wf ci qQ ->
  let p := qr_charges ci a ks complete qQ iq in
  make_valid ci (vadd (r_qQ p) (r_qR p)) = mq a /\
  r_qQ p = make_valid ci (q_req ci qQ) /\
  Forall (qrow_ok ci a iq (r_qQ p) (r_qR p)) (r_map p) /\
  qc (r_inner p) = iq /\ blocks (r_inner p) = map snd (r_map p) /\
  contractible ci (conj_leg (r_inner p)) (r_inner p) = true.
Proof. exact qr_charges_ok. Qed.

(* non-vacuity: Z_3 x U(1), non-zero qtotal, a one-sided sector, a block that keeps nothing *)
Definition ex_mat : mat :=
  mkMat (mkLeg [(2, [0; 1]); (1, [1; 0]); (2, [2; -1])] 1) (mkLeg [(2, [2; 0]); (3, [1; 1])] (-1)) [2; 0] [(0%nat, 1%nat); (1%nat, 0%nat)].
Example T05_example_wf : mat_wf [3; 1] ex_mat.
Proof. repeat split; repeat constructor. Qed.
Example T05_example :
  option_map (fun p => (blocks (s_legR p), s_qU p, s_qV p)) (svd_charges [3; 1] ex_mat [2; 0] (Some [1; 5]) None (-1))
  = Some ([(2, [1; 4])], [1; 5], [1; -5])
  /\ blocks (r_inner (qr_charges [3; 1] ex_mat [2; 1] false (Some [2; 1]) (-1))) = [(2, [2; 0]); (1, [1; 1])].
Proof. vm_compute. split; reflexivity. Qed.

Print Assumptions T05_svd_charges.
Print Assumptions T05_svd_request.
Print Assumptions T05_qr_charges.
