(* Property C20: caches and event dispatch obey their sequential spec under any schedule.
   Only statements; every proof is `exact <lemma from Proofs/EventsP.v, CacheP.v, CacheThreadP.v, CacheCloseP.v,
   CacheCloseCheckP.v, CacheFileP.v>`. *)
From TenpyV Require Import Base.Prelude Model.Events Proofs.EventsP Model.Cache Proofs.CacheP.
From TenpyV Require Import Model.CacheThread Proofs.CacheThreadP Model.CacheClose Proofs.CacheCloseP.
From TenpyV Require Import Model.CacheCloseCheck Proofs.CacheCloseCheckP Model.CacheFile Proofs.CacheFileP.
Open Scope Z_scope.

(* ---------------------------------------------------------------- event dispatch *)

(* after ANY history of connect/disconnect/emit/emit_until_result/copy, emit() calls exactly the
   listeners that were connected and not disconnected (spec_connected: no sorting, no state), in
   descending priority and, within a priority, in connection order *)
Theorem T20_events : forall ops,
  let h := fst (ev_run empty_handler ops) in
  exists called,
    snd (ev_step h EEmit) = OEmit (map l_id called) (map l_ret called) /\
    Permutation called (spec_connected ops 0 []) /\
    StronglySorted before called.
Proof. exact events_emit. Qed.

(* emit_until_result() walks the same order and stops after the first result that is not None *)
Theorem T20_events_emit_until : forall ops,
  let h := fst (ev_run empty_handler ops) in
  exists called,
    Permutation called (spec_connected ops 0 []) /\ StronglySorted before called /\
    snd (ev_step h EEmitUntil) = OEmitUntil (fst (call_until called)) (snd (call_until called)) /\
    ((exists pre x post r, called = pre ++ x :: post /\ Forall (fun y => l_ret y = None) pre /\
        l_ret x = Some r /\ call_until called = (map l_id (pre ++ [x]), Some r)) \/
     (Forall (fun y => l_ret y = None) called /\ call_until called = (map l_id called, None))).
Proof. exact events_emit_until. Qed.

(* disconnect(i) removes exactly the listener with id i: everybody else stays, in the same order *)
Theorem T20_events_disconnect : forall ops i,
  let h := fst (ev_run empty_handler ops) in
  let h' := fst (ev_step h (EDisconnect i)) in
  h_listeners h' = filter (not_id i) (h_listeners h) /\ h_counter h' = h_counter h /\
  (forall x, In x (h_listeners h) -> l_id x <> i -> In x (h_listeners h')) /\
  (forall x, In x (h_listeners h') -> l_id x <> i /\ In x (h_listeners h)).
Proof. exact events_disconnect. Qed.

(* the ids handed out by connect() are never reused *)
Theorem T20_events_ids_never_reused : forall ops,
  NoDup (connected_ids (snd (ev_run empty_handler ops))).
Proof. exact events_ids_never_reused. Qed.

(* ---------------------------------------------------------------- DictCache *)

(* for every storage that meets the contract, every start state of it and every operation sequence
   (set / [] / get / del / in / preload / set_short_term_keys / keys, any keys, any length) the cache
   returns what a plain dictionary returns; in particular it never reports a storage error *)
Theorem T20_dictcache_refines_dict : forall St (o : storage_ops St) abs inv, storage_ok o abs inv ->
  forall s0, inv s0 -> forall ops, snd (c_run o (c_empty s0) ops) = snd (d_run [] ops).
Proof. exact dictcache_refines_dict. Qed.

(* the contract is satisfiable: the in-memory Storage (a dict) meets it *)
Theorem T20_dict_storage_ok : storage_ok dict_storage (fun s k => d_get k s) (fun _ => True).
Proof. exact dict_storage_ok. Qed.

(* spelled out: a read returns the latest value written, a deleted key raises KeyError *)
Theorem T20_reads_latest_write : forall St (o : storage_ops St) abs inv, storage_ok o abs inv ->
  forall s0, inv s0 -> forall pre k v mid, forallb (fun op => negb (writes_key k op)) mid = true ->
  last (snd (c_run o (c_empty s0) (pre ++ CSet k v :: mid ++ [CGetItem k]))) ONone = OVal v /\
  last (snd (c_run o (c_empty s0) (pre ++ CDel k :: mid ++ [CGetItem k]))) ONone = OKeyError.
Proof. exact cache_latest_write. Qed.

(* sub-caches: what cache i of a family returns depends only on the operations addressed to i *)
Theorem T20_subcache_isolated : forall ops cs i c, nth_error cs i = Some c ->
  m_proj_out i ops (snd (m_run cs ops)) = snd (c_run dict_storage c (m_proj i ops)).
Proof. exact subcache_isolated. Qed.

(* ---------------------------------------------------------------- ThreadedStorage + Worker *)

(* for EVERY schedule (any interleaving of caller and worker steps, any queue size), every program of
   storage calls as DictCache issues them (load/preload/delete only of saved keys): the worker never
   dies, and what the caller got back is exactly what a key-value store returns -- in particular
   load k returns the value of the latest save k before it in program order (next theorem) *)
Theorem T20_threaded_linearizable : forall qmax prog sched, wf [] prog = true ->
  let st := lts_run qmax None sched (init prog) in
  dead st = false /\
  rev (t_outs st) = firstn (length (t_outs st)) (spec_outs [] prog) /\
  (caller_finished st = true -> rev (t_outs st) = spec_outs [] prog).
Proof. exact threaded_linearizable. Qed.

Theorem T20_kv_latest_save : forall pre k v mid, forallb (fun op => negb (s_writes k op)) mid = true ->
  last (spec_outs [] (pre ++ SSave k v :: mid ++ [SLoad k])) TOk = TVal v.
Proof. exact spec_latest_save. Qed.

(* DictCache is a well-behaved client: for every operation sequence on the cache the calls that reach
   the storage are load/preload/delete of stored keys only -- so the hypothesis `wf` above is met by
   every use of the cache, and under every schedule the threaded storage answers the cache's calls
   exactly like the key-value store of T20_dictcache_refines_dict *)
Theorem T20_dictcache_calls_wellformed : forall ops, wf [] (calls_of ops) = true.
Proof. exact dictcache_calls_wellformed. Qed.

Theorem T20_threaded_under_dictcache : forall qmax ops sched,
  let st := lts_run qmax None sched (init (calls_of ops)) in
  dead st = false /\
  (caller_finished st = true -> rev (t_outs st) = spec_outs [] (calls_of ops)).
Proof. exact threaded_under_dictcache. Qed.

(* no deadlock, for every schedule, every program (well-formed or not), with or without a task that
   raises: a caller that has not finished can take a step after at most 3|queue|+2 worker steps
   (so it terminates under weak fairness of the worker) *)
Theorem T20_no_deadlock : forall qmax fail_at prog sched,
  let st := lts_run qmax fail_at sched (init prog) in
  caller_finished st = false ->
  exists n, (n <= 3 * length (t_queue st) + 2)%nat /\
            caller_step qmax (iter_worker fail_at n st) <> None.
Proof. exact no_deadlock. Qed.

(* a worker that died never blocks the caller ... *)
Theorem T20_dead_worker_never_blocks : forall qmax fail_at prog sched,
  let st := lts_run qmax fail_at sched (init prog) in
  t_status st = WDead -> caller_finished st = false -> caller_step qmax st <> None.
Proof. exact dead_worker_never_blocks. Qed.

(* ... every operation that needs it raises WorkerDied at once *)
Theorem T20_dead_worker_raises : forall qmax st op, dead st = true -> needs_worker st op = true ->
  t_outs (start_op qmax st op) = TWorkerDied :: t_outs st /\ t_pc (start_op qmax st op) = PIdle.
Proof. exact dead_worker_raises. Qed.

(* ---------------------------------------------------------------- non-vacuity *)
Example T20_events_example :
  snd (ev_run empty_handler [EConnect 0 None; EConnect 5 (Some 3); EConnect 0 None; EDisconnect 0; EEmit])
  = [OConnected 0; OConnected 1; OConnected 2; ODisconnected true; OEmit [1; 2] [Some 3; None]].
Proof. vm_compute. reflexivity. Qed.

(* the defect pattern of DictCache.__delitem__ (stale short-term copy) on the model: KeyError *)
Example T20_cache_example :
  snd (c_run dict_storage (c_empty []) [CShort [1]; CSet 1 10; CDel 1; CGetItem 1; CSet 1 11; CGetItem 1; CKeys])
  = [ONone; ONone; ONone; OKeyError; ONone; OVal 11; OKeys [1]].
Proof. vm_compute. reflexivity. Qed.


(* a well-formed program and a schedule in which the caller blocks in put (queue size 1) and in join;
   it finishes with the key-value store's answers *)
Example T20_lts_example :
  let prog := [SSave 1 10; SSave 2 20; SPreload 1; SSave 1 11; SLoad 1; SLoad 2] in
  let st := lts_run 1 None [true; true; true; false; false; true; true; false; false; true; true; false; false;
                            false; false; true; true; true; false; false; true; true; true; true; false; false; true; true] (init prog) in
  wf [] prog = true /\ caller_finished st = true /\ rev (t_outs st) = [TOk; TOk; TOk; TOk; TVal 11; TVal 20].
Proof. vm_compute. repeat split. Qed.

(* a failing task: the caller gets WorkerDied, nothing hangs *)
Example T20_lts_failure_example :
  let st := lts_run 2 (Some 1%nat) [true; true; true; false; false; false; false; false; true; true; true; true]
                    (init [SSave 1 10; SPreload 1; SLoad 1; SSave 2 5]) in
  t_status st = WDead /\ caller_finished st = true /\ rev (t_outs st) = [TOk; TOk; TWorkerDied; TWorkerDied].
Proof. vm_compute. repeat split. Qed.

Example T20_calls_example :
  calls_of [CShort [1]; CSet 1 10; CSet 2 20; CGetItem 2; CPreload [1; 2; 3] false; CDel 1; CGetItem 1]
  = [SSave 1 10; SSave 2 20; SLoad 2; SPreload 1; SPreload 2; SDelete 1].
Proof. vm_compute. reflexivity. Qed.

(* ---------------------------------------------------------------- close() of ThreadedStorage / Worker
   Model/CacheClose.v: the LTS of Model/CacheThread.v (used unchanged) extended by close() calls in the caller's
   program: _common_close (ValueError when already closed), Worker.__exit__ (exit.set(); worker_thread.join()), the
   worker testing `exit` whenever it is idle and draining the queue in its `finally`, then disk_storage.close(),
   _loaded.clear(), _waiting_for_load.clear().  Not modelled: sub-containers of the ThreadedStorage, CacheFile /
   DictCache layer.
   Tie to the code: stream "sched-close" of harness/c20_sched.py runs programs with close() / __exit__ calls (operations
   after close, second close, close while the worker holds a task and more are queued, injected failures) on the real
   ThreadedStorage + Worker under schedules enforced by gates and compares with `cl_run` through
   Model/CacheCloseCheck.v `check_cl_run`: every event (what each call returned / where it blocks, which tasks the worker
   ran, hence which were dropped) and the final _loaded, _waiting_for_load, liveness, Worker.exit, _opened flags and
   files on disk. *)

(* no deadlock on close: close() started between two operations from ANY state of the LTS (in particular from every
   reachable one: any queue content, worker idle / running a task / dying after a failure / dead), any queue size, any
   injected failure, under ANY schedule that gives the worker wsteps <= |queue| + 3 turns (caller turns interleaved
   arbitrarily): close() returns, the storage is closed, the worker thread has terminated and no worker step is
   enabled, _loaded is empty *)
Theorem T20_close_no_deadlock : forall qmax fail_at st rest sched,
  c_pc st = CNone -> t_pc (c_base st) = PIdle -> c_prog st = CClose :: rest -> c_opened st = true ->
  (wsteps (c_base st) <= count_worker sched)%nat ->
  let st' := cl_run qmax fail_at (true :: sched ++ [true]) st in
  closed_st st' /\ In CClosedOk (c_outs st') /\ worker_step_c fail_at st' = None.
Proof. exact close_no_deadlock. Qed.

(* closed is absorbing: after close() has returned, under every schedule and every further program (operations and
   close() calls) the storage stays closed, no worker step is ever enabled again, and every storage operation that
   finishes returns WorkerDied - or is the silent preload (TOk) of a key an earlier failed load left in
   _waiting_for_load; no operation returns a value *)
Theorem T20_closed_forever : forall qmax fail_at sched st, closed_st st ->
  let st' := cl_run qmax fail_at sched st in
  closed_st st' /\ worker_step_c fail_at st' = None /\
  exists l, t_outs (c_base st') = l ++ t_outs (c_base st) /\ Forall (fun o => o = TWorkerDied \/ o = TOk) l.
Proof. exact closed_forever. Qed.

(* one operation after close(), precisely: WorkerDied at once; or TOk for preload(k) with k already waiting; or a
   load(k) with k already waiting, whose next step raises WorkerDied (loadb_post) *)
Theorem T20_after_close_op : forall qmax b op, t_status b = WDead -> t_loaded b = [] ->
  let b' := start_op qmax b op in
  t_status b' = WDead /\ t_loaded b' = [] /\
  ((t_pc b' = PIdle /\ exists o, t_outs b' = o :: t_outs b /\
     (o = TWorkerDied \/ (o = TOk /\ exists k, op = SPreload k /\ ks_mem k (t_waiting b) = true))) \/
   (exists k, op = SLoad k /\ ks_mem k (t_waiting b) = true /\ t_pc b' = PLoadB k /\ t_outs b' = t_outs b)).
Proof. exact start_op_post. Qed.

(* a second close() is the documented error ValueError('storage was already closed') and changes nothing *)
Theorem T20_second_close_raises : forall qmax st rest, closed_st st -> t_pc (c_base st) = PIdle ->
  c_prog st = CClose :: rest ->
  exists st', caller_step_c qmax st = Some st' /\ c_outs st' = CAlreadyClosed :: c_outs st /\ closed_st st'.
Proof. exact second_close. Qed.

(* non-vacuity: two saves, close with both still queued (queue size 0 = unbounded), then a load and a second close;
   the worker gets 5 turns: close returns, the queued saves are dropped, the load raises WorkerDied, the second close
   is refused *)
Example T20_example_close :
  let prog := [COp (SSave 1 10); COp (SSave 2 20); CClose; COp (SLoad 1); CClose] in
  let st := cl_run 0 None [true; true; true; false; false; false; false; false; true; true; true] (cl_init prog) in
  closed_st st /\ c_outs st = [CAlreadyClosed; CClosedOk] /\ t_outs (c_base st) = [TWorkerDied; TOk; TOk] /\
  t_disk (c_base st) = [] /\ c_prog st = [].
Proof. cbn zeta. unfold closed_st, pc_quiet. vm_compute. repeat split; auto. Qed.

(* the replay used by the correspondence stream "sched-close" takes steps of the transition system only: the state it
   reaches (and compares event by event with the implementation) is cl_run of the fine-grained schedule it reports *)
Theorem T20_close_replay_is_run : forall qmax fail_at toks st st' fine es,
  cl_replay qmax fail_at st toks = (st', fine, es) -> st' = cl_run qmax fail_at fine st.
Proof. exact cl_replay_is_run. Qed.

Example T20_example_close_replay :
  let prog := [COp (SSave 1 10); COp (SSave 2 20); CClose; COp (SLoad 1); CClose] in
  cl_replay 2 None (cl_init prog) [true; true; true; false; true; true]
  = (cl_run 2 None [true; false; true; true; false; false; false; false; true; true; true] (cl_init prog),
     [true; false; true; true; false; false; false; false; true; true; true],
     [[10; 0]; [10; 0]; [16]; [21; 1; 1; 35; 0]; [10; 2]; [15; 1]]).
Proof. vm_compute. reflexivity. Qed.

(* ---------------------------------------------------------------- file-backed storages with sub-containers
   Model/CacheFile.v: PickleStorage (one file per key, sub-containers = sub-directories) / Hdf5Storage as documented (one
   dataset per key, sub-containers = sub-groups) as a list of containers, each a finite map key -> value with its path
   and Storage._opened.  Tie to the code: stream "file-storage" of harness/c20_sched.py (PickleStorage trees) through
   Model/CacheFileCheck.v `check_fs`.  Not modelled: close() of a container with a separately closed descendant. *)

(* every container p of every file system state meets the storage contract of T20_dictcache_refines_dict
   (abstraction: the files of p while p is open, nothing once it is closed; invariant: p is open) *)
Theorem T20_file_storage_ok : forall p, storage_ok (fs_ops p) (fs_abs p) (fs_inv p).
Proof. exact file_storage_ok. Qed.

(* hence a DictCache over any open container of a file-backed storage returns what a plain dictionary returns *)
Theorem T20_dictcache_over_file_storage : forall p fs, fs_is_open p fs = true ->
  forall ops, snd (c_run (fs_ops p) (c_empty fs) ops) = snd (d_run [] ops).
Proof. exact dictcache_over_file_storage. Qed.

(* containers are isolated: load / save / delete / preload on container p change neither the content nor the open flag
   of any other container q (parent, child or unrelated), whatever the state *)
Theorem T20_file_subcontainers_isolated : forall p q fs k v k', q <> p ->
  fs_abs q (s_save (fs_ops p) fs k v) k' = fs_abs q fs k' /\
  fs_abs q (s_delete (fs_ops p) fs k) k' = fs_abs q fs k' /\
  fs_abs q (fst (s_load (fs_ops p) fs k)) k' = fs_abs q fs k' /\
  fs_abs q (s_preload (fs_ops p) fs k) k' = fs_abs q fs k' /\
  fs_is_open q (s_save (fs_ops p) fs k v) = fs_is_open q fs /\
  fs_is_open q (s_delete (fs_ops p) fs k) = fs_is_open q fs /\
  fs_is_open q (fst (s_load (fs_ops p) fs k)) = fs_is_open q fs /\
  fs_is_open q (s_preload (fs_ops p) fs k) = fs_is_open q fs.
Proof. exact file_subcontainers_isolated. Qed.

(* close() of an open container p succeeds and closes p and EVERY container below it (any depth: every path p ++ r),
   which from then on denote the empty map and refuse to load; every container not below p keeps its flag and content;
   the top container (p = []) removes all files *)
Theorem T20_file_close_closes_subcontainers : forall p fs, fs_is_open p fs = true ->
  fs_step fs (FClose p) = (fs_close p fs, FNone) /\
  (forall r, fs_is_open (p ++ r) (fs_close p fs) = false /\
             forall k, fs_abs (p ++ r) (fs_close p fs) k = None /\
                       snd (s_load (fs_ops (p ++ r)) (fs_close p fs) k) = None) /\
  (forall q, prefix_b p q = false ->
             fs_is_open q (fs_close p fs) = fs_is_open q fs /\
             forall k, fs_abs q (fs_close p fs) k = fs_abs q fs k) /\
  (p = [] -> forall q, fs_files q (fs_close p fs) = []).
Proof. exact file_close_closes_subcontainers. Qed.

(* closed is absorbing: a closed container stays closed under every further operation sequence on the whole tree
   (including subcontainer() and close() anywhere), and every operation addressed to it - load, save, delete, preload,
   subcontainer, a second close - raises ValueError *)
Theorem T20_file_closed_forever : forall q ops fs, fs_closed q fs = true ->
  fs_closed q (fst (fs_run fs ops)) = true /\
  Forall2 (fun op o => f_target op = q -> o = FValueError) ops (snd (fs_run fs ops)).
Proof. exact file_closed_forever. Qed.

(* non-vacuity: a tree top / 0 / 0.1; closing 0 closes 0.1 and leaves the top container alone; closing the top removes
   the files *)
Example T20_file_example :
  let ops := [FSave [] 1 10; FSub [] 0; FSub [0] 1; FSave [0; 1] 2 20; FLoad [0; 1] 2; FSub [] 0; FClose [0];
              FLoad [0; 1] 2; FLoad [] 1; FClose [0]; FLoad [0] 5; FClose []; FLoad [] 1] in
  snd (fs_run fs_init ops) = [FNone; FNone; FNone; FNone; FVal 20; FValueError; FNone;
                              FValueError; FVal 10; FValueError; FValueError; FNone; FValueError] /\
  fst (fs_run fs_init ops) = [mkFC [] [] false; mkFC [0] [] false; mkFC [0; 1] [] false] /\
  fs_inv [0; 1] (fst (fs_run fs_init (firstn 6 ops))) /\ fs_closed [0; 1] (fst (fs_run fs_init (firstn 7 ops))) = true.
Proof. vm_compute. repeat split. Qed.

Print Assumptions T20_events.
Print Assumptions T20_events_emit_until.
Print Assumptions T20_events_disconnect.
Print Assumptions T20_events_ids_never_reused.
Print Assumptions T20_dictcache_refines_dict.
Print Assumptions T20_dict_storage_ok.
Print Assumptions T20_reads_latest_write.
Print Assumptions T20_subcache_isolated.
Print Assumptions T20_threaded_linearizable.
Print Assumptions T20_kv_latest_save.
Print Assumptions T20_dictcache_calls_wellformed.
Print Assumptions T20_threaded_under_dictcache.
Print Assumptions T20_no_deadlock.
Print Assumptions T20_dead_worker_never_blocks.
Print Assumptions T20_dead_worker_raises.
Print Assumptions T20_close_no_deadlock.
Print Assumptions T20_closed_forever.
Print Assumptions T20_after_close_op.
Print Assumptions T20_second_close_raises.
Print Assumptions T20_close_replay_is_run.
Print Assumptions T20_file_storage_ok.
Print Assumptions T20_dictcache_over_file_storage.
Print Assumptions T20_file_subcontainers_isolated.
Print Assumptions T20_file_close_closes_subcontainers.
Print Assumptions T20_file_closed_forever.
