(* Property C14: time evolution - schedule, time and truncation-error accounting.
   Only statements; proofs are `exact <lemma>` from Proofs/TrotterP.v, Proofs/TimeAcctP.v.
   decomposition_gen / time_steps_gen (Gen/G_trotter.v) and engines (Gen/G_acct.v) are REGENERATED from
   tenpy/algorithms/*.py on every run, so these theorems are about what the code says now. *)
From TenpyV Require Import Base.Prelude Base.PyLib Gen.G_trotter Gen.G_acct.
From TenpyV Require Import Model.Trotter Model.TimeAcct Proofs.TrotterP Proofs.TimeAcctP.
From Coq Require Import QArith String.
Open Scope Z_scope.

(* for each of the four orders, EVERY N >= 1, each parity class k and EVERY value x of the irrational
   constant t1: the schedule applies exactly N time steps to the bonds of parity k *)
Theorem T14_trotter_time : forall o, In o orders -> forall N x k, 1 <= N -> (k = 0 \/ k = 1) ->
  exists ds steps, time_steps_gen o = Some ds /\ decomposition_gen o N = Some steps /\
  (parity_time ds x k steps == inject_Z N)%Q.
Proof. exact trotter_time_all. Qed.

Theorem T14_trotter_zero_steps : forall o, In o orders -> decomposition_gen o 0 = Some [].
Proof. exact trotter_zero. Qed.

(* orders 2, 4, '4_opt': the schedule is a palindrome for every N (time-reversal symmetric, hence of even order) *)
Theorem T14_trotter_symmetric : forall o, In o [OInt 2; OInt 4; OStr "4_opt"%string] ->
  forall N, 1 <= N -> exists steps, decomposition_gen o N = Some steps /\ rev steps = steps.
Proof.
  intros o Ho. cbn [In] in Ho. destruct Ho as [<-|[<-|[<-|[]]]].
  - exact trotter_symmetric_2.
  - exact trotter_symmetric_4.
  - exact trotter_symmetric_4opt.
Qed.

(* one odd and one even evolve_step together touch every existing bond exactly once (any L; finite: bonds
   1..L-1, infinite: bonds 0..L-1) -- with T14_trotter_time: every bond is evolved by exactly N*dt *)
Theorem T14_bond_coverage : forall L fin,
  NoDup (step_bonds L fin 1 ++ step_bonds L fin 0) /\
  forall i, In i (step_bonds L fin 1 ++ step_bonds L fin 0) <-> (i < L /\ (fin = true -> i <> 0))%nat.
Proof. exact bond_coverage. Qed.

(* accounting: an engine that accumulates each counter exactly once per run reports, after ANY history of
   run() calls with any split of the total time, evolved_time = start + sum N_steps*dt and
   trunc_err.eps = start + sum of the errors of the truncations it performed *)
Theorem T14_accounting_exact : forall c h, single_add c = true -> Forall well_formed_call h -> forall s,
  a_time (run_history c s h) = a_time s + total_time h /\
  a_eps (run_history c s h) = a_eps s + total_err h.
Proof. exact run_history_exact. Qed.

(* ... and every time-evolution engine class found in the source does so (finite table, regenerated) *)
Theorem T14_all_engines_single_add : forallb single_add engines = true.
Proof. exact engines_single_add. Qed.

Theorem T14_all_engines_exact : forall c h s, In c engines -> Forall well_formed_call h ->
  a_time (run_history c s h) = a_time s + total_time h /\
  a_eps (run_history c s h) = a_eps s + total_err h.
Proof. exact all_engines_exact. Qed.

(* non-vacuity: a two-call history with truncations for an engine of the table *)
Example T14_example : forall c, In c engines ->
  let h := [(2, 16, [[3; 4]; [5]]); (1, 32, [[7]])] in
  Forall well_formed_call h /\ total_time h = 64 /\ total_err h = 19.
Proof. intros c _. cbn. repeat constructor. Qed.

Print Assumptions T14_trotter_time.
Print Assumptions T14_trotter_zero_steps.
Print Assumptions T14_trotter_symmetric.
Print Assumptions T14_bond_coverage.
Print Assumptions T14_accounting_exact.
Print Assumptions T14_all_engines_single_add.
Print Assumptions T14_all_engines_exact.
