(* Property C14: time evolution - schedule, time and truncation-error accounting.
   Only statements; proofs are `exact <lemma>` from Proofs/TrotterP.v, Proofs/TimeAcctP.v.
   decomposition_gen / time_steps_gen (Gen/G_trotter.v) and engines (Gen/G_acct.v) are REGENERATED from
   tenpy/algorithms/*.py on every run, so these theorems are about what the code says now. *)
From TenpyV Require Import Base.Prelude Base.PyLib Gen.G_trotter Gen.G_acct.
From TenpyV Require Import Model.Trotter Model.TimeAcct Proofs.TrotterP Proofs.TimeAcctP.
From TenpyV Require Import Model.TrotterMerge Proofs.TrotterP2.
From TenpyV Require Import Model.TrotterMergeCheck Proofs.TrotterP3.
From TenpyV Require Import Gen.G_tau Model.TauAcct Proofs.TauAcctP.
From Coq Require Import QArith String.
Open Scope Z_scope.

(* for each of the four orders, EVERY N >= 1, each parity class k and EVERY value x of the irrational
   constant t1: the schedule applies exactly N time steps to the bonds of parity k *)
Theorem T14_trotter_time : forall o, In o orders -> forall N x k, 1 <= N -> (k = 0 \/ k = 1) ->
  exists ds steps, time_steps_gen o = Some ds /\ decomposition_gen o N = Some steps /\
  (parity_time ds x k steps == inject_Z N)%Q.
Proof. exact trotter_time_all. Qed.

Theorem T14_trotter_zero_steps : forall o, In o orders -> decomposition_gen o 0 = Some [].
Proof. exact trotter_zero. Qed.

(* orders 2, 4, '4_opt': the schedule is a palindrome for every N (time-reversal symmetric, hence of even order) *)
Theorem T14_trotter_symmetric : forall o, In o [OInt 2; OInt 4; OStr "4_opt"%string] ->
  forall N, 1 <= N -> exists steps, decomposition_gen o N = Some steps /\ rev steps = steps.
Proof.
  intros o Ho. cbn [In] in Ho. destruct Ho as [<-|[<-|[<-|[]]]].
  - exact trotter_symmetric_2.
  - exact trotter_symmetric_4.
  - exact trotter_symmetric_4opt.
Qed.

(* orders 1, 2, 4, '4_opt', EVERY N >= 1 (induction on N): the N-step schedule, with each entry (ti, parity)
   replaced by (time_steps[ti], parity) (`timed`), equals the N-fold repetition of the one-step schedule
   (decomposition for N = 1) after MERGING adjacent entries of equal parity by adding their time polynomials
   (exp(a H_k) exp(b H_k) = exp((a+b) H_k)): the code's N-step pattern merges the last half step of one
   time step with the first half step of the next into the entry with time index 1 (orders 2, 4) resp. 6
   ('4_opt', a1_twice), whose time is exactly twice the half step.  Equality: same length, same parities,
   times equal as polynomials (PyLib.peqb: every coefficient Qeq).  Hence the N-step schedule inherits the
   order of the one-step pattern.
   TIE: `merge` / `timed` applied to the regenerated tables are executed against REAL engines by the
   correspondence stream `merge` of harness/c14.py (checker check_merge, Model/TrotterMergeCheck.v): the
   evolve_step(U_idx_dt, odd) calls of TEBDEngine / QRBasedTEBDEngine runs (N_steps split over one or several
   run() calls; plus the two static methods alone for larger N) are recorded from outside, each with the
   time with which the engine computed U[U_idx_dt], merged over equal parity in Python with exact Fractions,
   and Coq compares the result with BOTH sides of this theorem (and with merge of `run_sched`, see
   T14_trotter_merge_splits) evaluated at the float value of t1 as an exact rational: same length, same
   parities, times EQUAL in Q for orders 1, 2, 4 (the code's floats are exact values of the time-step
   polynomials there), within 10^-12 for '4_opt' (rounded decimal constants).  `sched_eqb` / `peqb`
   (equality as polynomials) is not executed against the code - it is the statement's equality; the stream
   compares values at one rational point. *)
Theorem T14_trotter_merge : forall o, In o orders -> forall N, 1 <= N ->
  exists ds stepsN steps1,
    time_steps_gen o = Some ds /\ decomposition_gen o N = Some stepsN /\
    decomposition_gen o 1 = Some steps1 /\
    sched_eqb (merge (timed ds stepsN))
              (merge (List.concat (repeat (timed ds steps1) (Z.to_nat N)))) = true.
Proof. exact trotter_merge_all. Qed.

(* `merge` computes a normal form (no two adjacent entries of equal parity; normal forms are fixed points)
   and does not change the time applied to either parity class, for every value x of the symbol *)
Theorem T14_merge_normal_form : forall l,
  alternating (merge l) = true /\ (alternating l = true -> merge l = l) /\ merge (merge l) = merge l /\
  forall x k, (sched_time x k (merge l) == sched_time x k l)%Q.
Proof. exact merge_normal_form. Qed.

(* ANY split of the total into run() calls (the quantifier "any split of the total time into run() calls" of
   the property, for the schedule): for orders 1, 2, 4, '4_opt' and every list ns of N_steps >= 0 (0 allowed:
   such a call schedules nothing), the concatenation of the timed schedules of the single calls
   (`run_sched`, Model/TrotterMergeCheck.v: TEBDEngine.evolve iterates over suzuki_trotter_decomposition(order,
   N_steps) once per call) equals, after merging adjacent entries of equal parity, the merged schedule of ONE
   call with sum ns steps (same length, same parities, times equal as polynomials).  Proved from
   T14_trotter_merge and the congruence of merge below, induction on ns.  `run_sched` is executed against
   real engines (several run() calls on one engine) by the stream `merge`. *)
Theorem T14_trotter_merge_splits : forall o, In o orders -> forall ns, Forall (fun n => 0 <= n) ns ->
  exists ds steps runs,
    time_steps_gen o = Some ds /\ decomposition_gen o (sumZ ns) = Some steps /\
    run_sched o ds ns = Some runs /\
    sched_eqb (merge runs) (merge (timed ds steps)) = true.
Proof. exact trotter_merge_splits. Qed.

(* merge is a congruence for concatenation: schedules with equal normal forms can be exchanged inside any
   longer schedule (sched_eq: same length, same parities, times equal coefficientwise in Q) *)
Theorem T14_merge_congruence : forall a a' b b',
  sched_eq (merge a) (merge a') -> sched_eq (merge b) (merge b') -> sched_eq (merge (a ++ b)%list) (merge (a' ++ b')%list).
Proof. exact merge_congruence. Qed.

(* order 4, run() calls with 2, 0, 1, 3 steps: 21 + 0 + 11 + 31 = 63 raw entries against 61 of one 6-step call;
   the raw lists differ, the merged ones agree *)
Example T14_merge_splits_example :
  match time_steps_gen (OInt 4), decomposition_gen (OInt 4) 6 with
  | Some ds, Some s6 =>
      match run_sched (OInt 4) ds [2; 0; 1; 3] with
      | Some runs =>
          Forall (fun n => 0 <= n) [2; 0; 1; 3] /\ sumZ [2; 0; 1; 3] = 6 /\
          sched_eqb (merge runs) (merge (timed ds s6)) = true /\
          (List.length runs = 63 /\ List.length (timed ds s6) = 61)%nat /\
          sched_eqb runs (timed ds s6) = false
      | None => False
      end
  | _, _ => False
  end.
Proof. vm_compute. repeat split; repeat constructor; discriminate. Qed.

(* the hypotheses of the congruence are satisfiable by different lists *)
Example T14_merge_congruence_example :
  let a := [(pconst (1 # 2), 1); (pconst (1 # 2), 1)] in let a' := [(pconst 1, 1)] in
  let b := [(pconst 1, 0)] in
  a <> a' /\ sched_eq (merge a) (merge a') /\ sched_eq (merge b) (merge b) /\
  sched_eqb (merge (a ++ b)%list) (merge (a' ++ b)%list) = true.
Proof.
  cbv zeta. split; [discriminate|]. split; [apply sched_eqb_spec; vm_compute; reflexivity|].
  split; [apply sched_eq_refl|vm_compute; reflexivity].
Qed.

(* N = 3, order 4: both sides evaluated; the raw lists differ (31 entries against 33, the repetition has
   two seams with two adjacent odd half steps each), the merged ones agree and have 31 entries *)
Example T14_merge_example :
  match time_steps_gen (OInt 4), decomposition_gen (OInt 4) 3, decomposition_gen (OInt 4) 1 with
  | Some ds, Some s3, Some s1 =>
      let lhs := timed ds s3 in
      let rhs := List.concat (repeat (timed ds s1) 3) in
      sched_eqb (merge lhs) (merge rhs) = true /\
      (List.length lhs = 31 /\ List.length rhs = 33 /\ List.length (merge rhs) = 31)%nat /\
      sched_eqb lhs rhs = false /\ alternating rhs = false /\ merge lhs = lhs
  | _, _, _ => False
  end.
Proof. vm_compute. repeat split. Qed.

(* merge is not trivial: two adjacent odd steps of time 1/2 become one odd step of time 1 *)
Example T14_merge_nontrivial :
  merge [(pconst (1 # 2), 1); (pconst (1 # 2), 1); (pconst 1, 0)] = [(padd (pconst (1 # 2)) (pconst (1 # 2)), 1); (pconst 1, 0)] /\
  sched_eqb (merge [(pconst (1 # 2), 1); (pconst (1 # 2), 1); (pconst 1, 0)]) [(pconst 1, 1); (pconst 1, 0)] = true /\
  sched_eqb (merge [(pconst (1 # 2), 1); (pconst (1 # 2), 1); (pconst 1, 0)]) [(pconst (1 # 2), 1); (pconst 1, 0)] = false.
Proof. vm_compute. repeat split. Qed.

(* one odd and one even evolve_step together touch every existing bond exactly once (any L; finite: bonds
   1..L-1, infinite: bonds 0..L-1) -- with T14_trotter_time: every bond is evolved by exactly N*dt *)
Theorem T14_bond_coverage : forall L fin,
  NoDup (step_bonds L fin 1 ++ step_bonds L fin 0) /\
  forall i, In i (step_bonds L fin 1 ++ step_bonds L fin 0) <-> (i < L /\ (fin = true -> i <> 0))%nat.
Proof. exact bond_coverage. Qed.

(* accounting: an engine that accumulates each counter exactly once per run reports, after ANY history of
   run() calls with any split of the total time, evolved_time = start + sum N_steps*dt and
   trunc_err.eps = start + sum of the errors of the truncations it performed *)
Theorem T14_accounting_exact : forall c h, single_add c = true -> Forall well_formed_call h -> forall s,
  a_time (run_history c s h) = a_time s + total_time h /\
  a_eps (run_history c s h) = a_eps s + total_err h.
Proof. exact run_history_exact. Qed.

(* ... and every time-evolution engine class found in the source does so (finite table, regenerated) *)
Theorem T14_all_engines_single_add : forallb single_add engines = true.
Proof. exact engines_single_add. Qed.

Theorem T14_all_engines_exact : forall c h s, In c engines -> Forall well_formed_call h ->
  a_time (run_history c s h) = a_time s + total_time h /\
  a_eps (run_history c s h) = a_eps s + total_err h.
Proof. exact all_engines_exact. Qed.

(* non-vacuity: a two-call history with truncations for an engine of the table *)
Example T14_example : forall c, In c engines ->
  let h := [(2, 16, [[3; 4]; [5]]); (1, 32, [[7]])] in
  Forall well_formed_call h /\ total_time h = 64 /\ total_err h = 19.
Proof. intros c _. cbn. repeat constructor. Qed.

(* The complex step recorded by TEBDEngine.calc_U (table regenerated from the source): after any sequence of
   calc_U(type_evo) + evolve/update_imag(N) calls with type_evo in {real, imag} -- run(), run_GS(), run_imaginary() --
   evolved_time = (sum of N*dt of the real calls) - i (sum of N*dt of the imaginary calls), and both increment
   statements of the source are `+ N_steps * tau`. *)
Theorem T14_tebd_time_real_imag : forall h, forallb known_type h = true ->
  run_time tebd_tau (0, 0) h = Some (steps_of "real" h, - steps_of "imag" h).
Proof. exact run_time_source. Qed.

Theorem T14_tebd_increments_are_n_tau : incr_ok = true.
Proof. exact incr_shape. Qed.

Theorem T14_tebd_unknown_type_rejected : forall ty dt n r t,
  String.eqb ty "real" = false -> String.eqb ty "imag" = false -> run_time tebd_tau t ((ty, dt, n) :: r) = None.
Proof. exact run_time_unknown. Qed.

Example T14_tebd_time_example :
  run_time tebd_tau (0, 0) [("imag"%string, 64, 2); ("imag"%string, 16, 4); ("real"%string, 8, 3)] = Some (24, -192).
Proof. vm_compute. reflexivity. Qed.

Print Assumptions T14_trotter_time.
Print Assumptions T14_trotter_zero_steps.
Print Assumptions T14_trotter_symmetric.
Print Assumptions T14_bond_coverage.
Print Assumptions T14_accounting_exact.
Print Assumptions T14_all_engines_single_add.
Print Assumptions T14_all_engines_exact.
Print Assumptions T14_trotter_merge.
Print Assumptions T14_merge_normal_form.
Print Assumptions T14_trotter_merge_splits.
Print Assumptions T14_merge_congruence.
Print Assumptions T14_tebd_time_real_imag.
Print Assumptions T14_tebd_increments_are_n_tau.
Print Assumptions T14_tebd_unknown_type_rejected.
