(* Property C19: lattice geometry - index maps are bijections and couplings are enumerated exactly.
   Only statements; every proof is `exact <lemma from Proofs/LatticeP.v, LatticeP2.v, LatticeP3.v ... LatticeP8.v>`.
   All theorems hold for every dimension (1 + length (Lr lat)), all sizes, every unit cell size and
   every order array that lists distinct sites of the box (regular lattices: all of them; irregular
   lattices: a subset), finite and infinite MPS boundary conditions. *)
From TenpyV Require Import Base.Prelude Model.Lattice Model.LatticeVals Model.LatticeMulti Model.LatticeTransform.
From TenpyV Require Import Proofs.LatticeP Proofs.LatticeP2 Proofs.LatticeP3 Proofs.LatticeP4 Proofs.LatticeP5 Proofs.LatticeP6 Proofs.LatticeP7 Proofs.LatticeP8 Proofs.LatticeTransformP.
Open Scope Z_scope.

(* get_order with priority=None (C-style and every combination of snake flags) enumerates every lattice
   index of the box exactly once.  (priority != None: T19_get_order_priority_perm below.
   Not proved: get_order_grouped, which is run against the code in the oracle stream only.) *)
Theorem T19_get_order_perm : forall flags shape,
  NoDup (snake flags shape) /\
  (forall row, In row (snake flags shape) <-> in_box row shape) /\
  length (snake flags shape) = nprod shape.
Proof. exact get_order_perm. Qed.

(* get_order(shape, snake_winding, priority) with perm = argsort(priority) (any permutation of the
   directions, the unit cell index included): `get_order` is the model function run against
   Lattice.ordering in the correspondence stream "model-order"
   (order = get_order(shape[perm], snake[perm], None)[:, inverse_permutation(perm)]).
   It enumerates every lattice index of the box exactly once, for every shape, all snake flags and every
   priority permutation. *)
Theorem T19_get_order_priority_perm : forall shape flags perm,
  Permutation perm (seq 0 (length shape)) ->
  NoDup (get_order shape flags perm) /\
  (forall row, In row (get_order shape flags perm) <-> in_box row shape) /\
  length (get_order shape flags perm) = nprod shape.
Proof. exact get_order_priority_perm. Qed.

(* mps2lat_idx and lat2mps_idx are mutually inverse bijections between the MPS indices (all integers for
   infinite MPS, 0 <= i < N_sites for finite MPS) and the existing sites (for infinite MPS: x_0 any
   integer, the site (x_0 mod Ls[0], ...) being in the order). *)
Theorem T19_index_inverse : forall lat, wf lat ->
  (forall i s, mps2lat lat i = Some s -> lat2mps lat s = Some i /\ site_exists lat s) /\
  (forall s i, site_exists lat s -> lat2mps lat s = Some i -> mps2lat lat i = Some s) /\
  (forall i, (if infinite lat then True else 0 <= i < nsites lat) -> exists s, mps2lat lat i = Some s) /\
  (forall s, site_exists lat s -> exists i, lat2mps lat s = Some i).
Proof. exact index_inverse. Qed.

(* mps2lat_values(A) for a 1D array A of length N_sites (Model/LatticeVals.v: the scatter assignment
   _mps2lat_vals_idx[tuple(order.T)] = arange(N_sites) of the order setter followed by np.take) puts A[i]
   at the lattice index mps2lat_idx(i), for every 0 <= i < N_sites; and every lattice index s that is a row
   of the order holds A[lat2mps_idx(s)].  With T19_index_inverse: each A[i] lands at exactly one lattice
   index.  Any dimension, any order of distinct sites, finite and infinite MPS.  (Lattice indices that are
   no row of the order - IrregularLattice - are uninitialised memory in the code, None in the model.)
   Not covered: arrays with several axes / axes != 0 (the code recurses over the axes; oracle stream only),
   mps2lat_values_masked. *)
Theorem T19_values_reshape : forall lat, wf lat -> forall (V : Type) (a : list V),
  length a = length (lorder lat) ->
  (forall i, 0 <= i < nsites lat -> exists s v,
     mps2lat lat i = Some s /\ nth_error a (Z.to_nat i) = Some v /\ mps2lat_values lat a s = Some v) /\
  (forall s, In s (lorder lat) -> exists i v,
     0 <= i < nsites lat /\ lat2mps lat s = Some i /\ nth_error a (Z.to_nat i) = Some v /\
     mps2lat_values lat a s = Some v).
Proof. exact values_reshape. Qed.

(* mps2lat_values(A, u=u) for A of length len(mps_idx_fix_u(u)): the k-th entry of A, which belongs to the
   MPS site i = mps_idx_fix_u(u)[k], is put at the lattice index (x_0, ..., x_{d-1}) with
   mps2lat_idx(i) = (x_0, ..., x_{d-1}, u). *)
Theorem T19_values_reshape_fix_u : forall lat, wf lat -> forall (V : Type) u (a : list V),
  length a = length (mps_fix_u lat u) ->
  forall k i, nth_error (mps_fix_u lat u) k = Some i -> exists x0 xr v,
    0 <= i < nsites lat /\ mps2lat lat i = Some (x0, xr, u) /\ nth_error a k = Some v /\
    mps2lat_values_u lat u a x0 xr = Some v.
Proof. exact values_reshape_u. Qed.

(* possible_couplings(u1, u2, dx) returns exactly the pairs (i, j) of MPS indices of existing sites
   (x, u1), (y, u2) with y reached from x by dx under the boundary conditions (`coupled`: winding numbers
   exist, none across open boundaries, bc_shift moves x_0 by -shift per winding), each pair once; for
   infinite MPS exactly the representative with 0 <= min(i, j) < N_sites of each translation class.
   Hypothesis on bc_shift: with an open x-direction either there is no shift or |dx_0| < Ls[0]
   (necessary, see T19_couplings_shift_refuted). *)
Theorem T19_couplings_exact : forall lat, wf lat -> forall u1 u2 dx0 dxr, 0 <= u2 < Lu lat ->
  (open0 lat = true -> Forall (fun s => s = 0) (shiftr lat) \/ Z.abs dx0 < L0 lat) ->
  NoDup (coupling_pairs lat u1 u2 dx0 dxr) /\
  forall i j, In (i, j) (coupling_pairs lat u1 u2 dx0 dxr) <-> coupled lat u1 u2 dx0 dxr i j.
Proof. exact couplings_exact. Qed.

(* The faithful model refutes exactness without that hypothesis: open x-direction, shifted periodic
   y-direction and |dx_0| = Ls[0]: an existing pair is not enumerated (witness replayed on tenpy by
   harness/c19.py, known finding F19.2). *)
Theorem T19_couplings_shift_refuted :
  exists lat u1 u2 dx0 dxr i j, wf lat /\ 0 <= u2 < Lu lat /\
    coupled lat u1 u2 dx0 dxr i j /\ coupling_pairs lat u1 u2 dx0 dxr = [].
Proof. exact couplings_shift_refuted. Qed.

(* possible_multi_couplings(ops), ops = [(dx_m, u_m)] (any number >= 1 of operators, any dimension): the
   rows mps_ijkl (`multi_ijkl` = first components of the correspondence-checked model function
   possible_multi_couplings) are exactly the lists [i_1; ...; i_n] of MPS indices for which an anchor cell b
   (integer coordinates) exists such that, for every m, i_m is the existing site with unit cell index u_m
   in the cell reached from b by dx_m under the boundary conditions (`op_at`: same `connected` as in
   T19_couplings_exact: winding numbers, none across open boundaries, bc_shift), each such list exactly once;
   for infinite MPS exactly the representative with 0 <= min(i_1..i_n) < N_sites of each translation class.
   Regular and irregular lattices (restriction to existing sites).
   Hypothesis on bc_shift: none together with an open x-direction (without it the code misses rows: known
   finding F19.4, and for two operators T19_couplings_shift_refuted).
   Not covered: the second component lat_indices (corner of the box, used for the strength array) is only
   correspondence-checked. *)
Theorem T19_multi_couplings_exact : forall lat, wf lat -> forall ops, ops_wf lat ops ->
  (open0 lat = true -> Forall (fun s => s = 0) (shiftr lat)) ->
  NoDup (multi_ijkl lat ops) /\
  forall ijkl, In ijkl (multi_ijkl lat ops) <-> multi_coupled lat ops ijkl.
Proof. exact multi_couplings_exact. Qed.

(* Consequence of T19_index_inverse stated the way callers use it: no two MPS indices share a lattice site, and no
   two existing lattice sites share an MPS index (finite and infinite MPS, regular and irregular lattices). *)
Theorem T19_index_injective : forall lat, wf lat ->
  (forall i j s, mps2lat lat i = Some s -> mps2lat lat j = Some s -> i = j) /\
  (forall s t i, site_exists lat s -> site_exists lat t ->
     lat2mps lat s = Some i -> lat2mps lat t = Some i -> s = t).
Proof. exact index_injective. Qed.

(* possible_couplings(u2, u1, -dx) is possible_couplings(u1, u2, dx) with the roles of i and j exchanged (as sets
   without repetition): the convention behind add_coupling(..., plus_hc=True), `pairs` listing each bond once,
   and count_neighbors.  Any dimension, boundary conditions and bc_shift (under the hypothesis of
   T19_couplings_exact), regular and irregular lattices, finite and infinite MPS (where the same
   representative 0 <= min(i, j) < N_sites is chosen in both directions). *)
Theorem T19_couplings_reverse : forall lat, wf lat -> forall u1 u2 dx0 dxr,
  0 <= u1 < Lu lat -> 0 <= u2 < Lu lat ->
  (open0 lat = true -> Forall (fun s => s = 0) (shiftr lat) \/ Z.abs dx0 < L0 lat) ->
  forall i j, In (i, j) (coupling_pairs lat u1 u2 dx0 dxr) <->
              In (j, i) (coupling_pairs lat u2 u1 (- dx0) (map Z.opp dxr)).
Proof. exact couplings_reverse. Qed.

(* A multi-coupling of two operators, the first at displacement 0, is a two-site coupling: specification
   (multi_coupled / coupled) and code (possible_multi_couplings / possible_couplings, both correspondence-checked
   model functions) enumerate the same pairs (i, j) - add_multi_coupling_term with two operators and add_coupling
   address the same bonds.  Hypothesis on bc_shift as in T19_multi_couplings_exact. *)
Theorem T19_two_operator_multi_coupling : forall lat, wf lat -> forall u1 u2 dx0 dxr,
  0 <= u1 < Lu lat -> 0 <= u2 < Lu lat -> length dxr = length (Lr lat) ->
  (open0 lat = true -> Forall (fun s => s = 0) (shiftr lat)) ->
  let ops : list op := [(0, repeat 0 (length (Lr lat)), u1); (dx0, dxr, u2)] in
  (forall i j, multi_coupled lat ops [i; j] <-> coupled lat u1 u2 dx0 dxr i j) /\
  (forall i j, In [i; j] (multi_ijkl lat ops) <-> In (i, j) (coupling_pairs lat u1 u2 dx0 dxr)).
Proof. exact two_operator_multi_coupling. Qed.

(* The multi-couplings do not depend on the order in which the operators are listed: listing the operators in
   another order (ops', any permutation, any number of operators) permutes the entries of every row of mps_ijkl in
   the same way and changes nothing else - for the specification and, under the hypotheses of
   T19_multi_couplings_exact, for the rows returned by the model of possible_multi_couplings (same representative
   for infinite MPS, since the minimum of a row does not depend on the order). *)
Theorem T19_multi_couplings_operator_order : forall lat, wf lat -> forall ops ijkl ops' ijkl',
  length ops = length ijkl -> length ops' = length ijkl' ->
  Permutation (combine ops ijkl) (combine ops' ijkl') ->
  (multi_coupled lat ops ijkl <-> multi_coupled lat ops' ijkl') /\
  (ops_wf lat ops -> ops_wf lat ops' ->
   (open0 lat = true -> Forall (fun s => s = 0) (shiftr lat)) ->
   (In ijkl (multi_ijkl lat ops) <-> In ijkl' (multi_ijkl lat ops'))).
Proof. exact multi_operator_order. Qed.

(* Infinite MPS: a coupling (i, j) listed by possible_couplings stands for its whole translation class - for every
   integer m the MPS sites i + m * N_sites, j + m * N_sites are the sites u1, u2 of two cells connected by dx (the
   index map moves by m * Ls[0] rings along x) - and it is the only member of that class that is listed
   (with T19_couplings_exact: exactly one representative per class). *)
Theorem T19_couplings_translation : forall lat, wf lat -> infinite lat = true -> forall u1 u2 dx0 dxr i j,
  coupled lat u1 u2 dx0 dxr i j ->
  (forall m, exists x0 xr y0 yr,
     mps2lat lat (i + m * nsites lat) = Some (x0, xr, u1) /\
     mps2lat lat (j + m * nsites lat) = Some (y0, yr, u2) /\
     connected lat x0 xr dx0 dxr y0 yr) /\
  (forall m, coupled lat u1 u2 dx0 dxr (i + m * nsites lat) (j + m * nsites lat) -> m = 0).
Proof. exact couplings_translation. Qed.

(* ---- non-vacuity and documented examples ---- *)

(* tests/test_lattice.py test_lattice_order: Square(4, 3, order='snake') *)
Example T19_example_snake :
  get_order [4; 3; 1] [true; true; true] [0; 1; 2]%nat =
  [[0;0;0]; [0;1;0]; [0;2;0]; [1;2;0]; [1;1;0]; [1;0;0]; [2;0;0]; [2;1;0]; [2;2;0]; [3;2;0]; [3;1;0]; [3;0;0]].
Proof. vm_compute. reflexivity. Qed.

(* same test: Honeycomb(2, 3, order=('standard', (True, False, False), (0.3, 0.1, -1.))), argsort = [2;1;0] *)
Example T19_example_priority :
  get_order [2; 3; 2] [true; false; false] [2; 1; 0]%nat =
  [[0;0;0]; [1;0;0]; [1;1;0]; [0;1;0]; [0;2;0]; [1;2;0]; [0;0;1]; [1;0;1]; [1;1;1]; [0;1;1]; [0;2;1]; [1;2;1]].
Proof. vm_compute. reflexivity. Qed.

(* the hypothesis of T19_get_order_priority_perm holds for that argsort *)
Example T19_example_priority_hyp : Permutation [2; 1; 0]%nat (seq 0 (length [2; 3; 2])).
Proof. cbn. apply Permutation_sym. apply (Permutation_rev [0; 1; 2]%nat). Qed.

(* Honeycomb(2, 3, order='snake', bc='periodic', bc_MPS='infinite') of test_possible_couplings *)
Definition ex_honey : lattice :=
  mkLat 2 [3] 2 false [false] [0] true
    [(0, [0], 0); (0, [1], 0); (0, [2], 0); (0, [0], 1); (0, [1], 1); (0, [2], 1);
     (1, [2], 1); (1, [1], 1); (1, [0], 1); (1, [2], 0); (1, [1], 0); (1, [0], 0)].

Example T19_example_wf : wf ex_honey.
Proof.
  constructor; cbn; try lia; try discriminate.
  - repeat constructor; lia.
  - repeat constructor; cbn; lia.
  - repeat (constructor; [cbn; intuition congruence|]). constructor.
  - intros _. split; [reflexivity|discriminate].
Qed.

Example T19_example_couplings :
  coupling_pairs ex_honey 0 1 (-1) [-1] = [(12, 6); (13, 8); (14, 7); (9, 4); (10, 3); (11, 5)] /\
  coupling_pairs ex_honey 0 1 2 [1] = [(0, 16); (1, 17); (2, 15); (9, 20); (10, 18); (11, 19)] /\
  mps2lat ex_honey (-3) = Some (-1, [2], 0) /\ lat2mps ex_honey (2, [1], 1) = Some 16.
Proof. vm_compute. repeat split. Qed.

(* values on ex_honey: A = [100 .. 111]; the value of MPS site 7 = lattice index (1, 1, 1) and the
   u = 1 part A' = A[mps_idx_fix_u(1)] = A[[3;4;5;6;7;8]] *)
Example T19_example_values :
  mps2lat ex_honey 7 = Some (1, [1], 1) /\
  mps2lat_values ex_honey (map Z.of_nat (seq 100 12)) (1, [1], 1) = Some 107 /\
  mps_fix_u ex_honey 1 = [3; 4; 5; 6; 7; 8] /\
  mps2lat_values_u ex_honey 1 [103; 104; 105; 106; 107; 108] 1 [1] = Some 107 /\
  values_flat ex_honey (map Z.of_nat (seq 100 12)) =
    map Some [100; 103; 101; 104; 102; 105; 111; 108; 110; 107; 109; 106].
Proof. vm_compute. repeat split. Qed.

(* three-site couplings on ex_honey (infinite MPS, all directions periodic): the rows, and one of them
   seen through the specification (anchor cell found by the theorem) *)
Definition ex_ops : list op := [(0, [0], 0); (1, [0], 1); (-1, [1], 0)].

Example T19_example_multi :
  ops_wf ex_honey ex_ops /\
  multi_ijkl ex_honey ex_ops =
    [[11; 15; 1]; [10; 16; 2]; [9; 17; 0]; [12; 20; 10]; [13; 19; 9]; [14; 18; 11]] /\
  multi_coupled ex_honey ex_ops [12; 20; 10].
Proof.
  assert (Hw : ops_wf ex_honey ex_ops).
  { split; [discriminate|]. repeat constructor; cbn; lia. }
  split; [exact Hw|]. split; [vm_compute; reflexivity|].
  apply (proj2 (multi_couplings_exact ex_honey T19_example_wf ex_ops Hw (fun H => ltac:(discriminate H)))).
  vm_compute. tauto.
Qed.

(* the IrregularLattice of tests/test_lattice.py test_IrregularLattice (Honeycomb 3x3, bc open/periodic,
   three sites removed, two added) with the hand-written expectations of that test *)
Definition ex_irregular : lattice :=
  mkLat 3 [3] 4 true [false] [0] false
    [(0, [1], 0); (0, [2], 0); (0, [0], 1); (0, [1], 1); (0, [2], 1); (1, [0], 0); (1, [1], 2); (1, [2], 0);
     (1, [0], 1); (1, [1], 3); (1, [2], 1); (2, [0], 0); (2, [1], 0); (2, [2], 0); (2, [0], 1); (2, [1], 1); (2, [2], 1)].

Example T19_example_irregular :
  coupling_pairs ex_irregular 0 1 0 [0] = [(0, 3); (1, 4); (5, 8); (7, 10); (11, 14); (12, 15); (13, 16)] /\
  coupling_pairs ex_irregular 1 0 1 [0] = [(2, 5); (4, 7); (8, 11); (10, 13)] /\
  coupling_pairs ex_irregular 1 0 0 [1] = [(2, 0); (3, 1); (10, 5); (14, 12); (15, 13); (16, 11)].
Proof. vm_compute. repeat split. Qed.

(* Lattice.enlarge_mps_unit_cell(f) (Model/LatticeTransform.v `enlarge`, run against the code in the stream
   "model-transform": Ls[0], N_sites and the order after enlarge_mps_unit_cell / extract_segment) of an infinite
   lattice: the new MPS unit cell has f * N_sites sites and f * Ls[0] rings, and the (periodically extended) map
   MPS index -> lattice index is unchanged - so T19_index_inverse etc. transfer to the enlarged lattice and
   N_sites must equal the length of the new order.  Any dimension, any order, any f >= 1. *)
Theorem T19_enlarge_keeps_index_map : forall (f : nat) lat,
  (0 < f)%nat -> infinite lat = true -> lorder lat <> [] ->
  nsites (enlarge f lat) = Z.of_nat f * nsites lat /\
  L0 (enlarge f lat) = Z.of_nat f * L0 lat /\
  forall i, mps2lat (enlarge f lat) i = mps2lat lat i.
Proof. exact enlarge_keeps_index_map. Qed.

(* a snake-ordered 2x2 square lattice, infinite MPS: enlarged by 3 it has 12 sites, MPS site 9 = site 1 shifted by two
   old unit cells *)
Definition ex_snake_inf : lattice :=
  mkLat 2 [2] 1 false [false] [0] true [(0, [0], 0); (0, [1], 0); (1, [1], 0); (1, [0], 0)].

Example T19_example_enlarge :
  infinite ex_snake_inf = true /\ lorder ex_snake_inf <> [] /\
  nsites (enlarge 3 ex_snake_inf) = 12 /\
  nth_error (lorder (enlarge 3 ex_snake_inf)) 9 = Some (4, [1], 0) /\
  mps2lat (enlarge 3 ex_snake_inf) 9 = Some (4, [1], 0) /\ mps2lat ex_snake_inf 9 = Some (4, [1], 0).
Proof. vm_compute. repeat split. discriminate. Qed.

(* enlarge_mps_unit_cell(f) keeps the couplings: (i, j) is a coupling (u1, u2, dx) of the enlarged infinite lattice
   iff it is one of the f translates, by m * N_sites with 0 <= m < f, of a coupling of the original lattice - so a
   model built on the enlarged lattice has the same Hamiltonian.  Any dimension, order, bc and bc_shift, any f >= 1.
   (Specification level: `coupled`; that possible_couplings of the enlarged lattice lists exactly these is
   T19_couplings_exact for a well-formed enlarged lattice and is run against the code in the stream
   model-transform.) *)
Theorem T19_enlarge_keeps_couplings : forall (f : nat) lat, (0 < f)%nat -> wf lat -> infinite lat = true ->
  forall u1 u2 dx0 dxr i j,
  coupled (enlarge f lat) u1 u2 dx0 dxr i j <->
  exists m, 0 <= m < Z.of_nat f /\
    coupled lat u1 u2 dx0 dxr (i - m * nsites lat) (j - m * nsites lat).
Proof. exact enlarge_couplings. Qed.

(* its hypotheses hold for the snake-ordered 2x2 lattice above *)
Example T19_example_enlarge_wf : wf ex_snake_inf /\ infinite ex_snake_inf = true.
Proof.
  split; [|reflexivity].
  constructor; cbn; try lia; try discriminate.
  - repeat constructor; lia.
  - repeat constructor; cbn; lia.
  - repeat (constructor; [cbn; intuition congruence|]). constructor.
  - intros _. split; [reflexivity|discriminate].
Qed.

(* MultiSpeciesLattice: u = simple_u * N_species + species (simple_u_to_species_u) is a bijection between
   (site of the simple unit cell, species) and the unit cell indices 0 <= u < simple_Lu * N_species, inverted by
   self_u_to_simple_u = u // N_species and self_u_to_species_idx = u % N_species. *)
Theorem T19_species_index_bijection : forall nsp slu, 0 < nsp ->
  (forall su sp, 0 <= su < slu -> 0 <= sp < nsp ->
     0 <= ms_u nsp su sp < slu * nsp /\ ms_simple_u nsp (ms_u nsp su sp) = su /\ ms_species nsp (ms_u nsp su sp) = sp) /\
  (forall u, 0 <= u < slu * nsp ->
     0 <= ms_simple_u nsp u < slu /\ 0 <= ms_species nsp u < nsp /\ ms_u nsp (ms_simple_u nsp u) (ms_species nsp u) = u).
Proof. exact species_index_bijection. Qed.

(* MultiSpeciesLattice._generate_new_pairs (model functions ms_pairs_sp / ms_pairs_all / ms_onsite, run against the
   code in the stream "model-species"): pairs['<key>_<a>-<b>'] are exactly the (u1, u2, dx) whose first site has
   species a, whose second site has species b and whose simple sites form a pair (su1, su2, dx) of pairs[key] of the
   simple lattice; '<key>_all-all' are all (u1, u2, dx) over such a simple pair; 'onsite_<a>-<b>' are exactly species a
   and species b on one and the same simple site with dx = 0.  (That species / simple site of a unit cell index are
   u % N_species / u // N_species - i.e. that sites and positions are laid out that way - is checked by the oracle
   from the site objects and unit_cell_positions.) *)
Theorem T19_species_pairs : forall nsp slu dim ps, 0 < nsp ->
  (forall a b, 0 <= a < nsp -> 0 <= b < nsp -> forall u1 u2 dx,
     In (u1, u2, dx) (ms_pairs_sp nsp a b ps) <->
     ms_species nsp u1 = a /\ ms_species nsp u2 = b /\ In (ms_simple_u nsp u1, ms_simple_u nsp u2, dx) ps) /\
  (forall u1 u2 dx,
     In (u1, u2, dx) (ms_pairs_all nsp ps) <-> In (ms_simple_u nsp u1, ms_simple_u nsp u2, dx) ps) /\
  (forall a b, 0 <= a < nsp -> 0 <= b < nsp -> forall u1 u2 dx,
     In (u1, u2, dx) (ms_onsite nsp slu dim a b) <->
     ms_species nsp u1 = a /\ ms_species nsp u2 = b /\ ms_simple_u nsp u1 = ms_simple_u nsp u2 /\
     0 <= ms_simple_u nsp u1 < slu /\ dx = repeat 0 dim).
Proof. exact species_pairs. Qed.

(* Ladder (rung pair (0, 1, [0])) with 3 species: the rung of species 0-0 connects u = 0 and u = 3 *)
Example T19_example_species :
  ms_pairs_sp 3 0 0 [(0, 1, [0]); (0, 0, [1]); (1, 1, [1])] = [(0, 3, [0]); (0, 0, [1]); (3, 3, [1])] /\
  ms_onsite 3 2 1 0 2 = [(0, 2, [0]); (3, 5, [0])].
Proof. vm_compute. split; reflexivity. Qed.

(* the reversed couplings of T19_example_couplings / T19_example_irregular: same bonds, i and j exchanged *)
Example T19_example_reverse :
  coupling_pairs ex_honey 1 0 1 [1] = [(3, 10); (4, 9); (5, 11); (6, 12); (7, 14); (8, 13)] /\
  coupling_pairs ex_irregular 0 1 (-1) [0] = [(5, 2); (7, 4); (11, 8); (13, 10)].
Proof. vm_compute. split; reflexivity. Qed.

(* two-operator multi-couplings of T19_example_couplings / T19_example_irregular: the same bonds *)
Example T19_example_two_ops :
  multi_ijkl ex_honey [(0, [0], 0); (-1, [-1], 1)] = [[10; 3]; [9; 4]; [11; 5]; [13; 8]; [14; 7]; [12; 6]] /\
  multi_ijkl ex_irregular [(0, [0], 1); (1, [0], 0)] = [[2; 5]; [4; 7]; [8; 11]; [10; 13]].
Proof. vm_compute. split; reflexivity. Qed.

(* ex_ops of T19_example_multi listed in another order: the same rows with the columns permuted *)
Example T19_example_operator_order :
  multi_ijkl ex_honey [(1, [0], 1); (-1, [1], 0); (0, [0], 0)] =
    [[15; 1; 11]; [16; 2; 10]; [17; 0; 9]; [20; 10; 12]; [19; 9; 13]; [18; 11; 14]] /\
  Permutation (combine ex_ops [11; 15; 1]) (combine [(1, [0], 1); (-1, [1], 0); (0, [0], 0)] [15; 1; 11]).
Proof.
  split; [vm_compute; reflexivity|]. cbn [combine ex_ops].
  eapply perm_trans; [apply perm_swap|]. apply perm_skip. apply perm_swap.
Qed.

(* the hypothesis of T19_couplings_translation holds for the first pair of T19_example_couplings; MPS site 7 two
   unit cells further *)
Example T19_example_translation :
  infinite ex_honey = true /\ coupled ex_honey 0 1 (-1) [-1] 12 6 /\
  mps2lat ex_honey (7 + 2 * nsites ex_honey) = Some (1 + 2 * L0 ex_honey, [1], 1).
Proof.
  split; [reflexivity|]. split; [|vm_compute; reflexivity].
  apply (proj2 (couplings_exact ex_honey T19_example_wf 0 1 (-1) [-1] ltac:(cbn; lia)
                 (fun H => ltac:(discriminate H)))).
  vm_compute. tauto.
Qed.

Print Assumptions T19_get_order_perm.
Print Assumptions T19_get_order_priority_perm.
Print Assumptions T19_index_inverse.
Print Assumptions T19_values_reshape.
Print Assumptions T19_values_reshape_fix_u.
Print Assumptions T19_couplings_exact.
Print Assumptions T19_couplings_shift_refuted.
Print Assumptions T19_multi_couplings_exact.
Print Assumptions T19_enlarge_keeps_index_map.
Print Assumptions T19_species_index_bijection.
Print Assumptions T19_species_pairs.
Print Assumptions T19_index_injective.
Print Assumptions T19_couplings_reverse.
Print Assumptions T19_two_operator_multi_coupling.
Print Assumptions T19_multi_couplings_operator_order.
Print Assumptions T19_couplings_translation.
Print Assumptions T19_enlarge_keeps_couplings.
