(* Property C19: lattice geometry - index maps are bijections and couplings are enumerated exactly.
   Only statements; every proof is `exact <lemma from Proofs/LatticeP.v>`.
   All theorems hold for every dimension (1 + length (Lr lat)), all sizes, every unit cell size and
   every order array that lists distinct sites of the box (regular lattices: all of them; irregular
   lattices: a subset), finite and infinite MPS boundary conditions. *)
From TenpyV Require Import Base.Prelude Model.Lattice Proofs.LatticeP.
Open Scope Z_scope.

(* get_order with priority=None (C-style and every combination of snake flags) enumerates every lattice
   index of the box exactly once.
   Not proved: the column permutation for priority != None and get_order_grouped (both are run against
   the code in the correspondence / oracle streams only). *)
Theorem T19_get_order_perm : forall flags shape,
  NoDup (snake flags shape) /\
  (forall row, In row (snake flags shape) <-> in_box row shape) /\
  length (snake flags shape) = nprod shape.
Proof. exact get_order_perm. Qed.

(* mps2lat_idx and lat2mps_idx are mutually inverse bijections between the MPS indices (all integers for
   infinite MPS, 0 <= i < N_sites for finite MPS) and the existing sites (for infinite MPS: x_0 any
   integer, the site (x_0 mod Ls[0], ...) being in the order). *)
Theorem T19_index_inverse : forall lat, wf lat ->
  (forall i s, mps2lat lat i = Some s -> lat2mps lat s = Some i /\ site_exists lat s) /\
  (forall s i, site_exists lat s -> lat2mps lat s = Some i -> mps2lat lat i = Some s) /\
  (forall i, (if infinite lat then True else 0 <= i < nsites lat) -> exists s, mps2lat lat i = Some s) /\
  (forall s, site_exists lat s -> exists i, lat2mps lat s = Some i).
Proof. exact index_inverse. Qed.

(* possible_couplings(u1, u2, dx) returns exactly the pairs (i, j) of MPS indices of existing sites
   (x, u1), (y, u2) with y reached from x by dx under the boundary conditions (`coupled`: winding numbers
   exist, none across open boundaries, bc_shift moves x_0 by -shift per winding), each pair once; for
   infinite MPS exactly the representative with 0 <= min(i, j) < N_sites of each translation class.
   Hypothesis on bc_shift: with an open x-direction either there is no shift or |dx_0| < Ls[0]
   (necessary, see T19_couplings_shift_refuted). *)
Theorem T19_couplings_exact : forall lat, wf lat -> forall u1 u2 dx0 dxr, 0 <= u2 < Lu lat ->
  (open0 lat = true -> Forall (fun s => s = 0) (shiftr lat) \/ Z.abs dx0 < L0 lat) ->
  NoDup (coupling_pairs lat u1 u2 dx0 dxr) /\
  forall i j, In (i, j) (coupling_pairs lat u1 u2 dx0 dxr) <-> coupled lat u1 u2 dx0 dxr i j.
Proof. exact couplings_exact. Qed.

(* The faithful model refutes exactness without that hypothesis: open x-direction, shifted periodic
   y-direction and |dx_0| = Ls[0]: an existing pair is not enumerated (witness replayed on tenpy by
   harness/c19.py, known finding F19.2). *)
Theorem T19_couplings_shift_refuted :
  exists lat u1 u2 dx0 dxr i j, wf lat /\ 0 <= u2 < Lu lat /\
    coupled lat u1 u2 dx0 dxr i j /\ coupling_pairs lat u1 u2 dx0 dxr = [].
Proof. exact couplings_shift_refuted. Qed.

(* ---- non-vacuity and documented examples ---- *)

(* tests/test_lattice.py test_lattice_order: Square(4, 3, order='snake') *)
Example T19_example_snake :
  get_order [4; 3; 1] [true; true; true] [0; 1; 2]%nat =
  [[0;0;0]; [0;1;0]; [0;2;0]; [1;2;0]; [1;1;0]; [1;0;0]; [2;0;0]; [2;1;0]; [2;2;0]; [3;2;0]; [3;1;0]; [3;0;0]].
Proof. vm_compute. reflexivity. Qed.

(* same test: Honeycomb(2, 3, order=('standard', (True, False, False), (0.3, 0.1, -1.))), argsort = [2;1;0] *)
Example T19_example_priority :
  get_order [2; 3; 2] [true; false; false] [2; 1; 0]%nat =
  [[0;0;0]; [1;0;0]; [1;1;0]; [0;1;0]; [0;2;0]; [1;2;0]; [0;0;1]; [1;0;1]; [1;1;1]; [0;1;1]; [0;2;1]; [1;2;1]].
Proof. vm_compute. reflexivity. Qed.

(* Honeycomb(2, 3, order='snake', bc='periodic', bc_MPS='infinite') of test_possible_couplings *)
Definition ex_honey : lattice :=
  mkLat 2 [3] 2 false [false] [0] true
    [(0, [0], 0); (0, [1], 0); (0, [2], 0); (0, [0], 1); (0, [1], 1); (0, [2], 1);
     (1, [2], 1); (1, [1], 1); (1, [0], 1); (1, [2], 0); (1, [1], 0); (1, [0], 0)].

Example T19_example_wf : wf ex_honey.
Proof.
  constructor; cbn; try lia; try discriminate.
  - repeat constructor; lia.
  - repeat constructor; cbn; lia.
  - repeat (constructor; [cbn; intuition congruence|]). constructor.
  - intros _. split; [reflexivity|discriminate].
Qed.

Example T19_example_couplings :
  coupling_pairs ex_honey 0 1 (-1) [-1] = [(12, 6); (13, 8); (14, 7); (9, 4); (10, 3); (11, 5)] /\
  coupling_pairs ex_honey 0 1 2 [1] = [(0, 16); (1, 17); (2, 15); (9, 20); (10, 18); (11, 19)] /\
  mps2lat ex_honey (-3) = Some (-1, [2], 0) /\ lat2mps ex_honey (2, [1], 1) = Some 16.
Proof. vm_compute. repeat split. Qed.

(* the IrregularLattice of tests/test_lattice.py test_IrregularLattice (Honeycomb 3x3, bc open/periodic,
   three sites removed, two added) with the hand-written expectations of that test *)
Definition ex_irregular : lattice :=
  mkLat 3 [3] 4 true [false] [0] false
    [(0, [1], 0); (0, [2], 0); (0, [0], 1); (0, [1], 1); (0, [2], 1); (1, [0], 0); (1, [1], 2); (1, [2], 0);
     (1, [0], 1); (1, [1], 3); (1, [2], 1); (2, [0], 0); (2, [1], 0); (2, [2], 0); (2, [0], 1); (2, [1], 1); (2, [2], 1)].

Example T19_example_irregular :
  coupling_pairs ex_irregular 0 1 0 [0] = [(0, 3); (1, 4); (5, 8); (7, 10); (11, 14); (12, 15); (13, 16)] /\
  coupling_pairs ex_irregular 1 0 1 [0] = [(2, 5); (4, 7); (8, 11); (10, 13)] /\
  coupling_pairs ex_irregular 1 0 0 [1] = [(2, 0); (3, 1); (10, 5); (14, 12); (15, 13); (16, 11)].
Proof. vm_compute. repeat split. Qed.

Print Assumptions T19_get_order_perm.
Print Assumptions T19_index_inverse.
Print Assumptions T19_couplings_exact.
Print Assumptions T19_couplings_shift_refuted.
