(* Property C06: leg fusion is a lossless, consistently ordered bijection.
   Only statements; every proof is `exact <lemma of Proofs/LegP.v, Proofs/PipeP.v, Proofs/PipeP2.v, Proofs/PipeP3.v,
   Proofs/PipeOpsP.v>`.
   Models: Model/ChargeL.v (make_valid), Model/Leg.v (LegCharge), Model/Pipe.v (LegPipe),
   Model/PipeMaps.v (take_flat, tiles, qmap_rows_of, qm_group/qm_blocks, combine_fn/split_fn),
   Model/PipeOps.v (flip_charges_qconj / outer_conj of a LegPipe). *)
From TenpyV Require Import Base.Prelude Model.ChargeL Model.Leg Model.Pipe Model.PipeMaps Model.PipeOps
  Proofs.LegP Proofs.PipeP Proofs.PipeP2 Proofs.PipeP3 Proofs.PipeOpsP.
Open Scope Z_scope.

(* map_incoming_flat is a bijection between the index tuples prod_l [0, ind_len_l) and [0, prod_l ind_len_l),
   with the explicit inverse map_outgoing_flat; any number of legs, blocks, sizes (also 0), charges, both
   directions, sort/bunch on or off *)
Theorem T06_flat_bijection : forall ci legs qconj srt bun, legs_ok legs ->
  let p := pipe_init ci legs qconj srt bun in
  let N := prodZ (map ind_len legs) in
  (forall t, idx_ok legs t -> exists k, map_incoming_flat p t = Some k /\ 0 <= k < N /\ map_outgoing_flat p k = Some t) /\
  (forall k, 0 <= k < N -> exists t, map_outgoing_flat p k = Some t /\ idx_ok legs t /\ map_incoming_flat p t = Some k).
Proof. exact flat_bijection. Qed.

(* the outgoing block that q_map assigns to an index tuple carries make_valid(qconj * sum_l qconj_l * charge_l(i_l)) *)
Theorem T06_fusion_rule : forall ci legs qconj srt bun t, legs_ok legs -> idx_ok legs t ->
  let p := pipe_init ci legs qconj srt bun in
  exists qs ws I, split_indices legs t = Some (qs, ws) /\ block_of p t = Some I /\
    nth I (map snd (p_blocks p)) [] = make_valid ci (vscale qconj (vsum (length ci) (tuple_charges legs qs))).
Proof. exact fusion_rule. Qed.

(* layout of q_map: row j = [b_j, b_{j+1}, I_s, i_1..i_n] with b_{j+1} - b_j = size of the incoming block tuple, the slice lies
   inside the outgoing block I_s, one row per (sorted) block tuple *)
Theorem T06_qmap_shape : forall ci legs qconj srt bun j, legs_ok legs ->
  let p := pipe_init ci legs qconj srt bun in
  (j < length (p_rows p))%nat ->
  let qr := nth j (p_qmap p) (mkQ 0 0 O []) in
  let osz := map fst (p_blocks p) in
  0 <= q_b0 qr /\ q_b1 qr = q_b0 qr + r_sz (nth j (p_rows p) row0) /\
  offs osz (q_Is qr) + q_b1 qr <= offs osz (S (q_Is qr)) /\ q_q qr = r_q (nth j (p_rows p) row0) /\
  length (p_qmap p) = length (p_rows p).
Proof. exact qmap_shape. Qed.

(* gap-free, disjoint tiling: for every outgoing block I of every pipe, the slices q_map[:, 0:2] of the rows with
   I_s = I (there is at least one), in q_map order, satisfy: first start = 0, every stop = the next start,
   start <= stop, last stop = size of the outgoing block I (`tiles`); hence sorted by start.  These rows are the
   rows of the I-th group of (sorted, bunched) block tuples with the running offsets inside the group, and q_map
   as a whole is the concatenation of these groups (rows ordered by I_s) *)
Theorem T06_qmap_tiling : forall ci legs qconj srt bun I, legs_ok legs ->
  let p := pipe_init ci legs qconj srt bun in
  (I < length (p_blocks p))%nat ->
  let rowsI := qmap_rows_of p I in
  rowsI <> [] /\
  tiles 0 (map qslice rowsI) (fst (nth I (p_blocks p) (0, []))) /\
  Sorted Z.le (map q_b0 rowsI) /\
  rowsI = qm_group I (nth I (group_rows bun (p_rows p)) []) /\
  p_qmap p = qm_blocks 0 (group_rows bun (p_rows p)).
Proof. exact qmap_tiling. Qed.

(* q_map_slices: q_map[q_map_slices[I] : q_map_slices[I+1]] are exactly the rows with I_s = I (non-empty range) *)
Theorem T06_qmap_slices : forall ci legs qconj srt bun I,
  let p := pipe_init ci legs qconj srt bun in
  (I < length (p_blocks p))%nat ->
  let a := nth I (p_qmap_slices p) 0 in
  let b := nth (S I) (p_qmap_slices p) 0 in
  0 <= a < b /\ b <= Z.of_nat (length (p_qmap p)) /\
  qmap_rows_of p I = firstn (Z.to_nat (b - a)) (skipn (Z.to_nat a) (p_qmap p)) /\
  length (p_qmap_slices p) = S (length (p_blocks p)).
Proof. exact qmap_slices_rows. Qed.

(* the last layout clause of q_map ("rows sorted by I_s, and within equal I_s lexsorted by the incoming block tuple"):
   for ANY number of legs, block counts, charges and sort/bunch settings, for rows i < j of q_map:
   I_s(i) <= I_s(j), and if I_s(i) = I_s(j) then (i_1..i_n)(i) <lex (i_1..i_n)(j) strictly (lex_lt of Proofs/PipeP3.v:
   first leg most significant).  Equivalently the block tuples of the rows of every outgoing block I, in q_map
   order, are strictly lexsorted.  Route: the C-order grid np.indices(..).reshape(nlegs,-1).T is strictly lexsorted,
   the stable sort by charge keeps the relative order of rows of equal charge, rows of one outgoing block have
   equal charge.  With this, every clause of the documented q_map layout is proved (T06_qmap_shape, T06_qmap_tiling,
   T06_qmap_slices, T06_qmap_rows_lexsorted). *)
Theorem T06_qmap_rows_lexsorted : forall ci legs qconj srt bun,
  let p := pipe_init ci legs qconj srt bun in
  (forall i j, (i < j)%nat -> (j < length (p_qmap p))%nat ->
     let qi := nth i (p_qmap p) (mkQ 0 0 O []) in
     let qj := nth j (p_qmap p) (mkQ 0 0 O []) in
     (q_Is qi <= q_Is qj)%nat /\ (q_Is qi = q_Is qj -> lex_lt (q_q qi) (q_q qj))) /\
  (forall I, StronglySorted lex_lt (map q_q (qmap_rows_of p I))).
Proof. exact qmap_rows_lexsorted. Qed.

(* combine_legs / split_legs at the level of index maps.  A dense tensor is a function of its index:
   f : incoming index tuple -> entry, g : outgoing flat index -> entry;
   combine_fn p f = fun k => f (map_outgoing_flat p k), split_fn p g = fun t => g (map_incoming_flat p t).
   split (combine f) = f on every in-range index tuple, combine (split g) = g on [0, prod ind_len), the entry f t
   sits at position map_incoming_flat t of combine f, and every position of the outgoing leg is filled from an
   in-range tuple.  (That Array.combine_legs/split_legs move the entries of the block-sparse tensor according to
   these index maps is checked by the dense oracle, not proved.) *)
Theorem T06_split_combine : forall ci legs qconj srt bun, legs_ok legs ->
  let p := pipe_init ci legs qconj srt bun in
  let N := prodZ (map ind_len legs) in
  (forall (f : list Z -> Z) t, idx_ok legs t -> split_fn p (combine_fn p f) t = f t) /\
  (forall (g : Z -> Z) k, 0 <= k < N -> combine_fn p (split_fn p g) k = g k) /\
  (forall (f : list Z -> Z) t, idx_ok legs t ->
     exists k, map_incoming_flat p t = Some k /\ 0 <= k < N /\ combine_fn p f k = f t) /\
  (forall (g : Z -> Z) k, 0 <= k < N ->
     exists t, map_outgoing_flat p k = Some t /\ idx_ok legs t /\ split_fn p g t = g k).
Proof. exact split_combine_fn. Qed.

(* with sort=True (and at least one charge) the incoming block tuples are processed in lexsorted order *)
Theorem T06_pipe_sorted : forall ci legs qconj, ci <> [] -> Sorted rle (pipe_rows ci legs qconj true).
Proof. exact pipe_rows_sorted. Qed.

(* get_qindex inverts the slices on [-ind_len, ind_len) and is an error outside *)
Theorem T06_get_qindex : forall l i, nonneg (bsz l) ->
  (- ind_len l <= i < ind_len l ->
     exists q w, get_qindex l i = Some (q, w) /\ (q < nblocks l)%nat /\ 0 <= w < fst (blk l q) /\
                 (if i <? 0 then i + ind_len l else i) = offs (bsz l) q + w) /\
  (i < - ind_len l \/ ind_len l <= i -> get_qindex l i = None).
Proof. exact get_qindex_spec. Qed.

Theorem T06_get_qindex_inverse : forall l q w, nonneg (bsz l) -> (q < nblocks l)%nat -> 0 <= w < fst (blk l q) ->
  get_qindex l (offs (bsz l) q + w) = Some (q, w) /\ 0 <= offs (bsz l) q + w < ind_len l.
Proof. exact get_qindex_inverse. Qed.

(* sort (bunch on or off): perm_qind is a permutation of the block numbers, the (size, charge) blocks are the old
   blocks in that order (bunched if requested), the result is lexsorted, and in the flat-index form
   qflat(sorted) = qflat(leg)[perm_flat_from_perm_qind(perm_qind)]: the charge attached to every flat index is
   preserved; perm_flat (the concatenated index ranges of the blocks in the permuted order) is a permutation of
   [0, 1, .., ind_len - 1] = zrange 0 ind_len; ind_len and qconj are unchanged *)
Theorem T06_sort : forall l bun, nonneg (bsz l) ->
  let s := ssort (combine (seq 0 (nblocks l)) (blocks l)) in
  let perm := fst (sort_leg bun l) in
  let sorted := snd (sort_leg bun l) in
  perm = map fst s /\
  Permutation perm (seq 0 (nblocks l)) /\
  map snd s = map (blk l) perm /\
  Sorted kle s /\
  blocks sorted = (if bun then bunch_blocks (map (blk l) perm) else map (blk l) perm) /\
  qc sorted = qc l /\
  qflat sorted = take_flat [] (qflat l) (perm_flat l perm) /\
  Permutation (perm_flat l perm) (zrange 0 (Z.to_nat (ind_len l))) /\
  ind_len sorted = ind_len l.
Proof. exact sort_full. Qed.

(* perm_flat_from_perm_qind for ANY list of block numbers: the blocks taken in that order carry the charges found
   at the flat indices perm_flat *)
Theorem T06_perm_flat : forall l perm, nonneg (bsz l) ->
  qflat_blocks (map (blk l) perm) = take_flat [] (qflat l) (perm_flat l perm).
Proof. exact perm_flat_take. Qed.

(* bunch: the charge of every index is unchanged, no two neighbouring blocks of the result have equal charge *)
Theorem T06_bunch : forall bs, nonneg (map fst bs) ->
  qflat_blocks (bunch_blocks bs) = qflat_blocks bs /\ adj_distinct (bunch_blocks bs) = true.
Proof. intros bs H. exact (conj (bunch_qflat bs H) (bunch_distinct bs)). Qed.

(* project: the surviving indices keep their charges *)
Theorem T06_project : forall l mask, qflat (snd (project_leg l mask)) = select mask (qflat l).
Proof. intros l mask. exact (project_qflat (blocks l) mask). Qed.

(* flip_charges_qconj: same slices, opposite direction, the same physical charges: test_equal holds *)
Theorem T06_flip_charges_qconj : forall ci l,
  leg_equal ci l (flip_leg ci l) = true /\ bsz (flip_leg ci l) = bsz l /\ qc (flip_leg ci l) = - qc l.
Proof. intros ci l. exact (conj (flip_equal ci l) (flip_blocks ci l)). Qed.

Theorem T06_conj_contractible : forall ci l, contractible ci l (conj_leg l) = true.
Proof. exact conj_contractible. Qed.

(* flip_charges_qconj applied to a LegPipe (the method is inherited from LegCharge; LegPipe.outer_conj has the same
   discrete content): the result is a pipe over the SAME incoming legs (same directions), with the opposite direction
   of the outgoing leg and negated outgoing charges; q_map, q_map_slices, the block sizes and map_incoming_flat on
   every index tuple are the ones of the original pipe; the outgoing leg passes test_equal with the original one; and
   the pipe contract holds for the new direction: the outgoing block of every index tuple carries
   make_valid(-qconj * sum_l qconj_l * charge_l(i_l)).  (A flip that also conjugated the incoming legs, as
   LegPipe.conj does, would need the charges make_valid(+qconj * sum ...) here.) *)
Theorem T06_flip_pipe : forall ci legs qconj srt bun t, legs_ok legs -> idx_ok legs t ->
  let p := pipe_init ci legs qconj srt bun in
  let f := flip_pipe ci p in
  p_legs f = legs /\ p_qconj f = - qconj /\ p_qmap f = p_qmap p /\ p_qmap_slices f = p_qmap_slices p /\
  map fst (p_blocks f) = map fst (p_blocks p) /\
  leg_equal ci (pipe_leg p) (pipe_leg f) = true /\
  map_incoming_flat f t = map_incoming_flat p t /\
  exists qs ws I, split_indices legs t = Some (qs, ws) /\ block_of f t = Some I /\
    nth I (map snd (p_blocks f)) [] = make_valid ci (vscale (- qconj) (vsum (length ci) (tuple_charges legs qs))).
Proof. exact flip_pipe_spec. Qed.

(* non-vacuity: a pipe of two legs (a block of size 0, equal fused charges from different tuples, Z_3 x U(1)) *)
Definition ex_legs : list leg :=
  [mkLeg [(1, [0; 1]); (2, [1; 0]); (0, [0; 1])] 1; mkLeg [(2, [2; 1]); (1, [1; 0])] (-1)].
Example T06_example_hyp : legs_ok ex_legs /\ idx_ok ex_legs [2; 1].
Proof. split; repeat constructor; cbn; lia. Qed.
Example T06_example :
  let p := pipe_init [3; 1] ex_legs (-1) true true in
  map (map_incoming_flat p) (zgrid [3; 3]) = map Some [3; 4; 0; 5; 6; 1; 7; 8; 2]
  /\ map_outgoing_flat p 6 = Some [1; 1] /\ map snd (p_blocks p) = [[1; -1]; [0; 0]; [2; 0]; [1; 1]].
Proof. vm_compute. repeat split. Qed.

(* the q_map of that pipe: 4 outgoing blocks (sizes 1, 2, 2, 4); block 0 contains an empty slice [1, 1) *)
Example T06_example_tiling :
  let p := pipe_init [3; 1] ex_legs (-1) true true in
  map fst (p_blocks p) = [1; 2; 2; 4] /\ p_qmap_slices p = [0; 2; 3; 5; 6] /\
  map (fun I => map qslice (qmap_rows_of p I)) (seq 0 4) = [[(0, 1); (1, 1)]; [(0, 2)]; [(0, 2); (2, 2)]; [(0, 4)]].
Proof. vm_compute. repeat split. Qed.

(* rows of equal I_s: the two-leg pipe above has outgoing blocks with two rows each; a Z_2 pipe of three legs
   (2 x 3 x 2 blocks) has two outgoing blocks with six rows each, in lexicographic order of the block tuples, which
   is NOT the grid order of q_map as a whole (the sort by charge interleaves the grid) *)
Definition ex_legs3 : list leg :=
  [mkLeg [(1, [0]); (1, [1])] 1; mkLeg [(1, [0]); (2, [1]); (1, [0])] 1; mkLeg [(1, [1]); (1, [0])] 1].
Example T06_example_rows_lexsorted :
  map (fun I => map q_q (qmap_rows_of (pipe_init [3; 1] ex_legs (-1) true true) I)) (seq 0 4) =
    [[[0; 1]; [2; 1]]; [[1; 1]]; [[0; 0]; [2; 0]]; [[1; 0]]]%nat /\
  map (fun r => (q_Is r, q_q r)) (p_qmap (pipe_init [2] ex_legs3 1 true true)) =
    [(0, [0; 0; 1]); (0, [0; 1; 0]); (0, [0; 2; 1]); (0, [1; 0; 0]); (0, [1; 1; 1]); (0, [1; 2; 0]);
     (1, [0; 0; 0]); (1, [0; 1; 1]); (1, [0; 2; 0]); (1, [1; 0; 1]); (1, [1; 1; 0]); (1, [1; 2; 1])]%nat /\
  lex_lt [0; 2; 1]%nat [1; 0; 0]%nat /\ ~ lex_lt [1; 0; 0]%nat [0; 2; 1]%nat.
Proof. split; [|split]; [vm_compute; reflexivity ..|]. split; [apply lex_ltb_spec; reflexivity|].
  intros H. apply lex_ltb_spec in H. discriminate. Qed.

(* combine / split of the dense 3 x 3 tensor f [i; j] = 10 i + j through that pipe *)
Definition ex_f (t : list Z) : Z := 10 * nth 0 t 0 + nth 1 t 0.
Example T06_example_split_combine :
  let p := pipe_init [3; 1] ex_legs (-1) true true in
  map (combine_fn p ex_f) (zrange 0 9) = [2; 12; 22; 0; 1; 10; 11; 20; 21] /\
  map (split_fn p (combine_fn p ex_f)) (zgrid [3; 3]) = map ex_f (zgrid [3; 3]) /\
  map (combine_fn p (split_fn p (fun k => k * k))) (zrange 0 9) = map (fun k => k * k) (zrange 0 9).
Proof. vm_compute. repeat split. Qed.

(* sort of a leg with 5 blocks (one of size 0, equal charges in non-adjacent blocks) *)
Definition ex_leg : leg := mkLeg [(2, [1]); (1, [0]); (0, [2]); (2, [0]); (1, [1])] 1.
Example T06_example_sort :
  nonneg (bsz ex_leg) /\
  sort_leg true ex_leg = ([1; 3; 0; 4; 2]%nat, mkLeg [(3, [0]); (3, [1]); (0, [2])] 1) /\
  perm_flat ex_leg [1; 3; 0; 4; 2]%nat = [2; 3; 4; 0; 1; 5] /\
  qflat ex_leg = [[1]; [1]; [0]; [0]; [0]; [1]] /\
  qflat (snd (sort_leg true ex_leg)) = [[0]; [0]; [0]; [1]; [1]; [1]].
Proof. split; [repeat constructor; cbn; lia|]. vm_compute. repeat split. Qed.

(* the flipped pipe of that example: same index map, negated (reduced) outgoing charges, direction +1 *)
Example T06_example_flip_pipe :
  let p := pipe_init [3; 1] ex_legs (-1) true true in
  let f := flip_pipe [3; 1] p in
  map (map_incoming_flat f) (zgrid [3; 3]) = map Some [3; 4; 0; 5; 6; 1; 7; 8; 2] /\
  map snd (p_blocks f) = [[2; 1]; [0; 0]; [1; 0]; [2; -1]] /\ p_qconj f = 1 /\ p_legs f = ex_legs.
Proof. vm_compute. repeat split. Qed.

Print Assumptions T06_flat_bijection.
Print Assumptions T06_fusion_rule.
Print Assumptions T06_qmap_shape.
Print Assumptions T06_qmap_tiling.
Print Assumptions T06_qmap_slices.
Print Assumptions T06_qmap_rows_lexsorted.
Print Assumptions T06_split_combine.
Print Assumptions T06_pipe_sorted.
Print Assumptions T06_get_qindex.
Print Assumptions T06_get_qindex_inverse.
Print Assumptions T06_sort.
Print Assumptions T06_perm_flat.
Print Assumptions T06_bunch.
Print Assumptions T06_project.
Print Assumptions T06_flip_charges_qconj.
Print Assumptions T06_conj_contractible.
Print Assumptions T06_flip_pipe.
