(* Property C06: leg fusion is a lossless, consistently ordered bijection.
   Only statements; every proof is `exact <lemma of Proofs/LegP.v, Proofs/PipeP.v>`.
   Models: Model/ChargeL.v (make_valid), Model/Leg.v (LegCharge), Model/Pipe.v (LegPipe). *)
From TenpyV Require Import Base.Prelude Model.ChargeL Model.Leg Model.Pipe Proofs.LegP Proofs.PipeP.
Open Scope Z_scope.

(* map_incoming_flat is a bijection between the index tuples prod_l [0, ind_len_l) and [0, prod_l ind_len_l),
   with the explicit inverse map_outgoing_flat; any number of legs, blocks, sizes (also 0), charges, both
   directions, sort/bunch on or off *)
Theorem T06_flat_bijection : forall ci legs qconj srt bun, legs_ok legs ->
  let p := pipe_init ci legs qconj srt bun in
  let N := prodZ (map ind_len legs) in
  (forall t, idx_ok legs t -> exists k, map_incoming_flat p t = Some k /\ 0 <= k < N /\ map_outgoing_flat p k = Some t) /\
  (forall k, 0 <= k < N -> exists t, map_outgoing_flat p k = Some t /\ idx_ok legs t /\ map_incoming_flat p t = Some k).
Proof. exact flat_bijection. Qed.

(* the outgoing block that q_map assigns to an index tuple carries make_valid(qconj * sum_l qconj_l * charge_l(i_l)) *)
Theorem T06_fusion_rule : forall ci legs qconj srt bun t, legs_ok legs -> idx_ok legs t ->
  let p := pipe_init ci legs qconj srt bun in
  exists qs ws I, split_indices legs t = Some (qs, ws) /\ block_of p t = Some I /\
    nth I (map snd (p_blocks p)) [] = make_valid ci (vscale qconj (vsum (length ci) (tuple_charges legs qs))).
Proof. exact fusion_rule. Qed.

(* layout of q_map: row j = [b_j, b_{j+1}, I_s, i_1..i_n] with b_{j+1} - b_j = size of the incoming block tuple, the slice lies
   inside the outgoing block I_s, one row per (sorted) block tuple *)
Theorem T06_qmap_shape : forall ci legs qconj srt bun j, legs_ok legs ->
  let p := pipe_init ci legs qconj srt bun in
  (j < length (p_rows p))%nat ->
  let qr := nth j (p_qmap p) (mkQ 0 0 O []) in
  let osz := map fst (p_blocks p) in
  0 <= q_b0 qr /\ q_b1 qr = q_b0 qr + r_sz (nth j (p_rows p) row0) /\
  offs osz (q_Is qr) + q_b1 qr <= offs osz (S (q_Is qr)) /\ q_q qr = r_q (nth j (p_rows p) row0) /\
  length (p_qmap p) = length (p_rows p).
Proof. exact qmap_shape. Qed.

(* with sort=True (and at least one charge) the incoming block tuples are processed in lexsorted order *)
Theorem T06_pipe_sorted : forall ci legs qconj, ci <> [] -> Sorted rle (pipe_rows ci legs qconj true).
Proof. exact pipe_rows_sorted. Qed.

(* get_qindex inverts the slices on [-ind_len, ind_len) and is an error outside *)
Theorem T06_get_qindex : forall l i, nonneg (bsz l) ->
  (- ind_len l <= i < ind_len l ->
     exists q w, get_qindex l i = Some (q, w) /\ (q < nblocks l)%nat /\ 0 <= w < fst (blk l q) /\
                 (if i <? 0 then i + ind_len l else i) = offs (bsz l) q + w) /\
  (i < - ind_len l \/ ind_len l <= i -> get_qindex l i = None).
Proof. exact get_qindex_spec. Qed.

Theorem T06_get_qindex_inverse : forall l q w, nonneg (bsz l) -> (q < nblocks l)%nat -> 0 <= w < fst (blk l q) ->
  get_qindex l (offs (bsz l) q + w) = Some (q, w) /\ 0 <= offs (bsz l) q + w < ind_len l.
Proof. exact get_qindex_inverse. Qed.

(* sort: perm_qind is a permutation, the (size, charge) blocks are the old blocks in that order (every index keeps
   its charge), the result is lexsorted.  Partial: the flat-index form qflat(sorted) = qflat[perm_flat_from_perm_qind]
   is not proved (checked on every generated leg by the correspondence + oracle). *)
Theorem T06_sort_partial : forall l,
  let s := ssort (combine (seq 0 (nblocks l)) (blocks l)) in
  Permutation (map fst s) (seq 0 (nblocks l)) /\ map snd s = map (blk l) (map fst s) /\ Sorted kle s.
Proof. exact sort_spec. Qed.

(* bunch: the charge of every index is unchanged, no two neighbouring blocks of the result have equal charge *)
Theorem T06_bunch : forall bs, nonneg (map fst bs) ->
  qflat_blocks (bunch_blocks bs) = qflat_blocks bs /\ adj_distinct (bunch_blocks bs) = true.
Proof. intros bs H. exact (conj (bunch_qflat bs H) (bunch_distinct bs)). Qed.

(* project: the surviving indices keep their charges *)
Theorem T06_project : forall l mask, qflat (snd (project_leg l mask)) = select mask (qflat l).
Proof. intros l mask. exact (project_qflat (blocks l) mask). Qed.

(* flip_charges_qconj: same slices, opposite direction, the same physical charges: test_equal holds *)
Theorem T06_flip_charges_qconj : forall ci l,
  leg_equal ci l (flip_leg ci l) = true /\ bsz (flip_leg ci l) = bsz l /\ qc (flip_leg ci l) = - qc l.
Proof. intros ci l. exact (conj (flip_equal ci l) (flip_blocks ci l)). Qed.

Theorem T06_conj_contractible : forall ci l, contractible ci l (conj_leg l) = true.
Proof. exact conj_contractible. Qed.

(* non-vacuity: a pipe of two legs (a block of size 0, equal fused charges from different tuples, Z_3 x U(1)) *)
Definition ex_legs : list leg :=
  [mkLeg [(1, [0; 1]); (2, [1; 0]); (0, [0; 1])] 1; mkLeg [(2, [2; 1]); (1, [1; 0])] (-1)].
Example T06_example_hyp : legs_ok ex_legs /\ idx_ok ex_legs [2; 1].
Proof. split; repeat constructor; cbn; lia. Qed.
Example T06_example :
  let p := pipe_init [3; 1] ex_legs (-1) true true in
  map (map_incoming_flat p) (zgrid [3; 3]) = map Some [3; 4; 0; 5; 6; 1; 7; 8; 2]
  /\ map_outgoing_flat p 6 = Some [1; 1] /\ map snd (p_blocks p) = [[1; -1]; [0; 0]; [2; 0]; [1; 1]].
Proof. vm_compute. repeat split. Qed.

Print Assumptions T06_flat_bijection.
Print Assumptions T06_fusion_rule.
Print Assumptions T06_qmap_shape.
Print Assumptions T06_pipe_sorted.
Print Assumptions T06_get_qindex.
Print Assumptions T06_get_qindex_inverse.
Print Assumptions T06_sort_partial.
Print Assumptions T06_bunch.
Print Assumptions T06_project.
Print Assumptions T06_flip_charges_qconj.
Print Assumptions T06_conj_contractible.
