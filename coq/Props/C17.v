(* Property C17: saving and loading reproduces an equal object.
   Only statements; every proof is `exact <lemma>`. *)
From TenpyV Require Import Base.Prelude Model.Heap Proofs.HeapP Proofs.HeapP2 Model.LegFormats Proofs.LegFormatsP.
From TenpyV Require Import Model.StateSpec Gen.G_states Proofs.StatesP.
From TenpyV Require Model.Leg Model.Pipe.
From TenpyV Require Import Model.PipeReinit Proofs.PipeReinitP.
From Coq Require Import String.
Close Scope Z_scope.
Open Scope nat_scope.

(* a memoised depth-first copy (early = memo before the children, late = after, any choice per node) of ANY heap -
   shared nodes, cycles - is isomorphic to what is reachable from the root: a bijection of ids onto the new heap that
   preserves kinds, leaf values, classes, attribute names and the order of children *)
Theorem T17_copy_iso : forall late fuel h r h' r',
  copy late fuel h r = Some (h', r') -> exists m, iso m h r h' r'.
Proof. exact copy_iso. Qed.

(* save (everything early) followed by load (tuples late): the loaded heap is isomorphic to the saved one, whenever
   both traversals return (fuel only bounds the recursion depth) *)
Theorem T17_roundtrip_iso : forall f1 f2 h r h2 r2,
  roundtrip f1 f2 h r = Some (h2, r2) -> exists m, iso m h r h2 r2.
Proof. exact roundtrip_iso. Qed.

(* hence: two references denote the same object after loading iff they did before saving *)
Theorem T17_identity_preserved : forall m h r h' r' x y x' y',
  iso m h r h' r' -> m x = Some x' -> m y = Some y' -> (x = y <-> x' = y').
Proof. exact iso_identity. Qed.

(* saving never runs out of fuel = number of nodes + 1, on every closed heap (cycles included) *)
Theorem T17_save_total : forall h r, closed h -> r < List.length h ->
  exists h1 r1, save (S (List.length h)) h r = Some (h1, r1).
Proof. exact save_total. Qed.

(* loading is total.  A late node (tuple: memoised AFTER its children) that is not in the memo yet is entered again
   when a cycle leads back to it, so nodes + 1 is not enough fuel (T17_load_reentry below).  On every closed heap in
   which no tuple lies on a reference cycle consisting of tuples only (late_reach x x; python cannot build such a
   tuple - a cycle has to pass through a list, dict, set or instance) fuel = (nodes + 1)^2 suffices: on the stack of
   active visits every early node occurs at most once and the late nodes between two early ones form a path of
   distinct nodes. *)
Theorem T17_load_total : forall h r, closed h -> no_late_cycle is_tuple h -> r < List.length h ->
  exists h1 r1, load (S (List.length h) * S (List.length h)) h r = Some (h1, r1).
Proof. exact load_total. Qed.

(* the same for any choice of late nodes (pickle's and deepcopy's reductions) *)
Theorem T17_copy_total : forall late h, closed h -> no_late_cycle late h -> forall r, r < List.length h ->
  exists h1 r1, copy late (S (List.length h) * S (List.length h)) h r = Some (h1, r1).
Proof. exact copy_total. Qed.

(* total correctness of the model round trip: on every closed heap without a tuple-only cycle save-then-load returns,
   and what it returns is isomorphic to the reachable part of the original *)
Theorem T17_roundtrip_total : forall h r, closed h -> no_late_cycle is_tuple h -> r < List.length h ->
  exists h2 r2 m, roundtrip (S (List.length h)) (S (List.length h) * S (List.length h)) h r = Some (h2, r2) /\
                  iso m h r h2 r2.
Proof. exact roundtrip_total. Qed.

(* Model/Heap.v:check_case calls roundtrip (S (length h)) (S (length h) * S (length h)): exactly the fuel of
   T17_roundtrip_total above, so a `None` of the model in the correspondence stream is never an artefact of the
   fuel.  For tuples whose elements are not tuples (late_flat) already the linear fuel 2 * length h + 2 suffices;
   for nested tuples on cycles it can be too small (Example T17_linear_fuel_not_general). *)
Theorem T17_roundtrip_total_flat_tuples : forall h r, closed h -> late_flat is_tuple h -> r < List.length h ->
  exists h2 r2 m, roundtrip (S (List.length h)) (2 * List.length h + 2) h r = Some (h2, r2) /\ iso m h r h2 r2.
Proof. exact roundtrip_total_flat. Qed.

(* LegCharge encodings, any number of blocks / charges *)
Theorem T17_legcharge_formats :
  (forall l, leg_wf l -> from_compact (to_compact l) = l) /\
  (forall l, from_blocks (to_blocks l) = l) /\
  (forall srt bun l,
     to_qflat (from_flat srt bun (to_flat l)) = to_qflat l /\
     l_qconj (from_flat srt bun (to_flat l)) = l_qconj l /\
     l_ind_len (from_flat srt bun (to_flat l)) = l_ind_len l /\
     block_number (from_flat srt bun (to_flat l)) = List.length (to_qflat l)).
Proof. exact (conj compact_roundtrip (conj blocks_roundtrip flat_roundtrip)). Qed.

(* LegPipe through HDF5 (formats blocks/compact).  save_hdf5 stores the incoming legs, qconj and the cached attributes
   `sorted`/`bunched` (pipe_save); from_hdf5 re-initialises, `cls(legs, qconj, sorted, bunched)` (pipe_load), i.e. re-runs
   the construction Model/Pipe.v:pipe_init - the correspondence-checked model of C06 (LegPipe.__init__/_init_from_legs,
   all four sort/bunch combinations).  For EVERY constructor call a = (chinfo, legs, qconj, sort, bunch), any number of
   legs/blocks/charges: the re-initialised object EQUALS the constructed one - legs, qconj, charges, slices, q_map,
   q_map_slices, the block tuples in processing order and the flags sorted/bunched (spelled out as projections) - and
   saving it again gives the same saved fields.  This needs: the saved flag sorted = sort or (qnumber == 0) as `sort`
   argument gives the same pipe; for single-block legs (the fast path of __init__, which sets sorted = bunched = True)
   the pipe does not depend on sort/bunch.
   Tie to the code: Model/PipeReinit.v is EXECUTED against the implementation by the correspondence stream `pipe-reinit`
   of harness/c17.py (checker Model/PipeReinitCheck.v:check_pipe_reinit, vm_compute on every case): random LegPipes
   (1-3 incoming legs of 1-3 blocks, qconj +-1, no charge / U(1) / Z_N / two charges, single-block fast path included)
   x all four (sort, bunch) x LegCharge formats blocks/compact are built with the real LegPipe, written with Hdf5Saver
   into an h5py file which is read back RAW - the group attributes `sorted`, `bunched`, `qconj`, the chinfo, the tuple
   `legs` and the slices/charges of the LegCharge part must equal pipe_save a (and po_slices/po_charges of
   pipe_construct a) -, the pipe rebuilt by LegPipe.from_hdf5 must equal pipe_load of the file content and the
   unpickled pipe must equal pipe_load (pipe_save a): charges, slices, q_map, q_map_slices, the private _perm and
   _strides (observations po_perm / po_strides defined in PipeReinitCheck.v from the block tuples in processing order),
   sorted, bunched, legs, qconj; the constructed pipe itself must equal pipe_construct a (attr_sorted / attr_bunched).
   So which flags __init__ caches, which of them save_hdf5 writes and the ORDER in which from_hdf5 passes them are
   checked against the code on every run (seeded slips - flags swapped in from_hdf5, `sorted` written wrongly,
   defaults instead of the saved flags, sorted = sort without `or qnumber == 0` - are reported by the stream);
   T17_legpipe_reinit_swap_differs shows on the model that the order matters.  That from_hdf5 reads exactly legs,
   qconj, sorted, bunched and that save_hdf5 writes them (formats blocks/compact) is in addition the LegPipe entry of
   the regenerated hdf5_table of T17_state_orders.  Format flat is outside (recorded defect F17.1: the loader fails). *)
Theorem T17_legpipe_reinit : forall a : pipe_args,
  let o := pipe_construct a in
  let o' := pipe_load (pipe_save a) in
  o' = o /\
  (Pipe.p_legs (po_pipe o') = a_legs a /\ Pipe.p_qconj (po_pipe o') = a_qconj a /\
   po_charges o' = po_charges o /\ po_slices o' = po_slices o /\ po_qmap o' = po_qmap o /\
   po_qmap_slices o' = po_qmap_slices o /\ po_sorted o' = po_sorted o /\ po_bunched o' = po_bunched o) /\
  pipe_save (mkPipeArgs (s_chinfo (pipe_save a)) (s_legs (pipe_save a)) (s_qconj (pipe_save a))
                        (s_sorted (pipe_save a)) (s_bunched (pipe_save a))) = pipe_save a.
Proof. exact pipe_reinit. Qed.

(* the saved fields determine the pipe: two constructor calls that save the same fields build equal pipes *)
Theorem T17_legpipe_saved_determines : forall a a', pipe_save a = pipe_save a' -> pipe_construct a = pipe_construct a'.
Proof. exact pipe_reinit_determined. Qed.

(* passing the two flags in the wrong order, cls(legs, qconj, bunched, sorted) (pipe_load_swapped), is invisible when
   they are equal (pipe_swap_equal) but NOT in general: for the U(1) pipe reinit_ex (2 x 3 incoming blocks, built with
   sort=True, bunch=False) the saved flags are sorted=True, bunched=False and the swapped re-initialisation has other
   charges, slices, q_map and q_map_slices than the saved pipe, while the correct one reproduces it *)
Theorem T17_legpipe_reinit_swap_differs : exists a,
  let s := pipe_save a in
  s_sorted s = true /\ s_bunched s = false /\
  po_charges (pipe_load_swapped s) <> po_charges (pipe_load s) /\
  po_slices (pipe_load_swapped s) <> po_slices (pipe_load s) /\
  po_qmap (pipe_load_swapped s) <> po_qmap (pipe_load s) /\
  po_qmap_slices (pipe_load_swapped s) <> po_qmap_slices (pipe_load s) /\
  pipe_load s = pipe_construct a.
Proof. exact pipe_reinit_swap_differs. Qed.

(* tie T: the tables regenerated from charges.py / np_conserved.py *)
Theorem T17_state_orders :
  (forall c produced consumed, In (c, produced, consumed) state_table -> produced = consumed) /\
  (forall c f written read, In (c, f, written, read) hdf5_table ->
     pair_mem c f known_subset_exceptions = false ->
     forall x, In x read -> In x written) /\
  (forall c m given expected, In (c, m, given, expected) setstate_calls ->
     pair_mem c m known_arity_exceptions = false -> given = expected).
Proof. exact state_orders. Qed.

Theorem T17_state_classes_present :
  forallb (fun c => has_class c state_table)
          ["ChargeInfo"; "DipolarChargeInfo"; "LegCharge"; "LegPipe"; "Array"]%string = true.
Proof. exact classes_present. Qed.

(* non-vacuity: a heap with a shared list, a cycle through a list and a dict, a tuple, an instance pointing back *)
Example T17_example_heap :
  let h := [NList [1; 2; 1; 0]%nat;            (* 0: list containing itself and node 1 twice *)
            NTuple [3; 3]%nat;                 (* 1: tuple sharing a leaf-holding list *)
            NDict [(4, 0); (5, 6)]%nat;        (* 2: dict: key 4 -> the root, key 5 -> instance *)
            NList [7]%nat; Leaf 10%Z; Leaf 11%Z;
            NObj 1%Z [(2%Z, 0%nat); (3%Z, 1%nat)]; Leaf 12%Z] in
  closed h /\ check_case (h, 0%nat, h, 0%nat) = false /\
  (exists h2 r2, roundtrip 9 18 h 0 = Some (h2, r2) /\ canon h2 r2 = canon h 0).
Proof.
  split.
  - intros x n H. do 8 (destruct x as [|x]; [inversion H; subst; cbn; repeat constructor|]).
    destruct x; discriminate.
  - split; [vm_compute; reflexivity|]. vm_compute. eexists. eexists. split; reflexivity.
Qed.

(* the heap of T17_example_heap has flat tuples: T17_roundtrip_total_flat_tuples applies to it *)
Example T17_example_flat :
  late_flat is_tuple [NList [1; 2; 1; 0]; NTuple [3; 3]; NDict [(4, 0); (5, 6)]; NList [7]; Leaf 10%Z; Leaf 11%Z;
                      NObj 1%Z [(2%Z, 0); (3%Z, 1)]; Leaf 12%Z].
Proof.
  intros x c nd' [nd [Hn [Hl Hin]]] Hc.
  do 8 (destruct x as [|x]; [inversion Hn; subst nd; cbn in Hl, Hin; try discriminate;
                             repeat (destruct Hin as [<-|Hin]; [cbn in Hc; inversion Hc; reflexivity|]); contradiction|]).
  destruct x; discriminate.
Qed.

(* nested tuples on cycles through lists (T0 = (T1,), T1 = (L2, L3), L2 = [T0], L3 = [T0, 7]): the hypotheses of
   T17_load_total hold, the tuples are re-entered while they are being loaded - nodes + 1 is not enough fuel -, and
   the loaded heap has the canonical form of the original *)
Example T17_load_reentry :
  closed ex_reentry /\ no_late_cycle is_tuple ex_reentry /\ ~ late_flat is_tuple ex_reentry /\
  load (S (List.length ex_reentry)) ex_reentry 0 = None /\
  exists h1, load (S (List.length ex_reentry) * S (List.length ex_reentry)) ex_reentry 0 = Some (h1, 3) /\
             canon h1 3 = canon ex_reentry 0.
Proof. exact ex_reentry_ok. Qed.

(* ... and the linear fuel of check_case is not enough for every heap with NESTED tuples on cycles (it is for flat
   tuples, T17_roundtrip_total_flat_tuples): three nested tuples on cycles through three lists, rooted at the tuple *)
Example T17_linear_fuel_not_general :
  closed ex_deep /\ no_late_cycle is_tuple ex_deep /\
  load (2 * List.length ex_deep + 2) ex_deep 0 = None /\
  exists h1 r1, load (S (List.length ex_deep) * S (List.length ex_deep)) ex_deep 0 = Some (h1, r1).
Proof. exact ex_deep_ok. Qed.

Example T17_example_leg :
  let l := mkLeg 5%Z 1%Z [0; 2; 3; 5]%Z [[1; 0]; [-1; 1]; [0; 0]]%Z true false in
  leg_wf l /\ to_compact l = mkCompact 5%Z 1%Z 3 true false [[0; 2; 1; 0]; [2; 3; -1; 1]; [3; 5; 0; 0]]%Z /\
  to_qflat l = [[1; 0]; [1; 0]; [-1; 1]; [0; 0]; [0; 0]]%Z.
Proof. split; [split; [reflexivity|discriminate]|split; vm_compute; reflexivity]. Qed.

(* LegPipe re-initialisation, concrete: the U(1) pipe reinit_ex saved with sorted=True, bunched=False (q_map rows
   [b_j, b_{j+1}, I_s, i_1, i_2]); legs with one block each built with sort=bunch=False are saved with both flags True
   (fast path); without charges sort=False is saved as sorted=True *)
Example T17_example_legpipe :
  let s := pipe_save reinit_ex in
  (s_sorted s, s_bunched s) = (true, false) /\
  po_charges (pipe_load s) = [[0]; [0]; [1]; [1]; [1]; [2]]%Z /\
  po_charges (pipe_load_swapped s) = [[1]; [2]; [0]; [1]]%Z /\
  po_slices (pipe_load s) = [0; 2; 4; 5; 6; 10; 12]%Z /\
  po_qmap (pipe_load s) = [[0; 2; 0; 1; 0]; [0; 2; 1; 1; 1]; [0; 1; 2; 0; 0]; [0; 1; 3; 0; 1]; [0; 4; 4; 1; 2]; [0; 2; 5; 0; 2]]%Z /\
  po_qmap (pipe_load_swapped s) = [[0; 1; 0; 0; 0]; [1; 2; 0; 0; 1]; [0; 2; 1; 0; 2]; [0; 2; 2; 1; 0]; [2; 4; 2; 1; 1]; [0; 4; 3; 1; 2]]%Z /\
  po_qmap_slices (pipe_load s) = [0; 1; 2; 3; 4; 5; 6]%Z /\ po_qmap_slices (pipe_load_swapped s) = [0; 2; 3; 5; 6]%Z /\
  (a_sort reinit_ex_single, a_bunch reinit_ex_single) = (false, false) /\
  (s_sorted (pipe_save reinit_ex_single), s_bunched (pipe_save reinit_ex_single)) = (true, true) /\
  po_qmap (pipe_load (pipe_save reinit_ex_single)) = [[0; 6; 0; 0; 0]]%Z /\
  a_sort reinit_ex_q0 = false /\ s_sorted (pipe_save reinit_ex_q0) = true /\
  po_qmap (pipe_load (pipe_save reinit_ex_q0)) = [[0; 6; 0; 0; 0]; [6; 9; 0; 1; 0]]%Z.
Proof. vm_compute. repeat split. Qed.

Print Assumptions T17_copy_iso.
Print Assumptions T17_roundtrip_iso.
Print Assumptions T17_identity_preserved.
Print Assumptions T17_save_total.
Print Assumptions T17_load_total.
Print Assumptions T17_copy_total.
Print Assumptions T17_roundtrip_total.
Print Assumptions T17_roundtrip_total_flat_tuples.
Print Assumptions T17_legcharge_formats.
Print Assumptions T17_state_orders.
Print Assumptions T17_state_classes_present.
Print Assumptions T17_legpipe_reinit.
Print Assumptions T17_legpipe_saved_determines.
Print Assumptions T17_legpipe_reinit_swap_differs.
