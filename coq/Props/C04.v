(* Property C04: compiled and pure-Python tensor kernels are observationally equivalent.
   Statements about the two ALGORITHMS of each kernel that exists twice (Model/KernelsPyCy.v); each model
   is bound to its own configuration by harness/c04.py (check_py on the pure-Python interpreter, check_cy on
   the interpreter with the extension rebuilt from the current .pyx).  Every proof is `exact <lemma>`. *)
From TenpyV Require Import Base.Prelude Model.KernelsPyCy Proofs.KernelsPyCyP.
Open Scope Z_scope.

(* numpy floor-mod  ==  C truncated % followed by the sign correction, for all charge matrices of every
   shape; moduli and charges assumed to fit int64 with head-room (no C wrap-around) *)
Theorem T04_make_valid : forall mods rows,
  Forall (fun m => 1 <= m < two62) mods ->
  Forall (Forall (fun q => - two62 < q < two62)) rows ->
  make_valid_cy mods rows = make_valid_py mods rows.
Proof. exact make_valid_eq. Qed.

(* column-major loops with early exit  ==  vectorised np.all, for every shape (no range hypothesis needed) *)
Theorem T04_check_valid : forall mods rows, check_valid_cy mods rows = check_valid_py mods rows.
Proof. exact check_valid_eq. Qed.

(* explicit scan with break  ==  np.nonzero of the padded change mask, for every (L, M) with L >= 1 or M = 0 *)
Theorem T04_find_row_differences : forall M rows,
  0 <= M -> Forall (fun r => length r = Z.to_nat M) rows -> (rows <> [] \/ M = 0) ->
  frd_cy M rows = frd_py M rows.
Proof. exact find_row_differences_eq. Qed.

(* ... and the restriction is necessary: on an array with no rows but M > 0 columns the two differ
   (py: [0], cy: [0, 0]); the witness is replayed on the code by harness/c04.py (known finding) *)
Theorem T04_find_row_differences_empty_refuted : exists M rows, 0 <= M /\ frd_cy M rows <> frd_py M rows.
Proof. exact find_row_differences_empty_differs. Qed.

(* C intp_t arithmetic  ==  Python integers stored into an intp array, whenever the number of blocks
   (product of the non-zero extents) fits int64; both storage orders, every rank >= 1 *)
Theorem T04_make_stride : forall shape cstyle,
  shape <> [] -> Forall (fun d => 0 <= d) shape -> prodZ (map (Z.max 1) shape) < two63 ->
  make_stride_cy shape cstyle = make_stride_py shape cstyle.
Proof. exact make_stride_eq. Qed.

(* filling a preallocated index array  ==  concatenating constant pieces, every number of blocks *)
Theorem T04_map_blocks : forall bs, Forall (fun b => 0 <= b) bs -> map_blocks_cy bs = map_blocks_py bs.
Proof. exact map_blocks_eq. Qed.

(* non-vacuity: negative charges, Z_3 and U(1) mixed; an invalid and a valid table; repeated rows; strides *)
Example T04_example_make_valid :
  make_valid_cy [3; 1; 5] [[-4; -7; 12]; [5; 2; -1]] = [[2; -7; 2]; [2; 2; 4]]
  /\ make_valid_py [3; 1; 5] [[-4; -7; 12]; [5; 2; -1]] = [[2; -7; 2]; [2; 2; 4]].
Proof. vm_compute. split; reflexivity. Qed.
Example T04_example_check_valid :
  check_valid_cy [3; 1] [[2; -9]; [3; 0]] = false /\ check_valid_cy [3; 1] [[2; -9]; [0; 7]] = true.
Proof. vm_compute. split; reflexivity. Qed.
Example T04_example_find_row_differences :
  frd_cy 2 [[0; 1]; [0; 1]; [1; 1]; [1; 1]; [1; 0]] = [0; 2; 4; 5]
  /\ frd_py 2 [[0; 1]; [0; 1]; [1; 1]; [1; 1]; [1; 0]] = [0; 2; 4; 5].
Proof. vm_compute. split; reflexivity. Qed.
Example T04_example_make_stride :
  make_stride_cy [2; 3; 4] true = Some [12; 4; 1] /\ make_stride_py [2; 3; 4] false = Some [1; 2; 6].
Proof. vm_compute. split; reflexivity. Qed.
(* outside the stated range the two really differ: C wraps, Python raises *)
Example T04_example_make_stride_overflow :
  make_stride_py [1; two62; 4] true = None /\ make_stride_cy [1; two62; 4] true = Some [0; 4; 1].
Proof. vm_compute. split; reflexivity. Qed.
Example T04_example_map_blocks : map_blocks_cy [2; 0; 3] = [0; 0; 2; 2; 2].
Proof. vm_compute. reflexivity. Qed.

Print Assumptions T04_make_valid.
Print Assumptions T04_check_valid.
Print Assumptions T04_find_row_differences.
Print Assumptions T04_find_row_differences_empty_refuted.
Print Assumptions T04_make_stride.
Print Assumptions T04_map_blocks.
