(* Property C04: compiled and pure-Python tensor kernels are observationally equivalent.
   Statements about the two ALGORITHMS of each kernel that exists twice (Model/KernelsPyCy.v); each model
   is bound to its own configuration by harness/c04.py (check_py on the pure-Python interpreter, check_cy on
   the interpreter with the extension rebuilt from the current .pyx).  Every proof is `exact <lemma>`. *)
From TenpyV Require Import Base.Prelude Model.KernelsPyCy Proofs.KernelsPyCyP.
From TenpyV Require Import Model.KernelsPyCy2 Model.KernelsPyCy3 Model.KernelsPyCy2Check.
From TenpyV Require Import Proofs.KernelsPyCyP2 Proofs.KernelsPyCyP3 Proofs.KernelsPyCyP4 Proofs.KernelsPyCyP5.
Open Scope Z_scope.

(* numpy floor-mod  ==  C truncated % followed by the sign correction, for all charge matrices of every
   shape; moduli and charges assumed to fit int64 with head-room (no C wrap-around) *)
Theorem T04_make_valid : forall mods rows,
  Forall (fun m => 1 <= m < two62) mods ->
  Forall (Forall (fun q => - two62 < q < two62)) rows ->
  make_valid_cy mods rows = make_valid_py mods rows.
Proof. exact make_valid_eq. Qed.

(* column-major loops with early exit  ==  vectorised np.all, for every shape (no range hypothesis needed) *)
Theorem T04_check_valid : forall mods rows, check_valid_cy mods rows = check_valid_py mods rows.
Proof. exact check_valid_eq. Qed.

(* explicit scan with break  ==  np.nonzero of the padded change mask, for every (L, M), including L = 0 *)
Theorem T04_find_row_differences : forall M rows,
  0 <= M -> Forall (fun r => length r = Z.to_nat M) rows ->
  frd_cy M rows = frd_py M rows.
Proof. exact find_row_differences_eq. Qed.

(* C intp_t arithmetic  ==  Python integers stored into an intp array, whenever the number of blocks
   (product of the non-zero extents) fits int64; both storage orders, every rank >= 1 *)
Theorem T04_make_stride : forall shape cstyle,
  shape <> [] -> Forall (fun d => 0 <= d) shape -> prodZ (map (Z.max 1) shape) < two63 ->
  make_stride_cy shape cstyle = make_stride_py shape cstyle.
Proof. exact make_stride_eq. Qed.

(* filling a preallocated index array  ==  concatenating constant pieces, every number of blocks *)
Theorem T04_map_blocks : forall bs, Forall (fun b => 0 <= b) bs -> map_blocks_cy bs = map_blocks_py bs.
Proof. exact map_blocks_eq. Qed.

(* non-vacuity: negative charges, Z_3 and U(1) mixed; an invalid and a valid table; repeated rows; strides *)
Example T04_example_make_valid :
  make_valid_cy [3; 1; 5] [[-4; -7; 12]; [5; 2; -1]] = [[2; -7; 2]; [2; 2; 4]]
  /\ make_valid_py [3; 1; 5] [[-4; -7; 12]; [5; 2; -1]] = [[2; -7; 2]; [2; 2; 4]].
Proof. vm_compute. split; reflexivity. Qed.
Example T04_example_check_valid :
  check_valid_cy [3; 1] [[2; -9]; [3; 0]] = false /\ check_valid_cy [3; 1] [[2; -9]; [0; 7]] = true.
Proof. vm_compute. split; reflexivity. Qed.
Example T04_example_find_row_differences :
  frd_cy 2 [[0; 1]; [0; 1]; [1; 1]; [1; 1]; [1; 0]] = [0; 2; 4; 5]
  /\ frd_py 2 [[0; 1]; [0; 1]; [1; 1]; [1; 1]; [1; 0]] = [0; 2; 4; 5].
Proof. vm_compute. split; reflexivity. Qed.
Example T04_example_make_stride :
  make_stride_cy [2; 3; 4] true = Some [12; 4; 1] /\ make_stride_py [2; 3; 4] false = Some [1; 2; 6].
Proof. vm_compute. split; reflexivity. Qed.
(* outside the stated range the two really differ: C wraps, Python raises *)
Example T04_example_make_stride_overflow :
  make_stride_py [1; two62; 4] true = None /\ make_stride_cy [1; two62; 4] true = Some [0; 4; 1].
Proof. vm_compute. split; reflexivity. Qed.
Example T04_example_map_blocks : map_blocks_cy [2; 0; 3] = [0; 0; 2; 2; 2].
Proof. vm_compute. reflexivity. Qed.


(* =====================================================================================================
   Further kernels (Model/KernelsPyCy2.v, Model/KernelsPyCy3.v), hand transcriptions of the two sources.
   Tie to the code: every model of this group is evaluated by harness/c04.py against its own configuration on
   every run: init_from_legs_py/_cy and sliced_copy_py/_cy by Model/KernelsPyCy2Check.v (check2_py / check2_cy on
   the 'pipe' and 'sliced_copy' kernel cases); iadd_merge_py/_cy and itranspose_py/_cy by
   Model/KernelsPyCy3Check.v (check3_py / check3_cy): 'merge' cases record the _qdata tables of both operands as
   the loop of iadd_prefactor_other sees them (lexsorted by isort_qdata, or -- a quarter of the cases -- unsorted
   with the sorted flag forced), the resulting _qdata and, through marker values in the blocks, which operand(s)
   contributed each output row; 'itrans' cases record legs (identities), labels, _qdata, every block (buffer,
   shape, element strides) and the sorted flag before and after Array.itranspose (or the ValueError), incl. Arrays
   with a duplicated label, where the two models predict different behaviour.  (b) reuses the
   correspondence-checked make_valid / _find_row_differences models. *)

(* ---- (d) block merge of iadd_prefactor_other: py Array.ibinary_blockwise (append to lists) vs cy
   Array_iadd_prefactor_other (rows written into a preallocated (Na+Nb, rank) table, truncated at the end);
   same (qdata rows, which-operands) sequence for ANY two tables of rank-long rows, any uninitialised filler *)
Theorem T04_iadd_merge : forall junk rank stride aq bq,
  Forall (fun r => length r = rank) aq -> Forall (fun r => length r = rank) bq ->
  iadd_merge_cy junk rank stride aq bq = iadd_merge_py stride aq bq.
Proof. exact iadd_merge_eq. Qed.

(* the `assert False` branch is unreachable and Na+Nb iterations suffice, sorted or not *)
Theorem T04_iadd_merge_total : forall stride aq bq, iadd_merge_py stride aq bq <> None.
Proof. exact iadd_merge_total. Qed.

(* "F-style strides to preserve sorting": on in-range rows the key sum(q * stride) orders exactly like
   np.lexsort(qdata.T) (last column primary) *)
Theorem T04_fkey_order : forall shape r1 r2, in_bounds shape r1 -> in_bounds shape r2 ->
  (fkey (fstrides shape) r1 < fkey (fstrides shape) r2 <-> lexlt r1 r2).
Proof. exact fkey_lt_iff. Qed.

(* on two lexsorted tables the result uses every block of each operand exactly once and in order, every output
   row is the row of the operand(s) its tag names (Both i j: aq[i] = bq[j]), and the output is lexsorted without
   duplicates -- hence OnlyA/OnlyB rows do not occur in the other operand; includes the fast path aq == bq *)
Theorem T04_iadd_merge_spec : forall shape aq bq,
  Forall (in_bounds shape) aq -> Forall (in_bounds shape) bq -> lexsorted aq -> lexsorted bq ->
  exists q w, iadd_merge_py (fstrides shape) aq bq = Some (q, w)
    /\ a_indices w = seq 0 (length aq) /\ b_indices w = seq 0 (length bq)
    /\ Forall2 (row_ok aq bq) q w
    /\ Forall (in_bounds shape) q /\ lexsorted q /\ NoDup q.
Proof. exact iadd_merge_spec. Qed.

(* ... and the sort is necessary: fed a table that is not lexsorted (what _qdata is after a transposition; the
   compiled version used to sort BEFORE transposing) the merge emits a duplicated block row *)
Theorem T04_iadd_merge_unsorted_refuted :
  exists shape aq bq q w, Forall (in_bounds shape) aq /\ Forall (in_bounds shape) bq /\ lexsorted bq
    /\ iadd_merge_py (fstrides shape) aq bq = Some (q, w) /\ ~ NoDup q.
Proof. exact iadd_merge_unsorted_dup. Qed.

(* ---- (b) LegPipe._init_from_legs: block sizes (np.prod of fancy-indexed vectors vs in-place *= loops), fused
   charges (np.sum + numpy floor-mod vs _partial_qtotal accumulation + C remainder), q_map[:, 2] (zeros /
   idx[1:-1] = 1 / cumsum vs run-filling loops), the two slice columns (vectorised subtraction vs loops), bunch
   through _find_row_differences: same q_map, q_map_slices, charges, slices and permutation for ANY number of
   legs / blocks / charges, any sorter returning in-range row numbers, any filler of the uninitialised q_map.
   Integer sums/products are mathematical (numpy and C wrap identically); the remainder is modelled with wrap. *)
Theorem T04_init_from_legs : forall lexsort : list (list Z) -> list nat,
  (forall t, length (lexsort t) = length t) ->
  (forall t, Forall (fun p => (p < length t)%nat) (lexsort t)) ->
  forall junk mods qconj legs gridT sort bunch,
  gridT <> [] ->
  Forall (fun m => 1 <= m < two62) mods ->
  Forall (Forall (fun q => - two62 < q < two62)) (charges_raw_py (length mods) qconj legs gridT) ->
  init_from_legs_cy lexsort junk mods qconj legs gridT sort bunch
  = init_from_legs_py lexsort mods qconj legs gridT sort bunch.
Proof. exact init_from_legs_eq. Qed.

(* ---- (a) _sliced_copy: numpy strided slice assignment vs pointer offsets + memcpy of the last axis + 1/2/3
   explicit dimensions + recursion three dimensions at a time; every ndim >= 1, every element type *)
Theorem T04_sliced_copy : forall (A : Type) (dflt : A) src dest dstr dbeg sstr sbeg shape,
  shape <> [] ->
  length dstr = length shape -> length sstr = length shape ->
  length dbeg = length shape -> length sbeg = length shape ->
  last_ok shape dstr sstr ->
  sliced_copy_cy dflt src dest dstr dbeg sstr sbeg shape = sliced_copy_py dflt src dest dstr dbeg sstr sbeg shape.
Proof. exact (@sliced_copy_eq). Qed.

(* C-contiguous operands (the documented precondition) satisfy the stride hypothesis *)
Theorem T04_sliced_copy_contiguous : forall (A : Type) (dflt : A) src dest dshape sshape dbeg sbeg shape,
  shape <> [] ->
  length dshape = length shape -> length sshape = length shape ->
  length dbeg = length shape -> length sbeg = length shape ->
  sliced_copy_cy dflt src dest (cstrides dshape) dbeg (cstrides sshape) sbeg shape
  = sliced_copy_py dflt src dest (cstrides dshape) dbeg (cstrides sshape) sbeg shape.
Proof. exact (@sliced_copy_eq_contiguous). Qed.

(* ndim = 0 is excluded for a reason: numpy copies the element, the compiled code returns at `if ndim < 1`
   (reproduced on the code: charges._sliced_copy(np.array(1.), e, np.array(7.), e, e), e = empty intp array,
   gives 7. with TENPY_NO_CYTHON=1 and leaves 1. with the extension; not reachable from Array methods) *)
Theorem T04_sliced_copy_rank0_refuted :
  exists (src dest : list Z),
    sliced_copy_cy 0 src dest [] [] [] [] [] <> sliced_copy_py 0 src dest [] [] [] [] [].
Proof. exact sliced_copy_rank0_differs. Qed.

(* ---- (c) itranspose: list comprehensions + validating iset_leg_labels + strided block VIEWS vs append loop
   without validation + C-contiguous block COPIES: same legs, labels, _qdata, flag reset, and the same shape and
   elements of every block (memory layout is not observed), same ValueError for bad axes, same early exit for
   the identity -- for every Array whose labels are valid (the class invariant), every rank and block shape *)
Theorem T04_itranspose : forall a axes,
  labels_valid (a_labels a) = true -> length (a_labels a) = length (a_legs a) ->
  opt_obs_eq (itranspose_cy a axes) (itranspose_py a axes).
Proof. exact itranspose_eq. Qed.

(* with valid axes the python side does not raise, permutes legs / labels / _qdata columns and resets the flag *)
Theorem T04_itranspose_py_ok : forall a axes,
  labels_valid (a_labels a) = true -> length (a_labels a) = length (a_legs a) ->
  axes_ok (length (a_legs a)) axes = true ->
  exists r, itranspose_py a axes = Some r
    /\ (axes <> seq 0 (length (a_legs a)) ->
        a_sorted r = false /\ a_legs r = pick 0%nat (a_legs a) axes /\ a_labels r = pick None (a_labels a) axes
        /\ a_qdata r = map (fun row => pick 0 row axes) (a_qdata a)).
Proof. exact itranspose_py_ok. Qed.

(* the invariant is needed: on an Array with a duplicated label python raises, the compiled version permutes *)
Theorem T04_itranspose_invalid_labels_refuted :
  exists a axes, length (a_labels a) = length (a_legs a) /\ itranspose_py a axes = None /\ itranspose_cy a axes <> None.
Proof. exact itranspose_invalid_labels_differ. Qed.

(* non-vacuity / worked values *)
Example T04_example_iadd_merge :
  iadd_merge_cy 99 2 (fstrides [2; 3]) [[0; 0]; [1; 1]; [0; 2]] [[1; 0]; [1; 1]]
  = Some ([[0; 0]; [1; 0]; [1; 1]; [0; 2]], [OnlyA 0%nat; OnlyB 0%nat; Both 1%nat 1%nat; OnlyA 2%nat])
  /\ lexsorted [[0; 0]; [1; 1]; [0; 2]] /\ lexsorted [[1; 0]; [1; 1]]
  /\ Forall (in_bounds [2; 3]) [[0; 0]; [1; 1]; [0; 2]] /\ Forall (in_bounds [2; 3]) [[1; 0]; [1; 1]].
Proof.
  split; [vm_compute; reflexivity|].
  split; [cbn; split; [left; right; split; [reflexivity|lia]|split; [left; right; split; [reflexivity|lia]|exact I]]|].
  split; [cbn; split; [left; right; split; [reflexivity|lia]|exact I]|].
  split; repeat constructor; cbn; lia.
Qed.
(* the values tenpy prints for LegPipe([l1, l2], qconj=-1), ChargeInfo([1, 3]), l1 = (+1, charges
   [[0,0],[1,2],[2,1]], block sizes [1,2,1]), l2 = (-1, [[0,1],[1,0]], [2,1]) in both configurations *)
Example T04_example_init_from_legs :
  let legs := [mkPleg 1 [[0; 0]; [1; 2]; [2; 1]] [1; 2; 1]; mkPleg (-1) [[0; 1]; [1; 0]] [2; 1]] in
  let gridT := [[0; 0]; [0; 1]; [1; 0]; [1; 1]; [2; 0]; [2; 1]] in
  init_from_legs_cy lexsort_ins 99 [1; 3] (-1) legs gridT true true
  = mkPO [[0; 2; 0; 2; 0]; [0; 1; 1; 0; 1]; [0; 2; 2; 0; 0]; [2; 4; 2; 1; 1]; [0; 4; 3; 1; 0]; [4; 5; 3; 2; 1]]
         [0; 1; 2; 4; 6] [[-2; 0]; [1; 0]; [0; 1]; [-1; 2]] [0; 2; 3; 7; 12]
         (Some [4; 1; 0; 3; 2; 5]%nat)
  /\ po_qmap_slices (init_from_legs_py lexsort_ins [1; 3] (-1) legs gridT true false) = [0; 1; 2; 3; 4; 5; 6]
  /\ (forall t, length (lexsort_ins t) = length t)
  /\ (forall t, Forall (fun p => (p < length t)%nat) (lexsort_ins t)).
Proof.
  split; [vm_compute; reflexivity|]. split; [vm_compute; reflexivity|].
  split; [exact lexsort_ins_len|exact lexsort_ins_rng].
Qed.
(* dest[1:3, 0:2] = src[0:2, 1:3] for dest 3x4, src 2x3; a 4-dimensional copy through the recursive branch *)
Example T04_example_sliced_copy :
  sliced_copy_cy 0 [0; 1; 2; 3; 4; 5] (repeat (-1) 12) (cstrides [3; 4]%nat) [1; 0]%nat (cstrides [2; 3]%nat) [0; 1]%nat [2; 2]%nat
  = [-1; -1; -1; -1; 1; 2; -1; -1; 4; 5; -1; -1]
  /\ sliced_copy_cy 0 [1; 2; 3; 4; 5; 6; 7; 8] (repeat 0 24) (cstrides [2; 1; 3; 4]%nat) [0; 0; 1; 2]%nat
                    (cstrides [2; 1; 2; 2]%nat) [0; 0; 0; 0]%nat [2; 1; 2; 2]%nat
     = [0; 0; 0; 0; 0; 0; 1; 2; 0; 0; 3; 4; 0; 0; 0; 0; 0; 0; 5; 6; 0; 0; 7; 8].
Proof. split; vm_compute; reflexivity. Qed.
(* a rank-3 Array with one 1x2x3 block, labels ('a', None, 'b'), transposed with axes (2, 0, 1) *)
Example T04_example_itranspose :
  let a := mkArr [10; 11; 12]%nat [Some 1; None; Some 2]%nat [[0; 1; 2]]
                 [mkView [1; 2; 3; 4; 5; 6] [1; 2; 3]%nat [6; 3; 1]%nat] true in
  labels_valid (a_labels a) = true
  /\ option_map arr_obs (itranspose_cy a [2; 0; 1]%nat)
     = Some ([12; 10; 11]%nat, [Some 2; Some 1; None]%nat, [[2; 0; 1]], [([3; 1; 2]%nat, [1; 4; 2; 5; 3; 6])], false)
  /\ option_map (fun r => map v_strides (a_blocks r)) (itranspose_py a [2; 0; 1]%nat) = Some [[1; 6; 3]%nat]
  /\ option_map (fun r => map v_strides (a_blocks r)) (itranspose_cy a [2; 0; 1]%nat) = Some [[2; 2; 1]%nat].
Proof. vm_compute. repeat split; reflexivity. Qed.

Print Assumptions T04_make_valid.
Print Assumptions T04_check_valid.
Print Assumptions T04_find_row_differences.
Print Assumptions T04_make_stride.
Print Assumptions T04_map_blocks.
Print Assumptions T04_iadd_merge.
Print Assumptions T04_iadd_merge_total.
Print Assumptions T04_fkey_order.
Print Assumptions T04_iadd_merge_spec.
Print Assumptions T04_iadd_merge_unsorted_refuted.
Print Assumptions T04_init_from_legs.
Print Assumptions T04_sliced_copy.
Print Assumptions T04_sliced_copy_contiguous.
Print Assumptions T04_sliced_copy_rank0_refuted.
Print Assumptions T04_itranspose.
Print Assumptions T04_itranspose_py_ok.
Print Assumptions T04_itranspose_invalid_labels_refuted.
