(* Property C07: an MPS always denotes the state it was built from -- the discrete core:
   index arithmetic of MPSGeometry and the form algebra (labels vs actual exponents of the stored tensors).
   Only statements; proofs are in Proofs/MpsIndexP.v and Proofs/MpsFormP.v.  The numerical claims (QR/SVD results,
   Schmidt values) are checked by the oracle of harness/c07.py, not proved. *)
From TenpyV Require Import Base.Prelude Model.MpsIndex Model.MpsForm Proofs.MpsIndexP Proofs.MpsFormP.
From TenpyV Require Import Model.MpsDenote Proofs.MpsDenoteP Model.MpsDenoteCheck Proofs.MpsDenoteCheckP.
From TenpyV Require Import Model.Charge Model.Tensor Model.TensorOps Model.MpsProduct Proofs.MpsProductP.
Open Scope Z_scope.

(* infinite bc: site i lives at position i mod L of unit cell i div L; its left bond has the same address, its
   right bond is the left bond of site i+1 (possibly in the next cell); every unit-cell length L > 0, every integer i *)
Theorem T07_index_infinite : forall L i, 0 < L ->
  to_valid_site_index false L i = Some (i mod L, i / L) /\
  0 <= i mod L < L /\ i = (i / L) * L + i mod L /\
  to_valid_bond_index false L i true = Some (i mod L, i / L) /\
  to_valid_bond_index false L i false = Some ((i + 1) mod L, (i + 1) / L).
Proof. exact index_infinite. Qed.

Theorem T07_index_infinite_periodic : forall L i k, 0 < L ->
  to_valid_site_index false L (i + k * L) = Some (i mod L, i / L + k).
Proof. exact index_infinite_periodic. Qed.

(* finite / segment bc: indices outside [-L, L) are rejected, [0, L) is the identity (right bond = i+1, never wrapped),
   and the deprecated window [-L, 0) is accepted as i + L -- as the code has it *)
Theorem T07_index_finite_rejects : forall L i, 0 < L ->
  (i < - L \/ L <= i -> to_valid_site_index true L i = None /\
                         to_valid_bond_index true L i true = None /\ to_valid_bond_index true L i false = None) /\
  (0 <= i < L -> to_valid_site_index true L i = Some (i, 0) /\
                 to_valid_bond_index true L i true = Some (i, 0) /\
                 to_valid_bond_index true L i false = Some (i + 1, 0)) /\
  (- L <= i < 0 -> to_valid_site_index true L i = Some (i + L, 0)).
Proof. exact index_finite_rejects. Qed.

(* "the label tells the truth" is an invariant of EVERY history of convert_form / set_B(get_B) / set_svd_theta /
   canonical_form / roll / enlarge / spatial_inversion (any length of the chain, any number of operations) *)
Theorem T07_label_truthful : forall fin ops st st',
  Forall truthful st -> run_ops fin ops st = Some st' -> Forall truthful st'.
Proof. exact label_truthful. Qed.

(* get_theta(i, n, formL, formR) on canonically labelled sites: exponent formL on the left end, exactly 1 (= 2 half
   units) on each of the n-1 inner bonds, formR on the right end -- any n >= 2, any stored forms, any window
   (for infinite bc also across the unit-cell boundary); n = 1 as documented: s^formL Gamma s^formR *)
Theorem T07_theta_exponents : forall fin st i n ss fL fR,
  Forall canonical st -> window fin st i n = Some ss ->
  ((2 <= n)%nat -> get_theta fin st i n fL fR = Some (fL, repeat 2 (n - 1), fR)) /\
  (n = 1%nat -> get_theta fin st i n fL fR = Some (fL, [], fR)).
Proof. exact theta_exponents. Qed.

Theorem T07_window_infinite : forall st, st <> [] -> forall n i, exists ss, window false st i n = Some ss.
Proof. exact window_infinite. Qed.

(* ---- the form algebra with VALUES (Model/MpsDenote.v).  M = matrices for a fixed physical index (an abstract monoid),
   sv b e = s_b^(e/2) a group homomorphism (Z,+) -> M for every bond b (the law at negative exponents = "no zero
   singular values"; the cutoff pseudo-inverse of _scale_axis_B for a 2D S is not modelled).  A valued site is a site of
   MpsForm.v plus its stored tensor; vget_B multiplies S^(new - LABEL) on each side exactly like get_B_act adds
   (new - LABEL) to the exponents.  For EVERY history of form conversions (convert_form with any list of forms,
   set_B(i, get_B(i, f), f) at any integer site index i, i.e. in any unit cell for infinite bc), any chain length, any
   stored forms (also sites labelled None, which no conversion touches), if the labels are truthful at the start:
     - forgetting the values, the history is the history of Model/MpsForm.v (the correspondence-checked model),
     - the labels stay truthful and every stored tensor stays s^nuL Gamma s^nuR with the SAME Gamma,
     - psi.get_B(i, f) returns the same tensor before and after, for every i and every full form f,
     - hence the dense object of every window (product of get_B(j, 'B'), exponent exactly 1 on every bond between
       and to the right of its sites) and of the whole chain / unit cell is unchanged.
   psi.norm is never touched by these operations (it is not part of the model state).
   TIE: the functions of Model/MpsDenote.v are executed against the implementation in the correspondence stream
   `valued` of harness/c07.py (Model/MpsDenoteCheck.v: M = dyadic tensors / diagonal matrices 2^(k_j e), s_j = 4^(k_j)):
   every step of random histories of convert_form([...]) / set_B(i, get_B(i, f), f) (named and custom forms, sites
   labelled None, any integer i for infinite bc, deprecated negative / out-of-range i for finite bc) is recomputed with
   vapply_op and ALL entries of ALL stored tensors plus the labels are compared exactly (also: raises iff the model is
   undefined); probes get_B(i, form) incl. partial forms against vget_B_at; get_theta(i, n, formL=0, formR=1) on windows
   (across the unit-cell boundary; the whole chain / unit cell) against window_den. *)
Theorem T07_convert_preserves_denotation :
  forall (M : Type) (mul : M -> M -> M) (one : M) (sv : Z -> Z -> M),
  (forall a b c : M, mul a (mul b c) = mul (mul a b) c) ->
  (forall a : M, mul one a = a) -> (forall a : M, mul a one = a) ->
  (forall b : Z, sv b 0 = one) ->
  (forall b x y : Z, sv b (x + y) = mul (sv b x) (sv b y)) ->
  forall (fin : bool) (ops : list fop) (st st' : vmps M),
  Forall truthful (erase M st) ->
  vrun_ops M mul sv fin ops st = Some st' ->
  run_ops fin ops (erase M st) = Some (erase M st') /\
  Forall truthful (erase M st') /\
  (forall G : nat -> M, denotes M mul sv fin G st -> denotes M mul sv fin G st') /\
  (forall (i : Z) (f : form), vget_B_at M mul sv fin st' i (full f) = vget_B_at M mul sv fin st i (full f)) /\
  (forall (i : Z) (n : nat), window_den M mul sv fin st' i n = window_den M mul sv fin st i n) /\
  chain_den M mul sv fin st' = chain_den M mul sv fin st.
Proof. exact convert_preserves_denotation. Qed.

(* every stored chain has Gammas (this is where the inverse scalings are needed) *)
Theorem T07_denotes_exists :
  forall (M : Type) (mul : M -> M -> M) (one : M) (sv : Z -> Z -> M),
  (forall a b c : M, mul a (mul b c) = mul (mul a b) c) ->
  (forall a : M, mul one a = a) -> (forall a : M, mul a one = a) ->
  (forall b : Z, sv b 0 = one) ->
  (forall b x y : Z, sv b (x + y) = mul (sv b x) (sv b y)) ->
  forall (fin : bool) (st : vmps M), exists G : nat -> M, denotes M mul sv fin G st.
Proof. exact denotes_exists. Qed.

(* on canonically labelled sites get_B(i, (f1, f2)) IS s^f1 Gamma s^f2 whatever the stored form is, with the bonds
   bondL p = p, bondR p = p+1 (finite) resp. (p+1) mod L (infinite: the right bond of the last site is bond 0 of the
   next cell), and the window object is Gamma s Gamma s ... (gamma_window) *)
Theorem T07_get_B_closed_form :
  forall (M : Type) (mul : M -> M -> M) (one : M) (sv : Z -> Z -> M),
  (forall a b c : M, mul a (mul b c) = mul (mul a b) c) ->
  (forall a : M, mul one a = a) -> (forall a : M, mul a one = a) ->
  (forall b : Z, sv b 0 = one) ->
  (forall b x y : Z, sv b (x + y) = mul (sv b x) (sv b y)) ->
  forall (fin : bool) (G : nat -> M) (st : vmps M) (i : Z) (p : nat) (f : form),
  Forall canonical (erase M st) -> denotes M mul sv fin G st ->
  site_pos fin (erase M st) i = Some p -> (p < length st)%nat ->
  vget_B_at M mul sv fin st i (full f) =
    Some (mul (mul (sv (bondL p) (fst f)) (G p)) (sv (bondR fin (vlen M st) p) (snd f))).
Proof. exact get_B_closed_form. Qed.

Theorem T07_window_den_closed :
  forall (M : Type) (mul : M -> M -> M) (one : M) (sv : Z -> Z -> M),
  (forall a b c : M, mul a (mul b c) = mul (mul a b) c) ->
  (forall a : M, mul one a = a) -> (forall a : M, mul a one = a) ->
  (forall b : Z, sv b 0 = one) ->
  (forall b x y : Z, sv b (x + y) = mul (sv b x) (sv b y)) ->
  forall (fin : bool) (G : nat -> M) (st : vmps M),
  Forall canonical (erase M st) -> denotes M mul sv fin G st -> 0 < vlen M st ->
  forall (n : nat) (i : Z), (0 < n)%nat -> (fin = true -> 0 <= i /\ i + Z.of_nat n <= vlen M st) ->
  window_den M mul sv fin st i n = Some (gamma_window M mul sv one fin (vlen M st) G i n).
Proof. exact window_den_closed. Qed.

(* the bonds used above are the ones MPS.get_SL(i) / get_SR(i) address (Model/MpsIndex.v) *)
Theorem T07_bond_address : forall (fin : bool) (st : mps) (i : Z) (p : nat),
  0 < len st -> site_pos fin st i = Some p ->
  exists c c' : Z, to_valid_bond_index fin (len st) i true = Some (bondL p, c) /\
                   to_valid_bond_index fin (len st) i false = Some (bondR fin (len st) p, c').
Proof. exact bond_address. Qed.

(* the values never make a conversion fail that the form model accepts *)
Theorem T07_convert_progress :
  forall (M : Type) (mul : M -> M -> M) (sv : Z -> Z -> M) (fin : bool) (op : fop) (st : vmps M) (r : mps),
  is_conv op = true -> apply_op fin op (erase M st) = Some r ->
  exists st' : vmps M, vapply_op M mul sv fin op st = Some st'.
Proof. exact vapply_progress. Qed.

(* ---- the CONCRETE structure that is executed against the implementation in the stream `valued`
   (Model/MpsDenoteCheck.v: tensors with dyadic entries (m, k) = m 2^k, s_j = 4^(k_j), sv b e = diag 2^(k_j e),
   xmul = row / column scaling) is not a monoid with a global unit, so it is not literally an instance of the
   hypotheses of T07_convert_preserves_denotation; the consequences that theorem draws hold for it by Leibniz equality,
   for every site, every list of singular-value exponents (any lengths), every stored label l and tensor t:
   set_B(i, get_B(i, f), f) succeeds, relabels the site f, and afterwards get_B(i, g) returns EXACTLY the tensor it
   returned before, for every g (path independence of the scalings: S^(f-l) then S^(g-f) is S^(g-l), left and right
   scalings commute); and if the tensor fits its bonds, converting back to l restores the stored tensor exactly. *)
Theorem T07_valued_instance_invariant :
  forall (svlog : list (list Z)) (bl br : Z) (l a : form) (pd cl cr : Z) (t : tens) (f : form),
  exists s' : vsite xm,
    vconv xm xmul (xsv svlog) bl br (mkSite (Some l) a pd cl cr, XT t) f = Some s' /\
    lab (fst s') = Some f /\
    (forall g : form,
       vget_B xm xmul (xsv svlog) bl br s' (full g) =
       vget_B xm xmul (xsv svlog) bl br (mkSite (Some l) a pd cl cr, XT t) (full g)) /\
    ((length t <= length (ksof svlog bl))%nat -> fits_cols (length (ksof svlog br)) t ->
     exists s'' : vsite xm, vconv xm xmul (xsv svlog) bl br s' l = Some s'' /\ snd s'' = XT t /\ lab (fst s'') = Some l).
Proof. exact valued_instance_invariant. Qed.

(* ---- from_product_state at the level of charges (Model/MpsProduct.v; integer local states, any number of sites,
   any ChargeInfo with mods >= 1, any site legs, any chargeL), both for finite/segment (fin = true) and infinite bc:
   one tensor per site with legs (vL, site.leg, vR), its single block at (0, block of the chosen state, 0); every
   tensor is well-formed (WF of Model/Tensor.v: in particular the charge rule, with qtotal 0 for finite bc), all bond
   dimensions are 1 with qconj +1 / -1; neighbouring bond legs are contractible (`linked`), for infinite bc also the
   last right leg with the first left leg (after the gauge_total_charge of the last tensor); and
   get_total_charge (finite: only_physical_legs=True; infinite: the plain sum of the qtotal) is the sum of the
   charges of the chosen local states, make_valid'ed.  The model is replayed against MPS.from_product_state in the
   correspondence stream `product` of harness/c07.py (Model/MpsProductCheck.v). *)
Theorem T07_product_state : forall fin ci chargeL sites,
  valid_ci ci -> length chargeL = length ci -> sites <> [] ->
  let Bs := from_product_state fin ci chargeL sites in
  length Bs = length sites /\
  map (fun B => (nth 1 (legs B) dleg, rows B)) Bs = map (fun s => (pleg s, [[0%nat; pq s; 0%nat]])) sites /\
  Forall (fun B => WF ci B /\ site_shape B) Bs /\
  linked ci Bs /\
  (fin = false -> contractible ci (legR_of (last Bs darr)) (legL_of (hd darr Bs))) /\
  (fin = true -> Forall (fun B => qtot B = zero_charge ci) Bs) /\
  get_total_charge ci fin Bs = make_valid ci (qsum ci sites).
Proof. exact product_state_charges. Qed.

(* hypotheses are satisfiable / the functions do something *)
Definition ex_st : mps := [mkSite (Some fA) fA 2 1 2; mkSite (Some fC) fC 3 2 2; mkSite (Some fB) fB 2 2 1].
Example ex_history :
  run_ops false [OConvert [fG; fTh; fA]; OSetBScaled 4 fC; ORoll 1; OSetSvdTheta 2; OInversion; OEnlarge 2] ex_st
  = Some (let a := mkSite (Some fB) fB 3 2 2 in let b := mkSite (Some fG) fG 2 2 1 in
          let c := mkSite (Some fA) fA 2 1 2 in [a; b; c; a; b; c]).
Proof. vm_compute. reflexivity. Qed.
Example ex_theta_wraps : get_theta false ex_st 2 3 0 2 = Some (0, [2; 2], 2).
Proof. vm_compute. reflexivity. Qed.
Example ex_index : to_valid_bond_index false 3 (-1) false = Some (0, 0) /\ to_valid_site_index true 3 3 = None.
Proof. vm_compute. split; reflexivity. Qed.

(* values: M = Z x Z with (a, k) standing for a * 2^k (1x1 matrices over Z[1/2]), s_b = 4^(b+1), sv b e = 2^((b+1) e) *)
Definition xmul (a b : Z * Z) : Z * Z := (fst a * fst b, snd a + snd b).
Definition xsv (b e : Z) : Z * Z := (1, (b + 1) * e).
Example ex_monoid_laws :
  (forall a b c, xmul a (xmul b c) = xmul (xmul a b) c) /\ (forall a, xmul (1, 0) a = a) /\ (forall a, xmul a (1, 0) = a) /\
  (forall b, xsv b 0 = (1, 0)) /\ (forall b x y, xsv b (x + y) = xmul (xsv b x) (xsv b y)).
Proof.
  unfold xmul, xsv. repeat split; intros; try destruct a as [a1 a2]; cbn [fst snd]; f_equal; lia.
Qed.
(* Gamma = 3, 5, 7 stored in the forms A, C, B of an infinite chain *)
Definition ex_vst : vmps (Z * Z) :=
  [(mkSite (Some fA) fA 2 1 2, (3, 2)); (mkSite (Some fC) fC 3 2 2, (5, 5)); (mkSite (Some fB) fB 2 2 1, (7, 2))].
Example ex_denotes : denotes (Z * Z) xmul xsv false (fun p => nth p [(3, 0); (5, 0); (7, 0)] (1, 0)) ex_vst /\
                     Forall truthful (erase (Z * Z) ex_vst).
Proof.
  split.
  - intros p s H. destruct p as [|[|[|p]]]; cbn in H; try (destruct p; discriminate); injection H as <-; reflexivity.
  - repeat constructor; intros f H; cbn in H; injection H as <-; reflexivity.
Qed.
Example ex_convert_history :
  exists st', vrun_ops (Z * Z) xmul xsv false [OConvert [fG; fTh; fA]; OSetBScaled 4 fC; OSetBScaled (-1) fG] ex_vst = Some st' /\
              map snd st' = [(3, 0); (5, 5); (7, 0)] /\
              chain_den (Z * Z) xmul xsv false st' = Some (105, 12) /\ chain_den (Z * Z) xmul xsv false ex_vst = Some (105, 12) /\
              window_den (Z * Z) xmul xsv false st' 2 3 = Some (105, 12).
Proof. eexists. vm_compute. repeat split; reflexivity. Qed.

(* the dyadic instance: a 2 x 2 x 1 tensor in form B between bonds with s = (4, 1/4) and s = (16); get_B(i, 'A') divides
   the right side by 16 and multiplies the rows by 4, 1/4 *)
Definition ex_svlog : list (list Z) := [[1; -1]; [2]].
Definition ex_tens : tens := [[[(3, 0)]; [(1, 0)]]; [[(5, 0)]; [(-2, 1)]]].
Example ex_valued_instance :
  vget_B xm MpsDenoteCheck.xmul (MpsDenoteCheck.xsv ex_svlog) 0 1 (mkSite (Some fB) fB 2 2 1, XT ex_tens) (full fA)
  = Some (XT [[[(3, 0 + 1 * 2 + 2 * -2)]; [(1, 0 + 1 * 2 + 2 * -2)]]; [[(5, 0 + -1 * 2 + 2 * -2)]; [(-2, 1 + -1 * 2 + 2 * -2)]]]) /\
  (length ex_tens <= length (ksof ex_svlog 0))%nat /\ fits_cols (length (ksof ex_svlog 1)) ex_tens.
Proof. split; [vm_compute; reflexivity|]. split; [cbn; lia|]. repeat constructor. Qed.

(* product state: U(1) x Z_2 charges, spin-1/2-like legs, state up, up, down with chargeL = (3, 1) *)
Definition ex_leg : leg := mkLeg [1%nat; 1%nat] [[1; 1]; [-1; 0]] 1.
Definition ex_sites : list psite := [mkPsite ex_leg 0 0; mkPsite ex_leg 0 0; mkPsite ex_leg 1 0].
Example ex_product_state :
  valid_ci [1; 2] /\
  map (fun B => (bch (legL_of B), bch (legR_of B), qtot B)) (from_product_state false [1; 2] [3; 1] ex_sites)
    = [([[3; 1]], [[4; 0]], [0; 0]); ([[4; 0]], [[5; 1]], [0; 0]); ([[5; 1]], [[3; 1]], [1; 0])] /\
  get_total_charge [1; 2] false (from_product_state false [1; 2] [3; 1] ex_sites) = [1; 0] /\
  get_total_charge [1; 2] true (from_product_state true [1; 2] [3; 1] ex_sites) = [1; 0].
Proof. split; [repeat constructor; lia|]. vm_compute. repeat split; reflexivity. Qed.

Print Assumptions T07_index_infinite.
Print Assumptions T07_index_infinite_periodic.
Print Assumptions T07_index_finite_rejects.
Print Assumptions T07_label_truthful.
Print Assumptions T07_theta_exponents.
Print Assumptions T07_window_infinite.
Print Assumptions T07_convert_preserves_denotation.
Print Assumptions T07_denotes_exists.
Print Assumptions T07_get_B_closed_form.
Print Assumptions T07_window_den_closed.
Print Assumptions T07_bond_address.
Print Assumptions T07_convert_progress.
Print Assumptions T07_valued_instance_invariant.
Print Assumptions T07_product_state.
