(* Property C07: an MPS always denotes the state it was built from -- the discrete core:
   index arithmetic of MPSGeometry and the form algebra (labels vs actual exponents of the stored tensors).
   Only statements; proofs are in Proofs/MpsIndexP.v and Proofs/MpsFormP.v.  The numerical claims (QR/SVD results,
   Schmidt values) are checked by the oracle of harness/c07.py, not proved. *)
From TenpyV Require Import Base.Prelude Model.MpsIndex Model.MpsForm Proofs.MpsIndexP Proofs.MpsFormP.
Open Scope Z_scope.

(* infinite bc: site i lives at position i mod L of unit cell i div L; its left bond has the same address, its
   right bond is the left bond of site i+1 (possibly in the next cell); every unit-cell length L > 0, every integer i *)
Theorem T07_index_infinite : forall L i, 0 < L ->
  to_valid_site_index false L i = Some (i mod L, i / L) /\
  0 <= i mod L < L /\ i = (i / L) * L + i mod L /\
  to_valid_bond_index false L i true = Some (i mod L, i / L) /\
  to_valid_bond_index false L i false = Some ((i + 1) mod L, (i + 1) / L).
Proof. exact index_infinite. Qed.

Theorem T07_index_infinite_periodic : forall L i k, 0 < L ->
  to_valid_site_index false L (i + k * L) = Some (i mod L, i / L + k).
Proof. exact index_infinite_periodic. Qed.

(* finite / segment bc: indices outside [-L, L) are rejected, [0, L) is the identity (right bond = i+1, never wrapped),
   and the deprecated window [-L, 0) is accepted as i + L -- as the code has it *)
Theorem T07_index_finite_rejects : forall L i, 0 < L ->
  (i < - L \/ L <= i -> to_valid_site_index true L i = None /\
                         to_valid_bond_index true L i true = None /\ to_valid_bond_index true L i false = None) /\
  (0 <= i < L -> to_valid_site_index true L i = Some (i, 0) /\
                 to_valid_bond_index true L i true = Some (i, 0) /\
                 to_valid_bond_index true L i false = Some (i + 1, 0)) /\
  (- L <= i < 0 -> to_valid_site_index true L i = Some (i + L, 0)).
Proof. exact index_finite_rejects. Qed.

(* "the label tells the truth" is an invariant of EVERY history of convert_form / set_B(get_B) / set_svd_theta /
   canonical_form / roll / enlarge / spatial_inversion (any length of the chain, any number of operations) *)
Theorem T07_label_truthful : forall fin ops st st',
  Forall truthful st -> run_ops fin ops st = Some st' -> Forall truthful st'.
Proof. exact label_truthful. Qed.

(* get_theta(i, n, formL, formR) on canonically labelled sites: exponent formL on the left end, exactly 1 (= 2 half
   units) on each of the n-1 inner bonds, formR on the right end -- any n >= 2, any stored forms, any window
   (for infinite bc also across the unit-cell boundary); n = 1 as documented: s^formL Gamma s^formR *)
Theorem T07_theta_exponents : forall fin st i n ss fL fR,
  Forall canonical st -> window fin st i n = Some ss ->
  ((2 <= n)%nat -> get_theta fin st i n fL fR = Some (fL, repeat 2 (n - 1), fR)) /\
  (n = 1%nat -> get_theta fin st i n fL fR = Some (fL, [], fR)).
Proof. exact theta_exponents. Qed.

Theorem T07_window_infinite : forall st, st <> [] -> forall n i, exists ss, window false st i n = Some ss.
Proof. exact window_infinite. Qed.

(* hypotheses are satisfiable / the functions do something *)
Definition ex_st : mps := [mkSite (Some fA) fA 2 1 2; mkSite (Some fC) fC 3 2 2; mkSite (Some fB) fB 2 2 1].
Example ex_history :
  run_ops false [OConvert [fG; fTh; fA]; OSetBScaled 4 fC; ORoll 1; OSetSvdTheta 2; OInversion; OEnlarge 2] ex_st
  = Some (let a := mkSite (Some fB) fB 3 2 2 in let b := mkSite (Some fG) fG 2 2 1 in
          let c := mkSite (Some fA) fA 2 1 2 in [a; b; c; a; b; c]).
Proof. vm_compute. reflexivity. Qed.
Example ex_theta_wraps : get_theta false ex_st 2 3 0 2 = Some (0, [2; 2], 2).
Proof. vm_compute. reflexivity. Qed.
Example ex_index : to_valid_bond_index false 3 (-1) false = Some (0, 0) /\ to_valid_site_index true 3 3 = None.
Proof. vm_compute. split; reflexivity. Qed.

Print Assumptions T07_index_infinite.
Print Assumptions T07_index_infinite_periodic.
Print Assumptions T07_index_finite_rejects.
Print Assumptions T07_label_truthful.
Print Assumptions T07_theta_exponents.
Print Assumptions T07_window_infinite.
