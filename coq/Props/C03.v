(* Property C03: operations never corrupt their operands or shared charge data.
   Statements about the store model Model/Store.v (heap of block buffers, _qdata tables, LegCharge objects
   and Array records; every operation writes exactly where the code writes).  The model is bound to the code
   by harness/c03.py: every generated history is replayed on the model (check_history) and the tensors whose
   observable value changed in the implementation must be among those the model allows to change.
   Every proof is `exact <lemma>` or an instance of the central frame lemma. *)
From TenpyV Require Import Base.Prelude Model.Store Proofs.StoreP Proofs.StoreP2 Model.StoreMps Proofs.StoreMpsP.
From TenpyV Require Import Model.StoreShare Proofs.StoreShareP.
From TenpyV Require Import Model.StoreMpsObj Proofs.StoreMpsObjP.
Open Scope nat_scope.

(* the central statement: whatever operation runs, a live tensor that is not in the (small, explicit)
   set may_change keeps its observable value -- block contents, block indices, legs, labels, qtotal.
   All heaps, all operand choices: operands may alias each other or be shallow copies of each other. *)
Theorem T03_frame_all_ops : forall h o x,
  wf h -> x < length (objs h) -> ~ In x (may_change h o) -> denote (fst (exec h o)) x = denote h x.
Proof. exact frame_may_change. Qed.

(* functions that are not in-place: EVERY live tensor keeps its value, also for tensordot(a, a), a + a,
   a + a.copy(deep=False), ... (a, b range over all live tensors, equal or not) *)
Theorem T03_frame_tensordot : forall h a b pa pb F x,
  wf h -> x < length (objs h) -> denote (fst (exec h (OTensordot a b pa pb F))) x = denote h x.
Proof. intros h a b pa pb F x Hwf Hx. apply frame_may_change; [exact Hwf|exact Hx|intros []]. Qed.

Theorem T03_frame_add : forall h a b g x,
  wf h -> x < length (objs h) -> denote (fst (exec h (OAdd a b g))) x = denote h x.
Proof. intros h a b g x Hwf Hx. apply frame_may_change; [exact Hwf|exact Hx|intros []]. Qed.

Theorem T03_frame_scale_axis : forall h r f x,
  wf h -> x < length (objs h) -> denote (fst (exec h (OScaleAxis r f))) x = denote h x.
Proof. intros h r f x Hwf Hx. apply frame_may_change; [exact Hwf|exact Hx|intros []]. Qed.

(* a * s, a.conj(), a.transpose(), a.astype(): deep copy first, then in place on the copy *)
Theorem T03_frame_unary : forall h r f x,
  wf h -> x < length (objs h) -> denote (fst (exec h (OUnary r f))) x = denote h x.
Proof. intros h r f x Hwf Hx. apply frame_may_change; [exact Hwf|exact Hx|intros []]. Qed.

Theorem T03_frame_copy : forall h deep r x,
  wf h -> x < length (objs h) -> denote (fst (exec h (OCopy deep r))) x = denote h x.
Proof. intros h deep r x Hwf Hx. apply frame_may_change; [exact Hwf|exact Hx|intros []]. Qed.

(* in-place methods writing INTO the block buffers (compiled iscale_prefactor / iadd_prefactor_other):
   only the receiver and tensors sharing one of its buffers (its shallow copies) can change *)
Theorem T03_inplace_iscale_prefactor : forall h r f x,
  wf h -> x < length (objs h) -> x <> r -> shares_buffer h x r = false ->
  denote (fst (exec h (OMapWrite r f))) x = denote h x.
Proof.
  intros h r f x Hwf Hx Hne Hsh. apply frame_may_change; [exact Hwf|exact Hx|].
  apply (not_in_may_change h (OMapWrite r f) r x eq_refl Hx Hne Hsh).
Qed.

Theorem T03_inplace_iadd_prefactor_other : forall h r b g x,
  wf h -> x < length (objs h) -> x <> r -> shares_buffer h x r = false ->
  denote (fst (exec h (OBinWrite r b g))) x = denote h x.
Proof.
  intros h r b g x Hwf Hx Hne Hsh. apply frame_may_change; [exact Hwf|exact Hx|].
  apply (not_in_may_change h (OBinWrite r b g) r x eq_refl Hx Hne Hsh).
Qed.

(* in-place methods that bind fresh blocks to the receiver (itranspose, iconj, pure-Python iscale_prefactor):
   ONLY the receiver changes -- not even its shallow copies *)
Theorem T03_inplace_itranspose : forall h r f gt perm x,
  wf h -> x < length (objs h) -> x <> r -> denote (fst (exec h (OMapRebind r f gt perm))) x = denote h x.
Proof.
  intros h r f gt perm x Hwf Hx Hne. apply frame_may_change; [exact Hwf|exact Hx|].
  cbn. intros [H|[]]. congruence.
Qed.

(* in-place methods that keep the block memory (np.transpose views, iconj of real data, ireplace_label, isort_qdata):
   the receiver gets a NEW _qdata table and new list objects, so again only the receiver changes *)
Theorem T03_inplace_metadata : forall h r gt perm x,
  wf h -> x < length (objs h) -> x <> r -> denote (fst (exec h (OMeta r gt perm))) x = denote h x.
Proof.
  intros h r gt perm x Hwf Hx Hne. apply frame_may_change; [exact Hwf|exact Hx|].
  cbn. intros [H|[]]. congruence.
Qed.

(* iproject copies _qdata first and installs fresh legs and blocks: only the receiver changes *)
Theorem T03_inplace_iproject : forall h r f gt newlegs x,
  wf h -> x < length (objs h) -> x <> r -> denote (fst (exec h (OProject r f gt newlegs))) x = denote h x.
Proof.
  intros h r f gt newlegs x Hwf Hx Hne. apply frame_may_change; [exact Hwf|exact Hx|].
  cbn. intros [H|[]]. congruence.
Qed.

(* LegCharge objects are never written by any operation of the model *)
Theorem T03_legs_immutable : forall h o i, i < length (legs h) ->
  nth i (legs (fst (exec h o))) dleg = nth i (legs h) dleg.
Proof. exact legs_immutable. Qed.

(* a deep copy has the value of its source and is fully independent of it: no in-place method on
   one of the two (writing or rebinding) changes the other *)
Theorem T03_deepcopy_independent : forall h a, wf h -> a < length (objs h) ->
  let h1 := fst (exec h (OCopy true a)) in
  let c := length (objs h) in
  denote h1 c = denote h a /\
  (forall o, inplace_receiver o = Some c -> denote (fst (exec h1 o)) a = denote h a) /\
  (forall o, inplace_receiver o = Some a -> denote (fst (exec h1 o)) c = denote h1 c).
Proof. exact deepcopy_independent. Qed.

(* frame over whole histories.  `run h os` executes the list of operations os one after the other; `ops_ok h os`
   says that every operation is applicable when it runs (Model/Store.v: its operands are live tensors, the legs of a
   new tensor exist, axis permutations index the legs of their tensor) -- operands may coincide, be shallow or deep
   copies of each other, or results of earlier steps.  For EVERY finite history from a well-formed heap:
   (1) the heap is well-formed at the end, before and after every step;
   (2) at every step every live tensor outside the step's may_change keeps its value;
   (3) a tensor that is outside may_change of every step has at the end the value it had at the start.
   Proof: every one of the eleven transformers preserves wf (Proofs/StoreP2.v: wf_exec), induction over the history.
   What is NOT proved here (only checked differentially by harness/c03.py): that the remaining tenpy operations
   (combine_legs, split_legs, svd, ..., the MPS/MPO layer, Krylov solvers) write where one of the modelled
   transformers writes. *)
Theorem T03_history : forall os h, wf h -> ops_ok h os ->
  wf (run h os) /\
  (forall pre o post, os = pre ++ o :: post ->
     wf (run h pre) /\ wf (fst (exec (run h pre) o)) /\
     forall x, x < length (objs (run h pre)) -> ~ In x (may_change (run h pre) o) ->
               denote (fst (exec (run h pre) o)) x = denote (run h pre) x) /\
  (forall x, x < length (objs h) ->
     (forall pre o post, os = pre ++ o :: post -> ~ In x (may_change (run h pre) o)) ->
     denote (run h os) x = denote h x).
Proof. exact history_frame. Qed.

(* the histories the harness replays (check_history_applicable = applicability check && check_history, evaluated by
   vm_compute on every generated history) are applicable histories from a well-formed heap, so T03_history covers them *)
Theorem T03_checked_histories_covered : forall c, check_history_applicable c = true ->
  let h0 := mkHeap [] [] (repeat dleg (fst c)) [] in
  wf h0 /\ ops_ok h0 (history_ops h0 [] (snd c)).
Proof. exact checked_history_applicable. Qed.

(* the single step behind it: every transformer preserves well-formedness *)
Theorem T03_wf_preserved : forall h o, wf h -> op_ok h o -> wf (fst (exec h o)).
Proof. exact wf_exec. Qed.

(* ---- LegCharge objects shared between tensors.  x and y are two live tensors holding the SAME LegCharge object l
   (same identity in the heap).  (1) Whatever history of operations runs (on x, on y, on anything; no applicability
   hypothesis is needed), the object l has the content it had.  (2) Whatever single operation runs that is not a
   rebinding in-place method called on y itself (so: every function, every in-place method on x -- including iproject,
   which gives x NEW legs -- and buffer-writing methods on y), the legs observed through y (legs_view: the contents of
   all LegCharge objects of y, in order) are unchanged and still contain the content of l. *)
Theorem T03_legs_shared_across_tensors : forall h x y l, wf h -> live h x -> live h y ->
  In l (lg (obj h x)) -> In l (lg (obj h y)) ->
  (forall os, nth l (legs (run h os)) dleg = nth l (legs h) dleg) /\
  (forall o, (forall r, inplace_receiver o = Some r -> writes_buffers o = true \/ y <> r) ->
             legs_view (fst (exec h o)) y = legs_view h y /\
             In (nth l (legs h) dleg) (legs_view (fst (exec h o)) y)).
Proof. exact legs_shared_across_tensors. Qed.

(* ---- MPS level (Model/StoreMps.v: an MPS = list of tensor references into the heap + forms + norm + singular values;
   get_B / set_B / __init__ / measurement programs composed of the transformers of Model/Store.v, following
   tenpy/networks/mps.py for trivial charge shift and label_p=None).  The StoreMps definitions are built from the
   correspondence-checked transformers `exec` of Store.v and are themselves executed against the code: stream
   `mps-history` of harness/c03.py with Model/StoreMpsCheck.v `check_mps_history` (random MPS-level histories:
   constructor, get_B, set_B, measurements, in-place methods through returned tensors; observed changes of registers
   and of the stored tensors must be allowed by the model, get_B raises / returns the stored object / shares memory
   exactly as the model says).
   For every well-formed heap and MPS (any number of sites, any site index, any scale function sc):
   (1) get_B(i, form, copy), whenever it returns: heap well-formed, MPS well-formed, the MPS view (values of all site
       tensors, forms, norm, singular values) unchanged, EVERY pre-existing tensor reads the same, the result is live,
       and with copy=True the result is a fresh reference that is not one of the MPS's references;
   (2) get_B(copy=True) without form conversion returns a fresh deep copy with the value of site i;
   (3) measurement programs (any list of get_B calls, operations that are not in-place, and rebinding in-place methods
       on tensors created during the measurement): MPS view unchanged, every pre-existing tensor reads the same;
   (4) get_B(copy=False) without form conversion returns THE STORED REFERENCE and leaves the heap as it is;
   (5) an in-place method called through that alias changes no other site of an MPS whose sites are separate. *)
Theorem T03_mps_ops_frame : forall sc h m, wf h -> mps_wf h m ->
  (forall i fm cp h' r, i < length (sites m) -> get_B sc h m i fm cp = Some (h', r) ->
     wf h' /\ mps_wf h' m /\ mps_view h' m = mps_view h m /\
     (forall x, x < length (objs h) -> denote h' x = denote h x) /\ live h' r /\
     (cp = true -> length (objs h) <= r /\ ~ In r (sites m))) /\
  (forall i fm, i < length (sites m) -> form_matches m i fm ->
     get_B sc h m i fm true = Some (exec h (OCopy true (site m i))) /\
     snd (exec h (OCopy true (site m i))) = length (objs h) /\
     denote (fst (exec h (OCopy true (site m i)))) (length (objs h)) = denote h (site m i)) /\
  (forall prog, meas_ok sc (length (objs h)) h m prog ->
     wf (run_meas sc h m prog) /\ mps_wf (run_meas sc h m prog) m /\
     mps_view (run_meas sc h m prog) m = mps_view h m /\
     forall x, x < length (objs h) -> denote (run_meas sc h m prog) x = denote h x) /\
  (forall i fm, i < length (sites m) -> form_matches m i fm ->
     get_B sc h m i fm false = Some (h, site m i)) /\
  (forall i o, mps_sep h m -> i < length (sites m) -> inplace_receiver o = Some (site m i) ->
     forall j, j < length (sites m) -> j <> i -> denote (fst (exec h o)) (site m j) = denote h (site m j)).
Proof. exact mps_ops_frame. Qed.

(* get_B(copy=False) aliasing: the returned reference IS site i's; ANY in-place method of the model applied through it
   leaves every other site tensor unchanged (forms, norm, singular values are fields of m, which no heap operation
   touches), and the MPS observes the write: after the compiled iscale_prefactor (OMapWrite) through the alias the
   value of site i has blocks map f (old blocks), everything else of it unchanged. *)
Theorem T03_mps_getB_alias : forall sc h m i fm, wf h -> mps_wf h m -> mps_sep h m -> i < length (sites m) ->
  form_matches m i fm ->
  get_B sc h m i fm false = Some (h, site m i) /\
  (forall o, inplace_receiver o = Some (site m i) ->
     forall j, j < length (sites m) -> j <> i -> denote (fst (exec h o)) (site m j) = denote h (site m j)) /\
  (forall f, NoDup (blk (obj h (site m i))) ->
     denote (fst (exec h (OMapWrite (site m i) f))) (site m i) =
     (let '(b, t, l, lb, q) := denote h (site m i) in (map f b, t, l, lb, q))).
Proof. exact mps_getB_alias. Qed.

(* MPS.__init__ copies: Bs = the caller's tensors with the axes permutation that itranspose(['vL','p','vR']) applies.
   The result is well-formed, the sites are pairwise different objects with disjoint buffers (mps_sep), the caller's
   tensors read the same, site j is a FRESH reference whose value is the transposed value of the j-th input;
   afterwards NO in-place method on a caller's tensor (r < length (objs h)) changes any site tensor, and NO in-place
   method on a site changes a tensor of the caller. *)
Theorem T03_mps_init_copies : forall h Bs fms n sv, wf h -> inputs_ok h Bs -> length fms = length Bs ->
  wf (fst (mps_init h Bs fms n sv)) /\ mps_wf (fst (mps_init h Bs fms n sv)) (snd (mps_init h Bs fms n sv)) /\
  mps_sep (fst (mps_init h Bs fms n sv)) (snd (mps_init h Bs fms n sv)) /\
  length (sites (snd (mps_init h Bs fms n sv))) = length Bs /\
  forms (snd (mps_init h Bs fms n sv)) = fms /\ nrm (snd (mps_init h Bs fms n sv)) = n /\
  svs (snd (mps_init h Bs fms n sv)) = sv /\
  (forall x, x < length (objs h) -> denote (fst (mps_init h Bs fms n sv)) x = denote h x) /\
  (forall j, j < length Bs ->
     length (objs h) <= site (snd (mps_init h Bs fms n sv)) j /\
     NoDup (blk (obj (fst (mps_init h Bs fms n sv)) (site (snd (mps_init h Bs fms n sv)) j))) /\
     denote (fst (mps_init h Bs fms n sv)) (site (snd (mps_init h Bs fms n sv)) j) =
     transpose_value (snd (nth j Bs (0, []))) (denote h (fst (nth j Bs (0, []))))) /\
  (forall o r j, inplace_receiver o = Some r -> r < length (objs h) -> j < length Bs ->
     denote (fst (exec (fst (mps_init h Bs fms n sv)) o)) (site (snd (mps_init h Bs fms n sv)) j) =
     denote (fst (mps_init h Bs fms n sv)) (site (snd (mps_init h Bs fms n sv)) j)) /\
  (forall o j x, inplace_receiver o = Some (site (snd (mps_init h Bs fms n sv)) j) -> j < length Bs ->
     x < length (objs h) ->
     denote (fst (exec (fst (mps_init h Bs fms n sv)) o)) x = denote (fst (mps_init h Bs fms n sv)) x).
Proof. exact mps_init_spec. Qed.

(* set_B(i, B, form) stores THE GIVEN REFERENCE b (no copy: a later write through b is a write to site i) and the form;
   all other sites and forms, norm, singular values unchanged; in the heap only b itself may read differently
   (itranspose is applied to it), every other tensor -- in particular every other site that is not b -- reads the same. *)
Theorem T03_mps_set_B : forall h m i b fm perm,
  wf h -> mps_wf h m -> live h b -> perm_ok h b perm -> i < length (sites m) ->
  wf (fst (set_B h m i b fm perm)) /\ mps_wf (fst (set_B h m i b fm perm)) (snd (set_B h m i b fm perm)) /\
  site (snd (set_B h m i b fm perm)) i = b /\ nth i (forms (snd (set_B h m i b fm perm))) None = fm /\
  (forall j, j <> i -> site (snd (set_B h m i b fm perm)) j = site m j /\
                       nth j (forms (snd (set_B h m i b fm perm))) None = nth j (forms m) None) /\
  nrm (snd (set_B h m i b fm perm)) = nrm m /\ svs (snd (set_B h m i b fm perm)) = svs m /\
  length (sites (snd (set_B h m i b fm perm))) = length (sites m) /\
  (forall x, x < length (objs h) -> x <> b -> denote (fst (set_B h m i b fm perm)) x = denote h x).
Proof. exact set_B_spec. Qed.

(* get_B and measurement programs rebind no pre-existing Array record: the separation of the sites (hypothesis of
   T03_mps_getB_alias, established by T03_mps_init_copies) persists through them *)
Theorem T03_mps_sep_preserved : forall sc h m, wf h -> mps_wf h m -> mps_sep h m ->
  (forall i fm cp h' r, i < length (sites m) -> get_B sc h m i fm cp = Some (h', r) -> mps_sep h' m) /\
  (forall prog, meas_ok sc (length (objs h)) h m prog -> mps_sep (run_meas sc h m prog) m).
Proof. exact mps_sep_preserved. Qed.

(* frame over whole MPS-level histories: get_B calls (any form, copy flag; results kept alive), measurement programs and
   arbitrary applicable operations of the store model `POp o` interleaved in any order and number, where every `POp o`
   has no site of the MPS in its may_change (o is not an in-place method on a site tensor / on a tensor sharing a buffer
   with one: the documented contract of get_B(copy=False)).  At the end the heap and the MPS are well-formed and the
   MPS view -- values of all site tensors, forms, norm, singular values -- is what it was at the start. *)
Theorem T03_mps_history : forall sc m ps h, wf h -> mps_wf h m -> mps_run_ok sc h m ps ->
  wf (mps_run sc h m ps) /\ mps_wf (mps_run sc h m ps) m /\ mps_view (mps_run sc h m ps) m = mps_view h m.
Proof. exact mps_history_frame. Qed.

(* non-vacuity and the looseness of shallow copies: a write through a shallow copy IS visible through the
   other reference for buffer-writing methods and is NOT for rebinding methods (both allowed by Array.copy) *)
Example T03_shallow_copy_visibility :
  let h0 := fst (exec (mkHeap [] [] [dleg] []) (ONew 1 [0])) in
  let h1 := fst (exec h0 (OCopy false 0)) in
  denote (fst (exec h1 (OMapWrite 1 dbl))) 0 <> denote h1 0 /\
  denote (fst (exec h1 (OMapRebind 1 dbl (fun t => t) [0]))) 0 = denote h1 0.
Proof. exact shallow_copy_visibility. Qed.
Example T03_example_wf : wf (fst (exec (fst (exec (mkHeap [] [] [dleg] []) (ONew 2 [0; 0]))) (OCopy true 0))).
Proof. apply wf_deep_copy; [repeat constructor|cbn; lia]. Qed.
(* the hypotheses of T03_history are satisfiable by a history with aliased operands and shallow copies *)
Example T03_example_history :
  let h0 := mkHeap [] [] [dleg] [] in
  wf h0 /\
  ops_ok h0 [ONew 2 [0; 0]; OCopy false 0; OMapWrite 1 dbl; OBinWrite 0 1 (fun x y => x ++ y); OCopy true 1;
             OTensordot 0 0 [1; 0] [0; 1] (fun _ _ => ([[1%Z]], [[]])); OAdd 2 2 (fun x y => x ++ y);
             OMapRebind 1 dbl (fun t => t) [1; 0]; OMeta 0 (fun t => t) [1; 0]; OProject 2 dbl (fun t => t) [dleg; dleg];
             OScaleAxis 1 dbl; OUnary 0 dbl].
Proof. exact example_history_ok. Qed.

(* non-vacuity of the MPS theorems: ex_h0 holds two caller tensors (2 blocks / 1 block) that share LegCharge objects;
   ex_hm = the two-site MPS the constructor builds from them (forms B, A).  The inputs satisfy the hypotheses of
   T03_mps_init_copies; the result satisfies those of T03_mps_ops_frame / T03_mps_getB_alias; a 7-step measurement
   (get_B with conversion, aliasing get_B, copying get_B, tensordot of the results, itranspose of the product,
   a * 2 of a site) is an accepted program; a write through the alias of site 0 is observed. *)
Example T03_example_mps_inputs : wf ex_h0 /\ inputs_ok ex_h0 ex_Bs.
Proof. exact ex_inputs. Qed.
Example T03_example_mps : wf (fst ex_hm) /\ mps_wf (fst ex_hm) (snd ex_hm) /\ mps_sep (fst ex_hm) (snd ex_hm) /\
  length (sites (snd ex_hm)) = 2.
Proof. exact ex_mps. Qed.
Example T03_example_measurement : meas_ok ex_sc (length (objs (fst ex_hm))) (fst ex_hm) (snd ex_hm)
  [MsGet 0 form_Th false; MsGet 1 form_A false; MsGet 1 None true;
   MsOp (OTensordot 4 5 [0; 1; 2] [0; 1; 2] (fun _ _ => ([[1%Z]], [[]]))); MsOp (OMeta 8 (fun t => t) []);
   MsGet 0 form_B false; MsOp (OUnary 2 dbl)].
Proof. exact ex_meas. Qed.
Example T03_example_alias_write : get_B ex_sc (fst ex_hm) (snd ex_hm) 1 form_B true <> None /\
  form_matches (snd ex_hm) 0 form_B /\ inplace_receiver (OMapWrite (site (snd ex_hm) 0) dbl) = Some (site (snd ex_hm) 0) /\
  denote (fst (exec (fst ex_hm) (OMapWrite (site (snd ex_hm) 0) dbl))) (site (snd ex_hm) 0)
    <> denote (fst ex_hm) (site (snd ex_hm) 0).
Proof. exact ex_getB. Qed.
Example T03_example_shared_leg : live ex_h0 0 /\ live ex_h0 1 /\ In 1 (lg (obj ex_h0 0)) /\ In 1 (lg (obj ex_h0 1)).
Proof. exact ex_shared_leg. Qed.

(* an admissible MPS-level history on ex_hm: an aliasing get_B, a compiled iscale_prefactor on a caller's tensor, a
   converting+copying get_B, an in-place method on its result, a measurement, a shallow copy of a site, iproject on the
   caller's other tensor *)
Example T03_example_mps_history : mps_run_ok ex_sc (fst ex_hm) (snd ex_hm)
  [PGet 0 form_B false; POp (OMapWrite 0 dbl); PGet 1 form_Th true; POp (OMapRebind 4 dbl (fun t => t) [2; 1; 0]);
   PMeas [MsGet 0 form_A false; MsOp (OAdd 5 5 (fun x y => x ++ y))]; POp (OCopy false 2); POp (OProject 1 dbl (fun t => t) [dleg])].
Proof. exact ex_mps_history. Qed.

(* ---- no hidden aliasing (Model/StoreShare.v).  The frame theorems above speak about the moment of the call; a result that
   secretly shares a buffer with a live tensor would corrupt it at the next buffer-writing in-place method.  In the model
   the result of EVERY function that is not in-place, except copy(deep=False) (returns_fresh: new, copy(deep=True), a*s /
   conj / transpose / split_legs / ... = OUnary, scale_axis, a+b, tensordot), shares no buffer with any tensor that existed
   before the call, in either direction, for all heaps and all operand choices.  harness/c03.py compares the block memory of
   all live tensors of the implementation after every step (np.shares_memory) with the model (check_shares): a pair that
   owns common memory in the code must share a buffer in the model. *)
Theorem T03_fresh_result_unshared : forall h o x, wf h -> returns_fresh o = true -> x < length (objs h) ->
  shares_buffer (fst (exec h o)) x (snd (exec h o)) = false /\
  shares_buffer (fst (exec h o)) (snd (exec h o)) x = false.
Proof. exact fresh_result_unshared. Qed.

(* ... and after a rebinding in-place method (OMapRebind: python iscale_prefactor / iadd_prefactor_other, iscale_axis;
   OProject: iproject) the receiver shares no buffer with any other live tensor, not even with its shallow copies *)
Theorem T03_rebind_unshares : forall h o r x, wf h -> rebinds_fresh o = true -> inplace_receiver o = Some r ->
  x < length (objs h) -> x <> r ->
  shares_buffer (fst (exec h o)) x r = false /\ shares_buffer (fst (exec h o)) r x = false.
Proof. exact rebind_unshares. Qed.

(* the hypotheses are satisfiable and the conclusion is not trivial: a shallow copy does share, the result of a function
   applied to one of the two shares with neither *)
Example T03_example_shares :
  let h0 := mkHeap [] [] [dleg] [] in
  let h1 := fst (exec h0 (ONew 2 [0])) in
  let h2 := fst (exec h1 (OCopy false 0)) in
  let h3 := fst (exec h2 (OUnary 0 (fun v => v))) in
  wf h2 /\ shares_buffer h2 0 1 = true /\ shares_buffer h3 0 2 = false /\ shares_buffer h3 1 2 = false.
Proof. exact example_shares. Qed.

(* ---- MPS OBJECTS and the list objects bound to their _B attribute (Model/StoreMpsObj.v).  tenpy makes shallow copies of MPS
   objects (copy.copy) and runs in-place methods on them (MPS._gauge_compatible_vL_vR, used by overlap / MPSEnvironment / add),
   and pure queries collect the stored tensors in lists (get_total_charge).  One container operation - shallow copy of the
   object, m._B = m._B[:], m._B[i] = t, in-place list extension, list concatenation - leaves what an MPS object x reads as x._B
   unchanged unless it WRITES a list through an object whose _B is x._B; all heaps, all objects, well-formedness preserved. *)
Theorem T03_mpsobj_frame : forall h o x, owf h -> cop_ok h o -> x < length (mobj h) ->
  match cwriter o with Some m => shares_list h x m = false | None => True end ->
  B_of (cexec h o) x = B_of h x /\ owf (cexec h o).
Proof. intros h o x Hwf Hok Hx Hsh. split; [apply cframe; assumption|apply cwf_preserved; assumption]. Qed.

(* every finite history of container operations none of which writes through an alias of x._B *)
Theorem T03_mpsobj_history : forall os h x, owf h -> x < length (mobj h) -> cadm h x os -> B_of (crun h os) x = B_of h x.
Proof. exact chistory_frame. Qed.

(* MPS._gauge_compatible_vL_vR(other) with need_gauge: shallow copy, own list, then ANY sequence of item assignments by
   gauge_total_charge on the copy: every MPS object that existed before the call (in particular `other`) reads the same list *)
Theorem T03_mpsobj_gauge_compatible : forall h other writes x, owf h -> other < length (mobj h) -> x < length (mobj h) ->
  B_of (crun h (gauge_prog other (length (mobj h)) writes)) x = B_of h x.
Proof. exact gauge_compatible_frame. Qed.

(* a query that builds `m._B + ts` (get_total_charge with segment boundaries) changes the list of no MPS object *)
Theorem T03_mpsobj_query_new_list : forall h m ts x, owf h -> m < length (mobj h) -> x < length (mobj h) ->
  B_of (cexec h (CConcat m ts)) x = B_of h x.
Proof. exact query_concat_frame. Qed.

(* the hypotheses matter: without `other._B = other._B[:]` the re-gauged tensor is read through `other`; `tensors += ts` on an
   alias of m._B extends m._B; and the harness checkers accept the faithful observations and reject the leaking ones *)
Example T03_example_gauge_needs_own_list :
  let h := mkOH [[0; 1; 2]] [0] in
  B_of (crun h (gauge_prog_shared 0 1 [(2, 7)])) 0 = [0; 1; 7] /\ B_of (crun h (gauge_prog 0 1 [(2, 7)])) 0 = [0; 1; 2]
  /\ B_of (crun h (gauge_prog 0 1 [(2, 7)])) 1 = [0; 1; 7].
Proof. exact gauge_without_own_list_leaks. Qed.
Example T03_example_query_extend_leaks :
  let h := mkOH [[0; 1; 2]] [0] in B_of (cexec h (CExtend 0 [8; 9])) 0 = [0; 1; 2; 8; 9] /\ B_of (cexec h (CConcat 0 [8; 9])) 0 = [0; 1; 2].
Proof. exact query_extend_leaks. Qed.
Example T03_example_mpsobj_checkers :
  check_gauge_compatible (true, 4, [3], (false, false, true)) = true /\
  check_gauge_compatible (true, 4, [3], (false, true, false)) = false /\
  check_gauge_compatible (false, 4, [], (true, true, true)) = true /\
  check_query_list (4, true, 4) = true /\ check_query_list (4, true, 6) = false.
Proof. exact checkers_examples. Qed.

Print Assumptions T03_frame_all_ops.
Print Assumptions T03_frame_tensordot.
Print Assumptions T03_frame_add.
Print Assumptions T03_frame_scale_axis.
Print Assumptions T03_frame_unary.
Print Assumptions T03_frame_copy.
Print Assumptions T03_inplace_iscale_prefactor.
Print Assumptions T03_inplace_iadd_prefactor_other.
Print Assumptions T03_inplace_itranspose.
Print Assumptions T03_inplace_metadata.
Print Assumptions T03_inplace_iproject.
Print Assumptions T03_legs_immutable.
Print Assumptions T03_deepcopy_independent.
Print Assumptions T03_history.
Print Assumptions T03_wf_preserved.
Print Assumptions T03_checked_histories_covered.
Print Assumptions T03_legs_shared_across_tensors.
Print Assumptions T03_mps_ops_frame.
Print Assumptions T03_mps_getB_alias.
Print Assumptions T03_mps_init_copies.
Print Assumptions T03_mps_set_B.
Print Assumptions T03_mps_sep_preserved.
Print Assumptions T03_mps_history.
Print Assumptions T03_fresh_result_unshared.
Print Assumptions T03_rebind_unshares.
Print Assumptions T03_mpsobj_frame.
Print Assumptions T03_mpsobj_history.
Print Assumptions T03_mpsobj_gauge_compatible.
Print Assumptions T03_mpsobj_query_new_list.
