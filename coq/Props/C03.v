(* Property C03: operations never corrupt their operands or shared charge data.
   Statements about the store model Model/Store.v (heap of block buffers, _qdata tables, LegCharge objects
   and Array records; every operation writes exactly where the code writes).  The model is bound to the code
   by harness/c03.py: every generated history is replayed on the model (check_history) and the tensors whose
   observable value changed in the implementation must be among those the model allows to change.
   Every proof is `exact <lemma>` or an instance of the central frame lemma. *)
From TenpyV Require Import Base.Prelude Model.Store Proofs.StoreP Proofs.StoreP2.
Open Scope nat_scope.

(* the central statement: whatever operation runs, a live tensor that is not in the (small, explicit)
   set may_change keeps its observable value -- block contents, block indices, legs, labels, qtotal.
   All heaps, all operand choices: operands may alias each other or be shallow copies of each other. *)
Theorem T03_frame_all_ops : forall h o x,
  wf h -> x < length (objs h) -> ~ In x (may_change h o) -> denote (fst (exec h o)) x = denote h x.
Proof. exact frame_may_change. Qed.

(* functions that are not in-place: EVERY live tensor keeps its value, also for tensordot(a, a), a + a,
   a + a.copy(deep=False), ... (a, b range over all live tensors, equal or not) *)
Theorem T03_frame_tensordot : forall h a b pa pb F x,
  wf h -> x < length (objs h) -> denote (fst (exec h (OTensordot a b pa pb F))) x = denote h x.
Proof. intros h a b pa pb F x Hwf Hx. apply frame_may_change; [exact Hwf|exact Hx|intros []]. Qed.

Theorem T03_frame_add : forall h a b g x,
  wf h -> x < length (objs h) -> denote (fst (exec h (OAdd a b g))) x = denote h x.
Proof. intros h a b g x Hwf Hx. apply frame_may_change; [exact Hwf|exact Hx|intros []]. Qed.

Theorem T03_frame_scale_axis : forall h r f x,
  wf h -> x < length (objs h) -> denote (fst (exec h (OScaleAxis r f))) x = denote h x.
Proof. intros h r f x Hwf Hx. apply frame_may_change; [exact Hwf|exact Hx|intros []]. Qed.

(* a * s, a.conj(), a.transpose(), a.astype(): deep copy first, then in place on the copy *)
Theorem T03_frame_unary : forall h r f x,
  wf h -> x < length (objs h) -> denote (fst (exec h (OUnary r f))) x = denote h x.
Proof. intros h r f x Hwf Hx. apply frame_may_change; [exact Hwf|exact Hx|intros []]. Qed.

Theorem T03_frame_copy : forall h deep r x,
  wf h -> x < length (objs h) -> denote (fst (exec h (OCopy deep r))) x = denote h x.
Proof. intros h deep r x Hwf Hx. apply frame_may_change; [exact Hwf|exact Hx|intros []]. Qed.

(* in-place methods writing INTO the block buffers (compiled iscale_prefactor / iadd_prefactor_other):
   only the receiver and tensors sharing one of its buffers (its shallow copies) can change *)
Theorem T03_inplace_iscale_prefactor : forall h r f x,
  wf h -> x < length (objs h) -> x <> r -> shares_buffer h x r = false ->
  denote (fst (exec h (OMapWrite r f))) x = denote h x.
Proof.
  intros h r f x Hwf Hx Hne Hsh. apply frame_may_change; [exact Hwf|exact Hx|].
  apply (not_in_may_change h (OMapWrite r f) r x eq_refl Hx Hne Hsh).
Qed.

Theorem T03_inplace_iadd_prefactor_other : forall h r b g x,
  wf h -> x < length (objs h) -> x <> r -> shares_buffer h x r = false ->
  denote (fst (exec h (OBinWrite r b g))) x = denote h x.
Proof.
  intros h r b g x Hwf Hx Hne Hsh. apply frame_may_change; [exact Hwf|exact Hx|].
  apply (not_in_may_change h (OBinWrite r b g) r x eq_refl Hx Hne Hsh).
Qed.

(* in-place methods that bind fresh blocks to the receiver (itranspose, iconj, pure-Python iscale_prefactor):
   ONLY the receiver changes -- not even its shallow copies *)
Theorem T03_inplace_itranspose : forall h r f gt perm x,
  wf h -> x < length (objs h) -> x <> r -> denote (fst (exec h (OMapRebind r f gt perm))) x = denote h x.
Proof.
  intros h r f gt perm x Hwf Hx Hne. apply frame_may_change; [exact Hwf|exact Hx|].
  cbn. intros [H|[]]. congruence.
Qed.

(* in-place methods that keep the block memory (np.transpose views, iconj of real data, ireplace_label, isort_qdata):
   the receiver gets a NEW _qdata table and new list objects, so again only the receiver changes *)
Theorem T03_inplace_metadata : forall h r gt perm x,
  wf h -> x < length (objs h) -> x <> r -> denote (fst (exec h (OMeta r gt perm))) x = denote h x.
Proof.
  intros h r gt perm x Hwf Hx Hne. apply frame_may_change; [exact Hwf|exact Hx|].
  cbn. intros [H|[]]. congruence.
Qed.

(* iproject copies _qdata first and installs fresh legs and blocks: only the receiver changes *)
Theorem T03_inplace_iproject : forall h r f gt newlegs x,
  wf h -> x < length (objs h) -> x <> r -> denote (fst (exec h (OProject r f gt newlegs))) x = denote h x.
Proof.
  intros h r f gt newlegs x Hwf Hx Hne. apply frame_may_change; [exact Hwf|exact Hx|].
  cbn. intros [H|[]]. congruence.
Qed.

(* LegCharge objects are never written by any operation of the model *)
Theorem T03_legs_immutable : forall h o i, i < length (legs h) ->
  nth i (legs (fst (exec h o))) dleg = nth i (legs h) dleg.
Proof. exact legs_immutable. Qed.

(* a deep copy has the value of its source and is fully independent of it: no in-place method on
   one of the two (writing or rebinding) changes the other *)
Theorem T03_deepcopy_independent : forall h a, wf h -> a < length (objs h) ->
  let h1 := fst (exec h (OCopy true a)) in
  let c := length (objs h) in
  denote h1 c = denote h a /\
  (forall o, inplace_receiver o = Some c -> denote (fst (exec h1 o)) a = denote h a) /\
  (forall o, inplace_receiver o = Some a -> denote (fst (exec h1 o)) c = denote h1 c).
Proof. exact deepcopy_independent. Qed.

(* frame over whole histories.  `run h os` executes the list of operations os one after the other; `ops_ok h os`
   says that every operation is applicable when it runs (Model/Store.v: its operands are live tensors, the legs of a
   new tensor exist, axis permutations index the legs of their tensor) -- operands may coincide, be shallow or deep
   copies of each other, or results of earlier steps.  For EVERY finite history from a well-formed heap:
   (1) the heap is well-formed at the end, before and after every step;
   (2) at every step every live tensor outside the step's may_change keeps its value;
   (3) a tensor that is outside may_change of every step has at the end the value it had at the start.
   Proof: every one of the eleven transformers preserves wf (Proofs/StoreP2.v: wf_exec), induction over the history.
   What is NOT proved here (only checked differentially by harness/c03.py): that the remaining tenpy operations
   (combine_legs, split_legs, svd, ..., the MPS/MPO layer, Krylov solvers) write where one of the modelled
   transformers writes. *)
Theorem T03_history : forall os h, wf h -> ops_ok h os ->
  wf (run h os) /\
  (forall pre o post, os = pre ++ o :: post ->
     wf (run h pre) /\ wf (fst (exec (run h pre) o)) /\
     forall x, x < length (objs (run h pre)) -> ~ In x (may_change (run h pre) o) ->
               denote (fst (exec (run h pre) o)) x = denote (run h pre) x) /\
  (forall x, x < length (objs h) ->
     (forall pre o post, os = pre ++ o :: post -> ~ In x (may_change (run h pre) o)) ->
     denote (run h os) x = denote h x).
Proof. exact history_frame. Qed.

(* the histories the harness replays (check_history_applicable = applicability check && check_history, evaluated by
   vm_compute on every generated history) are applicable histories from a well-formed heap, so T03_history covers them *)
Theorem T03_checked_histories_covered : forall c, check_history_applicable c = true ->
  let h0 := mkHeap [] [] (repeat dleg (fst c)) [] in
  wf h0 /\ ops_ok h0 (history_ops h0 [] (snd c)).
Proof. exact checked_history_applicable. Qed.

(* the single step behind it: every transformer preserves well-formedness *)
Theorem T03_wf_preserved : forall h o, wf h -> op_ok h o -> wf (fst (exec h o)).
Proof. exact wf_exec. Qed.

(* non-vacuity and the looseness of shallow copies: a write through a shallow copy IS visible through the
   other reference for buffer-writing methods and is NOT for rebinding methods (both allowed by Array.copy) *)
Example T03_shallow_copy_visibility :
  let h0 := fst (exec (mkHeap [] [] [dleg] []) (ONew 1 [0])) in
  let h1 := fst (exec h0 (OCopy false 0)) in
  denote (fst (exec h1 (OMapWrite 1 dbl))) 0 <> denote h1 0 /\
  denote (fst (exec h1 (OMapRebind 1 dbl (fun t => t) [0]))) 0 = denote h1 0.
Proof. exact shallow_copy_visibility. Qed.
Example T03_example_wf : wf (fst (exec (fst (exec (mkHeap [] [] [dleg] []) (ONew 2 [0; 0]))) (OCopy true 0))).
Proof. apply wf_deep_copy; [repeat constructor|cbn; lia]. Qed.
(* the hypotheses of T03_history are satisfiable by a history with aliased operands and shallow copies *)
Example T03_example_history :
  let h0 := mkHeap [] [] [dleg] [] in
  wf h0 /\
  ops_ok h0 [ONew 2 [0; 0]; OCopy false 0; OMapWrite 1 dbl; OBinWrite 0 1 (fun x y => x ++ y); OCopy true 1;
             OTensordot 0 0 [1; 0] [0; 1] (fun _ _ => ([[1%Z]], [[]])); OAdd 2 2 (fun x y => x ++ y);
             OMapRebind 1 dbl (fun t => t) [1; 0]; OMeta 0 (fun t => t) [1; 0]; OProject 2 dbl (fun t => t) [dleg; dleg];
             OScaleAxis 1 dbl; OUnary 0 dbl].
Proof. exact example_history_ok. Qed.

Print Assumptions T03_frame_all_ops.
Print Assumptions T03_frame_tensordot.
Print Assumptions T03_frame_add.
Print Assumptions T03_frame_scale_axis.
Print Assumptions T03_frame_unary.
Print Assumptions T03_frame_copy.
Print Assumptions T03_inplace_iscale_prefactor.
Print Assumptions T03_inplace_iadd_prefactor_other.
Print Assumptions T03_inplace_itranspose.
Print Assumptions T03_inplace_metadata.
Print Assumptions T03_inplace_iproject.
Print Assumptions T03_legs_immutable.
Print Assumptions T03_deepcopy_independent.
Print Assumptions T03_history.
Print Assumptions T03_wf_preserved.
Print Assumptions T03_checked_histories_covered.
