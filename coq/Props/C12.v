(* Property C12: local Hilbert spaces -- operator algebra, basis bookkeeping and fermionic signs.
   Only statements; every proof is `exact <lemma>`.
   Part 1 (finite domain, bound in the statement): every configuration of Gen/G_sites.v, which is REGENERATED on every run by
   evaluating tenpy/networks/site.py (118 configurations: 7 site classes x parameters x conserve options), passes the
   decidable checks of Model/SiteTab.v.  Part 2 (unbounded): the sign machinery of terms.py (Model/JW.v). *)
From TenpyV Require Import Base.Prelude Model.SiteTab Gen.G_sites Proofs.SiteTabP Model.JW Proofs.JWP Model.JW2 Proofs.JWP2.
From Coq Require Import String.
Open Scope Z_scope.

(* the table is not trivially small *)
Theorem T12_coverage :
  6 <= count_class all_configs "SpinHalfSite" /\ 24 <= count_class all_configs "SpinSite" /\
  9 <= count_class all_configs "FermionSite" /\ 18 <= count_class all_configs "SpinHalfFermionSite" /\
  18 <= count_class all_configs "SpinHalfHoleSite" /\ 32 <= count_class all_configs "BosonSite" /\
  8 <= count_class all_configs "ClockSite".
Proof. exact coverage. Qed.

Theorem T12_tables_wellformed : forall c, In c all_configs -> check_wf c = true.
Proof. exact wf_in. Qed.

(* the operators under a conserve option are the conserve=None operators in the basis permuted by Site.perm; state labels
   and JW exponents follow the same permutation *)
Theorem T12_same_operator_up_to_perm : forall c, In c all_configs ->
  check_perm all_configs c = true /\
  forall o, In o (c_ops c) ->
    exists c0 o0, find_ref all_configs (c_key c) = Some c0 /\ find_op (c_ops c0) (o_name o) = Some o0 /\
                  o_kind o = o_kind o0 /\ sort_ents (map (map_perm (c_perm c)) (o_ent o)) = o_ent o0.
Proof. intros c Hc. split; [exact (perm_in c Hc) | intros o Ho; exact (same_operator c o Hc Ho)]. Qed.

(* defining algebra per class (Model/SiteTab.v: spin_ok, boson_ok, fermion_ok, spinful_fermion_ok, hole_ok, clock_ok) *)
Theorem T12_algebra : forall c, In c all_configs -> check_algebra c = true.
Proof. exact algebra_in. Qed.

Theorem T12_hc_pairs : forall c, In c all_configs -> check_hc c = true.
Proof. exact hc_in. Qed.

Theorem T12_charges_consistent : forall c o e n,
  In c all_configs -> In o (c_ops c) -> In e (o_ent o) -> (n < List.length (c_mod c))%nat ->
  let x := nth n (nthL (c_charges c) (e_r e)) 0 - nth n (nthL (c_charges c) (e_c e)) 0 - nth n (o_qtotal o) 0 in
  let m := nth n (c_mod c) 1 in
  (m = 1 -> x = 0) /\ (m <> 1 -> x mod m = 0).
Proof. exact charges_consistent. Qed.

Theorem T12_JW_flags : forall c, In c all_configs ->
  check_jw c = true /\
  forall o e, In o (c_ops c) -> In e (o_ent o) ->
    (mem_str (o_name o) (c_needjw c) = false -> nthZ (c_jwexp c) (e_r e) = nthZ (c_jwexp c) (e_c e)) /\
    (mem_str (o_name o) (c_needjw c) = true -> is_diag o = false -> nthZ (c_jwexp c) (e_r e) <> nthZ (c_jwexp c) (e_c e)).
Proof. intros c Hc. split; [exact (jw_in c Hc) | intros o e Ho He; exact (jw_flags c o e Hc Ho He)]. Qed.

(* ---- unbounded: order_combine_term (any number of operators, any sites, repeated sites) ---- *)
Theorem T12_order_combine_sign : forall term,
  StronglySorted site_le (order_sort term) /\
  Permutation term (order_sort term) /\
  (forall i, filter (fun t => it_site t =? i) (order_sort term) = filter (fun t => it_site t =? i) term) /\
  order_sign term = finvp term.
Proof.
  intros term. exact (conj (order_sort_sorted term) (conj (order_sort_perm term)
                     (conj (fun i => order_sort_stable term i) (order_sign_spec term)))).
Qed.

(* the term put into the MPO (order_combine_term + multi_coupling_term_handle_JW) is, site by site and up to the relations
   JW^2 = 1, JW f = -f JW, JW b = b JW, the product of the Jordan-Wigner transformed operators of the term; the signs
   collected over the sites are exactly overall_sign *)
Theorem T12_multi_coupling_JW : forall term, total_parity term = false ->
  (forall k, nf_sign (impl_word term k) = false /\
             nf_jw (impl_word term k) = nf_jw (phys_word term k) /\
             nf_ops (impl_word term k) = nf_ops (phys_word term k)) /\
  (forall ks, NoDup ks -> (forall t, In t term -> In (it_site t) ks) ->
     xor_over ks (fun k => nf_sign (phys_word term k)) = order_sign term).
Proof. exact term_machinery_correct. Qed.

(* the loop of multi_coupling_term_handle_JW versus the closed form used in T12_multi_coupling_JW, for EVERY term (any number of
   operators, any order, repeated sites): the combined term has strictly ascending sites; the handler raises iff the fermion
   parity is odd; otherwise it keeps operators and sites, returns strs = the flags without the last, and on EVERY site k
   the Jordan-Wigner content read off its output (out_flag: flag on the operator sites, string between them, nothing
   outside) is jw_right, i.e. the word it puts on site k (out_word) IS impl_word of T12_multi_coupling_JW; the per-case
   check `strings_consistent` of the correspondence stream always succeeds on the model *)
Theorem T12_handle_JW_closed_form : forall term,
  let g := group (order_sort term) in
  ascending g /\
  (total_parity term = true -> multi_coupling_term_handle_JW g = None) /\
  (total_parity term = false ->
     exists res strs, multi_coupling_term_handle_JW g = Some (res, strs) /\
       map (fun e => (fst (fst e), gsite e)) res = map (fun e => (fst (fst e), gsite e)) g /\
       strs = removelast (map gflag res) /\
       (forall k, out_flag res strs k = jw_right g k) /\
       (forall k, out_word term res strs k = impl_word term k) /\
       strings_consistent g res strs = true).
Proof. exact handler_closed_form. Qed.

(* the two-site handler coupling_term_handle_JW (i < j as it requires): raises iff exactly one operator needs a string; else
   its output coincides with the multi-site handler on the same term, the words it puts on the sites (op_i [JW] on i, the
   string on i<k<j, op_j on j) are impl_word, hence -- up to JW^2 = 1, JW f = -f JW -- the Jordan-Wigner product of the two
   operators, with overall sign +1 *)
Theorem T12_coupling_JW : forall a fi b fj i j, i < j ->
  let term := [mkItem a i fi; mkItem b j fj] in
  (coupling_term_handle_JW fi fj = None <-> total_parity term = true) /\
  (forall app str, coupling_term_handle_JW fi fj = Some (app, str) ->
     order_combine_term term = ([([a], i, fi); ([b], j, fj)], false) /\
     multi_coupling_term_handle_JW (group (order_sort term)) = Some ([([a], i, app); ([b], j, false)], [str]) /\
     (forall k, coupling_words a fi b fj i j k = Some (impl_word term k)) /\
     (forall k, nf_sign (impl_word term k) = false /\
                nf_jw (impl_word term k) = nf_jw (phys_word term k) /\
                nf_ops (impl_word term k) = nf_ops (phys_word term k)) /\
     (forall ks, NoDup ks -> In i ks -> In j ks -> xor_over ks (fun k => nf_sign (phys_word term k)) = false)).
Proof. exact coupling_JW. Qed.

(* canonical anticommutation relations of the many-body operators on chains of any length: for i <> j the two orders give the
   same tensor factors with opposite total sign; for i = j everything reduces to the local product on site i *)
Theorem T12_CAR_offsite : forall a b i j, i <> j ->
  let ab := [mkItem a i true; mkItem b j true] in
  let ba := [mkItem b j true; mkItem a i true] in
  (forall k, nf_jw (phys_word ab k) = nf_jw (phys_word ba k) /\ nf_ops (phys_word ab k) = nf_ops (phys_word ba k)) /\
  (forall ks, NoDup ks -> In i ks -> In j ks ->
     xor_over ks (fun k => nf_sign (phys_word ab k)) = negb (xor_over ks (fun k => nf_sign (phys_word ba k)))).
Proof. exact car_offsite. Qed.

Theorem T12_CAR_onsite : forall a b fa fb i k,
  let ab := [mkItem a i fa; mkItem b i fb] in
  (k = i -> phys_word ab k = [Op a fa; Op b fb]) /\
  (k <> i -> nf_sign (phys_word ab k) = false /\ nf_ops (phys_word ab k) = [] /\
             (fa = fb -> nf_jw (phys_word ab k) = false)).
Proof. exact car_onsite. Qed.

(* non-vacuity *)
Example T12_example_sort :
  let term := [mkItem 1 3 true; mkItem 2 0 true; mkItem 3 3 false; mkItem 4 1 true; mkItem 5 0 true] in
  order_combine_term term = ([([2; 5], 0, false); ([4], 1, true); ([1; 3], 3, true)], false) /\ total_parity term = false.
Proof. vm_compute. split; reflexivity. Qed.

Example T12_example_table :
  existsb (fun c => String.eqb (c_class c) "SpinSite" && (c_twoS c =? 3) && String.eqb (c_cons c) "parity") all_configs = true.
Proof. vm_compute. reflexivity. Qed.

Example T12_example_odd_sign : order_sign [mkItem 1 2 true; mkItem 2 0 true] = true.
Proof. vm_compute. reflexivity. Qed.

Example T12_example_handler :
  let term := [mkItem 1 5 true; mkItem 2 0 true; mkItem 3 2 false; mkItem 4 7 true; mkItem 5 9 true] in
  multi_coupling_term_handle_JW (group (order_sort term)) =
    Some ([([2], 0, true); ([3], 2, true); ([1], 5, false); ([4], 7, true); ([5], 9, false)], [true; true; false; true]) /\
  map (out_flag [([2], 0, true); ([3], 2, true); ([1], 5, false); ([4], 7, true); ([5], 9, false)] [true; true; false; true])
      [-1; 0; 1; 2; 3; 4; 5; 6; 7; 8; 9; 10] =
  [false; true; true; true; true; true; false; false; true; true; false; false].
Proof. vm_compute. split; reflexivity. Qed.

Example T12_example_coupling :
  coupling_term_handle_JW true true = Some (true, true) /\
  map (coupling_words 1 true 2 true 1 3) [0; 1; 2; 3; 4] = [Some []; Some [Op 1 true; JWl]; Some [JWl]; Some [Op 2 true]; Some []].
Proof. vm_compute. split; reflexivity. Qed.

(* MPS._term_to_ops_list(term, autoJW=True, i_offset, JW_from_right) for EVERY term and JW_from_right in {None, False, True}
   (model term_to_ops_list of Model/JW.v, run against the implementation in stream `mpsterm` of harness/c12.py): the returned
   flag has_extra_JW is the fermion parity of the term xor the string coming in from the right -- and for None (the value is
   chosen as the parity of the term) the flag is still that parity, which is what term_list_correlation_function_right uses to
   pair odd left terms with odd right terms; the per-site words are those of JW_from_right=False with one more JW appended on
   every site iff a string comes in from the right; i_min is the left-most site of the term *)
Theorem T12_term_to_ops_list_flag : forall term jfr,
  let from_right := match jfr with Some b => b | None => total_parity term end in
  snd (term_to_ops_list term true jfr) =
    match jfr with Some b => xorb (total_parity term) b | None => total_parity term end /\
  fst (fst (term_to_ops_list term true jfr)) =
    (if from_right then map (fun w => (w ++ [JWl])%list) (fst (fst (term_to_ops_list term true (Some false))))
     else fst (fst (term_to_ops_list term true (Some false)))) /\
  snd (fst (term_to_ops_list term true jfr)) = min_site term.
Proof. exact term_to_ops_list_flag. Qed.

Example T12_example_ops_list :
  term_to_ops_list (mk_items [(1, 2, true); (2, 0, false); (3, 1, true); (4, 2, true)]) true None =
    ([[JWl; Op 2 false; JWl; JWl; JWl]; [JWl; Op 3 true; JWl; JWl]; [Op 1 true; Op 4 true; JWl]], 0, true).
Proof. vm_compute. reflexivity. Qed.

Print Assumptions T12_coverage.
Print Assumptions T12_tables_wellformed.
Print Assumptions T12_same_operator_up_to_perm.
Print Assumptions T12_algebra.
Print Assumptions T12_hc_pairs.
Print Assumptions T12_charges_consistent.
Print Assumptions T12_JW_flags.
Print Assumptions T12_order_combine_sign.
Print Assumptions T12_multi_coupling_JW.
Print Assumptions T12_CAR_offsite.
Print Assumptions T12_CAR_onsite.
Print Assumptions T12_handle_JW_closed_form.
Print Assumptions T12_coupling_JW.
Print Assumptions T12_term_to_ops_list_flag.
