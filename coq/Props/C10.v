(* Property C10: MPOGraph construction (from_terms / add_to_graph) as weighted automata.
   Only statements; every proof is `exact <lemma from Proofs/AutomatonP.v, AutomatonP2.v,
   AutomatonMultiP.v, AutomatonMultiP2.v, BondSumP.v or ExpDecayP.v>`. *)
From TenpyV Require Import Base.Prelude Model.Automaton Proofs.AutomatonP Proofs.AutomatonP2.
From TenpyV Require Model.AutomatonMulti Proofs.AutomatonMultiP Model.BondSum Proofs.BondSumP
  Model.ExpDecay Proofs.ExpDecayP Model.AutomatonSplit Proofs.AutomatonMultiP2.
Import Model.AutomatonMulti Model.BondSum Model.ExpDecay Model.AutomatonSplit.
Open Scope Z_scope.

(* the decision procedure used by the correspondence checkers is sound *)
Theorem T10_peqb_sound : forall p q, peqb p q = true -> peq p q.
Proof. exact peqb_sound. Qed.

(* a graph whose denotation is hermitian stays the same operator under MPO.dagger *)
Theorem T10_hermitian : forall hc g, hc 0 = 0 -> (forall x, x <> 0 -> hc x <> 0) ->
  peq (pdagger hc (denote g)) (denote g) -> peq (denote (gdagger hc g)) (denote g).
Proof. exact hermitian_graph. Qed.

(* adding an edge to any graph adds exactly the paths through that edge *)
Theorem T10_insert_edge : forall g1 es g2 e i k,
  Permutation (paths (g1 ++ (es ++ [e]) :: g2) i k)
              (paths (g1 ++ es :: g2) i k ++ paths (g1 ++ [e] :: g2) i k).
Proof. exact paths_insert_edge. Qed.

(* OnsiteTerms.add_to_graph, one term: the graph stays well formed and denotes one more monomial *)
Theorem T10_add_to_graph_onsite : forall g t, wf g = true -> oterm_ok (length g) t = true ->
  wf (add_oterm g t) = true /\
  peq (denote (close (add_oterm g t))) (nf_oterm t :: denote (close g)).
Proof. exact add_to_graph_onsite. Qed.

(* CouplingTerms.add_to_graph, one term (shared labels and shared string edges included) *)
Theorem T10_add_to_graph_coupling : forall g t, wf g = true -> cterm_ok (length g) t = true ->
  wf (add_cterm g t) = true /\
  peq (denote (close (add_cterm g t))) (nf_cterm t :: denote (close g)).
Proof. exact add_to_graph_coupling. Qed.

(* the graph built before closing is well formed *)
Theorem T10_from_terms_wf : forall L ots cts,
  forallb (oterm_ok L) ots = true -> forallb (cterm_ok L) cts = true ->
  wf (fold_left add_cterm cts (fold_left add_oterm ots (empty_graph L))) = true.
Proof. exact from_terms_wf. Qed.

(* MPOGraph.from_terms denotes exactly the sum of the terms *)
Theorem T10_from_terms : forall L ots cts,
  forallb (oterm_ok L) ots = true -> forallb (cterm_ok L) cts = true ->
  peq (denote (from_terms L ots cts)) (map nf_oterm ots ++ map nf_cterm cts).
Proof. exact from_terms_denote. Qed.

(* non-vacuity: terms sharing the start edge and string edges (first two), a second label *)
Example T10_ex_wf :
  wf (fold_left add_cterm [mkCT 0 5 0 2 6 (3,0); mkCT 0 5 0 3 7 (2,1); mkCT 1 5 9 3 6 (1,0)]
        (fold_left add_oterm [mkOT 1 4 (7,0)] (empty_graph 4))) = true.
Proof. vm_compute. reflexivity. Qed.

Example T10_ex_ok :
  forallb (oterm_ok 4) [mkOT 1 4 (7,0)] = true /\
  forallb (cterm_ok 4) [mkCT 0 5 0 2 6 (3,0); mkCT 0 5 0 3 7 (2,1); mkCT 1 5 9 3 6 (1,0)] = true.
Proof. vm_compute. split; reflexivity. Qed.

Example T10_ex_from_terms :
  let g := from_terms 4 [mkOT 1 4 (7,0)] [mkCT 0 5 0 2 6 (3,0); mkCT 0 5 0 3 7 (2,1); mkCT 1 5 9 3 6 (1,0)] in
  std_form g = true /\ map (@length edge) g = [3; 5; 5; 4]%nat /\
  normalize (denote g) =
    [((3,0), [(0%nat,5); (2%nat,6)]); ((2,1), [(0%nat,5); (3%nat,7)]); ((7,0), [(1%nat,4)]);
     ((1,0), [(1%nat,5); (2%nat,9); (3%nat,6)])].
Proof. vm_compute. repeat split; reflexivity. Qed.

(* a hermitian graph: hc swaps 5 and 6 *)
Example T10_ex_hermitian :
  let hc := assoc_hc [(5, 6); (6, 5)] in
  let g := from_terms 3 [] [mkCT 0 5 0 2 6 (3,2); mkCT 0 6 0 2 5 (3,-2)] in
  hc 0 = 0 /\ peqb (pdagger hc (denote g)) (denote g) = true.
Proof. vm_compute. split; reflexivity. Qed.

Example T10_ex_peqb :
  peqb [((1,0), [(0%nat,2)]); ((2,1), [(1%nat,3)]); ((-1,0), [(0%nat,2)])] [((2,1), [(1%nat,3)])] = true.
Proof. vm_compute. reflexivity. Qed.

(* ------------------------------------------------------------------ multi-site terms
   (Model/AutomatonMulti.v: MultiCouplingTerms.add_to_graph with its left / right prefix states and
   the connection at switchLR; the new definitions use add_edge / add_skip / add_string / close /
   denote of Model/Automaton.v; add_mterm is executed against the implementation by the stream
   c10_build_multi of harness/c10.py (Model/AutomatonMulti.v: check_build_multi), and
   add_cterm / add_oterm of the stream c10_build ARE add_mterm on the embedded terms
   (T10_multi_special_cases)) *)

(* the names of the tuple keys ('left', i, op, str, j, ...) / ('right', ...) inside `key` are
   injective and disjoint; the one-triple left key is the Lbl key of CouplingTerms.add_to_graph *)
Theorem T10_multi_key_names :
  (forall p p', kleft p = kleft p' -> p = p') /\ (forall q q', kright q = kright q' -> q = q') /\
  (forall p q, kleft p <> kright q) /\ kleft [] = IdL /\ kright [] = IdR /\
  (forall i a s, kleft [(i, a, s)] = Lbl i a s).
Proof. exact AutomatonMultiP.multi_key_names. Qed.

(* MultiCouplingTerms.add_to_graph, one term with any number of operators on each side of switchLR:
   the key-injectivity / no-orphan invariant mwf is preserved and exactly the operator of the term is
   added to the denotation (all chain lengths, all graphs with the invariant) *)
Theorem T10_add_to_graph_multi : forall g t, mwf g -> mterm_ok (length g) t = true ->
  mwf (add_mterm g t) /\
  peq (denote (close (add_mterm g t))) (nf_mterm t :: denote (close g)).
Proof. exact AutomatonMultiP.add_to_graph_multi. Qed.

(* two-site and on-site terms are the special cases of multi-site terms: the correspondence-checked
   add_cterm / add_oterm are add_mterm *)
Theorem T10_multi_special_cases :
  (forall g t, add_cterm g t = add_mterm g (mterm_of_cterm t)) /\
  (forall g t, add_oterm g t = add_mterm g (mterm_of_oterm t)) /\
  (forall t, nf_cterm t = nf_mterm (mterm_of_cterm t)) /\
  (forall t, nf_oterm t = nf_mterm (mterm_of_oterm t)) /\
  (forall L t, cterm_ok L t = true -> mterm_ok L (mterm_of_cterm t) = true) /\
  (forall L t, oterm_ok L t = true -> mterm_ok L (mterm_of_oterm t) = true).
Proof. exact AutomatonMultiP.multi_special_cases. Qed.

Theorem T10_mwf_empty : forall L, mwf (empty_graph L).
Proof. exact AutomatonMultiP.mwf_empty. Qed.

(* MPOGraph.from_terms with on-site, two-site and multi-site terms denotes exactly their sum *)
Theorem T10_from_terms_multi : forall L ots cts mts,
  forallb (oterm_ok L) ots = true -> forallb (cterm_ok L) cts = true -> forallb (mterm_ok L) mts = true ->
  mwf (fold_left add_mterm mts (fold_left add_cterm cts (fold_left add_oterm ots (empty_graph L)))) /\
  peq (denote (from_terms_m L ots cts mts)) (map nf_oterm ots ++ map nf_cterm cts ++ map nf_mterm mts).
Proof. exact AutomatonMultiP.from_terms_m_all. Qed.

Example T10_ex_multi_ok : forallb (mterm_ok 6) AutomatonMultiP.ex_mts = true.
Proof. exact AutomatonMultiP.ex_multi_ok. Qed.
Example T10_ex_multi_mwf : mwf (fold_left add_mterm AutomatonMultiP.ex_mts (empty_graph 6)).
Proof. exact AutomatonMultiP.ex_multi_mwf. Qed.
(* four multi terms sharing left and right states, one two-site, one on-site term: 7 states at most *)
Example T10_ex_from_terms_multi :
  let g := from_terms_m 6 [mkOT 1 4 (7, 0)] [mkCT 0 5 9 3 7 (1, 1)] AutomatonMultiP.ex_mts in
  std_form g = true /\ map (@length edge) g = [3; 5; 7; 6; 4; 3]%nat /\
  normalize (denote g) =
    [((2, 0), [(0%nat, 5); (1%nat, 9); (2%nat, 6)]);
     ((1, 0), [(0%nat, 5); (1%nat, 9); (2%nat, 6); (3%nat, 2); (4%nat, 7); (5%nat, 8)]);
     ((3, 1), [(0%nat, 5); (1%nat, 9); (2%nat, 6); (3%nat, 7); (5%nat, 8)]);
     ((1, 1), [(0%nat, 5); (1%nat, 9); (2%nat, 9); (3%nat, 7)]);
     ((7, 0), [(1%nat, 4)]); ((0, 1), [(1%nat, 5); (2%nat, 1); (3%nat, 4)])] /\
  peqb (denote g) (map nf_oterm [mkOT 1 4 (7, 0)] ++ map nf_cterm [mkCT 0 5 9 3 7 (1, 1)] ++
                   map nf_mterm AutomatonMultiP.ex_mts) = true.
Proof. exact AutomatonMultiP.ex_from_terms_m. Qed.
(* MultiCouplingTerms.add_multi_coupling_term: the splitting of (ijkl, ops_ijkl, op_string, switchLR)
   at switchLR into the stored form (path in terms_left, path in terms_right, connection) keeps the
   operator, for every number of operators and every switchLR with ijkl[0] <= switchLR <= ijkl[-1]
   (split_ok: the preconditions the code checks: i < j < k < ..., len(op_string) = len(ijkl) - 1).
   Tie to the code: stream c10_split (Model/AutomatonTieCheck.v: check_split) compares split_term with
   the form the implementation stores, for 'middle_i' / 'middle_op' / integer switchLR. *)
Theorem T10_split_term : forall ops strs sw w, split_ok ops strs sw = true ->
  nf_mterm (split_term ops strs sw w) = (w, term_word ops strs).
Proof. exact AutomatonMultiP2.split_term_nf. Qed.

(* the stored form satisfies the precondition of T10_add_to_graph_multi on every chain that contains
   the last site *)
Theorem T10_split_term_ok : forall L ops strs sw w, split_ok ops strs sw = true ->
  (fst (last ops dflt_op) < L)%nat -> mterm_ok L (split_term ops strs sw w) = true.
Proof. exact AutomatonMultiP2.split_term_ok. Qed.

(* add_multi_coupling_term followed by add_to_graph: exactly w * op_0(i_0) str_0 .. op_n(i_n) is added *)
Theorem T10_add_split_term : forall g ops strs sw w, mwf g -> split_ok ops strs sw = true ->
  (fst (last ops dflt_op) < length g)%nat ->
  mwf (add_mterm g (split_term ops strs sw w)) /\
  peq (denote (close (add_mterm g (split_term ops strs sw w)))) ((w, term_word ops strs) :: denote (close g)).
Proof. exact AutomatonMultiP2.add_split_term. Qed.

Example T10_ex_split_ok :
  split_ok [(0%nat, 5); (2%nat, 6); (4%nat, 7); (5%nat, 8)] [9; 2; 0] 3 = true /\
  split_ok [(0%nat, 5); (2%nat, 6); (4%nat, 7); (5%nat, 8)] [9; 2; 0] 0 = true /\
  split_ok [(0%nat, 5); (2%nat, 6); (4%nat, 7); (5%nat, 8)] [9; 2; 0] 5 = true /\
  split_ok [(1%nat, 5); (4%nat, 6)] [7] 2 = true.
Proof. exact AutomatonMultiP2.split_ok_ex. Qed.
Example T10_ex_split_term :
  split_term [(0%nat, 5); (2%nat, 6); (4%nat, 7); (5%nat, 8)] [9; 2; 0] 3 (1, 0) =
    mkMT [(0%nat, 5, 9); (2%nat, 6, 2)] [(5%nat, 8, 0); (4%nat, 7, 2)] 3 2 (1, 0) /\
  nf_mterm (split_term [(0%nat, 5); (2%nat, 6); (4%nat, 7); (5%nat, 8)] [9; 2; 0] 3 (1, 0)) =
    ((1, 0), term_word [(0%nat, 5); (2%nat, 6); (4%nat, 7); (5%nat, 8)] [9; 2; 0]) /\
  nf_mterm (split_term [(0%nat, 5); (2%nat, 6); (3%nat, 7); (5%nat, 8)] [9; 0; 0] 3 (3, 1)) =
    ((3, 1), term_word [(0%nat, 5); (2%nat, 6); (3%nat, 7); (5%nat, 8)] [9; 0; 0]).
Proof. exact AutomatonMultiP.ex_split_term. Qed.

(* ------------------------------------------------------------------ nearest-neighbour bond form
   (Model/BondSum.v: CouplingTerms.to_nn_bond_Arrays + OnsiteTerms.add_to_nn_bond_Arrays with
   distribute (1/2, 1/2) and the boundary exceptions, as called by calc_H_bond; weights doubled so
   that 1/2 is exact.  Tie to the code: stream c10_bond (Model/AutomatonTieCheck.v: check_bond): for
   models with on-site and nearest-neighbour terms and integer / Gaussian-integer strengths, finite and
   infinite, explicit_plus_hc = False, every H_bond[j] of CouplingModel.calc_H_bond is decomposed into the
   named operator products of the containers (numerical linear solve, residual checked) and the doubled
   coefficients are compared exactly inside Coq with h_bond of the model, product by product, together
   with the positions of the None entries) *)
Theorem T10_bond_sum : forall L ots cts, (2 <= L)%nat ->
  forallb (oterm_ok L) ots = true ->
  forallb (fun t => Nat.eqb (ct_j t) (S (ct_i t)) && (ct_j t <? L)%nat) cts = true ->
  peq (bond_sum L ots cts) (pscale (2, 0) (map nf_oterm ots ++ map nf_cterm cts)).
Proof. exact BondSumP.bond_sum_terms. Qed.

(* finite chains: H_bond has L entries and H_bond[0] is None (the assertion of calc_H_bond) *)
Theorem T10_bond0_empty : forall L ots cts, (2 <= L)%nat ->
  forallb (oterm_ok L) ots = true ->
  forallb (fun t => Nat.eqb (ct_j t) (S (ct_i t)) && (ct_j t <? L)%nat) cts = true ->
  length (h_bond true L ots cts) = L /\ nth 0 (h_bond true L ots cts) [] = [].
Proof. exact BondSumP.bond0_empty. Qed.

(* infinite bc (one unit cell, sites modulo L, no boundary exceptions, bond 0 joins sites L-1 and 0) *)
Theorem T10_bond_sum_infinite : forall L ots cts, (2 <= L)%nat ->
  forallb (oterm_ok L) ots = true ->
  forallb (fun t => Nat.eqb (ct_j t) (S (ct_i t)) && (ct_i t <? L)%nat) cts = true ->
  peq (bond_sum_inf L ots cts) (pscale (2, 0) (map nf_oterm ots ++ map (nf_nn_inf L) cts)).
Proof. exact BondSumP.bond_sum_inf_terms. Qed.

Example T10_ex_bond_sum :
  (2 <= 4)%nat /\ forallb (oterm_ok 4) BondSumP.ex_ots = true /\
  forallb (fun t => Nat.eqb (ct_j t) (S (ct_i t)) && (ct_j t <? 4)%nat) BondSumP.ex_cts = true /\
  normalize (bond_sum 4 BondSumP.ex_ots BondSumP.ex_cts)
  = normalize (pscale (2, 0) (map nf_oterm BondSumP.ex_ots ++ map nf_cterm BondSumP.ex_cts)) /\
  normalize (bond_sum 4 BondSumP.ex_ots BondSumP.ex_cts)
  = [((6, 0), [(0%nat, 1); (1%nat, 2)]); ((2, 0), [(0%nat, 3)]); ((0, 2), [(1%nat, 1); (2%nat, 2)]);
     ((-2, 0), [(1%nat, 5)]); ((2, 2), [(2%nat, 3)]); ((4, 2), [(2%nat, 5)]);
     ((2, -2), [(2%nat, 6); (3%nat, 7)]); ((0, 4), [(3%nat, 4)])].
Proof. exact BondSumP.bond_sum_terms_ex. Qed.
Example T10_ex_bond_sum_infinite :
  forallb (oterm_ok 4) BondSumP.ex_ots = true /\
  forallb (fun t => Nat.eqb (ct_j t) (S (ct_i t)) && (ct_i t <? 4)%nat) BondSumP.ex_cts_inf = true /\
  normalize (bond_sum_inf 4 BondSumP.ex_ots BondSumP.ex_cts_inf)
  = normalize (pscale (2, 0) (map nf_oterm BondSumP.ex_ots ++ map (nf_nn_inf 4) BondSumP.ex_cts_inf)) /\
  nth 0 (h_bond false 4 BondSumP.ex_ots BondSumP.ex_cts_inf) [] = [((10, 0), 6, 7); ((1, 0), 0, 3); ((0, 2), 4, 0)] /\
  coef (bond_sum_inf 4 BondSumP.ex_ots BondSumP.ex_cts_inf) [(0%nat, 7); (3%nat, 6)] = (10, 0).
Proof. exact BondSumP.bond_sum_inf_terms_ex. Qed.

(* ------------------------------------------------------------------ exponentially decaying terms
   (Model/ExpDecay.v: the finite branch of ExponentiallyDecayingTerms.add_to_graph for uniform lambda
   and the default subsites; lambda is a Gaussian integer so that the weights stay exact; built from
   add_edge / close / denote of Model/Automaton.v) *)
Theorem T10_expdecay : forall L n a s b lam w, (2 <= L)%nat ->
  peq (denote (close (add_exp L n a s b lam w (empty_graph L)))) (nf_exp L a s b lam w).
Proof. exact ExpDecayP.T10_expdecay. Qed.

(* added to a graph of on-site and two-site terms: sum_{i<j} strength * lambda^(j-i) A_i S.. B_j more *)
Theorem T10_expdecay_add : forall L n a s b lam w g, wf g = true -> length g = L ->
  peq (denote (close (add_exp L n a s b lam w g))) (nf_exp L a s b lam w ++ denote (close g)).
Proof. exact ExpDecayP.expdecay_add. Qed.

(* any number of exponentially decaying terms with the labels key_nr = n, n+1, ... *)
Theorem T10_expdecay_add_all : forall L ts n g, wf g = true -> length g = L ->
  peq (denote (close (add_exps L n ts g))) (flat_map (nf_xterm L) ts ++ denote (close g)).
Proof. exact ExpDecayP.expdecay_add_all_wf. Qed.

Example T10_ex_expdecay :
  (2 <= 4)%nat /\
  normalize (denote (close (add_exp 4 1000 1 2 3 (1, 1) (3, 0) (empty_graph 4)))) =
    [((-6, 6), [(0%nat, 1); (1%nat, 2); (2%nat, 2); (3%nat, 3)]);
     ((0, 6), [(0%nat, 1); (1%nat, 2); (2%nat, 3)]);
     ((3, 3), [(0%nat, 1); (1%nat, 3)]);
     ((0, 6), [(1%nat, 1); (2%nat, 2); (3%nat, 3)]);
     ((3, 3), [(1%nat, 1); (2%nat, 3)]);
     ((3, 3), [(2%nat, 1); (3%nat, 3)])] /\
  normalize (nf_exp 4 1 2 3 (1, 1) (3, 0)) =
  normalize (denote (close (add_exp 4 1000 1 2 3 (1, 1) (3, 0) (empty_graph 4)))).
Proof. exact ExpDecayP.ex_T10_expdecay. Qed.
Example T10_ex_expdecay_add :
  wf ExpDecayP.ex_g0 = true /\ length ExpDecayP.ex_g0 = 3%nat /\ fresh_in 1000 ExpDecayP.ex_g0 = true /\
  normalize (denote (close (add_exp 3 1000 1 2 3 (2, 0) (3, 0) ExpDecayP.ex_g0))) =
    [((12, 0), [(0%nat, 1); (1%nat, 2); (2%nat, 3)]);
     ((6, 0), [(0%nat, 1); (1%nat, 3)]);
     ((7, 0), [(0%nat, 5); (2%nat, 6)]);
     ((6, 0), [(1%nat, 1); (2%nat, 3)]);
     ((2, 1), [(1%nat, 4)])] /\
  normalize (nf_exp 3 1 2 3 (2, 0) (3, 0) ++ denote (close ExpDecayP.ex_g0)) =
  normalize (denote (close (add_exp 3 1000 1 2 3 (2, 0) (3, 0) ExpDecayP.ex_g0))).
Proof. exact ExpDecayP.ex_expdecay_add. Qed.

Print Assumptions T10_peqb_sound.
Print Assumptions T10_hermitian.
Print Assumptions T10_insert_edge.
Print Assumptions T10_add_to_graph_onsite.
Print Assumptions T10_add_to_graph_coupling.
Print Assumptions T10_from_terms_wf.
Print Assumptions T10_from_terms.
Print Assumptions T10_multi_key_names.
Print Assumptions T10_add_to_graph_multi.
Print Assumptions T10_multi_special_cases.
Print Assumptions T10_mwf_empty.
Print Assumptions T10_from_terms_multi.
Print Assumptions T10_split_term.
Print Assumptions T10_split_term_ok.
Print Assumptions T10_add_split_term.
Print Assumptions T10_bond_sum.
Print Assumptions T10_bond0_empty.
Print Assumptions T10_bond_sum_infinite.
Print Assumptions T10_expdecay.
Print Assumptions T10_expdecay_add.
Print Assumptions T10_expdecay_add_all.
