(* Property C10: MPOGraph construction (from_terms / add_to_graph) as weighted automata.
   Only statements; every proof is `exact <lemma from Proofs/AutomatonP.v or Proofs/AutomatonP2.v>`. *)
From TenpyV Require Import Base.Prelude Model.Automaton Proofs.AutomatonP Proofs.AutomatonP2.
Open Scope Z_scope.

(* the decision procedure used by the correspondence checkers is sound *)
Theorem T10_peqb_sound : forall p q, peqb p q = true -> peq p q.
Proof. exact peqb_sound. Qed.

(* a graph whose denotation is hermitian stays the same operator under MPO.dagger *)
Theorem T10_hermitian : forall hc g, hc 0 = 0 -> (forall x, x <> 0 -> hc x <> 0) ->
  peq (pdagger hc (denote g)) (denote g) -> peq (denote (gdagger hc g)) (denote g).
Proof. exact hermitian_graph. Qed.

(* adding an edge to any graph adds exactly the paths through that edge *)
Theorem T10_insert_edge : forall g1 es g2 e i k,
  Permutation (paths (g1 ++ (es ++ [e]) :: g2) i k)
              (paths (g1 ++ es :: g2) i k ++ paths (g1 ++ [e] :: g2) i k).
Proof. exact paths_insert_edge. Qed.

(* OnsiteTerms.add_to_graph, one term: the graph stays well formed and denotes one more monomial *)
Theorem T10_add_to_graph_onsite : forall g t, wf g = true -> oterm_ok (length g) t = true ->
  wf (add_oterm g t) = true /\
  peq (denote (close (add_oterm g t))) (nf_oterm t :: denote (close g)).
Proof. exact add_to_graph_onsite. Qed.

(* CouplingTerms.add_to_graph, one term (shared labels and shared string edges included) *)
Theorem T10_add_to_graph_coupling : forall g t, wf g = true -> cterm_ok (length g) t = true ->
  wf (add_cterm g t) = true /\
  peq (denote (close (add_cterm g t))) (nf_cterm t :: denote (close g)).
Proof. exact add_to_graph_coupling. Qed.

(* the graph built before closing is well formed *)
Theorem T10_from_terms_wf : forall L ots cts,
  forallb (oterm_ok L) ots = true -> forallb (cterm_ok L) cts = true ->
  wf (fold_left add_cterm cts (fold_left add_oterm ots (empty_graph L))) = true.
Proof. exact from_terms_wf. Qed.

(* MPOGraph.from_terms denotes exactly the sum of the terms *)
Theorem T10_from_terms : forall L ots cts,
  forallb (oterm_ok L) ots = true -> forallb (cterm_ok L) cts = true ->
  peq (denote (from_terms L ots cts)) (map nf_oterm ots ++ map nf_cterm cts).
Proof. exact from_terms_denote. Qed.

(* non-vacuity: terms sharing the start edge and string edges (first two), a second label *)
Example T10_ex_wf :
  wf (fold_left add_cterm [mkCT 0 5 0 2 6 (3,0); mkCT 0 5 0 3 7 (2,1); mkCT 1 5 9 3 6 (1,0)]
        (fold_left add_oterm [mkOT 1 4 (7,0)] (empty_graph 4))) = true.
Proof. vm_compute. reflexivity. Qed.

Example T10_ex_ok :
  forallb (oterm_ok 4) [mkOT 1 4 (7,0)] = true /\
  forallb (cterm_ok 4) [mkCT 0 5 0 2 6 (3,0); mkCT 0 5 0 3 7 (2,1); mkCT 1 5 9 3 6 (1,0)] = true.
Proof. vm_compute. split; reflexivity. Qed.

Example T10_ex_from_terms :
  let g := from_terms 4 [mkOT 1 4 (7,0)] [mkCT 0 5 0 2 6 (3,0); mkCT 0 5 0 3 7 (2,1); mkCT 1 5 9 3 6 (1,0)] in
  std_form g = true /\ map (@length edge) g = [3; 5; 5; 4]%nat /\
  normalize (denote g) =
    [((3,0), [(0%nat,5); (2%nat,6)]); ((2,1), [(0%nat,5); (3%nat,7)]); ((7,0), [(1%nat,4)]);
     ((1,0), [(1%nat,5); (2%nat,9); (3%nat,6)])].
Proof. vm_compute. repeat split; reflexivity. Qed.

(* a hermitian graph: hc swaps 5 and 6 *)
Example T10_ex_hermitian :
  let hc := assoc_hc [(5, 6); (6, 5)] in
  let g := from_terms 3 [] [mkCT 0 5 0 2 6 (3,2); mkCT 0 6 0 2 5 (3,-2)] in
  hc 0 = 0 /\ peqb (pdagger hc (denote g)) (denote g) = true.
Proof. vm_compute. split; reflexivity. Qed.

Example T10_ex_peqb :
  peqb [((1,0), [(0%nat,2)]); ((2,1), [(1%nat,3)]); ((-1,0), [(0%nat,2)])] [((2,1), [(1%nat,3)])] = true.
Proof. vm_compute. reflexivity. Qed.

Print Assumptions T10_peqb_sound.
Print Assumptions T10_hermitian.
Print Assumptions T10_insert_edge.
Print Assumptions T10_add_to_graph_onsite.
Print Assumptions T10_add_to_graph_coupling.
Print Assumptions T10_from_terms_wf.
Print Assumptions T10_from_terms.
