(* Property C11: MPO.dagger and MPO.__add__ on weighted automata.
   Only statements; every proof is `exact <lemma from Proofs/AutomatonP.v>`. *)
From TenpyV Require Import Base.Prelude Model.Automaton Proofs.AutomatonP.
Open Scope Z_scope.

(* the conjugated graph denotes the conjugated operator (operators on different sites commute) *)
Theorem T11_dagger : forall hc g, hc 0 = 0 -> (forall x, x <> 0 -> hc x <> 0) ->
  denote (gdagger hc g) = pdagger hc (denote g).
Proof. exact denote_dagger. Qed.

(* scaling all entries of the first site scales the operator *)
Theorem T11_scale_first : forall c g, g <> [] -> denote (gscale0 c g) = pscale c (denote g).
Proof. exact denote_scale0. Qed.

(* MPO.__add__ : the sum graph denotes the sum of the operators *)
Theorem T11_add : forall A B, length A = length B -> std_form A = true -> std_form B = true ->
  peq (denote (gadd A B)) (denote A ++ denote B).
Proof. exact denote_gadd. Qed.

(* MPO.plus_identity(alpha, beta, sites=[0]) denotes alpha * 1 + beta * H *)
Theorem T11_plus_identity : forall a b g, g <> [] -> std_form g = true ->
  peq (denote (gplus_id a b g)) ((a, []) :: pscale b (denote g)).
Proof. exact denote_gplus_id. Qed.

(* no false negatives: with T10_peqb_sound, peqb decides "same operator" *)
Theorem T11_peqb_complete : forall p q, peq p q -> peqb p q = true.
Proof. exact peqb_complete. Qed.

Example T11_ex_plus_identity :
  let g := from_terms 3 [mkOT 1 4 (7,0)] [mkCT 0 5 0 2 6 (3,2)] in
  let a := (2,1) in let b := (0,-1) in
  g <> [] /\ std_form g = true /\
  peqb (denote (gplus_id a b g)) ((a, []) :: pscale b (denote g)) = true /\
  normalize (denote (gplus_id a b g)) =
    [((2,1), []); ((2,-3), [(0%nat,5); (2%nat,6)]); ((0,-7), [(1%nat,4)])].
Proof. vm_compute. repeat split; try reflexivity. discriminate. Qed.

(* non-vacuity: two closed graphs built from terms are in standard sum form, and the sum is decided *)
Example T11_ex_std :
  let A := from_terms 4 [mkOT 1 4 (7,0)] [mkCT 0 5 0 2 6 (3,0); mkCT 0 5 0 3 7 (2,1)] in
  let B := from_terms 4 [mkOT 2 3 (0,1)] [mkCT 1 5 9 3 6 (1,0)] in
  std_form A = true /\ std_form B = true /\ length A = length B /\
  peqb (denote (gadd A B)) (denote A ++ denote B) = true /\
  length (normalize (denote (gadd A B))) = 5%nat.
Proof. vm_compute. repeat split; reflexivity. Qed.

Example T11_ex_dagger :
  let hc := assoc_hc [(5, 6); (6, 5)] in
  let g := from_terms 3 [] [mkCT 0 5 0 2 6 (3,2)] in
  hc 0 = 0 /\ denote (gdagger hc g) = [((3, -2), [(0%nat, 6); (2%nat, 5)])].
Proof. vm_compute. split; reflexivity. Qed.

Print Assumptions T11_dagger.
Print Assumptions T11_scale_first.
Print Assumptions T11_add.
Print Assumptions T11_plus_identity.
Print Assumptions T11_peqb_complete.
