(* Property C11: MPO.dagger and MPO.__add__ on weighted automata.
   Only statements; every proof is `exact <lemma from Proofs/AutomatonP.v, Proofs/PropUIP.v or
   Proofs/PropUICheckP.v>`. *)
From TenpyV Require Import Base.Prelude Model.Automaton Proofs.AutomatonP.
From TenpyV Require Model.PropUI Proofs.PropUIP Model.PropUICheck Proofs.PropUICheckP.
Import Model.PropUI Model.PropUICheck.
Open Scope Z_scope.

(* the conjugated graph denotes the conjugated operator (operators on different sites commute) *)
Theorem T11_dagger : forall hc g, hc 0 = 0 -> (forall x, x <> 0 -> hc x <> 0) ->
  denote (gdagger hc g) = pdagger hc (denote g).
Proof. exact denote_dagger. Qed.

(* scaling all entries of the first site scales the operator *)
Theorem T11_scale_first : forall c g, g <> [] -> denote (gscale0 c g) = pscale c (denote g).
Proof. exact denote_scale0. Qed.

(* MPO.__add__ : the sum graph denotes the sum of the operators *)
Theorem T11_add : forall A B, length A = length B -> std_form A = true -> std_form B = true ->
  peq (denote (gadd A B)) (denote A ++ denote B).
Proof. exact denote_gadd. Qed.

(* MPO.plus_identity(alpha, beta, sites=[0]) denotes alpha * 1 + beta * H *)
Theorem T11_plus_identity : forall a b g, g <> [] -> std_form g = true ->
  peq (denote (gplus_id a b g)) ((a, []) :: pscale b (denote g)).
Proof. exact denote_gplus_id. Qed.

(* no false negatives: with T10_peqb_sound, peqb decides "same operator" *)
Theorem T11_peqb_complete : forall p q, peq p q -> peqb p q = true.
Proof. exact peqb_complete. Qed.

Example T11_ex_plus_identity :
  let g := from_terms 3 [mkOT 1 4 (7,0)] [mkCT 0 5 0 2 6 (3,2)] in
  let a := (2,1) in let b := (0,-1) in
  g <> [] /\ std_form g = true /\
  peqb (denote (gplus_id a b g)) ((a, []) :: pscale b (denote g)) = true /\
  normalize (denote (gplus_id a b g)) =
    [((2,1), []); ((2,-3), [(0%nat,5); (2%nat,6)]); ((0,-7), [(1%nat,4)])].
Proof. vm_compute. repeat split; try reflexivity. discriminate. Qed.

(* non-vacuity: two closed graphs built from terms are in standard sum form, and the sum is decided *)
Example T11_ex_std :
  let A := from_terms 4 [mkOT 1 4 (7,0)] [mkCT 0 5 0 2 6 (3,0); mkCT 0 5 0 3 7 (2,1)] in
  let B := from_terms 4 [mkOT 2 3 (0,1)] [mkCT 1 5 9 3 6 (1,0)] in
  std_form A = true /\ std_form B = true /\ length A = length B /\
  peqb (denote (gadd A B)) (denote A ++ denote B) = true /\
  length (normalize (denote (gadd A B))) = 5%nat.
Proof. vm_compute. repeat split; reflexivity. Qed.

Example T11_ex_dagger :
  let hc := assoc_hc [(5, 6); (6, 5)] in
  let g := from_terms 3 [] [mkCT 0 5 0 2 6 (3,2)] in
  hc 0 = 0 /\ denote (gdagger hc g) = [((3, -2), [(0%nat, 6); (2%nat, 5)])].
Proof. vm_compute. split; reflexivity. Qed.

(* ------------------------------------------------------------------ MPO.make_U_I
   (Model/PropUI.v: on the graph of a finite MPO in standard sum form make_U_I drops the edges
   leaving IdR and redirects every edge entering IdR to IdL with weight dt * w; the operator is the
   sum over paths IdL ->* IdL.  Edge weights are monomials c * dt^d, so the graded automaton
   ui_graph (degree 1 on redirected edges) is exact: ui_den d g is the coefficient of dt^d.
   Tie to the code: correspondence stream `c11_make_U_I` of harness/c11.py (checker check_UI_grid of
   Model/PropUICheck.v, evaluated inside Coq on exact data): for finite H (term lists and explicit graphs,
   standard sum form or not, virtual indices permuted so that IdL / IdR sit anywhere, integer /
   Gaussian-integer strengths) and Gaussian-integer dt, the W grid entries, IdL, IdR and chi of the
   MPO returned by H.make_U_I(dt) are compared with ui_eval dt g and with the graded automaton
   ui_graph g evaluated at dt, where g is the graph of the W grid of H; the operator of the result is
   compared with the Taylor polynomial ui_taylor.  Numeric steps: slope oracle only.) *)

(* coefficient of dt^0 is the identity, for every graph in standard sum form (any length) *)
Theorem T11_UI_order0 : forall g, std_form g = true -> ui_den 0 g = [(c1, [])].
Proof. exact PropUIP.UI_order0_eq. Qed.

(* coefficient of dt^1 is exactly H (as lists of monomials, not only up to reordering) *)
Theorem T11_UI_order1 : forall g, std_form g = true -> ui_den 1 g = denote g.
Proof. exact PropUIP.UI_order1_eq. Qed.

(* the graded semantics is the Taylor expansion of the evaluated propagator MPO, for every time
   step t (Gaussian integer) and every graph; degrees above the chain length do not occur *)
Theorem T11_UI_eval : forall t g, peq (denote_to IdL (ui_eval t g)) (ui_taylor t g).
Proof. exact PropUIP.UI_eval. Qed.

(* U_I(t) = 1 + t H + sum_{d >= 2} t^d (coefficient d) *)
Theorem T11_UI_first_order : forall t g, std_form g = true ->
  peq (denote_to IdL (ui_eval t g))
      ((c1, []) :: pscale t (denote g) ++
       flat_map (fun d => pscale (cpow t d) (ui_den d g)) (seq 2 (length g - 1))).
Proof. exact PropUIP.UI_first_order. Qed.

(* the coefficient of dt^2 is the sum over cut positions m of (terms of H entering IdR exactly on
   site m) * (terms of H on the sites > m): exactly the products of NON-overlapping terms *)
Theorem T11_UI_order2 : forall g, std_form g = true -> peq (ui_den 2 g) (ui_order2 g).
Proof. exact PropUIP.UI_order2. Qed.

(* the first factors of ui_order2 are all the terms of H, each exactly once *)
Theorem T11_UI_terms_split : forall g, std_form g = true ->
  peq (denote g) (flat_map (ui_terms_at g 0 IdL) (seq 0 (length g))).
Proof. exact PropUIP.UI_terms_split. Qed.

(* ---- the correspondence checker of make_U_I (Model/PropUICheck.v) *)

(* the graded automaton evaluated at t (weight * t^degree on every edge) IS the evaluated U_I graph *)
Theorem T11_UI_graded_eval : forall t g, geval t (ui_graph g) = ui_eval t g.
Proof. exact PropUICheckP.geval_ui_graph. Qed.

(* the entry-wise comparison of W grids used by the checker (per site the same function
   (keyL, keyR, operator) -> total coefficient; parallel edges add up, zero entries do not count) is sound
   for the operator, from every start state k to every final state kf, for graphs of any length *)
Theorem T11_UI_grid_sound : forall g h, grid_fun_eqb g h = true ->
  forall kf i k, peq (ending kf (paths g i k)) (ending kf (paths h i k)).
Proof. exact PropUICheckP.grid_fun_sound. Qed.

(* every case the stream accepts: the operator of the implementation's U_I (paths IdL ->* IdL through its
   W grid) is the Taylor polynomial sum_d dt^d * ui_den d (graph of H); the proof uses only the entry-wise
   W grid comparison of the checker *)
Theorem T11_UI_check_sound : forall c, check_UI_grid c = true ->
  peq (denote_to IdL (ui_case_U c)) (ui_taylor (ui_t c) (ui_case_H c)).
Proof. exact PropUICheckP.check_UI_grid_sound. Qed.

(* ... and equals 1 + dt H + (orders 2 .. L) when the W grid of H is in standard sum form *)
Theorem T11_UI_check_first_order : forall c, check_UI_grid c = true -> std_form (ui_case_H c) = true ->
  peq (denote_to IdL (ui_case_U c))
      ((c1, []) :: pscale (ui_t c) (denote (ui_case_H c)) ++
       flat_map (fun d => pscale (cpow (ui_t c) d) (ui_den d (ui_case_H c)))
                (seq 2 (length (ui_case_H c) - 1))).
Proof. exact PropUICheckP.check_UI_grid_first_order. Qed.

(* non-vacuity: an accepted case (H = 3 Sz_0 + (2+i) Sp_0 Sm_1, permuted bond indices with IdL > IdR on the
   middle bond, dt = 1 + i) in standard sum form; a wrong coefficient / a wrong IdL index is rejected *)
Example T11_ex_UI_check :
  check_UI_grid PropUICheckP.uic_ex = true /\ std_form (ui_case_H PropUICheckP.uic_ex) = true /\
  normalize (denote (ui_case_H PropUICheckP.uic_ex)) =
    [((3, 0), [(0%nat, 1)]); ((2, 1), [(0%nat, 2); (1%nat, 3)])] /\
  normalize (denote_to IdL (ui_case_U PropUICheckP.uic_ex)) =
    [((1, 0), []); ((3, 3), [(0%nat, 1)]); ((1, 3), [(0%nat, 2); (1%nat, 3)])].
Proof. exact PropUICheckP.uic_ex_ok. Qed.
Example T11_ex_UI_check_rejects :
  check_UI_grid PropUICheckP.uic_ex_bad1 = false /\ check_UI_grid PropUICheckP.uic_ex_bad2 = false.
Proof. exact PropUICheckP.uic_ex_rejects. Qed.
Example T11_ex_UI_grid_fun :
  grid_fun_eqb [[mkE IdL IdL 0 (1, 0); mkE IdL IdL 0 (2, 1); mkE IdL (Oth 1) 4 (0, 0)]]
               [[mkE IdL IdL 0 (3, 1)]] = true /\
  grid_fun_eqb [[mkE IdL IdL 0 (1, 0)]] [[mkE IdL IdL 0 (3, 1)]] = false.
Proof. exact PropUICheckP.grid_fun_ex. Qed.

Example T11_ex_UI_std : std_form PropUIP.ui_ex_g = true /\ std_form PropUIP.ui_ex_g3 = true /\ PropUIP.ui_ex_g <> [].
Proof. exact PropUIP.ui_ex_std. Qed.
Example T11_ex_UI_order0 : ui_den 0 PropUIP.ui_ex_g = [(c1, [])] /\ ui_den 0 PropUIP.ui_ex_g3 = [(c1, [])].
Proof. exact PropUIP.ui_ex_order0. Qed.
Example T11_ex_UI_eval :
  peqb (denote_to IdL (ui_eval (2, 1) PropUIP.ui_ex_g)) (ui_taylor (2, 1) PropUIP.ui_ex_g) = true /\
  check_UI ((2, 1), PropUIP.ui_ex_g, ui_eval (2, 1) PropUIP.ui_ex_g) = true /\
  normalize (denote_to IdL (ui_eval (2, 1) PropUIP.ui_ex_g3)) =
    [((1, 0), []); ((4, 7), [(0%nat, 5); (2%nat, 6)]); ((14, 7), [(1%nat, 4)]);
     ((2, 1), [(1%nat, 5); (2%nat, 6)])].
Proof. exact PropUIP.ui_ex_eval. Qed.
(* the hypothesis std_form is needed *)
Example T11_ex_UI_nonstd :
  std_form PropUIP.ui_ex_bad = false /\ peqb (ui_den 0 PropUIP.ui_ex_bad) [(c1, [])] = false.
Proof. exact PropUIP.ui_ex_nonstd. Qed.

Print Assumptions T11_dagger.
Print Assumptions T11_scale_first.
Print Assumptions T11_add.
Print Assumptions T11_plus_identity.
Print Assumptions T11_peqb_complete.
Print Assumptions T11_UI_order0.
Print Assumptions T11_UI_order1.
Print Assumptions T11_UI_eval.
Print Assumptions T11_UI_first_order.
Print Assumptions T11_UI_order2.
Print Assumptions T11_UI_terms_split.
Print Assumptions T11_UI_graded_eval.
Print Assumptions T11_UI_grid_sound.
Print Assumptions T11_UI_check_sound.
Print Assumptions T11_UI_check_first_order.
