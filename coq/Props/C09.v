(* Property C09: MPS transformations implement the documented map on states -- the combinatorial core:
   permute_sites (loop of adjacent swaps, arrangement convention, fermionic sign) and the structural operations
   spatial_inversion / roll_mps_unit_cell / enlarge_mps_unit_cell on (labels, exponents, dimensions).
   Only statements; proofs in Proofs/PermsP.v and Proofs/MpsFormP.v.  Dense-state claims (operators, add,
   compression error, group/split) are checked by the oracle of harness/c09.py, not proved. *)
From TenpyV Require Import Base.Prelude Model.MpsIndex Model.MpsForm Model.Perms Proofs.MpsFormP Proofs.PermsP.
From TenpyV Require Import Model.MpsAdd Proofs.MpsAddP.
Open Scope Z_scope.

(* the while-loop of permute_sites terminates within the stated fuel for EVERY list, ends with a sorted perm list,
   and perm entries and sites were moved together *)
Theorem T09_permute_terminates_sorts : forall (perm : list Z) (arr : list (Z * bool)),
  length arr = length perm ->
  let r := permute perm arr in
  step r = None /\ StronglySorted Z.le (p_perm r) /\
  length (p_perm r) = length perm /\ length (p_arr r) = length perm /\
  Permutation (combine perm arr) (combine (p_perm r) (p_arr r)).
Proof. exact permute_terminates_sorts. Qed.

(* for a permutation of 0..L-1: the final list is the identity and new[perm[i]] = old[i] (the convention pinned by
   tests/test_mps.py::test_mps_swap; the docstring of permute_sites states the inverse);
   the sign collected from the (-1)^{n_i n_{i+1}} of every swap_sites is the parity of the number of inverted pairs
   with two odd occupations, i.e. the sign of reordering the creation operators of that Fock basis state;
   the number of swap_sites calls is the number of inversions *)
Theorem T09_permute_arrangement : forall (perm : list Z) (arr : list (Z * bool)) (d : Z * bool),
  length arr = length perm ->
  Permutation perm (map Z.of_nat (seq 0 (length perm))) ->
  let r := permute perm arr in
  p_perm r = map Z.of_nat (seq 0 (length perm)) /\
  (forall i, (i < length perm)%nat -> nth (Z.to_nat (nth i perm 0)) (p_arr r) d = nth i arr d) /\
  p_sign r = Nat.odd (ginv inv_odd (combine perm arr)) /\
  length (p_log r) = ginv inv_key (combine perm arr).
Proof.
  intros perm arr d Hl Hp.
  destruct (permute_arrangement perm arr d Hl Hp) as [H1 H2].
  exact (conj H1 (conj H2 (conj (permute_sign perm arr Hl) (permute_swap_count perm arr Hl)))).
Qed.

(* spatial_inversion: site j becomes the mirrored site L-1-j with left/right (labels, exponents, bond dimensions)
   exchanged; labels stay truthful; applied twice it is the identity *)
Theorem T09_inversion_involutive : forall st,
  inversion (inversion st) = st /\
  (Forall truthful st -> Forall truthful (inversion st)) /\
  length (inversion st) = length st /\
  (forall j, (j < length st)%nat -> nth j (inversion st) dsite = flip (nth (length st - 1 - j) st dsite)).
Proof.
  intros st. split; [apply inversion_involutive|]. split; [apply inversion_truthful|].
  split; [unfold inversion; rewrite rev_length, map_length; reflexivity|].
  intros j Hj. apply (proj1 (inversion_nth st j Hj)).
Qed.

(* roll_mps_unit_cell(k) as documented (tensors fetched as stored): new site j is old site (j-k) mod L with its label,
   exponents and bond dimensions; truthfulness is preserved; rolling back is the identity *)
Theorem T09_roll_denotation : forall k st,
  length (roll k st) = length st /\
  (forall j, (j < length st)%nat -> nth j (roll k st) dsite = nth (Z.to_nat ((Z.of_nat j - k) mod len st)) st dsite) /\
  (Forall truthful st -> Forall truthful (roll k st)) /\
  roll (- k) (roll k st) = st.
Proof.
  intros k st. split; [apply roll_length|]. split; [intros j Hj; apply roll_nth; exact Hj|].
  split; [apply roll_truthful|apply roll_back].
Qed.

(* the variant "permute the labels, then get_B(i) in the default form 'B'" does NOT keep the labels truthful
   (this is what the unchanged tenpy tree does, DESIGN section 8 F7; found on the code by the oracle of c09.py) *)
Theorem T09_roll_default_form_counterexample :
  exists k st st', Forall truthful st /\ roll_default_form k st = Some st' /\ ~ Forall truthful st'.
Proof. exact roll_default_form_breaks. Qed.

(* enlarge_mps_unit_cell(n): n copies, site j is old site j mod L *)
Theorem T09_enlarge_denotation : forall n st,
  length (enlarge n st) = (n * length st)%nat /\
  (forall j, (j < n * length st)%nat -> nth j (enlarge n st) dsite = nth (j mod length st) st dsite) /\
  (Forall truthful st -> Forall truthful (enlarge n st)).
Proof.
  intros n st. split; [apply enlarge_length|]. split; [apply enlarge_nth|apply enlarge_truthful].
Qed.

(* MPS.add is linear (Model/MpsAdd.v): for two chains of integer matrices A_1..A_L, B_1..B_L of the same length
   L >= 2 with ANY (also different, non-uniform) bond dimensions, the product of
     (alpha A_1 , beta B_1) . diag(A_2, B_2) ... diag(A_{L-1}, B_{L-1}) . (A_L ; B_L)
   is alpha * A_1...A_L + beta * B_1...B_L, entry by entry (the row index ranges over the shared left boundary, the
   column index over the shared right boundary; both of dimension 1 for bc='finite').  alpha, beta are the
   prefactors after multiplication with self.norm / other.norm as in the code.  The second statement is the same with
   the physical legs: for every configuration (p_1..p_L) the amplitude of the sum MPS is the linear combination.
   Not covered: the canonical_form_finite(renormalize=False) that MPS.add calls afterwards (numerics; oracle of c09.py). *)
Theorem T09_add_linear : forall (alpha beta : Z) (As Bs : chain),
  length As = length Bs -> (2 <= length As)%nat ->
  forall i j, chain_prod (add_chain alpha beta As Bs) i j = alpha * chain_prod As i j + beta * chain_prod Bs i j.
Proof. exact add_linear. Qed.

Theorem T09_add_linear_tensors : forall (alpha beta : Z) (TA TB : tchain) (ps : list nat),
  length TA = length TB -> (2 <= length TA)%nat -> length ps = length TA ->
  forall i j, amplitude (tadd alpha beta TA TB) ps i j = alpha * amplitude TA ps i j + beta * amplitude TB ps i j.
Proof. exact tadd_linear. Qed.

Example ex_permute :
  let r := permute [2; 0; 3; 1] [(10, true); (11, true); (12, false); (13, true)] in
  p_perm r = [0; 1; 2; 3] /\ map fst (p_arr r) = [11; 13; 10; 12] /\ p_log r = [0%nat; 2%nat; 1%nat] /\ p_sign r = false.
Proof. vm_compute. repeat split; reflexivity. Qed.
Example ex_perm_hyp : Permutation [2; 0; 3; 1] (map Z.of_nat (seq 0 4)).
Proof.
  cbn. apply perm_trans with (2 :: 0 :: 1 :: 3 :: nil).
  - do 2 apply perm_skip. apply perm_swap.
  - apply perm_trans with (0 :: 2 :: 1 :: 3 :: nil); [apply perm_swap|]. apply perm_skip. apply perm_swap.
Qed.

(* chains with bond dimensions 1-2-2-1 and 1-1-3-1 *)
Definition mat_of (l : list (list Z)) : mat := fun i j => nth j (nth i l []) 0.
Definition ex_As : chain := [(2%nat, mat_of [[1; 2]]); (2%nat, mat_of [[0; 1]; [3; -1]]); (1%nat, mat_of [[2]; [5]])].
Definition ex_Bs : chain := [(1%nat, mat_of [[4]]); (3%nat, mat_of [[1; -2; 3]]); (1%nat, mat_of [[1]; [1]; [2]])].
Example ex_add :
  chain_prod ex_As 0%nat 0%nat = 7 /\ chain_prod ex_Bs 0%nat 0%nat = 20 /\
  chain_prod (add_chain 2 (-3) ex_As ex_Bs) 0%nat 0%nat = -46 /\
  map fst (add_chain 2 (-3) ex_As ex_Bs) = [3%nat; 5%nat; 1%nat].
Proof. vm_compute. repeat split; reflexivity. Qed.

Print Assumptions T09_permute_terminates_sorts.
Print Assumptions T09_permute_arrangement.
Print Assumptions T09_inversion_involutive.
Print Assumptions T09_roll_denotation.
Print Assumptions T09_roll_default_form_counterexample.
Print Assumptions T09_enlarge_denotation.
Print Assumptions T09_add_linear.
Print Assumptions T09_add_linear_tensors.
