(* Property C09: MPS transformations implement the documented map on states -- the combinatorial core:
   permute_sites (loop of adjacent swaps, arrangement convention, fermionic sign) and the structural operations
   spatial_inversion / roll_mps_unit_cell / enlarge_mps_unit_cell on (labels, exponents, dimensions).
   Only statements; proofs in Proofs/PermsP.v and Proofs/MpsFormP.v.  Dense-state claims (operators, add,
   compression error, group/split) are checked by the oracle of harness/c09.py, not proved. *)
From TenpyV Require Import Base.Prelude Model.MpsIndex Model.MpsForm Model.Perms Proofs.MpsFormP Proofs.PermsP.
From TenpyV Require Import Model.MpsAdd Proofs.MpsAddP Model.MpsAddCheck Proofs.MpsAddCheckP.
From TenpyV Require Import Model.SwapSign Proofs.SwapSignP.
Open Scope Z_scope.

(* the while-loop of permute_sites terminates within the stated fuel for EVERY list, ends with a sorted perm list,
   and perm entries and sites were moved together *)
Theorem T09_permute_terminates_sorts : forall (perm : list Z) (arr : list (Z * bool)),
  length arr = length perm ->
  let r := permute perm arr in
  step r = None /\ StronglySorted Z.le (p_perm r) /\
  length (p_perm r) = length perm /\ length (p_arr r) = length perm /\
  Permutation (combine perm arr) (combine (p_perm r) (p_arr r)).
Proof. exact permute_terminates_sorts. Qed.

(* for a permutation of 0..L-1: the final list is the identity and new[perm[i]] = old[i] (the convention pinned by
   tests/test_mps.py::test_mps_swap; the docstring of permute_sites states the inverse);
   the sign collected from the (-1)^{n_i n_{i+1}} of every swap_sites is the parity of the number of inverted pairs
   with two odd occupations, i.e. the sign of reordering the creation operators of that Fock basis state;
   the number of swap_sites calls is the number of inversions *)
Theorem T09_permute_arrangement : forall (perm : list Z) (arr : list (Z * bool)) (d : Z * bool),
  length arr = length perm ->
  Permutation perm (map Z.of_nat (seq 0 (length perm))) ->
  let r := permute perm arr in
  p_perm r = map Z.of_nat (seq 0 (length perm)) /\
  (forall i, (i < length perm)%nat -> nth (Z.to_nat (nth i perm 0)) (p_arr r) d = nth i arr d) /\
  p_sign r = Nat.odd (ginv inv_odd (combine perm arr)) /\
  length (p_log r) = ginv inv_key (combine perm arr).
Proof.
  intros perm arr d Hl Hp.
  destruct (permute_arrangement perm arr d Hl Hp) as [H1 H2].
  exact (conj H1 (conj H2 (conj (permute_sign perm arr Hl) (permute_swap_count perm arr Hl)))).
Qed.

(* spatial_inversion: site j becomes the mirrored site L-1-j with left/right (labels, exponents, bond dimensions)
   exchanged; labels stay truthful; applied twice it is the identity *)
Theorem T09_inversion_involutive : forall st,
  inversion (inversion st) = st /\
  (Forall truthful st -> Forall truthful (inversion st)) /\
  length (inversion st) = length st /\
  (forall j, (j < length st)%nat -> nth j (inversion st) dsite = flip (nth (length st - 1 - j) st dsite)).
Proof.
  intros st. split; [apply inversion_involutive|]. split; [apply inversion_truthful|].
  split; [unfold inversion; rewrite rev_length, map_length; reflexivity|].
  intros j Hj. apply (proj1 (inversion_nth st j Hj)).
Qed.

(* roll_mps_unit_cell(k) as documented (tensors fetched as stored): new site j is old site (j-k) mod L with its label,
   exponents and bond dimensions; truthfulness is preserved; rolling back is the identity *)
Theorem T09_roll_denotation : forall k st,
  length (roll k st) = length st /\
  (forall j, (j < length st)%nat -> nth j (roll k st) dsite = nth (Z.to_nat ((Z.of_nat j - k) mod len st)) st dsite) /\
  (Forall truthful st -> Forall truthful (roll k st)) /\
  roll (- k) (roll k st) = st.
Proof.
  intros k st. split; [apply roll_length|]. split; [intros j Hj; apply roll_nth; exact Hj|].
  split; [apply roll_truthful|apply roll_back].
Qed.

(* the variant "permute the labels, then get_B(i) in the default form 'B'" does NOT keep the labels truthful
   (this is what the unchanged tenpy tree does, DESIGN section 8 F7; found on the code by the oracle of c09.py) *)
Theorem T09_roll_default_form_counterexample :
  exists k st st', Forall truthful st /\ roll_default_form k st = Some st' /\ ~ Forall truthful st'.
Proof. exact roll_default_form_breaks. Qed.

(* enlarge_mps_unit_cell(n): n copies, site j is old site j mod L *)
Theorem T09_enlarge_denotation : forall n st,
  length (enlarge n st) = (n * length st)%nat /\
  (forall j, (j < n * length st)%nat -> nth j (enlarge n st) dsite = nth (j mod length st) st dsite) /\
  (Forall truthful st -> Forall truthful (enlarge n st)).
Proof.
  intros n st. split; [apply enlarge_length|]. split; [apply enlarge_nth|apply enlarge_truthful].
Qed.

(* MPS.add is linear (Model/MpsAdd.v): for two chains of integer matrices A_1..A_L, B_1..B_L of the same length
   L >= 2 with ANY (also different, non-uniform) bond dimensions, the product of
     (alpha A_1 , beta B_1) . diag(A_2, B_2) ... diag(A_{L-1}, B_{L-1}) . (A_L ; B_L)
   is alpha * A_1...A_L + beta * B_1...B_L, entry by entry (the row index ranges over the shared left boundary, the
   column index over the shared right boundary; both of dimension 1 for bc='finite').  alpha, beta are the
   prefactors after multiplication with self.norm / other.norm as in the code.  The second statement is the same with
   the physical legs: for every configuration (p_1..p_L) the amplitude of the sum MPS is the linear combination.
   Not covered: the canonical_form_finite(renormalize=False) that MPS.add calls afterwards (numerics; oracle of c09.py).
   TIE: `tadd` is executed against MPS.add in the correspondence stream `add-blocks` of harness/c09.py
   (Model/MpsAddCheck.v): integer tensors, trivial charges, L = 2..5, non-uniform bond dimensions 1..3, finite and
   segment bc (shared outer bonds of dimension 1..2), stored forms A/B/G/Th with singular values 1, 2, 4, integer
   alpha, beta and norms; canonical_form_finite is a no-op during the call, so the observed tensors are the
   npc.grid_concat results; all dimensions and entries are compared with tadd (alpha*norm) (beta*norm') applied to
   get_B(0, 'Th'), get_B(i, 'B'). *)
Theorem T09_add_linear : forall (alpha beta : Z) (As Bs : chain),
  length As = length Bs -> (2 <= length As)%nat ->
  forall i j, chain_prod (add_chain alpha beta As Bs) i j = alpha * chain_prod As i j + beta * chain_prod Bs i j.
Proof. exact add_linear. Qed.

Theorem T09_add_linear_tensors : forall (alpha beta : Z) (TA TB : tchain) (ps : list nat),
  length TA = length TB -> (2 <= length TA)%nat -> length ps = length TA ->
  forall i j, amplitude (tadd alpha beta TA TB) ps i j = alpha * amplitude TA ps i j + beta * amplitude TB ps i j.
Proof. exact tadd_linear. Qed.

(* the sign matrix MPS.swap_sites(i, swap_op='auto') builds (Model/SwapSign.v; executed against the operand swap_sites
   really contracts with theta on mixed chains by the stream `swap-sign` of harness/c09_swapsign.py), for
   HETEROGENEOUS neighbours: jwL = JW_exponent of the LEFT site get_site(i) (dimension dL), jwR of the RIGHT site
   get_site(i+1) (dimension dR), any lengths, any integer exponents.  For all local states a < dL, b < dR the entry e of
   the diagonal at the flattened index a*dR+b
     - is -1 iff both exponents are odd, +1 otherwise;
     - is the Fock-space sign of (c^dag_i)^{na} (c^dag_{i+1})^{nb} -> (c^dag_{i+1})^{nb} (c^dag_i)^{na} for every pair
       of occupation numbers with these parities (parity of the number of adjacent transpositions of anticommuting
       creation operators, counted with ginv of Model/Perms.v);
     - is the only non-zero entry of the labelled array ['p1','p0','p0*','p1*'] = reshape [dL,dR,dL,dR] in the row
       (out-legs) p0 = b (state of the former right site, now on position i), p1 = a, at the column p0* = a, p1* = b;
     - is the sign one swap of the permute_sites loop model (Model/Perms.v, `step`; collected into
       T09_permute_arrangement's p_sign) applies when the two positions carry these parities.
   The matrix is the identity iff no pair of states with two odd exponents exists; the shortcut swap_op=None (plain
   relabeling) is taken only then, and for 0/1 exponents exactly then. *)
(* soundness of the correspondence checker of the stream `add-blocks` (Model/MpsAddCheck.v): whenever check_add_case
   accepts a recorded call psi.add(other, alpha, beta) -- TA, TB the tensors get_B(0,'Th'), get_B(i,'B') of the two
   inputs, TC the tensors the real code handed to the constructor of the sum, nA/nB the two norms -- then the chains
   have equal length L >= 2 and for EVERY physical configuration ps inside the recorded physical dimensions the
   amplitude of the OBSERVED tensors TC is alpha*nA * amplitude(TA) + beta*nB * amplitude(TB), for every row index of
   the shared left boundary and every column index of the shared right boundary.  Hence every accepted case of the
   stream is an instance where the code's own tensors provably denote the documented linear combination (before the
   canonicalisation, which the oracle checks). *)
Theorem T09_add_check_sound : forall (alpha nA beta nB : Z) (TA TB TC : list ltens),
  check_add_case (alpha, nA, beta, nB, TA, TB, TC) = true ->
  length TA = length TB /\ length TC = length TA /\ (2 <= length TA)%nat /\
  forall (ps : list nat) (i j : nat),
    Forall2 in_pdim ps TC ->
    (i < rows_of (hd dltens TA))%nat -> (j < cols_of (last TC dltens))%nat ->
    amplitude (tchain_of TC) ps i j =
      (alpha * nA) * amplitude (tchain_of TA) ps i j + (beta * nB) * amplitude (tchain_of TB) ps i j.
Proof. exact add_check_sound. Qed.

Theorem T09_swap_sign_table : forall (jwL jwR : list Z),
  let dL := length jwL in let dR := length jwR in
  length (swap_diag jwL jwR) = (dL * dR)%nat /\
  (forall a b, (a < dL)%nat -> (b < dR)%nat ->
     let e := nth (a * dR + b) (swap_diag jwL jwR) 0 in
     e = sign_ab jwL jwR a b /\
     (e = -1 <-> Z.odd (nth a jwL 0) = true /\ Z.odd (nth b jwR 0) = true) /\
     (forall na nb, Nat.odd na = Z.odd (nth a jwL 0) -> Nat.odd nb = Z.odd (nth b jwR 0) ->
        e = fock_exchange_sign na nb) /\
     (forall a' b', (a' < dL)%nat -> (b' < dR)%nat ->
        swap_op_entry jwL jwR b a a' b' = if ((a =? a') && (b =? b'))%nat then e else 0) /\
     (forall s s', step s = Some s' ->
        (nth (Datatypes.S (p_i s)) (p_perm s) 0 <? nth (p_i s) (p_perm s) 0) = true ->
        parity_at (p_arr s) (p_i s) = Z.odd (nth a jwL 0) ->
        parity_at (p_arr s) (Datatypes.S (p_i s)) = Z.odd (nth b jwR 0) ->
        p_sign s' = xorb (p_sign s) (e =? -1))) /\
  (Forall (fun x => x = 1) (swap_diag jwL jwR) <-> no_odd_pair jwL jwR) /\
  (swap_op_auto jwL jwR = None -> no_odd_pair jwL jwR) /\
  (forall dg, swap_op_auto jwL jwR = Some dg -> dg = swap_diag jwL jwR) /\
  (is_parity jwL -> is_parity jwR -> (swap_op_auto jwL jwR = None <-> no_odd_pair jwL jwR)).
Proof. exact swap_sign_table. Qed.

Example ex_permute :
  let r := permute [2; 0; 3; 1] [(10, true); (11, true); (12, false); (13, true)] in
  p_perm r = [0; 1; 2; 3] /\ map fst (p_arr r) = [11; 13; 10; 12] /\ p_log r = [0%nat; 2%nat; 1%nat] /\ p_sign r = false.
Proof. vm_compute. repeat split; reflexivity. Qed.
Example ex_perm_hyp : Permutation [2; 0; 3; 1] (map Z.of_nat (seq 0 4)).
Proof.
  cbn. apply perm_trans with (2 :: 0 :: 1 :: 3 :: nil).
  - do 2 apply perm_skip. apply perm_swap.
  - apply perm_trans with (0 :: 2 :: 1 :: 3 :: nil); [apply perm_swap|]. apply perm_skip. apply perm_swap.
Qed.

(* chains with bond dimensions 1-2-2-1 and 1-1-3-1 *)
Definition mat_of (l : list (list Z)) : mat := fun i j => nth j (nth i l []) 0.
Definition ex_As : chain := [(2%nat, mat_of [[1; 2]]); (2%nat, mat_of [[0; 1]; [3; -1]]); (1%nat, mat_of [[2]; [5]])].
Definition ex_Bs : chain := [(1%nat, mat_of [[4]]); (3%nat, mat_of [[1; -2; 3]]); (1%nat, mat_of [[1]; [1]; [2]])].
Example ex_add :
  chain_prod ex_As 0%nat 0%nat = 7 /\ chain_prod ex_Bs 0%nat 0%nat = 20 /\
  chain_prod (add_chain 2 (-3) ex_As ex_Bs) 0%nat 0%nat = -46 /\
  map fst (add_chain 2 (-3) ex_As ex_Bs) = [3%nat; 5%nat; 1%nat].
Proof. vm_compute. repeat split; reflexivity. Qed.

(* heterogeneous neighbours: spinful fermions [empty, up, down, full] next to a spin-1/2 site and next to spinless
   fermions, both orders (the two orders give different tables; taking n_i from the wrong site is visible) *)
(* the hypothesis of T09_add_check_sound is satisfiable (a recorded case with bond dimensions 1-2-1 and 1-1-1, d = 2) *)
Example ex_add_check : check_add_case ex_add_case = true /\
  amplitude (tchain_of (snd ex_add_case)) [1%nat; 0%nat] 0%nat 0%nat = 2 * 4 + -3 * 72.
Proof. vm_compute. split; reflexivity. Qed.

Example ex_swap_sign_hetero :
  swap_op_auto [0; 1; 1; 0] [0; 0] = None /\ swap_op_auto [0; 0] [0; 1; 1; 0] = None /\
  swap_op_auto [0; 1; 1; 0] [0; 1] = Some [1; 1; 1; -1; 1; -1; 1; 1] /\
  swap_op_auto [0; 1] [0; 1; 1; 0] = Some [1; 1; 1; 1; 1; -1; -1; 1] /\
  swap_op_entry [0; 1; 1; 0] [0; 1] 1 2 2 1 = -1 /\ swap_op_entry [0; 1; 1; 0] [0; 1] 1 3 3 1 = 1 /\
  swap_op_entry [0; 1; 1; 0] [0; 1] 1 2 1 1 = 0 /\
  fock_exchange_sign 1 1 = -1 /\ fock_exchange_sign 2 1 = 1 /\ fock_exchange_sign 3 5 = -1 /\
  is_parity [0; 1; 1; 0] /\ is_parity [0; 1].
Proof.
  unfold is_parity. repeat split; try (vm_compute; reflexivity); repeat (apply Forall_cons; [auto|]); apply Forall_nil.
Qed.

Print Assumptions T09_permute_terminates_sorts.
Print Assumptions T09_permute_arrangement.
Print Assumptions T09_inversion_involutive.
Print Assumptions T09_roll_denotation.
Print Assumptions T09_roll_default_form_counterexample.
Print Assumptions T09_enlarge_denotation.
Print Assumptions T09_add_linear.
Print Assumptions T09_add_linear_tensors.
Print Assumptions T09_add_check_sound.
Print Assumptions T09_swap_sign_table.
