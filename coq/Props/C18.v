(* Property C18: results on disk survive a crash; a resumed run equals an uninterrupted one.
   Only statements; every proof is `exact <lemma>` from Proofs/FsP.v, FsGenP.v, ResumeProtoP.v.

   File-system part (Model/Fs.v).  Assumption A-fs: rename / unlink are atomic, a write is the only
   step that can be torn (leaving a non-loadable Partial file).  Tag j of a crash point = number of the
   last checkpoint whose write was completed. *)
From TenpyV Require Import Base.Prelude Model.Fs Proofs.FsP Gen.G_save_results Proofs.FsGenP.
From TenpyV Require Import Model.ResumeProto Proofs.ResumeProtoP Model.FixNames Proofs.FixNamesP.

(* the body of Simulation.save_results, regenerated from the source, is the program of the model *)
Theorem T18_save_results_gen : save_results_gen = save_results_prog /\
  forall safe k st, run_prog safe k save_results_gen st = save_ops safe k st.
Proof. exact (conj save_results_gen_eq save_results_gen_ops). Qed.

(* uninterrupted run with safe_write, any number n of saves, killed at any primitive step or inside
   any write: as soon as one write has been completed (1 <= j) the last completed checkpoint j is on
   disk as a Complete file and is what the user loads (never only a Partial file; the checkpoint on
   disk is the one of the save in progress or the one before). *)
Theorem T18_crash_safe_single_run : forall n j st,
  In (j, st) (fresh_points true n) -> 1 <= j ->
  has_complete st j /\ exists f, loadable st = Some (f, j).
Proof. exact single_run. Qed.

(* the crash states addressed by (step number, inside-a-write flag) - the form the fault injection of
   the harness uses - are among the crash points the theorems quantify over *)
Theorem T18_crash_points_complete : forall ops j st s inside, s <= length ops ->
  exists t, In (t, crash_state ops st s inside) (crash_points ops j st).
Proof. exact crash_state_in_points. Qed.

(* histories (run, crash, resume)*, any lengths, any crash points, PROVIDED no resume starts while the
   output file is a leftover Partial file (strict = true).  What is missing for the full statement is
   exactly the case refuted below. *)
Theorem T18_crash_safe_resumed_partial : forall n0 c0 h j st,
  run_history true true n0 c0 h = Some (j, st) -> 1 <= j ->
  has_complete st j /\ exists f, loadable st = Some (f, j).
Proof. exact resumed_strict. Qed.

(* REFUTED on the faithful model (design finding F11): run with 2 saves killed inside the second write
   (out = Partial 2, bak = Complete 1); resume from the backup; the first save of the resumed run
   unlinks the backup (the only complete file) before renaming the partial output over it: killed
   there, nothing loadable is left although checkpoint 1 had been completed. *)
Theorem T18_crash_safe_resumed_refuted : exists n0 c0 h j st,
  run_history true false n0 c0 h = Some (j, st) /\ 1 <= j /\ loadable st = None /\
  is_partial (f_out st) = true.
Proof. exact resumed_unsafe. Qed.

(* Protocol part (Model/ResumeProto.v): for time evolutions and ground-state searches, every final
   time / max_sweeps T, step N, error function, every setting of the options measure_initial and group_sites,
   for EVERY snapshot k of the uninterrupted run: resuming from it finishes, with the same final time, the
   same sequence of record times (none lost, none duplicated) and the same grouping of the state; if the
   accumulated error is part of the resume data, in the identical final machine state (identical records). *)
Theorem T18_resume_measurements : forall c k m,
  at_snapshot c (p_iter c k p_init) = true ->
  is_done (p_iter c m p_init) = true ->
  let r := p_iter c m (p_resume c (p_iter c k p_init)) in
  is_done r = true /\ s_t r = s_t (p_iter c m p_init) /\ times r = times (p_iter c m p_init) /\
  s_g r = s_g (p_iter c m p_init) /\
  (c_restore c = true -> r = p_iter c m p_init).
Proof. exact resume_measurements. Qed.

(* The option group_sites across a resume (Simulation.group_sites_for_algorithm runs in run() and in resume_run();
   guard: group psi iff not loaded_from_checkpoint or psi.grouped < group_sites).  For every configuration and
   EVERY snapshot: the psi stored in the snapshot carries the grouping of the fresh run; the resume does not group
   it again (s_g unchanged), so that psi.grouped = group_sites = the factor by which the freshly built model is
   grouped; and both the uninterrupted and the resumed run end with an ungrouped state.  g_enter is tied to
   the code by the correspondence streams group-guard / real-resume (Model/ResumeProto.v check_group, check_proto). *)
Theorem T18_resume_grouping : forall c k m,
  at_snapshot c (p_iter c k p_init) = true ->
  is_done (p_iter c m p_init) = true ->
  let s := p_iter c k p_init in
  s_g (p_resume c s) = s_g s /\ s_g s = g_enter false (c_group c) [] /\
  (1 <= c_group c -> prod_nat (s_g (p_resume c s)) = c_group c) /\
  s_g (p_iter c m p_init) = [] /\ s_g (p_iter c m (p_resume c s)) = [].
Proof. exact resume_grouping. Qed.

(* REFUTED for the records themselves on the time-evolution protocol WITHOUT restoring the accumulated
   error (c_restore = false: the behaviour of the tree before /repo commit b662f88, finding F12, where
   trunc_err was not part of get_resume_data): the error component restarts after the resume.  With that
   commit c_restore = true is the faithful setting and T18_resume_measurements gives identical records;
   this theorem remains as the proof that restoring the error is necessary. *)
Theorem T18_resume_eps_error_refuted : exists c k m,
  c_kind c = TE /\ c_restore c = false /\
  at_snapshot c (p_iter c k p_init) = true /\ is_done (p_iter c m p_init) = true /\
  s_recs (p_iter c m (p_resume c (p_iter c k p_init))) <> s_recs (p_iter c m p_init).
Proof. exact eps_error_not_resumed. Qed.

(* hypotheses are satisfiable / non-vacuity *)
Example ex_fresh_point : In (1, mkFs (Partial 2) (Complete 1)) (fresh_points true 2).
Proof. vm_compute. tauto. Qed.
Example ex_strict_history :
  run_history true true 3 11 [(2, 4)] = Some (1, mkFs (Partial 2) (Complete 1)).
Proof. vm_compute. reflexivity. Qed.
Example ex_te_run : is_done (p_iter (mkCfg TE 3 2 (fun _ => 1) true true 1) 12 p_init) = true /\
                    times (p_iter (mkCfg TE 3 2 (fun _ => 1) true true 1) 12 p_init) = [0; 2; 4].
Proof. exact te_finishes. Qed.
Example ex_gs_run : is_done (p_iter (mkCfg GS 3 1 (fun _ => 0) true true 1) 20 p_init) = true /\
                    times (p_iter (mkCfg GS 3 1 (fun _ => 0) true true 1) 20 p_init) = [0; 1; 2; 3; 4].
Proof. exact gs_finishes. Qed.
Example ex_snapshot : at_snapshot (mkCfg GS 3 1 (fun _ => 0) true true 1) (p_iter (mkCfg GS 3 1 (fun _ => 0) true true 1) 4 p_init) = true.
Proof. reflexivity. Qed.
(* group_sites = 2, measure_initial = False: the run finishes ungrouped, its second snapshot holds psi.grouped = 2 *)
Example ex_te_grouped_run :
  let c := mkCfg TE 3 2 (fun _ => 1) true false 2 in
  is_done (p_iter c 12 p_init) = true /\ times (p_iter c 12 p_init) = [2; 4] /\ s_g (p_iter c 12 p_init) = [] /\
  at_snapshot c (p_iter c 6 p_init) = true /\ s_g (p_iter c 6 p_init) = [2].
Proof. exact te_grouped_finishes. Qed.
(* the strictness of the guard is what T18_resume_grouping rests on: grouping the checkpoint's psi once more would
   give psi.grouped = 4 against a model grouped by 2 *)
Example ex_regroup_doubles : prod_nat (2 :: g_enter false 2 []) = 4 /\ prod_nat (g_enter true 2 (g_enter false 2 [])) = 2.
Proof. exact regroup_doubles. Qed.
(* without safe_write a crash inside the second write loses everything: safe_write is a real premise *)
Example ex_unsafe_without_safe_write : exists j st, In (j, st) (fresh_points false 2) /\ 1 <= j /\ loadable st = None.
Proof. exact unsafe_without_safe_write. Qed.

(* fix_output_filenames (Model/FixNames.v, model of the name choice, executed against Simulation.fix_output_filenames by the
   correspondence stream `fix-name` of harness/c18.py through Model/FixNamesCheck.v `check_fix_name`: generated directory
   contents x skip_if_output_exists x overwrite_output x loaded_from_checkpoint, recorded Skip / ValueError / chosen name
   compared with `fix_name`; `ex i` = candidate i exists, candidate 0 the
   configured name, candidate i the `_i` copy): for EVERY set of existing files, a fresh run (not loaded from a
   checkpoint, overwrite_output = False) either keeps / chooses a name that does NOT exist - the smallest free one,
   at most `_99` - so it never overwrites a results file of a previous simulation; or raises Skip (exactly when
   skip_if_output_exists and the file exists); or raises ValueError exactly when the name and all of _1 .. _99 exist.
   Not covered here: the marker written to the backup name, the log-file renaming. *)
Theorem T18_fix_output_filenames : forall (ex : nat -> bool) (skip : bool),
  match fix_name ex skip false false with
  | FName i => ex i = false /\ (i <= 99)%nat /\ (forall k, (k < i)%nat -> ex k = true)
  | FRaise => skip = false /\ forall k, (k <= 99)%nat -> ex k = true
  | FSkip => skip = true /\ ex 0%nat = true
  end.
Proof. exact fix_name_fresh. Qed.

Example T18_example_fix_names :
  fix_name (fun i => (i <? 3)%nat) false false false = FName 3 /\
  fix_name (fun i => (i <? 100)%nat) false false false = FRaise /\
  fix_name (fun i => (i <? 3)%nat) false false true = FName 0 /\
  fix_name (fun i => (i <? 3)%nat) true false false = FSkip.
Proof. vm_compute. repeat split; reflexivity. Qed.

Print Assumptions T18_save_results_gen.
Print Assumptions T18_crash_safe_single_run.
Print Assumptions T18_crash_points_complete.
Print Assumptions T18_crash_safe_resumed_partial.
Print Assumptions T18_crash_safe_resumed_refuted.
Print Assumptions T18_resume_measurements.
Print Assumptions T18_resume_grouping.
Print Assumptions T18_resume_eps_error_refuted.
Print Assumptions T18_fix_output_filenames.
