(* Property C13: variational ground-state search is sound and converges on small systems.
   Sweep protocol of mps_common.py (Model/Sweep.v); only statements here, every proof is `exact <lemma of
   Proofs/SweepP.v or Proofs/SweepP2.v>`.  Energy / convergence / canonical-form clauses are decided by the oracle of
   harness/c13.py (exact diagonalisation) only; see T13_energy_variational_partial. *)
From TenpyV Require Import Base.Prelude Model.Charge Model.Sweep Model.SweepCharge Model.SweepInf Proofs.SweepP Proofs.SweepP2 Proofs.SweepChargeP Proofs.SweepInfP Proofs.SweepInfP2 Model.SweepStop Proofs.SweepStopP.

(* get_sweep_schedule, finite and infinite bc, n = 1, 2, every L > n.  With m right moves (L - n finite, L infinite):
   the schedule has 2m entries; position i is optimised moving right for every i < m and moving left for every
   1 <= i <= m; consecutive entries - cyclically, i.e. including the first entry of the next sweep - differ by exactly
   one site, in the direction move_right announces. *)
Theorem T13_schedule_covers : forall (fin : bool) L n, (n = 1 \/ n = 2)%nat -> (n < L)%nat ->
  let m := right_moves fin L n in
  let is := map (fun e : entry => fst (fst e)) (schedule fin L n) in
  let ms := map (fun e : entry => snd (fst e)) (schedule fin L n) in
  length (schedule fin L n) = (2 * m)%nat /\
  (forall i, (i < m)%nat -> nth i is 0%nat = i /\ nth i ms false = true) /\
  (forall i, (1 <= i <= m)%nat -> nth (2 * m - i) is 0%nat = i /\ nth (2 * m - i) ms false = false) /\
  (forall k, (k < 2 * m)%nat ->
     nth ((k + 1) mod (2 * m)) is 0%nat =
     if nth k ms false then (nth k is 0 + 1)%nat else (nth k is 0 - 1)%nat).
Proof. exact schedule_covers_full. Qed.

(* Finite bc, UNBOUNDED in the chain length L > n (n = 1, 2) and in the number k of consecutive sweeps, started from
   a fresh environment (only LP[0], RP[L-1] stored): along repeat_list (schedule true L n) k every LP[i0] / RP[i0+n-1]
   read to build eff_H was contracted from the CURRENT versions of all sites to its left / right, and after every step
   every stored environment is current.  Proved by induction (Proofs/SweepP2.v) with the invariant: at schedule
   position i0 the stored LP have index <= i0, the stored RP have index >= i0 + n - 1, LP[0] and RP[L-1] are stored and
   all stored environments carry the current site versions.  Infinite bc: T13_no_stale_env_infinite_partial below. *)
Theorem T13_no_stale_env : forall L n k, (n = 1 \/ n = 2)%nat -> (n < L)%nat -> no_stale L n k = true.
Proof. exact no_stale_all. Qed.

(* PARTIAL (bounded unit cell, UNBOUNDED number of sweeps): infinite bc, Model/SweepInf.v (get_LP / get_RP with the
   shift by unit cells, update_env, free_no_longer_needed_envs, infinite schedule; every contracted factor of a stored
   environment carries one boolean "contracted from the current version of that site", the nearest 2L+2 are recorded).
   Environments of iDMRG lag by design; what holds - and is what `no_stale_inf` evaluates - is: for every number k of
   sweeps started from init_LP(0) / init_RP(L-1), the LP[i0] and RP[i0+n-1] read for eff_H exist and are current on
   EVERY site of a window of L consecutive sites containing the optimised sites ([0, L) while moving right, [n, L+n)
   while moving left); only factors outside that window (other copies of the unit cell) may be older versions.
   Proof: for each L the abstract state is a fixed point of the sweep after three sweeps (evaluation), then induction
   on k.  Missing for the full statement: unit cells L > 24 (no induction over L).  Tie of the model to the code:
   correspondence stream `env-trace-inf` of harness/c13.py (Model/SweepInfCheck.v check_inf_run: instrumented infinite
   DMRG runs, L = 2..4, stored keys / per-factor currency / ages after every local update and the environments read
   for eff_H; the runs include L = n = 2: next theorem). *)
Theorem T13_no_stale_env_infinite_partial : forall L n k, (n = 1 \/ n = 2)%nat -> (n < L <= 24)%nat ->
  no_stale_inf L n k = true.
Proof. exact no_stale_inf_all. Qed.

(* ... and the same for the two-site engine on a unit cell of exactly two sites (L = n = 2, the standard iDMRG set-up,
   not covered by n < L above), every number k of sweeps: here the window is the whole unit cell [0, 2) moving right and
   [2, 4) moving left.  Same model, same proof method (fixed point after three sweeps); the traced runs of the stream
   `env-trace-inf` include this configuration. *)
Theorem T13_no_stale_env_infinite_L2_two_site : forall k, no_stale_inf 2 2 k = true.
Proof. exact no_stale_inf_2_2. Qed.

(* the window cannot be widened to "all recorded factors": the LP read at the turning point i0 = L contains site 0 in
   the version before the update at i0 = L - 1 rewrote it (as site L) *)
Theorem T13_infinite_lag_is_real : exists L n, (n < L)%nat /\
  let s := exec_i L n (init_i L) (firstn L (schedule false L n)) in
  current_upto L (snd (get_lp_i L s L)) = false /\ current_upto (L - 1) (snd (get_lp_i L s L)) = true.
Proof. exact lag_is_real. Qed.

(* Charge sector (Model/SweepCharge.v: qtotal bookkeeping of TwoSiteDMRGEngine / SingleSiteDMRGEngine.update_local:
   theta.qtotal, the qtotal_LR handed to svd_theta / the mixers, determine_qtotal_L_R, gauge_total_charge, set_B, with
   make_valid exactly where the code has it).  For EVERY chinfo ci (any number of charges, mods >= 1), EVERY L > n,
   finite or infinite schedule, EVERY prefix of p local updates of k sweeps, EVERY choice of mixer at every step
   (none / DensityMatrixMixer / SubspaceExpansion) and site charges qs of the right shape: if the eigensolver keeps
   theta's sector (`keeps`: everything except diag_method='ED_all') and no update raised, then
   MPS.get_total_charge() = make_valid(sum_i B_i.qtotal) is unchanged. *)
Theorem T13_charge_sector : forall (ci : chinfo) (fin : bool) (L n k p : nat) (cs : list cfg) (qs qs' : list charge),
  valid_ci ci -> (n = 1 \/ n = 2)%nat -> (n < L)%nat -> length qs = L -> wfq ci qs -> Forall keeps cs ->
  run_q ci n qs (firstn p (repeat_list (schedule fin L n) k)) cs = Some qs' ->
  total_charge ci qs' = total_charge ci qs /\ length qs' = L /\ wfq ci qs'.
Proof. exact charge_sector_all. Qed.

(* ... and no update raises, for any list of entries that update two different sites (every schedule entry does:
   schedule_wf), unless the one-site engine runs with a DensityMatrixMixer or SubspaceExpansion is asked to mix
   neither side. *)
Theorem T13_charge_no_raise : forall (ci : chinfo) (n : nat), valid_ci ci -> forall es cs qs, wfq ci qs ->
  (2 <= length qs)%nat -> Forall keeps cs -> Forall (wf_entry n) es -> length cs = length es ->
  Forall (fun ec => never_raises_cfg n (fst ec) (snd ec)) (combine es cs) ->
  exists qs', run_q ci n qs es cs = Some qs'.
Proof. exact run_q_no_raise. Qed.

(* REFUTED (finding, replayed on the code: TFIChain conserve='parity', L = 6, product state with Sigmax applied to two
   neighbouring sites, SingleSiteDMRGEngine with mixer='DensityMatrixMixer' raises
   "ValueError: qtotal_LR must add up to theta_qtotal=array([0])"): Mixer.determine_qtotal_L_R compares
   qtotal_L + qtotal_R with theta.qtotal WITHOUT make_valid, so for a Z_N charge the one-site engine with the
   two-site fallback raises as soon as the two stored qtotal wrap around. *)
Theorem T13_charge_one_site_dm_mixer_refuted : exists ci qs e,
  valid_ci ci /\ wfq ci qs /\ forallb (check_valid ci) qs = true /\ wf_entry 1 e /\ upd_q ci 1 qs e (MixDM, None) = None.
Proof. exact dm_one_site_raises_ex. Qed.

(* diag_method='ED_all' may move theta to another sector q; two-site engine without mixer: the two new tensors then
   carry exactly q (the change is absorbed into the right tensor), i.e. the state follows the eigensolver. *)
Theorem T13_charge_ed_all : forall ci qs i0 upl upr q qs', valid_ci ci -> wfq ci qs -> (2 <= length qs)%nat -> vl ci q ->
  upd2_q ci qs i0 upl upr (MixNone, Some q) = Some qs' ->
  make_valid ci (vadd (getq qs' i0) (getq qs' (i0 + 1))) = make_valid ci q.
Proof. exact upd2_ed_all. Qed.

(* PARTIAL: E >= E0 only in an eigenbasis of H (diagonal d bounded below by E0, integer amplitudes x):
   <x|H|x> >= E0 <x|x>.  Missing: spectral theorem for the dense Hamiltonian; decided by exact diagonalisation in
   harness/c13.py. *)
Theorem T13_energy_variational_partial : forall E0 d x,
  Forall (fun di => (E0 <= di)%Z) d -> (E0 * e_den d x <= e_num d x)%Z.
Proof. exact energy_variational_diag. Qed.

(* non-vacuity: the finite two-site schedule of 5 sites, and the stored environments after its first step *)
Example T13_example_schedule :
  map (fun e : entry => (fst (fst e), snd (fst e))) (schedule true 5 2) =
  [(0, true); (1, true); (2, true); (3, false); (2, false); (1, false)]%nat.
Proof. vm_compute. reflexivity. Qed.
Example T13_example_step :
  fst (run 2 (init_st 5) (firstn 2 (schedule true 5 2))) =
  [(true, [0; 1], [2; 3; 4]); (true, [0; 1; 2], [3; 4])]%nat.
Proof. vm_compute. reflexivity. Qed.
Example T13_example_inf : map (fun e : entry => fst (fst e)) (schedule false 3 1) = [0; 1; 2; 3; 2; 1]%nat.
Proof. vm_compute. reflexivity. Qed.

(* non-vacuity of T13_charge_sector: U(1) x Z_3, four sites, 7 local updates of the two-site engine with all three
   mixer kinds; the site charges move, the total [6; 2] does not *)
Example T13_example_charge :
  let ci := [1; 3]%Z in let qs := [[2; 1]; [0; 2]; [-1; 0]; [5; 2]]%Z in
  let cs := [(MixDM, None); (MixSub, None); (MixNone, None); (MixSub, None); (MixDM, None); (MixNone, None); (MixNone, None)] in
  valid_ci ci /\ wfq ci qs /\ Forall keeps cs /\
  run_q ci 2 qs (firstn 7 (repeat_list (schedule true 4 2) 2)) cs = Some [[2; 1]; [0; 0]; [-1; 2]; [5; 2]]%Z /\
  total_charge ci qs = [6; 2]%Z /\ total_charge ci [[2; 1]; [0; 0]; [-1; 2]; [5; 2]]%Z = [6; 2]%Z.
Proof.
  cbn zeta. split; [repeat constructor; lia|]. split; [repeat constructor|]. split; [repeat constructor|].
  split; [vm_compute; reflexivity|]. split; vm_compute; reflexivity.
Qed.

(* non-vacuity: two sweeps of the infinite two-site schedule on a 4-site unit cell; the state after three sweeps *)
Example T13_example_inf_L2 : map (fun e : entry => fst (fst e)) (schedule false 2 2) = [0; 1; 2; 1]%nat /\
  irp (exec_i 2 2 (init_i 2) (schedule false 2 2)) = [None; Some [true; false; false; false]].
Proof. vm_compute. split; reflexivity. Qed.
Example T13_example_inf_run : no_stale_inf 4 2 2 = true /\
  ilp (exec_i 4 2 (init_i 4) (repeat_list (schedule false 4 2) 3)) =
    [Some [false; false; false; false; false; false; false; false; false; false]; None; None; None] /\
  nth 1 (irp (exec_i 4 2 (init_i 4) (repeat_list (schedule false 4 2) 3))) None =
    Some [true; true; true; false; false; false; false; false; false; false].
Proof. vm_compute. repeat split; reflexivity. Qed.

(* chi lists and sweep counts (Model/SweepStop.v: IterativeSweeps.run / stopping_criterion, the chi_list / mixer handling of
   Sweep.sweep, Mixer.update_amplitude and the default of min_sweeps derived in DMRGEngine.__init__ / VUMPSEngine.__init__).
   For EVERY option set with a non-empty chi_list l and EVERY sequence of answers of is_converged(): the optimisation sweeps that
   were run are numbered 0 .. n-1 and each ran with the chi_max of the largest key of l that is <= its number (`latest`: the documented
   meaning of chi_list; chi0 = trunc_params['chi_max'] before the first key); and when min_sweeps is left at its DEFAULT and run() stops
   because the run is converged (not because of max_sweeps), more sweeps than the last key of l were made, every entry (k, c) of l came
   into force in sweep k, the chi_max in force at the end is the last entry of l and the mixer is off.  Tie to the code: correspondence
   stream stop-trace (check_stop_run) on every DMRG / VUMPS run of harness/c13.py. *)
Theorem T13_chi_ramp_completes : forall o l convs reason st recs rest,
  o_chis o = Some l -> l <> [] ->
  run_model o convs = Some (reason, st, recs, rest) ->
  map rec_no recs = seq 0 (s_sweeps st) /\
  Forall (fun r => rec_chi r = latest l (o_chi0 o) (rec_no r)) recs /\
  (reason = Converged -> o_min o = None ->
     (max_key l < s_sweeps st)%nat /\
     (forall k c, chi_get l k = Some c -> In (k, Some c) (map fst recs)) /\
     s_chi st = chi_get l (max_key l) /\ s_mixer st = None).
Proof. exact chi_ramp_completes. Qed.

(* `latest` is the value of the largest key <= s (or chi0 when there is none) *)
Theorem T13_chi_list_latest : forall l chi0 s,
  (exists k c, (k <= s)%nat /\ chi_get l k = Some c /\ latest l chi0 s = Some c /\
               forall k', (k < k' <= s)%nat -> chi_get l k' = None) \/
  (latest l chi0 s = chi0 /\ forall k', (k' <= s)%nat -> chi_get l k' = None).
Proof. exact latest_spec. Qed.

(* non-vacuity: chi_list {0: 2, 3: 16}, N_sweeps_check = 1, default min_sweeps (= 3), mixer with disable_after = 2, reactivated at sweep 3;
   is_converged() answers true, true: after sweep 3 the mixer is switched off and the run continues, after sweep 4 it stops: 5 sweeps, chi_max = 16.  And with an explicit
   min_sweeps = 1 the same run can stop as converged after 2 sweeps at chi_max = 2 (the default is needed). *)
Example T13_example_ramp :
  run_model (mkSopts 1 None 20 (Some [(0, 2); (3, 16)]%nat) None true true (Some 2%nat) None) [true; true] =
  Some (Converged, mkSst 5 (Some 16%nat) None,
        [(0, Some 2, true); (1, Some 2, true); (2, Some 2, false); (3, Some 16, true); (4, Some 16, false)]%nat, []).
Proof. vm_compute. reflexivity. Qed.
Example T13_example_early_stop : exists o l convs st recs rest,
  o_chis o = Some l /\ run_model o convs = Some (Converged, st, recs, rest) /\ (s_sweeps st <= max_key l)%nat.
Proof. exact early_stop_possible. Qed.

Print Assumptions T13_schedule_covers.
Print Assumptions T13_no_stale_env.
Print Assumptions T13_energy_variational_partial.
Print Assumptions T13_no_stale_env_infinite_partial.
Print Assumptions T13_no_stale_env_infinite_L2_two_site.
Print Assumptions T13_infinite_lag_is_real.
Print Assumptions T13_charge_sector.
Print Assumptions T13_charge_no_raise.
Print Assumptions T13_charge_one_site_dm_mixer_refuted.
Print Assumptions T13_charge_ed_all.
Print Assumptions T13_chi_ramp_completes.
Print Assumptions T13_chi_list_latest.
