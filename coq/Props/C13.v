(* Property C13: variational ground-state search is sound and converges on small systems.
   Sweep protocol of mps_common.py (Model/Sweep.v); only statements here, every proof is `exact <lemma of
   Proofs/SweepP.v or Proofs/SweepP2.v>`.  Energy / convergence / canonical-form clauses are decided by the oracle of
   harness/c13.py (exact diagonalisation) only; see T13_energy_variational_partial. *)
From TenpyV Require Import Base.Prelude Model.Sweep Proofs.SweepP Proofs.SweepP2.

(* get_sweep_schedule, finite and infinite bc, n = 1, 2, every L > n.  With m right moves (L - n finite, L infinite):
   the schedule has 2m entries; position i is optimised moving right for every i < m and moving left for every
   1 <= i <= m; consecutive entries - cyclically, i.e. including the first entry of the next sweep - differ by exactly
   one site, in the direction move_right announces. *)
Theorem T13_schedule_covers : forall (fin : bool) L n, (n = 1 \/ n = 2)%nat -> (n < L)%nat ->
  let m := right_moves fin L n in
  let is := map (fun e : entry => fst (fst e)) (schedule fin L n) in
  let ms := map (fun e : entry => snd (fst e)) (schedule fin L n) in
  length (schedule fin L n) = (2 * m)%nat /\
  (forall i, (i < m)%nat -> nth i is 0%nat = i /\ nth i ms false = true) /\
  (forall i, (1 <= i <= m)%nat -> nth (2 * m - i) is 0%nat = i /\ nth (2 * m - i) ms false = false) /\
  (forall k, (k < 2 * m)%nat ->
     nth ((k + 1) mod (2 * m)) is 0%nat =
     if nth k ms false then (nth k is 0 + 1)%nat else (nth k is 0 - 1)%nat).
Proof. exact schedule_covers_full. Qed.

(* Finite bc, UNBOUNDED in the chain length L > n (n = 1, 2) and in the number k of consecutive sweeps, started from
   a fresh environment (only LP[0], RP[L-1] stored): along repeat_list (schedule true L n) k every LP[i0] / RP[i0+n-1]
   read to build eff_H was contracted from the CURRENT versions of all sites to its left / right, and after every step
   every stored environment is current.  Proved by induction (Proofs/SweepP2.v) with the invariant: at schedule
   position i0 the stored LP have index <= i0, the stored RP have index >= i0 + n - 1, LP[0] and RP[L-1] are stored and
   all stored environments carry the current site versions.  Not covered: infinite bc (environments lag by design;
   decided by the oracle / instrumentation of harness/c13.py only). *)
Theorem T13_no_stale_env : forall L n k, (n = 1 \/ n = 2)%nat -> (n < L)%nat -> no_stale L n k = true.
Proof. exact no_stale_all. Qed.

(* PARTIAL: E >= E0 only in an eigenbasis of H (diagonal d bounded below by E0, integer amplitudes x):
   <x|H|x> >= E0 <x|x>.  Missing: spectral theorem for the dense Hamiltonian; decided by exact diagonalisation in
   harness/c13.py. *)
Theorem T13_energy_variational_partial : forall E0 d x,
  Forall (fun di => (E0 <= di)%Z) d -> (E0 * e_den d x <= e_num d x)%Z.
Proof. exact energy_variational_diag. Qed.

(* non-vacuity: the finite two-site schedule of 5 sites, and the stored environments after its first step *)
Example T13_example_schedule :
  map (fun e : entry => (fst (fst e), snd (fst e))) (schedule true 5 2) =
  [(0, true); (1, true); (2, true); (3, false); (2, false); (1, false)]%nat.
Proof. vm_compute. reflexivity. Qed.
Example T13_example_step :
  fst (run 2 (init_st 5) (firstn 2 (schedule true 5 2))) =
  [(true, [0; 1], [2; 3; 4]); (true, [0; 1; 2], [3; 4])]%nat.
Proof. vm_compute. reflexivity. Qed.
Example T13_example_inf : map (fun e : entry => fst (fst e)) (schedule false 3 1) = [0; 1; 2; 3; 2; 1]%nat.
Proof. vm_compute. reflexivity. Qed.

Print Assumptions T13_schedule_covers.
Print Assumptions T13_no_stale_env.
Print Assumptions T13_energy_variational_partial.
