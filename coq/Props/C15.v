(* Property C15: truncation honours its constraints and reports its error exactly.
   Only statements; every proof is `exact <lemma from Proofs/TruncateP.v>`. *)
From TenpyV Require Import Base.Prelude Base.PyLib Model.Truncate Proofs.TruncateP.
From TenpyV Require Import Gen.G_truncation Proofs.TruncateGenP.
Open Scope Z_scope.

(* never discards a value larger than one it keeps (all spectra, all options) *)
Theorem T15_threshold : forall xs o i j,
  (i < length xs)%nat -> (j < length xs)%nat ->
  nth i (r_mask (truncate xs o)) false = true ->
  nth j (r_mask (truncate xs o)) false = false ->
  nthZ xs j <= nthZ xs i.
Proof. exact threshold. Qed.

Theorem T15_keeps_one : forall xs o, xs <> [] -> (1 <= length (r_kept (truncate xs o)))%nat.
Proof. exact keeps_one. Qed.

(* priority 1: at most chi_max values, always *)
Theorem T15_chi_max : forall xs o, xs <> [] -> forall m, chi_max o = Some m -> 1 <= m ->
  Z.of_nat (length (r_kept (truncate xs o))) <= m.
Proof. exact chi_max_bound. Qed.

(* priority 2: at least chi_min values whenever compatible with chi_max and the length *)
Theorem T15_chi_min : forall xs o, xs <> [] -> forall m, chi_min o = Some m -> m <= Z.of_nat (length xs) ->
  (chi_max o = None \/ exists M, chi_max o = Some M /\ m <= M) ->
  m <= Z.of_nat (length (r_kept (truncate xs o))).
Proof. exact chi_min_bound. Qed.

(* priority 3: no cut inside a degenerate multiplet whenever compatible with 1-2 *)
Theorem T15_degeneracy : forall xs o, xs <> [] -> forall p q, deg_tol o = Some (p, q) ->
  let ss := map fst (sorted_pairs xs) in
  anyb (andl (st2 ss o) (good_deg ss p q)) = true ->
  cut ss o = 0%nat \/ deg_ok p q (nthZ ss (cut ss o - 1)) (nthZ ss (cut ss o)) = true.
Proof. exact deg_bound. Qed.

(* priority 4: nothing below svd_min is kept whenever compatible with 1-3 *)
Theorem T15_svd_min : forall xs o, xs <> [] -> forall m, svd_min o = Some m ->
  let ss := map fst (sorted_pairs xs) in
  anyb (andl (st3 ss o) (good_svd_min ss m)) = true ->
  forall v, In v (r_kept (truncate xs o)) -> m <= v.
Proof. exact svd_min_bound. Qed.

(* trunc_cut (alone): discarded weight <= trunc_cut^2 and maximal with that property *)
Theorem T15_trunc_cut : forall xs t, xs <> [] -> 0 <= t ->
  let o := mkOpts None None None None (Some t) in
  r_eps (truncate xs o) <= t /\
  (t < sumZ (map sq xs) ->
   t < r_eps (truncate xs o) + sq (nthZ (map fst (sorted_pairs xs)) (cut (map fst (sorted_pairs xs)) o))).
Proof. exact trunc_cut_only. Qed.

(* reported error = discarded weight, reported norm = kept weight, together the total *)
Theorem T15_error_exact : forall xs o,
  r_eps (truncate xs o) + r_norm2 (truncate xs o) = sumZ (map sq xs) /\
  r_norm2 (truncate xs o) = sumZ (map sq (r_kept (truncate xs o))) /\
  r_eps (truncate xs o) =
    sumZ (map sq (firstn (cut (map fst (sorted_pairs xs)) o) (map fst (sorted_pairs xs)))).
Proof. intros xs o. exact (conj (total_split xs o) (conj (norm_sorted xs o) (eps_sorted xs o))). Qed.

(* unsorted input: the kept multiset, error and norm do not depend on the input order *)
Theorem T15_unsorted_input : forall xs ys o, xs <> [] -> Permutation xs ys ->
  r_kept (truncate xs o) = r_kept (truncate ys o) /\
  r_eps (truncate xs o) = r_eps (truncate ys o) /\
  r_norm2 (truncate xs o) = r_norm2 (truncate ys o).
Proof. exact unsorted_input. Qed.

(* tie T: the model's combine_constraints IS what truncation._combine_constraints says now *)
Theorem T15_combine_constraints_gen : forall a b, combine_constraints_gen a b = combine_constraints a b.
Proof. exact combine_constraints_gen_eq. Qed.

(* non-vacuity: a concrete spectrum with a degenerate pair, chi_max cutting through it *)
Example T15_example :
  let o := mkOpts (Some 2) None (Some (11, 10)) (Some 1) (Some 0) in
  observe [5; 1; 5; 0; 3] o = (2%nat, [5; 5], 50, 10).
Proof. vm_compute. reflexivity. Qed.

Print Assumptions T15_threshold.
Print Assumptions T15_keeps_one.
Print Assumptions T15_chi_max.
Print Assumptions T15_chi_min.
Print Assumptions T15_degeneracy.
Print Assumptions T15_svd_min.
Print Assumptions T15_trunc_cut.
Print Assumptions T15_error_exact.
Print Assumptions T15_unsorted_input.
Print Assumptions T15_combine_constraints_gen.
