(* Property C15: truncation honours its constraints and reports its error exactly.
   Only statements; every proof is `exact <lemma from Proofs/*.v>`. *)
From TenpyV Require Import Base.Prelude Base.PyLib Model.Truncate Proofs.TruncateP.
From TenpyV Require Import Gen.G_truncation Proofs.TruncateGenP.
From TenpyV Require Import Model.TruncBook Model.TruncPriority Proofs.TruncBookP Proofs.TruncPriorityP.
From TenpyV Require Import Model.TruncBookCheck Proofs.TruncBookCheckP.
From Coq Require Import QArith.
Open Scope Z_scope.

(* never discards a value larger than one it keeps (all spectra, all options) *)
Theorem T15_threshold : forall xs o i j,
  (i < length xs)%nat -> (j < length xs)%nat ->
  nth i (r_mask (truncate xs o)) false = true ->
  nth j (r_mask (truncate xs o)) false = false ->
  nthZ xs j <= nthZ xs i.
Proof. exact threshold. Qed.

Theorem T15_keeps_one : forall xs o, xs <> [] -> (1 <= length (r_kept (truncate xs o)))%nat.
Proof. exact keeps_one. Qed.

(* priority 1: at most chi_max values, always *)
Theorem T15_chi_max : forall xs o, xs <> [] -> forall m, chi_max o = Some m -> 1 <= m ->
  Z.of_nat (length (r_kept (truncate xs o))) <= m.
Proof. exact chi_max_bound. Qed.

(* priority 2: at least chi_min values whenever compatible with chi_max and the length *)
Theorem T15_chi_min : forall xs o, xs <> [] -> forall m, chi_min o = Some m -> m <= Z.of_nat (length xs) ->
  (chi_max o = None \/ exists M, chi_max o = Some M /\ m <= M) ->
  m <= Z.of_nat (length (r_kept (truncate xs o))).
Proof. exact chi_min_bound. Qed.

(* priority 3: no cut inside a degenerate multiplet whenever compatible with 1-2 *)
Theorem T15_degeneracy : forall xs o, xs <> [] -> forall p q, deg_tol o = Some (p, q) ->
  let ss := map fst (sorted_pairs xs) in
  anyb (andl (st2 ss o) (good_deg ss p q)) = true ->
  cut ss o = 0%nat \/ deg_ok p q (nthZ ss (cut ss o - 1)) (nthZ ss (cut ss o)) = true.
Proof. exact deg_bound. Qed.

(* priority 4: nothing below svd_min is kept whenever compatible with 1-3 *)
Theorem T15_svd_min : forall xs o, xs <> [] -> forall m, svd_min o = Some m ->
  let ss := map fst (sorted_pairs xs) in
  anyb (andl (st3 ss o) (good_svd_min ss m)) = true ->
  forall v, In v (r_kept (truncate xs o)) -> m <= v.
Proof. exact svd_min_bound. Qed.

(* trunc_cut (alone): discarded weight <= trunc_cut^2 and maximal with that property *)
Theorem T15_trunc_cut : forall xs t, xs <> [] -> 0 <= t ->
  let o := mkOpts None None None None (Some t) in
  r_eps (truncate xs o) <= t /\
  (t < sumZ (map sq xs) ->
   t < r_eps (truncate xs o) + sq (nthZ (map fst (sorted_pairs xs)) (cut (map fst (sorted_pairs xs)) o))).
Proof. exact trunc_cut_only. Qed.

(* reported error = discarded weight, reported norm = kept weight, together the total *)
Theorem T15_error_exact : forall xs o,
  r_eps (truncate xs o) + r_norm2 (truncate xs o) = sumZ (map sq xs) /\
  r_norm2 (truncate xs o) = sumZ (map sq (r_kept (truncate xs o))) /\
  r_eps (truncate xs o) =
    sumZ (map sq (firstn (cut (map fst (sorted_pairs xs)) o) (map fst (sorted_pairs xs)))).
Proof. intros xs o. exact (conj (total_split xs o) (conj (norm_sorted xs o) (eps_sorted xs o))). Qed.

(* unsorted input: the kept multiset, error and norm do not depend on the input order *)
Theorem T15_unsorted_input : forall xs ys o, xs <> [] -> Permutation xs ys ->
  r_kept (truncate xs o) = r_kept (truncate ys o) /\
  r_eps (truncate xs o) = r_eps (truncate ys o) /\
  r_norm2 (truncate xs o) = r_norm2 (truncate ys o).
Proof. exact unsorted_input. Qed.

(* tie T: the model's combine_constraints IS what truncation._combine_constraints says now *)
Theorem T15_combine_constraints_gen : forall a b, combine_constraints_gen a b = combine_constraints a b.
Proof. exact combine_constraints_gen_eq. Qed.

(* non-vacuity: a concrete spectrum with a degenerate pair, chi_max cutting through it *)
Example T15_example :
  let o := mkOpts (Some 2) None (Some (11, 10)) (Some 1) (Some 0) in
  observe [5; 1; 5; 0; 3] o = (2%nat, [5; 5], 50, 10).
Proof. vm_compute. reflexivity. Qed.

(* ---------------------------------------------------------------------------------------------
   The documented priority in ONE statement (Model/TruncPriority.v):  A_0 = all cuts 0..n-1,
   A_k = A_(k-1) /\ G_k if that is non-empty, else A_(k-1), for the active constraints G_k in code
   order (chi_max, chi_min > 1, degeneracy_tol, svd_min, trunc_cut; None contributes nothing);
   final_good is exactly A_final, and truncate keeps the values above  cut = min A_final. *)
Theorem T15_priority_general : forall xs o, xs <> [] ->
  let ss := map fst (sorted_pairs xs) in
  let c := cut ss o in
  r_kept (truncate xs o) = skipn c ss /\
  (forall k, nth k (final_good ss o) false = A_final ss o k) /\
  (c < length xs)%nat /\ A_final ss o c = true /\
  (forall k, A_final ss o k = true -> (c <= k)%nat).
Proof. exact priority_general. Qed.

(* one stage: the accepted set only shrinks; it becomes A /\ G exactly when that is non-empty,
   otherwise the constraint is ignored *)
Theorem T15_priority_stage : forall n A G,
  (forall c, stage n A G c = true -> A c = true) /\
  ((exists c, (c < n)%nat /\ A c = true /\ G c = true) -> forall c, stage n A G c = (A c && G c)) /\
  ((forall c, (c < n)%nat -> A c = true -> G c = false) -> forall c, stage n A G c = A c).
Proof. exact stage_spec. Qed.

(* the constraint sets in words (sane option values; ss ascending) *)
Theorem T15_priority_sets_meaning :
  (forall n m c, 1 <= m -> (c < n)%nat -> (G_chi_max n m c = true <-> Z.of_nat (n - c) <= m)) /\
  (forall n m c, 2 <= m -> (c < n)%nat -> (G_chi_min n m c = true <-> m <= Z.of_nat (n - c))) /\
  (forall ss m c, StronglySorted Z.le ss -> (c < length ss)%nat ->
     (G_svd_min ss m c = true <-> forall v, In v (skipn c ss) -> m <= v)) /\
  (forall ss t c, (c < length ss)%nat ->
     (G_trunc_cut ss t c = true <-> t < sumZ (map sq (firstn c ss)) + sq (nthZ ss c))).
Proof. exact (conj G_chi_max_meaning (conj G_chi_min_meaning (conj G_svd_min_meaning G_trunc_cut_meaning))). Qed.

(* all five constraints active, all satisfiable in order: A_final = {3} *)
Example T15_priority_example :
  let o := mkOpts (Some 2) None (Some (11, 10)) (Some 1) (Some 0) in
  let ss := map fst (sorted_pairs [5; 1; 5; 0; 3]) in
  ss = [0; 1; 3; 5; 5] /\ map (A_final ss o) (seq 0 6) = [false; false; false; true; false; false] /\ cut ss o = 3%nat.
Proof. vm_compute. auto. Qed.
(* chi_max = 1 cuts through the degenerate pair 5,5 and nothing reaches svd_min = 6: both later constraints are ignored *)
Example T15_priority_example_dropped :
  let o := mkOpts (Some 1) None (Some (11, 10)) (Some 6) (Some 0) in
  let ss := map fst (sorted_pairs [5; 1; 5; 0; 3]) in
  map (A_final ss o) (seq 0 6) = [false; false; false; false; true; false] /\ length (constraints ss o) = 4%nat.
Proof. vm_compute. auto. Qed.

(* ---------------------------------------------------------------------------------------------
   Renormalisation bookkeeping of svd_theta / eigh_rho around truncate (Model/TruncBook.v), over Q,
   without square roots: the two roots of the code, r = np.linalg.norm(S) and nn = norm_new, are
   universally quantified and constrained by r*r == sum S^2, nn*nn == sum S[mask]^2.
   Tie to the code: svd_book_sq / eigh_book_z / te_* are compared with the implementation in
   harness/c15.py (streams `book` (1e-9), `err-exact` (exact)).
   svd_theta_book / eigh_rho_book (the versions with the roots as inputs) are EXECUTED against
   truncation.svd_theta / truncation.eigh_rho in streams `svd-exact` / `eigh-exact`
   (harness/c15_streams.py, checkers check_svd_theta_exact / check_eigh_rho_exact of Model/TruncBookCheck.v):
   permutation-planted integer spectra with rational roots (Pythagorean tuples with a Pythagorean prefix such as
   (12, 9 | 8) -> 15 -> 17, eigenvalue lists with kept/total a rational square, zeros, scalings 2^-k); LAPACK returns the
   planted values bit for bit on these matrices (the harness verifies this per case and skips the few cases where it
   does not); the harness supplies r and nn as exact rationals, Coq tests the hypotheses of the two bookkeeping
   theorems (svd_hyps / eigh_hyps: r, nn > 0, r*r == sum S0^2, nn*nn == kept weight), evaluates the model and compares
   with the exact values of the implementation's floats:
     - by exact equality when every intermediate and output of the model is a dyadic rational (about a third of the
       cases: sum of squares a power of 4, kept part m * (power-of-4 tuple)), the decision being made inside Coq;
     - otherwise within |impl - model| <= 2^-50 |model| (svd_theta: S, renormalization, eps) resp. 2^-49 (eigh_rho: W,
       eps).  This part is APPROXIMATE: S0/r such as 12/17 is not a float, the code rounds S/r, the squares, the norm
       and the final quotient; observed deviation <= 4.1 * 2^-53.  A rewrite of the code that only changes the rounding
       (S * (1/new_norm) instead of S / new_norm) is therefore not flagged.
   T15_svd_exact_check_sound / T15_eigh_exact_check_sound: the hypotheses the checkers test are those of
   T15_svd_theta_bookkeeping / T15_eigh_rho_bookkeeping, so the conclusions hold for the model value of every case the
   streams accept.  The link to the integer model is by the theorems below (mask := r_mask (truncate xs o) of the
   correspondence-checked Model/Truncate.v).
   decompose_theta_qr_based / _qr_theta_Y0 / _eig_based_svd have NO Coq model: streams `qr-direct` / `qr-engine` are an
   oracle only (dense numpy: reported eps == squared relative error with the reported renormalization, eps >= optimum of
   the rank, renormalization^2 == |theta|^2 (1 - eps), S normalised, declared A / B forms isometric, Th form normalised,
   engine total == sum of the reported errors). *)
Open Scope Q_scope.

(* any mask: S_new_i * renormalization_new = S_old_i on every kept index, |S_new| = 1,
   eps = discarded weight / total weight, renormalization_new^2 = kept weight,
   eps = from_norm(renormalization_new, r) *)
Theorem T15_svd_theta_bookkeeping : forall S0 r mask nn,
  length mask = length S0 -> ~ r == 0 -> ~ nn == 0 ->
  r * r == sumQ (map qsq S0) ->
  nn * nn == sumQ (map qsq (select mask (map (fun x => x / r) S0))) ->
  let out := svd_theta_book S0 r mask nn in
  Forall2 (fun s x => s * so_renorm out == x) (so_S out) (select mask S0) /\
  sumQ (map qsq (so_S out)) == 1 /\
  so_eps out == sumQ (map qsq (select (nmask mask) S0)) / sumQ (map qsq S0) /\
  qsq (so_renorm out) == sumQ (map qsq (select mask S0)) /\
  so_eps out == 1 - qsq (so_renorm out) / (r * r).
Proof. exact svd_book_any. Qed.

(* with the mask chosen by truncate: eps and renormalization are the r_eps / r_norm2 of Model/Truncate.v *)
Theorem T15_svd_theta_truncate : forall xs o r nn,
  let S0 := map inject_Z xs in
  let mask := r_mask (truncate xs o) in
  ~ r == 0 -> ~ nn == 0 ->
  r * r == inject_Z (sumZ (map sq xs)) ->
  nn * nn == sumQ (map qsq (select mask (map (fun x => x / r) S0))) ->
  let out := svd_theta_book S0 r mask nn in
  Forall2 (fun s x => s * so_renorm out == x) (so_S out) (select mask S0) /\
  sumQ (map qsq (so_S out)) == 1 /\
  so_eps out == inject_Z (r_eps (truncate xs o)) / inject_Z (sumZ (map sq xs)) /\
  qsq (so_renorm out) == inject_Z (r_norm2 (truncate xs o)) /\
  so_eps out == 1 - qsq (so_renorm out) / (r * r).
Proof. exact svd_book_truncate. Qed.

(* squares only, every integer spectrum, no root at all:
   (S_new_i * renormalization_new)^2 = S_old_i^2, sum S_new^2 = 1, eps = discarded / total *)
Theorem T15_svd_theta_bookkeeping_sq : forall xs mask, length mask = length xs ->
  (0 < sumZ (map sq xs))%Z -> (0 < sumZ (map sq (select mask xs)))%Z ->
  Forall2 (fun s x => s * snd (fst (svd_book_sq xs mask)) == inject_Z (sq x))
          (fst (fst (svd_book_sq xs mask))) (select mask xs) /\
  sumQ (fst (fst (svd_book_sq xs mask))) == 1 /\
  snd (svd_book_sq xs mask) == inject_Z (sumZ (map sq (select (nmask mask) xs))) / inject_Z (sumZ (map sq xs)) /\
  snd (fst (svd_book_sq xs mask)) == inject_Z (sumZ (map sq (select mask xs))).
Proof. exact svd_book_sq_ok. Qed.

(* eigh_rho: sum W_new = trace, eps = discarded / trace, W_new_i * (1 - eps) = W_old_i on every kept index *)
Theorem T15_eigh_rho_bookkeeping : forall W0 mask nn,
  length mask = length W0 -> ~ sumQ W0 == 0 -> ~ nn == 0 ->
  nn * nn == sumQ (select mask (map (fun w => w / sumQ W0) W0)) ->
  let out := eigh_rho_book W0 mask nn in
  sumQ (eo_W out) == sumQ W0 /\
  eo_eps out == sumQ (select (nmask mask) W0) / sumQ W0 /\
  Forall2 (fun w w0 => w * (1 - eo_eps out) == w0) (eo_W out) (select mask W0).
Proof. exact eigh_book_any. Qed.

Theorem T15_eigh_rho_truncate : forall xs o nn,
  let W0 := map (fun x => inject_Z (sq x)) xs in
  let mask := r_mask (truncate xs o) in
  (0 < sumZ (map sq xs))%Z -> ~ nn == 0 ->
  nn * nn == sumQ (select mask (map (fun w => w / sumQ W0) W0)) ->
  let out := eigh_rho_book W0 mask nn in
  sumQ (eo_W out) == inject_Z (sumZ (map sq xs)) /\
  eo_eps out == inject_Z (r_eps (truncate xs o)) / inject_Z (sumZ (map sq xs)) /\
  Forall2 (fun w w0 => w * (1 - eo_eps out) == w0) (eo_W out) (select mask W0).
Proof. exact eigh_book_truncate. Qed.

Theorem T15_eigh_rho_bookkeeping_z : forall ws mask,
  length mask = length ws -> (0 < sumZ ws)%Z -> (0 < sumZ (select mask ws))%Z ->
  sumQ (fst (eigh_book_z ws mask)) == inject_Z (sumZ ws) /\
  snd (eigh_book_z ws mask) == inject_Z (sumZ (select (nmask mask) ws)) / inject_Z (sumZ ws) /\
  Forall2 (fun w w0 => w * (1 - snd (eigh_book_z ws mask)) == inject_Z w0) (fst (eigh_book_z ws mask)) (select mask ws).
Proof. exact eigh_book_z_ok. Qed.

(* every case accepted by the correspondence checkers of Model/TruncBookCheck.v (streams svd-exact / eigh-exact) satisfies
   the hypotheses of the two bookkeeping theorems; hence their conclusions for the model value the implementation's
   floats were compared with *)
Theorem T15_svd_exact_check_sound : forall S0 r mask nn, svd_hyps S0 r mask nn = true ->
  let out := svd_theta_book S0 r mask nn in
  Forall2 (fun s x => s * so_renorm out == x) (so_S out) (select mask S0) /\
  sumQ (map qsq (so_S out)) == 1 /\
  so_eps out == sumQ (map qsq (select (nmask mask) S0)) / sumQ (map qsq S0) /\
  qsq (so_renorm out) == sumQ (map qsq (select mask S0)) /\
  so_eps out == 1 - qsq (so_renorm out) / (r * r).
Proof. exact svd_check_sound. Qed.

Theorem T15_eigh_exact_check_sound : forall W0 mask nn, eigh_hyps W0 mask nn = true ->
  let out := eigh_rho_book W0 mask nn in
  sumQ (eo_W out) == sumQ W0 /\
  eo_eps out == sumQ (select (nmask mask) W0) / sumQ W0 /\
  Forall2 (fun w w0 => w * (1 - eo_eps out) == w0) (eo_W out) (select mask W0).
Proof. exact eigh_check_sound. Qed.

(* non-vacuity + what a case looks like: (12, 9 | 8), r = 17, nn = 15/17; impl floats S = 0.8 (rounded), 0.6 (rounded),
   renormalization = 15, eps = 64/289 (rounded) are accepted by the enclosure; a deviation of 2^-46 is rejected;
   (3,3,3,3 | 3,3,3,1)/8 is compared by exact equality: S = 1/2 four times, renormalization = 3/4, eps = 7/16 *)
Example T15_svd_exact_check_example :
  svd_hyps [12; 9; 8] 17 [true; true; false] (15 # 17) = true /\
  svd_all_dyadic [12; 9; 8] 17 [true; true; false] (15 # 17) = false /\
  check_svd_theta_exact ([(12, 1); (9, 1); (8, 1)], (17, 1), [true; true; false], (15, 17), false,
     ([(3602879701896397, 4503599627370496); (5404319552844595, 9007199254740992)], (15, 1),
      (3989347766805699, 18014398509481984)))%Z = true /\
  check_svd_theta_exact ([(12, 1); (9, 1); (8, 1)], (17, 1), [true; true; false], (15, 17), false,
     ([(3602879701896397 + 64, 4503599627370496); (5404319552844595, 9007199254740992)], (15, 1),
      (3989347766805699, 18014398509481984)))%Z = false /\
  check_svd_theta_exact ([(3, 8); (3, 8); (3, 8); (3, 8); (3, 8); (3, 8); (3, 8); (1, 8)], (1, 1),
     [true; true; true; true; false; false; false; false], (3, 4), true,
     ([(1, 2); (1, 2); (1, 2); (1, 2)], (3, 4), (7, 16)))%Z = true /\
  check_svd_theta_exact ([(3, 8); (3, 8); (3, 8); (3, 8); (3, 8); (3, 8); (3, 8); (1, 8)], (1, 1),
     [true; true; true; true; false; false; false; false], (3, 4), true,
     ([(1, 2); (1, 2); (1, 2); (4503599627370497, 9007199254740992)], (3, 4), (7, 16)))%Z = false /\
  eigh_hyps [144; 81; 64] [true; true; false] (15 # 17) = true.
Proof. vm_compute. repeat split; reflexivity. Qed.

(* TruncationError: err_1 + ... + err_k has eps = sum eps_i, ov = product ov_i (every list);
   from_norm(new, old) = from_S(discarded, old) when old^2 = new^2 + discarded weight *)
Theorem T15_err_add : forall l,
  te_eps (te_sum l) == sumQ (map te_eps l) /\ te_ov (te_sum l) == prodQ (map te_ov l).
Proof. exact te_sum_ok. Qed.

Theorem T15_err_from_norm : forall nn no disc,
  ~ no == 0 -> no * no == nn * nn + sumQ (map qsq disc) ->
  te_eps (te_from_norm nn no) == te_eps (te_from_S disc (Some no)) /\
  te_ov (te_from_norm nn no) == te_ov (te_from_S disc (Some no)).
Proof. exact te_from_norm_from_S. Qed.

Theorem T15_err_from_norm_1 : forall nn disc,
  1 == nn * nn + sumQ (map qsq disc) ->
  te_eps (te_from_norm nn 1) == te_eps (te_from_S disc None) /\
  te_ov (te_from_norm nn 1) == te_ov (te_from_S disc None).
Proof. exact te_from_norm_from_S_1. Qed.

(* non-vacuity: spectrum 25, 36, 48 (norm 65), chi_max = 2 keeps 36, 48 (norm 60): r = 65, nn = 12/13 *)
Example T15_svd_theta_example :
  let xs := [25; 36; 48]%Z in
  let o := mkOpts (Some 2%Z) None None None None in
  let S0 := map inject_Z xs in
  let mask := r_mask (truncate xs o) in
  let out := svd_theta_book S0 65 mask (12 # 13) in
  mask = [false; true; true] /\
  65 * 65 == inject_Z (sumZ (map sq xs)) /\
  (12 # 13) * (12 # 13) == sumQ (map qsq (select mask (map (fun x => x / 65) S0))) /\
  map Qred (so_S out) = [3 # 5; 4 # 5] /\ Qred (so_renorm out) = 60 /\ Qred (so_eps out) = 25 # 169.
Proof. vm_compute. repeat split; reflexivity. Qed.

(* eigenvalues 625, 1296, 2304 (trace 4225): W_new sums to the trace; dividing by new_norm instead of
   new_norm**2 (a slip seeded by an independent tester) gives 3900 *)
Example T15_eigh_rho_example :
  let xs := [25; 36; 48]%Z in
  let o := mkOpts (Some 2%Z) None None None None in
  let W0 := map (fun x => inject_Z (sq x)) xs in
  let mask := r_mask (truncate xs o) in
  let out := eigh_rho_book W0 mask (12 # 13) in
  (12 # 13) * (12 # 13) == sumQ (select mask (map (fun w => w / sumQ W0) W0)) /\
  map Qred (eo_W out) = [1521; 2704] /\ Qred (eo_eps out) = 25 # 169 /\
  sumQ (eo_W out) == 4225 /\ sumQ (eigh_rho_book_wrong W0 mask (12 # 13)) == 3900.
Proof. vm_compute. repeat split; reflexivity. Qed.

Example T15_err_example :
  let l := [te_make (1 # 100); te_make (1 # 50); te_from_S [5 # 13] None] in
  Qred (te_eps (te_sum l)) = Qred ((1 # 100) + (1 # 50) + (25 # 169)) /\
  1 == (12 # 13) * (12 # 13) + sumQ (map qsq [5 # 13]) /\
  Qred (te_eps (te_from_norm (12 # 13) 1)) = 25 # 169.
Proof. vm_compute. repeat split; reflexivity. Qed.
Close Scope Q_scope.

Print Assumptions T15_threshold.
Print Assumptions T15_keeps_one.
Print Assumptions T15_chi_max.
Print Assumptions T15_chi_min.
Print Assumptions T15_degeneracy.
Print Assumptions T15_svd_min.
Print Assumptions T15_trunc_cut.
Print Assumptions T15_error_exact.
Print Assumptions T15_unsorted_input.
Print Assumptions T15_combine_constraints_gen.
Print Assumptions T15_priority_general.
Print Assumptions T15_priority_stage.
Print Assumptions T15_priority_sets_meaning.
Print Assumptions T15_svd_theta_bookkeeping.
Print Assumptions T15_svd_theta_truncate.
Print Assumptions T15_svd_theta_bookkeeping_sq.
Print Assumptions T15_eigh_rho_bookkeeping.
Print Assumptions T15_eigh_rho_truncate.
Print Assumptions T15_eigh_rho_bookkeeping_z.
Print Assumptions T15_svd_exact_check_sound.
Print Assumptions T15_eigh_exact_check_sound.
Print Assumptions T15_err_add.
Print Assumptions T15_err_from_norm.
Print Assumptions T15_err_from_norm_1.
