(* Property C02: charge rule and storage invariants are closed under every operation.
   Only statements; every proof is `exact <lemma from Proofs/>`.
   WF ci a (Model/Tensor.v): qtotal has one entry per charge; every _qdata row has `rank` entries; NO DUPLICATE row;
   every stored block obeys the CHARGE RULE make_valid(sum of leg charges) = qtotal; the cached claim _qdata_sorted is TRUTHFUL.
   Statements hold for every rank / number of blocks / number of charges.
   NOT proved (oracle of harness/c02.py only): WF for all operations not listed here; LegCharge.sorted / bunched flags. *)
From TenpyV Require Import Base.Prelude Model.Charge Model.Tensor Model.TensorOps Model.TensorDot Model.TakeSlice.
From TenpyV Require Import Proofs.ChargeP Proofs.TensorP Proofs.TensorP2 Proofs.TensorP3 Proofs.TensorDotP Proofs.TakeSliceP.
Open Scope Z_scope.

(* ChargeInfo.make_valid: idempotent, compatible with addition and negation (what the qtotal arithmetic relies on) *)
Theorem T02_make_valid : forall ci a b, valid_ci ci ->
  make_valid ci (make_valid ci a) = make_valid ci a /\
  make_valid ci (vadd a (make_valid ci b)) = make_valid ci (vadd a b) /\
  make_valid ci (vadd (make_valid ci a) b) = make_valid ci (vadd a b) /\
  make_valid ci (vneg (make_valid ci a)) = make_valid ci (vneg a) /\
  make_valid ci (vneg (make_valid ci (vneg a))) = make_valid ci a.
Proof. exact make_valid_laws. Qed.

Theorem T02_wf_transpose : forall ci p a, Permutation p (seq 0 (rank a)) -> WF ci a -> WF ci (transpose p a).
Proof. exact wf_transpose. Qed.

Theorem T02_wf_conj : forall ci a, valid_ci ci -> WF ci a -> WF ci (conj ci a).
Proof. exact wf_conj. Qed.

Theorem T02_wf_scale : forall ci s a, WF ci a -> WF ci (scale s a).
Proof. exact wf_scale. Qed.

(* addition: the result of the sorted merge has no duplicate rows, obeys the charge rule and its claim
   _qdata_sorted = True is truthful - PROVIDED the claims of the operands were truthful *)
Theorem T02_wf_add : forall ci alpha a b, WF ci a -> WF ci b -> legs a = legs b -> qtot a = qtot b ->
  WF ci (add alpha a b).
Proof. exact wf_add. Qed.

(* isort_qdata returns early when the claim is set: only a truthful claim makes its result sorted *)
Theorem T02_isort_trusts_claim : forall a, claim_truthful a -> NoDup (rows a) -> ssorted (rows (isort_qdata a)).
Proof. exact isort_ssorted. Qed.

Theorem T02_charge_rule_outer : forall ci a b, valid_ci ci -> WF ci a -> WF ci b -> charge_rule ci (outer ci a b).
Proof. exact charge_rule_outer. Qed.

(* outer returns a well-formed array: the grid of block pairs (rows of a changing fastest) has no duplicate row, obeys the
   charge rule for qtotal = make_valid(qtotal_a + qtotal_b), and the claim the code makes for it,
   _qdata_sorted = a._qdata_sorted and b._qdata_sorted  ("since grid is lex sorted"), is truthful *)
Theorem T02_wf_outer : forall ci a b, valid_ci ci -> WF ci a -> WF ci b -> WF ci (outer ci a b).
Proof. exact wf_outer. Qed.

(* tensordot over the last k legs of a and the first k legs of b: every block the pairing by contracted qindices
   produces obeys the charge rule with qtotal = make_valid(qtotal_a + qtotal_b); so the look-up of compatible
   rows / columns by charge never has to drop a pair of blocks that fits together *)
Theorem T02_charge_rule_tensordot : forall ci k a b, valid_ci ci -> WF ci a -> WF ci b ->
  (k <= rank a)%nat -> (k <= rank b)%nat ->
  Forall2 (contractible ci) (skipn (rank a - k) (legs a)) (firstn k (legs b)) ->
  forall r, In r (tdot_rows k a b) -> row_ok ci (tdot_legs k a b) (tdot_qtot ci a b) r.
Proof. exact charge_rule_tensordot. Qed.

(* tensordot returns a well-formed array (Model/TensorDot.v: one block per distinct row of the pairing, rows sorted,
   _qdata_sorted = True as _tensordot_worker sets it): one block per combination of charge blocks, charge rule, truthful claim *)
Theorem T02_wf_tensordot : forall ci k a b, valid_ci ci -> WF ci a -> WF ci b -> (k <= rank a)%nat -> (k <= rank b)%nat ->
  Forall2 (contractible ci) (skipn (rank a - k) (legs a)) (firstn k (legs b)) ->
  WF ci (tensordot ci k a b).
Proof. exact wf_tensordot. Qed.

(* take_slice(i, axis) on one axis (Model/TakeSlice.v, algorithm read from the source, NOT correspondence-checked): the result is
   well-formed; in particular `res._qdata_sorted is not changed` is correct: removing a constant column from the kept rows
   keeps them distinct and lexsorted; the charge rule holds for qtotal - charge of the removed index *)
Theorem T02_wf_take_slice : forall ci ax i a, valid_ci ci -> WF ci a -> (ax < rank a)%nat ->
  length (nth (get_qindex (nth ax (legs a) dleg) i) (bch (nth ax (legs a) dleg)) []) = length ci ->
  WF ci (take_slice ci ax i a).
Proof. exact wf_take_slice. Qed.

Theorem T02_qtotal_take_slice : forall ci ax i a,
  qtot (take_slice ci ax i a)
  = make_valid ci (vadd (qtot a) (vneg (leg_charge (nth ax (legs a) dleg) (get_qindex (nth ax (legs a) dleg) i)))) /\
  legs (take_slice ci ax i a) = remove_at ax (legs a) /\ qsorted (take_slice ci ax i a) = qsorted a.
Proof. exact take_slice_qtotal. Qed.

(* documented total charges: unchanged / negated / sum *)
Theorem T02_qtotal_rules : forall ci p s alpha a b,
  qtot (transpose p a) = qtot a /\ qtot (scale s a) = qtot a /\ qtot (add alpha a b) = qtot a /\
  qtot (conj ci a) = make_valid ci (vneg (qtot a)) /\
  qtot (outer ci a b) = make_valid ci (vadd (qtot a) (qtot b)) /\
  tdot_qtot ci a b = make_valid ci (vadd (qtot a) (qtot b)).
Proof. exact qtotal_rules. Qed.

(* non-vacuity *)
Definition ex2_leg : leg := mkLeg [1%nat; 2%nat] [[1]; [3]] 1.
Definition ex2_arr : arr :=
  mkArr [ex2_leg; conj_leg ex2_leg] [0] [([1%nat; 1%nat], fun _ => (1, 0)); ([0%nat; 0%nat], fun _ => (2, 0))] false.
Example T02_example_wf : WF [4] ex2_arr.
Proof.
  constructor.
  - reflexivity.
  - intros r [<-|[<-|[]]]; reflexivity.
  - repeat constructor; cbn; intuition discriminate.
  - intros r [<-|[<-|[]]] j Hj; destruct j as [|j]; cbn in Hj; try lia; vm_compute; reflexivity.
  - intros H. discriminate H.
Qed.
Example T02_example_contractible : contractible [4] ex2_leg (conj_leg ex2_leg).
Proof. exact (contractible_conj [4] ex2_leg). Qed.
Example T02_example_tensordot_rows : tdot_rows 1 ex2_arr ex2_arr = [[1%nat; 1%nat]; [0%nat; 0%nat]].
Proof. vm_compute. reflexivity. Qed.

(* non-vacuity of T02_wf_outer / T02_wf_tensordot: ex2_arr (claim False) and its sorted version (claim True) *)
Example T02_example_outer_claim :
  qsorted (outer [4] (isort_qdata ex2_arr) (isort_qdata ex2_arr)) = true /\
  rows (outer [4] (isort_qdata ex2_arr) (isort_qdata ex2_arr))
  = [[0%nat; 0%nat; 0%nat; 0%nat]; [1%nat; 1%nat; 0%nat; 0%nat]; [0%nat; 0%nat; 1%nat; 1%nat]; [1%nat; 1%nat; 1%nat; 1%nat]].
Proof. vm_compute. split; reflexivity. Qed.
Example T02_example_tensordot_contractible :
  Forall2 (contractible [4]) (skipn (rank ex2_arr - 1) (legs ex2_arr)) (firstn 1 (legs ex2_arr)).
Proof. repeat constructor. apply (contractible_sym [4]); [repeat constructor; lia|]. exact (contractible_conj [4] ex2_leg). Qed.
Example T02_example_tensordot_blocks : rows (tensordot [4] 1 ex2_arr ex2_arr) = [[0%nat; 0%nat]; [1%nat; 1%nat]].
Proof. vm_compute. reflexivity. Qed.

(* non-vacuity of T02_wf_take_slice: ex2_arr[:, 1] keeps the block [1; 1] -> row [1], qtotal 0 - (-3) = 3 mod 4 *)
Example T02_example_take_slice :
  length (nth (get_qindex (nth 1 (legs ex2_arr) dleg) 1) (bch (nth 1 (legs ex2_arr) dleg)) []) = length [4] /\
  rows (take_slice [4] 1 1 ex2_arr) = [[1%nat]] /\ qtot (take_slice [4] 1 1 ex2_arr) = [3].
Proof. vm_compute. repeat split; reflexivity. Qed.

Print Assumptions T02_wf_take_slice.
Print Assumptions T02_qtotal_take_slice.
Print Assumptions T02_wf_outer.
Print Assumptions T02_wf_tensordot.
Print Assumptions T02_make_valid.
Print Assumptions T02_wf_transpose.
Print Assumptions T02_wf_conj.
Print Assumptions T02_wf_scale.
Print Assumptions T02_wf_add.
Print Assumptions T02_isort_trusts_claim.
Print Assumptions T02_charge_rule_outer.
Print Assumptions T02_charge_rule_tensordot.
Print Assumptions T02_qtotal_rules.
