(* Property C02: charge rule and storage invariants are closed under every operation.
   Only statements; every proof is `exact <lemma from Proofs/>`.
   WF ci a (Model/Tensor.v): qtotal has one entry per charge; every _qdata row has `rank` entries; NO DUPLICATE row;
   every stored block obeys the CHARGE RULE make_valid(sum of leg charges) = qtotal; the cached claim _qdata_sorted is TRUTHFUL.
   Statements hold for every rank / number of blocks / number of charges.
   NOT proved (oracle of harness/c02.py only): WF for all operations not listed here; LegCharge.sorted / bunched flags. *)
From TenpyV Require Import Base.Prelude Model.Charge Model.Tensor Model.TensorOps Model.TensorDot Model.TakeSlice.
From TenpyV Require Import Proofs.ChargeP Proofs.TensorP Proofs.TensorP2 Proofs.TensorP3 Proofs.TensorDotP Proofs.TakeSliceP.
From TenpyV Require Import Model.TensorProg Proofs.TensorProgP Proofs.TensorProgP2 Proofs.TensorProgEx.
From TenpyV Require Import Model.LegLookup Proofs.LegLookupP.
Open Scope Z_scope.

(* ChargeInfo.make_valid: idempotent, compatible with addition and negation (what the qtotal arithmetic relies on) *)
Theorem T02_make_valid : forall ci a b, valid_ci ci ->
  make_valid ci (make_valid ci a) = make_valid ci a /\
  make_valid ci (vadd a (make_valid ci b)) = make_valid ci (vadd a b) /\
  make_valid ci (vadd (make_valid ci a) b) = make_valid ci (vadd a b) /\
  make_valid ci (vneg (make_valid ci a)) = make_valid ci (vneg a) /\
  make_valid ci (vneg (make_valid ci (vneg a))) = make_valid ci a.
Proof. exact make_valid_laws. Qed.

Theorem T02_wf_transpose : forall ci p a, Permutation p (seq 0 (rank a)) -> WF ci a -> WF ci (transpose p a).
Proof. exact wf_transpose. Qed.

Theorem T02_wf_conj : forall ci a, valid_ci ci -> WF ci a -> WF ci (conj ci a).
Proof. exact wf_conj. Qed.

Theorem T02_wf_scale : forall ci s a, WF ci a -> WF ci (scale s a).
Proof. exact wf_scale. Qed.

(* addition: the result of the sorted merge has no duplicate rows, obeys the charge rule and its claim
   _qdata_sorted = True is truthful - PROVIDED the claims of the operands were truthful *)
Theorem T02_wf_add : forall ci alpha a b, WF ci a -> WF ci b -> legs a = legs b -> qtot a = qtot b ->
  WF ci (add alpha a b).
Proof. exact wf_add. Qed.

(* isort_qdata returns early when the claim is set: only a truthful claim makes its result sorted *)
Theorem T02_isort_trusts_claim : forall a, claim_truthful a -> NoDup (rows a) -> ssorted (rows (isort_qdata a)).
Proof. exact isort_ssorted. Qed.

Theorem T02_charge_rule_outer : forall ci a b, valid_ci ci -> WF ci a -> WF ci b -> charge_rule ci (outer ci a b).
Proof. exact charge_rule_outer. Qed.

(* outer returns a well-formed array: the grid of block pairs (rows of a changing fastest) has no duplicate row, obeys the
   charge rule for qtotal = make_valid(qtotal_a + qtotal_b), and the claim the code makes for it,
   _qdata_sorted = a._qdata_sorted and b._qdata_sorted  ("since grid is lex sorted"), is truthful *)
Theorem T02_wf_outer : forall ci a b, valid_ci ci -> WF ci a -> WF ci b -> WF ci (outer ci a b).
Proof. exact wf_outer. Qed.

(* tensordot over the last k legs of a and the first k legs of b: every block the pairing by contracted qindices
   produces obeys the charge rule with qtotal = make_valid(qtotal_a + qtotal_b); so the look-up of compatible
   rows / columns by charge never has to drop a pair of blocks that fits together *)
Theorem T02_charge_rule_tensordot : forall ci k a b, valid_ci ci -> WF ci a -> WF ci b ->
  (k <= rank a)%nat -> (k <= rank b)%nat ->
  Forall2 (contractible ci) (skipn (rank a - k) (legs a)) (firstn k (legs b)) ->
  forall r, In r (tdot_rows k a b) -> row_ok ci (tdot_legs k a b) (tdot_qtot ci a b) r.
Proof. exact charge_rule_tensordot. Qed.

(* tensordot returns a well-formed array (Model/TensorDot.v: one block per distinct row of the pairing, rows sorted,
   _qdata_sorted = True as _tensordot_worker sets it): one block per combination of charge blocks, charge rule, truthful claim *)
Theorem T02_wf_tensordot : forall ci k a b, valid_ci ci -> WF ci a -> WF ci b -> (k <= rank a)%nat -> (k <= rank b)%nat ->
  Forall2 (contractible ci) (skipn (rank a - k) (legs a)) (firstn k (legs b)) ->
  WF ci (tensordot ci k a b).
Proof. exact wf_tensordot. Qed.

(* take_slice(i, axis) on one axis (Model/TakeSlice.v, algorithm read from the source; correspondence-checked by the stream coq2 of
   harness/c02.py): the result is
   well-formed; in particular `res._qdata_sorted is not changed` is correct: removing a constant column from the kept rows
   keeps them distinct and lexsorted; the charge rule holds for qtotal - charge of the removed index *)
Theorem T02_wf_take_slice : forall ci ax i a, valid_ci ci -> WF ci a -> (ax < rank a)%nat ->
  length (nth (get_qindex (nth ax (legs a) dleg) i) (bch (nth ax (legs a) dleg)) []) = length ci ->
  WF ci (take_slice ci ax i a).
Proof. exact wf_take_slice. Qed.

Theorem T02_qtotal_take_slice : forall ci ax i a,
  qtot (take_slice ci ax i a)
  = make_valid ci (vadd (qtot a) (vneg (leg_charge (nth ax (legs a) dleg) (get_qindex (nth ax (legs a) dleg) i)))) /\
  legs (take_slice ci ax i a) = remove_at ax (legs a) /\ qsorted (take_slice ci ax i a) = qsorted a.
Proof. exact take_slice_qtotal. Qed.

(* documented total charges: unchanged / negated / sum *)
Theorem T02_qtotal_rules : forall ci p s alpha a b,
  qtot (transpose p a) = qtot a /\ qtot (scale s a) = qtot a /\ qtot (add alpha a b) = qtot a /\
  qtot (conj ci a) = make_valid ci (vneg (qtot a)) /\
  qtot (outer ci a b) = make_valid ci (vadd (qtot a) (qtot b)) /\
  tdot_qtot ci a b = make_valid ci (vadd (qtot a) (qtot b)).
Proof. exact qtotal_rules. Qed.

(* ---- HISTORIES (Model/TensorProg.v).  A program is any finite list of instructions; an instruction is one of the operations above
   (transpose with a permutation, conj, scaling by a Gaussian integer, a + alpha*b, outer, tensordot over k legs, take_slice) or
   iswapaxes / gauge_total_charge (below), applied to POSITIONS of an environment (operands may alias, results are re-used) together with a destination: None appends the result
   (functional form), Some d overwrites entry d (in-place form / re-binding).  applicable_prog = every instruction meets the
   documented preconditions of its operation in the environment in which it runs.
   Starting from well-formed tensors, EVERY entry of EVERY intermediate environment is well-formed (at most one block per combination
   of charge blocks, charge rule, truthful _qdata_sorted), in particular each fresh result, and the total charge of each result is
   the documented function qtot_doc of its operands' total charges.  Any number of steps, ranks, blocks, charges. *)
Theorem T02_history : forall ci prog e, valid_ci ci -> Forall (WF ci) e -> applicable_prog ci prog e ->
  Forall (WF ci) (run ci prog e) /\
  forall n o dst, nth_error prog n = Some (o, dst) ->
    let en := run ci (firstn n prog) e in
    Forall (WF ci) en /\ applicable ci o en /\ WF ci (step ci o en) /\ qtot (step ci o en) = qtot_doc ci o en /\
    run ci (firstn (S n) prog) e = store dst (step ci o en) en.
Proof. exact history_wf. Qed.

(* ---- the cached claim in the transposing operations (itranspose / iswapaxes of Model/TensorProg.v, with the early returns of the
   code): the result is well-formed; whenever a column of _qdata moves the claim is RESET (that is why it stays truthful), it survives
   only when nothing was done; the dense form is the numpy transpose / swapaxes *)
Theorem T02_wf_itranspose_flag : forall ci p a, Permutation p (seq 0 (rank a)) -> WF ci a ->
  WF ci (itranspose p a) /\
  (p <> seq 0 (rank a) -> qsorted (itranspose p a) = false) /\
  (p = seq 0 (rank a) -> itranspose p a = a) /\
  (forall idx, length idx = rank a -> to_ndarray (itranspose p a) (gather 0%nat p idx) = to_ndarray a idx).
Proof. exact wf_itranspose. Qed.

Theorem T02_wf_iswapaxes : forall ci i j a, (i < rank a)%nat -> (j < rank a)%nat -> WF ci a ->
  WF ci (iswapaxes i j a) /\
  (i <> j -> qsorted (iswapaxes i j a) = false) /\
  (i = j -> iswapaxes i j a = a) /\
  (forall idx, length idx = rank a ->
     to_ndarray (iswapaxes i j a) (gather 0%nat (swap_perm (rank a) i j) idx) = to_ndarray a idx).
Proof. exact wf_iswapaxes. Qed.

(* the same code WITHOUT the reset `self._qdata_sorted = False` (transpose_keepflag): everything else of WF still holds, so the result
   is well-formed exactly when the kept claim happens to be true for the permuted rows ... *)
Theorem T02_itranspose_keepflag_iff : forall ci p a, Permutation p (seq 0 (rank a)) -> WF ci a ->
  (WF ci (transpose_keepflag p a) <-> (qsorted a = true -> strictly_sorted (map (gather 0%nat p) (rows a)) = true)).
Proof. exact keepflag_wf_iff. Qed.

(* ... which fails already for a 2x2-block Z_2 tensor: keeping the flag is a false claim, and the two-step history
   t = a.transpose(); t + a  then stores a duplicate block and loses an entry (7 instead of 12); with the reset the sum is right *)
Theorem T02_itranspose_flag_reset_needed :
  WF [2] kf_a /\ Permutation [1%nat; 0%nat] (seq 0 (rank kf_a)) /\
  WF [2] (transpose [1%nat; 0%nat] kf_a) /\
  ~ claim_truthful (transpose_keepflag [1%nat; 0%nat] kf_a) /\
  legs (transpose_keepflag [1%nat; 0%nat] kf_a) = legs kf_a /\ qtot (transpose_keepflag [1%nat; 0%nat] kf_a) = qtot kf_a /\
  to_ndarray (add (1, 0) (transpose_keepflag [1%nat; 0%nat] kf_a) kf_a) [1%nat; 0%nat] = (7, 0) /\
  cadd (to_ndarray (transpose_keepflag [1%nat; 0%nat] kf_a) [1%nat; 0%nat]) (cmul (1, 0) (to_ndarray kf_a [1%nat; 0%nat])) = (12, 0) /\
  to_ndarray (add (1, 0) (transpose [1%nat; 0%nat] kf_a) kf_a) [1%nat; 0%nat] = (12, 0).
Proof. exact keepflag_refuted. Qed.

(* ---- gauge_total_charge(axis, newqtotal, new_qconj) (Model/TensorProg.v, written after the source; correspondence-checked by the
   stream coq2 of harness/c02.py, checker check_case_c02x of Model/TensorProgCheck.v, as are iswapaxes above and take_slice):
   the charges of leg `axis` are shifted by old_qconj * (newqtotal - qtotal), negated when the direction of the leg changes, and
   qtotal := make_valid(newqtotal).  For a leg with qconj = +-1 whose charge rows have one entry per charge and whose blocks are the
   ones the _qdata rows refer to, the result is well-formed (charge rule!) for BOTH values of new_qconj, has the requested total
   charge and direction, and the same dense form *)
Theorem T02_wf_gauge_total_charge : forall ci ax newq newqc a, valid_ci ci -> WF ci a -> (ax < rank a)%nat ->
  length newq = length ci ->
  (qc (nth ax (legs a) dleg) = 1 \/ qc (nth ax (legs a) dleg) = -1) -> (newqc = 1 \/ newqc = -1) ->
  Forall (fun c => length c = length ci) (bch (nth ax (legs a) dleg)) ->
  (forall r, In r (rows a) -> (nth ax r 0 < length (bch (nth ax (legs a) dleg)))%nat) ->
  WF ci (gauge_total_charge ci ax newq newqc a) /\
  qtot (gauge_total_charge ci ax newq newqc a) = make_valid ci newq /\
  qc (nth ax (legs (gauge_total_charge ci ax newq newqc a)) dleg) = newqc /\
  (forall idx, to_ndarray (gauge_total_charge ci ax newq newqc a) idx = to_ndarray a idx).
Proof. exact wf_gauge. Qed.

(* the shift must be multiplied by the OLD direction: with `new_qconj * chdiff` (gauge_gen false; this only differs from the code in
   the branch old_qconj != new_qconj, where the sign of the shift is then wrong) the charge rule is violated for a U(1) tensor
   satisfying all hypotheses above, while the code as it is gives the charges [[-1]; [-2]] and a well-formed result *)
Theorem T02_gauge_flip_sign_needed :
  WF [1] gg_a /\ valid_ci [1] /\
  Forall (fun c => length c = length [1]) (bch (nth 0 (legs gg_a) dleg)) /\
  (forall r, In r (rows gg_a) -> (nth 0 r 0 < length (bch (nth 0 (legs gg_a) dleg)))%nat) /\
  ~ charge_rule [1] (gauge_gen false [1] 0 [1] (-1) gg_a) /\
  WF [1] (gauge_total_charge [1] 0 [1] (-1) gg_a) /\
  bch (nth 0 (legs (gauge_total_charge [1] 0 [1] (-1) gg_a)) dleg) = [[-1]; [-2]].
Proof. exact gauge_wrong_sign_refuted. Qed.

(* LegCharge.get_qindex_of_charges (Model/LegLookup.v; correspondence-checked by the stream leg-lookups of harness/c02.py) is the inverse of
   LegCharge.get_charge on every leg blocked by charge, for BOTH directions qconj = +1 / -1 and every charge group *)
Theorem T02_lookup_inverse : forall ci l q, valid_ci ci -> leg_ok ci l -> blocked l -> (q < length (bch l))%nat ->
  qindex_of_charges ci l (leg_charge l q) = Some q.
Proof. exact lookup_inverse. Qed.

(* whatever block the look-up returns carries the requested charge (blocked or not) *)
Theorem T02_lookup_sound : forall ci l c q, valid_ci ci -> leg_ok ci l -> length c = length ci ->
  qindex_of_charges ci l c = Some q ->
  (q < length (bch l))%nat /\ make_valid ci (leg_charge l q) = make_valid ci c.
Proof. exact lookup_sound. Qed.

(* sparse.FlatLinearOperator.flat_to_npc in compact flat mode builds the vector by hand (legs [leg], qtotal = charge_sector, _qdata = [[qi]],
   _qdata_sorted = True) from the block qi = leg.get_qindex_of_charges(charge_sector): that vector is well-formed *)
Theorem T02_compact_vector_wf : forall ci l sector q, valid_ci ci -> leg_ok ci l -> check_valid ci sector = true ->
  qindex_of_charges ci l sector = Some q -> WF ci (compact_vector l sector q).
Proof. exact compact_vector_wf. Qed.

(* the factor qconj in the look-up is needed: on the outgoing U(1) leg lk_leg (blocks of charge -1, 0, +1; all hypotheses above hold) the
   look-up without it returns for get_charge(0) = +1 the block 2, and the hand-built vector of that block violates the charge rule; the
   look-up as it is returns block 0 and a well-formed vector (also the non-vacuity witness of the three theorems above) *)
Theorem T02_lookup_qconj_needed :
  valid_ci [1] /\ leg_ok [1] lk_leg /\ blocked lk_leg /\ leg_charge lk_leg 0 = [1] /\
  qindex_of_charges_noconj [1] lk_leg (leg_charge lk_leg 0) = Some 2%nat /\
  ~ charge_rule [1] (compact_vector lk_leg [1] 2) /\
  qindex_of_charges [1] lk_leg (leg_charge lk_leg 0) = Some 0%nat /\
  WF [1] (compact_vector lk_leg [1] 0).
Proof. exact lookup_qconj_needed. Qed.

(* non-vacuity *)
Definition ex2_leg : leg := mkLeg [1%nat; 2%nat] [[1]; [3]] 1.
Definition ex2_arr : arr :=
  mkArr [ex2_leg; conj_leg ex2_leg] [0] [([1%nat; 1%nat], fun _ => (1, 0)); ([0%nat; 0%nat], fun _ => (2, 0))] false.
Example T02_example_wf : WF [4] ex2_arr.
Proof.
  constructor.
  - reflexivity.
  - intros r [<-|[<-|[]]]; reflexivity.
  - repeat constructor; cbn; intuition discriminate.
  - intros r [<-|[<-|[]]] j Hj; destruct j as [|j]; cbn in Hj; try lia; vm_compute; reflexivity.
  - intros H. discriminate H.
Qed.
Example T02_example_contractible : contractible [4] ex2_leg (conj_leg ex2_leg).
Proof. exact (contractible_conj [4] ex2_leg). Qed.
Example T02_example_tensordot_rows : tdot_rows 1 ex2_arr ex2_arr = [[1%nat; 1%nat]; [0%nat; 0%nat]].
Proof. vm_compute. reflexivity. Qed.

(* non-vacuity of T02_wf_outer / T02_wf_tensordot: ex2_arr (claim False) and its sorted version (claim True) *)
Example T02_example_outer_claim :
  qsorted (outer [4] (isort_qdata ex2_arr) (isort_qdata ex2_arr)) = true /\
  rows (outer [4] (isort_qdata ex2_arr) (isort_qdata ex2_arr))
  = [[0%nat; 0%nat; 0%nat; 0%nat]; [1%nat; 1%nat; 0%nat; 0%nat]; [0%nat; 0%nat; 1%nat; 1%nat]; [1%nat; 1%nat; 1%nat; 1%nat]].
Proof. vm_compute. split; reflexivity. Qed.
Example T02_example_tensordot_contractible :
  Forall2 (contractible [4]) (skipn (rank ex2_arr - 1) (legs ex2_arr)) (firstn 1 (legs ex2_arr)).
Proof. repeat constructor. apply (contractible_sym [4]); [repeat constructor; lia|]. exact (contractible_conj [4] ex2_leg). Qed.
Example T02_example_tensordot_blocks : rows (tensordot [4] 1 ex2_arr ex2_arr) = [[0%nat; 0%nat]; [1%nat; 1%nat]].
Proof. vm_compute. reflexivity. Qed.

(* non-vacuity of T02_wf_take_slice: ex2_arr[:, 1] keeps the block [1; 1] -> row [1], qtotal 0 - (-3) = 3 mod 4 *)
Example T02_example_take_slice :
  length (nth (get_qindex (nth 1 (legs ex2_arr) dleg) 1) (bch (nth 1 (legs ex2_arr) dleg)) []) = length [4] /\
  rows (take_slice [4] 1 1 ex2_arr) = [[1%nat]] /\ qtot (take_slice [4] 1 1 ex2_arr) = [3].
Proof. vm_compute. repeat split; reflexivity. Qed.

(* non-vacuity of T02_history: a 9-step history on a U(1) x Z_2 tensor (unsorted blocks, total charge [1; 0]):
   t = a.transpose([1, 0]); t.iconj(); d = tensordot(a, t, 1); s = d + 1j*d; o = outer(s, a); u = o.take_slice(2, 1);
   u.iswapaxes(0, 2); g = d.gauge_total_charge(1, [5, 1], +1); a = 0 * u
   (in-place steps overwrite an entry; operands alias in the addition; results are re-used).  Listed per final entry:
   shape, qtotal, _qdata rows, _qdata_sorted *)
Example T02_example_history :
  valid_ci ep_ci /\ Forall (WF ep_ci) [ep_a] /\ applicable_prog ep_ci ep_prog [ep_a] /\ length ep_prog = 9%nat /\
  map (fun a => (map ind_len (legs a), qtot a, rows a, qsorted a)) (run ep_ci ep_prog [ep_a]) =
  [([3; 3; 3]%nat, [3; 0], [], true);
   ([3; 3]%nat, [-1; 0], [[1; 1]; [0; 0]]%nat, false);
   ([3; 3]%nat, [0; 0], [[0; 0]; [1; 1]]%nat, true);
   ([3; 3]%nat, [0; 0], [[0; 0]; [1; 1]]%nat, true);
   ([3; 3; 3; 3]%nat, [1; 0], [[0; 0; 1; 1]; [1; 1; 1; 1]; [0; 0; 0; 0]; [1; 1; 0; 0]]%nat, false);
   ([3; 3; 3]%nat, [3; 0], [[1; 1; 1]; [0; 0; 1]]%nat, false);
   ([3; 3]%nat, [5; 1], [[0; 0]; [1; 1]]%nat, true)].
Proof. split; [exact ep_valid|]. split; [exact ep_a_wf|]. split; [exact ep_applicable|]. split; [reflexivity|]. exact (proj1 ep_result). Qed.

(* non-vacuity of T02_wf_iswapaxes / T02_wf_gauge_total_charge: see the witnesses kf_a, gg_a of the two `needed` theorems;
   swapping the axes of ex2_arr *)
Example T02_example_iswapaxes :
  rows (iswapaxes 0 1 (isort_qdata ex2_arr)) = [[0%nat; 0%nat]; [1%nat; 1%nat]] /\ qsorted (isort_qdata ex2_arr) = true /\
  qsorted (iswapaxes 0 1 (isort_qdata ex2_arr)) = false /\ swap_perm 3 0 2 = [2%nat; 1%nat; 0%nat].
Proof. vm_compute. repeat split; reflexivity. Qed.

Print Assumptions T02_history.
Print Assumptions T02_wf_itranspose_flag.
Print Assumptions T02_wf_iswapaxes.
Print Assumptions T02_itranspose_keepflag_iff.
Print Assumptions T02_itranspose_flag_reset_needed.
Print Assumptions T02_wf_gauge_total_charge.
Print Assumptions T02_gauge_flip_sign_needed.
Print Assumptions T02_wf_take_slice.
Print Assumptions T02_qtotal_take_slice.
Print Assumptions T02_wf_outer.
Print Assumptions T02_wf_tensordot.
Print Assumptions T02_make_valid.
Print Assumptions T02_wf_transpose.
Print Assumptions T02_wf_conj.
Print Assumptions T02_wf_scale.
Print Assumptions T02_wf_add.
Print Assumptions T02_isort_trusts_claim.
Print Assumptions T02_charge_rule_outer.
Print Assumptions T02_charge_rule_tensordot.
Print Assumptions T02_qtotal_rules.
Print Assumptions T02_lookup_inverse.
Print Assumptions T02_lookup_sound.
Print Assumptions T02_compact_vector_wf.
Print Assumptions T02_lookup_qconj_needed.
