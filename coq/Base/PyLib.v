(* Library of the Python/numpy primitives the translator (translator/py2coq.py) maps to.
   These short definitions are the formal reading of the corresponding Python operations and are
   part of the trusted base (DESIGN.md section 6). *)
From TenpyV Require Import Base.Prelude.
From Coq Require Import QArith String.
Open Scope Z_scope.

(* np.logical_and on equal-length bool arrays, np.any *)
Fixpoint andl (a b : list bool) : list bool :=
  match a, b with x :: a', y :: b' => (x && y) :: andl a' b' | _, _ => [] end.
Definition anyb (l : list bool) : bool := existsb (fun b => b) l.

(* python  lst * n  (n <= 0 gives []) *)
Fixpoint repeat_nat {A} (l : list A) (n : nat) : list A :=
  match n with O => [] | S n' => l ++ repeat_nat l n' end.
Definition list_repeat {A} (l : list A) (n : Z) : list A := repeat_nat l (Z.to_nat n).

(* an argument that is an int or a str (TEBD `order`) *)
Inductive pyorder := OInt (z : Z) | OStr (s : string).
Definition order_eqb (a b : pyorder) : bool :=
  match a, b with
  | OInt x, OInt y => x =? y
  | OStr s, OStr t => String.eqb s t
  | _, _ => false
  end.

(* polynomials over Q in one symbol X (python floats with at most one irrational constant):
   coefficient lists, lowest degree first *)
Definition poly := list Q.
Definition pconst (q : Q) : poly := [q].
Definition pX : poly := [0%Q; 1%Q].
Fixpoint padd (a b : poly) : poly :=
  match a, b with
  | [], _ => b
  | _, [] => a
  | x :: a', y :: b' => Qplus x y :: padd a' b'
  end.
Definition pscale (q : Q) (a : poly) : poly := map (Qmult q) a.
Definition pneg (a : poly) : poly := pscale (-1 # 1)%Q a.
Definition psub (a b : poly) : poly := padd a (pneg b).
Fixpoint pmul (a b : poly) : poly :=
  match a with
  | [] => []
  | x :: a' => padd (pscale x b) (0%Q :: pmul a' b)
  end.
(* value of a polynomial at a rational point (used to state "for every value of the symbol") *)
Fixpoint peval (a : poly) (x : Q) : Q :=
  match a with [] => 0%Q | c :: a' => Qplus c (Qmult x (peval a' x)) end.
(* equality as polynomials (all coefficients Qeq, zero padding) *)
Fixpoint pzero (a : poly) : bool :=
  match a with [] => true | c :: a' => Qeq_bool c 0 && pzero a' end.
Fixpoint peqb (a b : poly) : bool :=
  match a, b with
  | [], _ => pzero b
  | _, [] => pzero a
  | x :: a', y :: b' => Qeq_bool x y && peqb a' b'
  end.
Definition psum (l : list poly) : poly := fold_right padd [] l.
