(* Shared header of the development: imports, lia set-up for booleans, / and mod. *)
From Coq Require Export ZArith List Bool Lia ZifyBool ZifyNat Arith Permutation Sorted.
Export ListNotations.
Ltac Zify.zify_post_hook ::= Z.to_euclidean_division_equations.

Global Arguments Z.mul : simpl never.
Global Arguments Z.add : simpl never.
Global Arguments Z.sub : simpl never.
Global Arguments Z.div : simpl never.
Global Arguments Z.modulo : simpl never.

(* sum of a list of integers *)
Fixpoint sumZ (l : list Z) : Z := match l with [] => 0%Z | x :: t => (x + sumZ t)%Z end.

Lemma sumZ_cons x l : sumZ (x :: l) = (x + sumZ l)%Z.
Proof. reflexivity. Qed.

Lemma sumZ_app l1 l2 : sumZ (l1 ++ l2) = (sumZ l1 + sumZ l2)%Z.
Proof. induction l1 as [|x l1 IH]; cbn [sumZ app]; lia. Qed.

Lemma sumZ_perm l1 l2 : Permutation l1 l2 -> sumZ l1 = sumZ l2.
Proof. induction 1 as [|x l l' _ IH|x y l|l l' l'' _ IH1 _ IH2]; cbn [sumZ]; lia. Qed.

Lemma sumZ_nonneg l : Forall (fun x => 0 <= x)%Z l -> (0 <= sumZ l)%Z.
Proof. induction 1 as [|x l Hx _ IH]; cbn [sumZ]; lia. Qed.

Lemma firstn_skipn_sum (l : list Z) k : sumZ l = (sumZ (firstn k l) + sumZ (skipn k l))%Z.
Proof. rewrite <- sumZ_app, firstn_skipn. reflexivity. Qed.
