#!/bin/bash
# MANIFEST.setup_cmd: build the Coq development once (full .vo build, never -vos/-vok) from files on disk.
# Gen/*.v is regenerated from /repo by the translator first; every check re-runs this incrementally.
set -e
cd "$(dirname "$0")"
export PYTHONDONTWRITEBYTECODE=1
/venv/bin/python - <<'PY' 2> >(grep -v 'conda.cli.condarc' >&2)
import sys
sys.path.insert(0, 'harness')
import common
rc, out, problems = common.coq_build()
print(out[-2000:])
for p in problems:
    print('translator problem:', p)
# a failing file here is not fatal for setup: the check of the property that needs it reports it
PY
echo "setup done"
