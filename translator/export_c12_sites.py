"""Exporter of the predefined site tables of tenpy/networks/site.py -> coq/Gen/G_sites.v   (property C12, tie T).

generate(repo, gendir) evaluates the site classes of the tree under `repo` in a SUBPROCESS (translator/c12_sites_helper.py,
PYTHONPATH=repo, TENPY_NO_CYTHON=1), converts every operator table to an EXACT form and writes G_sites.v.  Fail-closed:
anything that can not be represented exactly is reported as a problem string 'G_sites|...' and the generated file then does
not define `all_configs`, so coq/Props/C12.v does not compile.

Exact forms (see coq/Model/SiteTab.v), DEN = 4096:
  kind 0: all entries (a + i b)/DEN with integers a, b   (exactness asserted: float * 4096 is an integer, exactly)
  kind 1: all entries i^ph * sqrt(s/DEN), s a positive integer (|x|^2 * DEN within 1e-9 of an integer; real or imaginary)
  kind 2: (ClockSite only) all entries w^e1 or w^e1 + w^e2, w = exp(2 pi i/q)   (within 1e-13)
"""
import cmath
import json
import os
import subprocess
import tempfile

DEN = 4096
HERE = os.path.dirname(os.path.abspath(__file__))
HELPER = os.path.join(HERE, 'c12_sites_helper.py')
PY = '/venv/bin/python'

MIN_COUNTS = {'SpinHalfSite': 6, 'SpinSite': 24, 'FermionSite': 9, 'SpinHalfFermionSite': 18, 'SpinHalfHoleSite': 18,
              'BosonSite': 32, 'ClockSite': 8}


class NotExact(Exception):
    pass


def _int_exact(x):
    y = x * DEN
    if y != round(y) or abs(y) > 2 ** 40:
        raise NotExact('%r is not a multiple of 1/%d' % (x, DEN))
    return int(round(y))


def entries_exact(mat):
    out = []
    for r, row in enumerate(mat):
        for c, (re, im) in enumerate(row):
            re, im = float(re), float(im)
            if re == 0.0 and im == 0.0:
                continue
            out.append((r, c, _int_exact(re), _int_exact(im)))
    return out


def entries_sqrt(mat):
    out = []
    for r, row in enumerate(mat):
        for c, (re, im) in enumerate(row):
            re, im = float(re), float(im)
            if re == 0.0 and im == 0.0:
                continue
            if abs(im) < 1e-14 * max(1.0, abs(re)):
                ph = 0 if re > 0 else 2
                v = re
            elif abs(re) < 1e-14 * max(1.0, abs(im)):
                ph = 1 if im > 0 else 3
                v = im
            else:
                raise NotExact('entry %r+%rj is neither real nor imaginary' % (re, im))
            s = v * v * DEN
            si = int(round(s))
            if si <= 0 or abs(s - si) > 1e-9:
                raise NotExact('squared entry %r is not a positive multiple of 1/%d' % (v * v, DEN))
            out.append((r, c, ph, si))
    return out


def entries_clock(mat, q):
    roots = [cmath.exp(2j * cmath.pi * e / q) for e in range(q)]
    out = []
    for r, row in enumerate(mat):
        for c, (re, im) in enumerate(row):
            z = complex(float(re), float(im))
            if abs(z) < 1e-13:
                continue
            found = None
            for e in range(q):
                if abs(z - roots[e]) < 1e-13:
                    found = (e, -1)
                    break
            if found is None:
                for e1 in range(q):
                    for e2 in range(e1, q):
                        if abs(z - roots[e1] - roots[e2]) < 1e-13:
                            found = (e1, e2)
                            break
                    if found:
                        break
            if found is None:
                raise NotExact('clock entry %r is not a sum of at most two %d-th roots of unity' % (z, q))
            out.append((r, c) + found)
    return out


def coq_str(s):
    assert '"' not in s and '\\' not in s and '\n' not in s
    return '"%s"' % s


def zl(xs):
    return '[' + '; '.join('%d' % x for x in xs) + ']'


def convert(cfg):
    """raw config dict -> text of one `mkCfg ...` term; raises NotExact."""
    cls = cfg['class']
    q = int(cfg['extra'].get('q', 0))
    fill = float(cfg['extra'].get('fill', 0.0))
    fill_i = _int_exact(fill)
    twoS = int(cfg['extra'].get('twoS', 0))
    jw = []
    for x in cfg['jw_exponent']:
        x = float(x)
        if abs(x) == 0.0:
            jw.append(0)
        elif abs(abs(x) - 1.0) < 1e-15:
            jw.append(1)
        else:
            raise NotExact('JW_exponent %r is not 0 or +-1' % x)
    if cfg['qconj'] != 1:
        raise NotExact('physical leg with qconj=%r' % cfg['qconj'])
    ops_txt = []
    for name in sorted(cfg['ops']):
        o = cfg['ops'][name]
        if o['labels'] != ['p', 'p*']:
            raise NotExact('operator %s has labels %r' % (name, o['labels']))
        mat = o['mat']
        if len(mat) != cfg['dim'] or any(len(row) != cfg['dim'] for row in mat):
            raise NotExact('operator %s has the wrong shape' % name)
        if cls == 'ClockSite':
            kind, ents = 2, entries_clock(mat, q)
        else:
            try:
                kind, ents = 0, entries_exact(mat)
            except NotExact:
                kind, ents = 1, entries_sqrt(mat)
        ents.sort()
        etxt = '[' + '; '.join('(%d, %d, %d, %d)' % e for e in ents) + ']'
        ops_txt.append('    mkOp %s %d %s %s' % (coq_str(name), kind, zl(o['qtotal']), etxt))
    labels = '[' + '; '.join('(%s, %d)' % (coq_str(a), b) for a, b in cfg['labels']) + ']'
    hc = '[' + '; '.join('(%s, %s)' % (coq_str(a), coq_str(b)) for a, b in cfg['hc_ops']) + ']'
    charges = '[' + '; '.join(zl(row) for row in cfg['charges']) + ']'
    need = '[' + '; '.join(coq_str(x) for x in cfg['need_JW']) + ']'
    return ('  mkCfg %s %s %s %d %d %d %d\n   %s\n   %s\n   %s %s\n   %s\n   %s\n   %s\n   [\n%s\n   ]' % (
        coq_str(cls), coq_str(cfg['key']), coq_str(cfg['cons']), cfg['dim'], twoS, q, fill_i,
        zl(cfg['perm']), labels, zl(cfg['mod']), charges, zl(jw), need, hc, ';\n'.join(ops_txt)))


HEADER = '''(* GENERATED by /verif/translator/export_c12_sites.py by EVALUATING tenpy/networks/site.py of the tree at hand -- do not edit.
   Regenerated on every run of a check.  One record per (site class, parameters, conserve option). *)
From TenpyV Require Import Base.Prelude Model.SiteTab.
From Coq Require Import String.
Open Scope string_scope.
Open Scope Z_scope.
'''


def run_helper(repo):
    env = dict(os.environ)
    env['PYTHONPATH'] = repo
    env['TENPY_NO_CYTHON'] = '1'
    env['PYTHONDONTWRITEBYTECODE'] = '1'
    env['PYTHONHASHSEED'] = '0'
    env['OMP_NUM_THREADS'] = '1'
    env['PYTHONWARNINGS'] = 'ignore'
    fd, tmp = tempfile.mkstemp(prefix='c12_sites_', suffix='.json', dir=os.environ.get('VERIF_SCRATCH_BASE', '/var/tmp'))
    os.close(fd)
    try:
        p = subprocess.run([PY, HELPER, tmp], env=env, stdout=subprocess.PIPE, stderr=subprocess.STDOUT, timeout=600, text=True,
                           cwd=os.path.dirname(tmp))
        if p.returncode != 0:
            raise RuntimeError('site helper failed rc=%d: %s' % (p.returncode, p.stdout[-600:]))
        data = json.load(open(tmp))
    finally:
        try:
            os.unlink(tmp)
        except OSError:
            pass
    want = os.path.realpath(os.path.join(repo, 'tenpy', 'networks', 'site.py'))
    if os.path.realpath(data['tenpy_file']) != want:
        raise RuntimeError('helper imported %s instead of %s' % (data['tenpy_file'], want))
    return data['configs']


def generate(repo, gendir):
    problems = []
    body = None
    try:
        cfgs = run_helper(repo)
        terms = []
        counts = {}
        for cfg in cfgs:
            tag = '%s[%s]' % (cfg['key'], cfg['cons'])
            if 'error' in cfg:
                problems.append('G_sites|%s: constructor raised %s' % (tag, cfg['error']))
                continue
            try:
                terms.append(convert(cfg))
                counts[cfg['class']] = counts.get(cfg['class'], 0) + 1
            except NotExact as e:
                problems.append('G_sites|%s: not exactly representable: %s' % (tag, e))
        for cls, n in MIN_COUNTS.items():
            if counts.get(cls, 0) < n:
                problems.append('G_sites|only %d configurations of %s exported (expected >= %d)' % (counts.get(cls, 0), cls, n))
        if not problems:
            body = 'Definition all_configs : list site_cfg := [\n' + ';\n'.join(terms) + '\n].\n'
    except Exception as e:   # fail closed, with the prefix that makes it an obligation of C12
        problems.append('G_sites|exporter failed: %s: %s' % (type(e).__name__, str(e)[:500]))
    if body is None:
        body = '(* NOT EXPORTED: %s *)\n' % ' ;; '.join(p.replace('*)', '* )').replace('(*', '( *') for p in problems)[:3000]
    out = HEADER + body
    os.makedirs(gendir, exist_ok=True)
    path = os.path.join(gendir, 'G_sites.v')
    old = open(path).read() if os.path.exists(path) else None
    if old != out:
        with open(path + '.tmp%d' % os.getpid(), 'w') as f:
            f.write(out)
        os.replace(path + '.tmp%d' % os.getpid(), path)
    return problems


if __name__ == '__main__':
    import sys
    print(generate(sys.argv[1] if len(sys.argv) > 1 else '/repo', sys.argv[2]))
