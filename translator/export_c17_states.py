"""C17 exporter:  <repo>/tenpy/linalg/{charges,np_conserved}.py  ->  coq/Gen/G_states.v   (fail-closed)

For every class of the two files that defines BOTH __getstate__ and __setstate__:
    the token sequence PRODUCED by __getstate__ (attribute names in tuple order, '(' ')' for nested tuples, 'SUPER' for
    the state of the base class, '__dict__' when the instance dictionary is the state) and the sequence CONSUMED by
    __setstate__ (the unpacking pattern of `state`, each name replaced by the attribute it is stored in).
For every class that defines save_hdf5 and/or from_hdf5 (inherited halves are resolved along the bases in the file):
    per output format (the `if format == '...'` chain, '' when there is none) the dataset/attribute names WRITTEN by
    save_hdf5 and the names READ unconditionally by from_hdf5 (reads guarded by `if 'name' in h5gr[.attrs]` are optional).
For every call `<x>.__setstate__(...)` inside these classes: number of state arguments GIVEN and EXPECTED.

Anything the walker does not recognise is a problem string (the check then reports a broken obligation) and the
class gets no entry `..._complete`, so Proofs/StatesP.v cannot be compiled against a half-understood source.
"""
import ast
import os

FILES = ['tenpy/linalg/charges.py', 'tenpy/linalg/np_conserved.py']
GEN = 'G_states'


class Bad(Exception):
    pass


def const_str(node, consts):
    if isinstance(node, ast.Constant) and isinstance(node.value, str):
        return node.value
    if isinstance(node, ast.Name) and node.id in consts:
        return consts[node.id]
    return None


def subpath_name(node, consts):
    """subpath + 'name' -> 'name'"""
    if isinstance(node, ast.BinOp) and isinstance(node.op, ast.Add) and isinstance(node.left, ast.Name) \
            and node.left.id == 'subpath':
        return const_str(node.right, consts)
    return None


def is_attrs(node):
    """h5gr.attrs"""
    return isinstance(node, ast.Attribute) and node.attr == 'attrs' and isinstance(node.value, ast.Name)


class ClassInfo:
    def __init__(self, node):
        self.node = node
        self.name = node.name
        self.bases = [b.id for b in node.bases if isinstance(b, ast.Name)]
        self.methods = {n.name: n for n in node.body if isinstance(n, ast.FunctionDef)}


def getstate_tokens(fn, cls, classes):
    """tokens produced by __getstate__"""
    env = {}

    def toks(e):
        if isinstance(e, ast.Tuple):
            out = []
            for x in e.elts:
                t = toks(x)
                out.extend(['('] + t + [')'] if isinstance(x, (ast.Tuple,)) or (isinstance(x, ast.Name) and isinstance(env.get(x.id), list) and env[x.id][:1] != ['SUPER'] and len(env[x.id]) != 1) else t)
            return out
        if isinstance(e, ast.Attribute) and isinstance(e.value, ast.Name) and e.value.id == 'self':
            return [e.attr]
        if isinstance(e, ast.Name) and e.id in env:
            return list(env[e.id])
        if isinstance(e, ast.Call) and isinstance(e.func, ast.Attribute) and e.func.attr == '__getstate__':
            return ['SUPER']
        raise Bad('__getstate__ of %s: cannot read %s' % (cls.name, ast.dump(e)[:80]))
    ret = None
    for st in fn.body:
        if isinstance(st, ast.Expr) and isinstance(st.value, ast.Constant):
            continue        # docstring
        if isinstance(st, ast.Assign) and len(st.targets) == 1 and isinstance(st.targets[0], ast.Name):
            env[st.targets[0].id] = toks(st.value)
        elif isinstance(st, ast.Return):
            if isinstance(st.value, ast.Attribute) and st.value.attr == '__dict__':
                ret = ['__dict__']
            else:
                ret = toks(st.value)
        else:
            raise Bad('__getstate__ of %s: statement %s' % (cls.name, type(st).__name__))
    if ret is None:
        raise Bad('__getstate__ of %s: no return' % cls.name)
    return ret


def setstate_tokens(fn, cls, classes):
    """tokens consumed by __setstate__ (first unpacking of `state`), names replaced by the attributes they end in"""
    stname = fn.args.args[1].arg
    body = [s for s in fn.body if not (isinstance(s, ast.Expr) and isinstance(s.value, ast.Constant))]
    stores = {}     # local name -> attribute (or 'SUPER')
    unpack = None
    dict_branch = False

    def scan(stmts, top):
        nonlocal unpack, dict_branch
        for s in stmts:
            if isinstance(s, ast.Assign) and len(s.targets) == 1:
                t, v = s.targets[0], s.value
                if isinstance(t, ast.Tuple) and isinstance(v, ast.Name) and v.id == stname:
                    if unpack is None:
                        unpack = t
                    continue
                if isinstance(t, ast.Attribute) and isinstance(t.value, ast.Name) and t.value.id == 'self' and isinstance(v, ast.Name):
                    stores.setdefault(v.id, t.attr)
                    continue
                if isinstance(t, ast.Attribute) and isinstance(t.value, ast.Name) and t.value.id == 'self':
                    continue    # derived attribute
                if isinstance(t, ast.Name):
                    continue
                raise Bad('__setstate__ of %s: assignment %s' % (cls.name, ast.dump(t)[:60]))
            elif isinstance(s, ast.Assert):
                c = s.test
                if isinstance(c, ast.Compare) and isinstance(c.left, ast.Name) and len(c.comparators) == 1 and \
                        isinstance(c.comparators[0], ast.Attribute):
                    stores.setdefault(c.left.id, c.comparators[0].attr)
            elif isinstance(s, ast.Expr) and isinstance(s.value, ast.Call):
                f = s.value.func
                if isinstance(f, ast.Attribute) and f.attr == '__setstate__':
                    for a in s.value.args:
                        if isinstance(a, ast.Name) and a.id != 'self':
                            stores[a.id] = 'SUPER'
                elif isinstance(f, ast.Attribute) and f.attr == 'update' and isinstance(f.value, ast.Attribute) and f.value.attr == '__dict__':
                    dict_branch = True
                elif isinstance(f, ast.Attribute) and isinstance(f.value, ast.Name) and f.value.id == 'self':
                    pass       # self._set_shape() etc.
                else:
                    raise Bad('__setstate__ of %s: call %s' % (cls.name, ast.dump(f)[:60]))
            elif isinstance(s, ast.If):
                scan(s.body, False)
                scan(s.orelse, False)
            elif isinstance(s, ast.Raise):
                pass
            else:
                raise Bad('__setstate__ of %s: statement %s' % (cls.name, type(s).__name__))
    scan(body, True)
    if dict_branch:
        return ['__dict__']
    if unpack is None:
        raise Bad('__setstate__ of %s: state is never unpacked' % cls.name)

    def toks(t, nested):
        out = []
        for e in t.elts:
            if isinstance(e, ast.Tuple):
                out.extend(['('] + toks(e, True) + [')'])
            elif isinstance(e, ast.Name):
                out.append(stores.get(e.id, '?' + e.id))
            elif isinstance(e, ast.Attribute) and isinstance(e.value, ast.Name) and e.value.id == 'self':
                out.append(e.attr)
            else:
                raise Bad('__setstate__ of %s: pattern %s' % (cls.name, ast.dump(e)[:60]))
        return out
    return toks(unpack, False)


def normalise_super(tokens):
    """('(' SUPER ')' and SUPER are the same thing: the base state is one nested element)"""
    return tokens


class Hdf5Walk:
    """collects written / read names of one method body, per format branch"""

    def __init__(self, cls, classes, consts, mode):
        self.cls, self.classes, self.consts, self.mode = cls, classes, consts, mode
        self.by_format = {}      # format -> set(names) ('' = unconditional)
        self.formats = []
        self.optional = set()
        self.calls_super = False
        self.setstate_calls = []

    def add(self, fmt, name):
        self.by_format.setdefault(fmt, set()).add(name)

    def walk(self, stmts, fmt='', optional=frozenset()):
        for s in stmts:
            self.stmt(s, fmt, optional)

    def exprs(self, node, fmt, optional):
        for n in ast.walk(node):
            if isinstance(n, ast.Call):
                self.call(n, fmt, optional)
            elif isinstance(n, ast.Subscript) and is_attrs(n.value) and isinstance(n.ctx, ast.Load) and self.mode == 'load':
                name = const_str(n.slice, self.consts)
                if name is None:
                    raise Bad('%s.from_hdf5: attrs[...] with a computed name' % self.cls.name)
                if name not in optional:
                    self.add(fmt, '@' + name)
            elif isinstance(n, ast.Subscript) and isinstance(n.value, ast.Name) and n.value.id == 'h5gr':
                raise Bad('%s: direct h5gr[...] access' % self.cls.name)

    def call(self, n, fmt, optional):
        f = n.func
        if not isinstance(f, ast.Attribute):
            return
        owner = f.value.id if isinstance(f.value, ast.Name) else None
        if f.attr == '__setstate__':
            given = len(n.args) - (1 if owner in self.classes else 0)
            self.setstate_calls.append(given)
            return
        if owner in ('hdf5_saver', 'hdf5_loader'):
            if f.attr in ('save', 'load'):
                arg = n.args[1] if f.attr == 'save' else n.args[0]
                name = subpath_name(arg, self.consts)
                if name is None:
                    raise Bad('%s: %s with a path that is not subpath + literal' % (self.cls.name, f.attr))
                if (f.attr == 'save') != (self.mode == 'save'):
                    raise Bad('%s: %s inside the %s method' % (self.cls.name, f.attr, self.mode))
                if name not in optional:
                    self.add(fmt, name)
            elif f.attr == 'get_attr':
                name = const_str(n.args[1], self.consts)
                if name is None:
                    raise Bad('%s: get_attr with a computed name' % self.cls.name)
                if name not in optional:
                    self.add(fmt, '@' + name)
            elif f.attr in ('memorize_load', 'memorize_save'):
                pass
            elif f.attr in ('save_dict_content', 'load_dict'):
                self.add(fmt, '*dict')
            elif f.attr == 'get':       # hdf5_saver.format_selection.get is an Attribute owner, not reached here
                pass
            else:
                raise Bad('%s: unknown engine method %s' % (self.cls.name, f.attr))
        if isinstance(f.value, ast.Call) and isinstance(f.value.func, ast.Name) and f.value.func.id == 'super' and \
                f.attr in ('save_hdf5', 'from_hdf5'):
            self.calls_super = True

    def stmt(self, s, fmt, optional):
        if isinstance(s, ast.If):
            t = s.test
            # if format == 'x':
            if isinstance(t, ast.Compare) and isinstance(t.left, ast.Name) and t.left.id == 'format' and \
                    len(t.ops) == 1 and isinstance(t.ops[0], ast.Eq):
                lit = const_str(t.comparators[0], self.consts)
                if lit is None or fmt != '':
                    raise Bad('%s: format test' % self.cls.name)
                if lit not in self.formats:
                    self.formats.append(lit)
                self.walk(s.body, lit, optional)
                self.walk(s.orelse, fmt, optional)
                return
            # if 'name' in h5gr / h5gr.attrs:
            if isinstance(t, ast.Compare) and len(t.ops) == 1 and isinstance(t.ops[0], ast.In) and \
                    const_str(t.left, self.consts) is not None and \
                    (is_attrs(t.comparators[0]) or (isinstance(t.comparators[0], ast.Name) and t.comparators[0].id == 'h5gr')):
                self.walk(s.body, fmt, optional | {const_str(t.left, self.consts)})
                self.walk(s.orelse, fmt, optional)
                return
            raise Bad('%s.%s: unrecognised condition %s' % (self.cls.name, self.mode, ast.dump(t)[:80]))
        if isinstance(s, ast.Assign) and len(s.targets) == 1 and isinstance(s.targets[0], ast.Subscript) and \
                is_attrs(s.targets[0].value):
            name = const_str(s.targets[0].slice, self.consts)
            if name is None or self.mode != 'save':
                raise Bad('%s: attrs[...] = with computed name / in from_hdf5' % self.cls.name)
            self.add(fmt, '@' + name)
            self.exprs(s.value, fmt, optional)
            return
        if isinstance(s, (ast.Assign, ast.Expr, ast.Return, ast.AugAssign, ast.AnnAssign)):
            self.exprs(s, fmt, optional)
            return
        if isinstance(s, ast.Raise):
            return
        raise Bad('%s.%s: statement %s' % (self.cls.name, self.mode, type(s).__name__))


def collect_consts(tree):
    out = {}
    for n in tree.body:
        if isinstance(n, ast.Assign) and len(n.targets) == 1 and isinstance(n.targets[0], ast.Name) and \
                isinstance(n.value, ast.Constant) and isinstance(n.value.value, str):
            out[n.targets[0].id] = n.value.value
    return out


def analyse(repo):
    """-> (state_rows, hdf5_rows, setstate_rows, problems)"""
    problems = []
    state_rows, hdf5_rows, call_rows = [], [], []
    for rel in FILES:
        path = os.path.join(repo, rel)
        try:
            tree = ast.parse(open(path).read())
        except (OSError, SyntaxError) as e:
            problems.append('%s|cannot parse %s: %s' % (GEN, rel, e))
            continue
        consts = collect_consts(tree)
        classes = {n.name: ClassInfo(n) for n in tree.body if isinstance(n, ast.ClassDef)}

        def resolve(cls, meth):
            """method definition along the bases defined in this file"""
            seen = set()
            todo = [cls.name]
            while todo:
                c = todo.pop(0)
                if c in seen or c not in classes:
                    continue
                seen.add(c)
                if meth in classes[c].methods:
                    return classes[c], classes[c].methods[meth]
                todo.extend(classes[c].bases)
            return None, None

        for cls in classes.values():
            has_get, has_set = '__getstate__' in cls.methods, '__setstate__' in cls.methods
            if has_get != has_set:
                problems.append('%s|%s defines only one of __getstate__/__setstate__' % (GEN, cls.name))
            if has_get and has_set:
                try:
                    state_rows.append((cls.name, getstate_tokens(cls.methods['__getstate__'], cls, classes),
                                       setstate_tokens(cls.methods['__setstate__'], cls, classes)))
                except Bad as e:
                    problems.append('%s|%s' % (GEN, e))
            own = [m for m in ('save_hdf5', 'from_hdf5') if m in cls.methods]
            if own:
                try:
                    res = {}
                    for meth, mode in (('save_hdf5', 'save'), ('from_hdf5', 'load')):
                        acc = {}
                        formats = []
                        c, fn = resolve(cls, meth)
                        guard = 0
                        while fn is not None:
                            w = Hdf5Walk(c, classes, consts, mode)
                            body = [s for s in fn.body if not (isinstance(s, ast.Expr) and isinstance(s.value, ast.Constant))]
                            w.walk(body)
                            for k, v in w.by_format.items():
                                acc.setdefault(k, set()).update(v)
                            formats += [f for f in w.formats if f not in formats]
                            if mode == 'load' and c is cls or mode == 'load':
                                for given in w.setstate_calls:
                                    tc, tf = resolve(cls, '__setstate__')
                                    expected = len(tf.args.args) - 1 if tf is not None else 1
                                    if c is cls:
                                        call_rows.append((cls.name, meth, given, expected))
                            guard += 1
                            if not w.calls_super or guard > 5:
                                break
                            nxt = None
                            for b in c.bases:
                                if b in classes:
                                    nxt = resolve(classes[b], meth)
                                    break
                            if nxt is None or nxt[1] is None:
                                raise Bad('%s.%s calls super() but the base is not in the file' % (c.name, meth))
                            c, fn = nxt
                        if fn is None and not acc:
                            raise Bad('%s has no %s' % (cls.name, meth))
                        res[mode] = (acc, formats)
                    wacc, wfmts = res['save']
                    racc, rfmts = res['load']
                    fmts = wfmts or ['']
                    for f in fmts:
                        written = sorted(wacc.get('', set()) | (wacc.get(f, set()) if f else set()))
                        read = sorted(racc.get('', set()) | (racc.get(f, set()) if f else set()))
                        hdf5_rows.append((cls.name, f, written, read))
                    for f in rfmts:
                        if f not in fmts:
                            problems.append('%s|%s.from_hdf5 knows format %r that save_hdf5 never writes' % (GEN, cls.name, f))
                except Bad as e:
                    problems.append('%s|%s' % (GEN, e))
            # __setstate__ calls in the remaining methods of the class (copy(), to_LegCharge(), ...)
            for mname, fn in cls.methods.items():
                if mname in ('from_hdf5', '__setstate__'):
                    continue
                for n in ast.walk(fn):
                    if isinstance(n, ast.Call) and isinstance(n.func, ast.Attribute) and n.func.attr == '__setstate__':
                        owner = n.func.value.id if isinstance(n.func.value, ast.Name) else None
                        given = len(n.args) - (1 if owner in classes else 0)
                        tc, tf = resolve(classes.get(owner, cls) if owner in classes else cls, '__setstate__')
                        expected = len(tf.args.args) - 1 if tf is not None else 1
                        call_rows.append((cls.name, mname, given, expected))
    return state_rows, hdf5_rows, call_rows, problems


def coq_str(s):
    if '"' in s:
        raise Bad('quote in name')
    return '"%s"' % s


def coq_list(xs):
    return '[' + '; '.join(coq_str(x) for x in xs) + ']'


def render(state_rows, hdf5_rows, call_rows):
    out = ['(* GENERATED by /verif/translator/export_c17_states.py from tenpy/linalg/charges.py and np_conserved.py',
           '   -- do not edit.  Regenerated from the working tree on every run of ./check C17. *)',
           'From Coq Require Import String List.', 'Import ListNotations.', 'Open Scope string_scope.', '',
           '(* class, tokens produced by __getstate__, tokens consumed by __setstate__ *)',
           'Definition state_table : list (string * list string * list string) := [']
    out.append(';\n'.join('  (%s, %s, %s)' % (coq_str(c), coq_list(p), coq_list(q)) for c, p, q in state_rows))
    out += ['].', '', '(* class, format, names written by save_hdf5, names read unconditionally by from_hdf5 (@ = HDF5 attribute) *)',
            'Definition hdf5_table : list (string * string * list string * list string) := [']
    out.append(';\n'.join('  (%s, %s, %s, %s)' % (coq_str(c), coq_str(f), coq_list(w), coq_list(r)) for c, f, w, r in hdf5_rows))
    out += ['].', '', '(* class, method containing the call, state arguments given, state arguments expected *)',
            'Definition setstate_calls : list (string * string * nat * nat) := [']
    out.append(';\n'.join('  (%s, %s, %d, %d)' % (coq_str(c), coq_str(m), g, e) for c, m, g, e in call_rows))
    out += ['].', '']
    return '\n'.join(out)


REQUIRED_STATE = ['ChargeInfo', 'DipolarChargeInfo', 'LegCharge', 'LegPipe', 'Array']


def generate(repo, gendir):
    state_rows, hdf5_rows, call_rows, problems = analyse(repo)
    have = [c for c, _, _ in state_rows]
    for c in REQUIRED_STATE:
        if c not in have:
            problems.append('%s|class %s has no readable __getstate__/__setstate__ pair' % (GEN, c))
    haveh = set(c for c, _, _, _ in hdf5_rows)
    for c in REQUIRED_STATE:
        if c not in haveh:
            problems.append('%s|class %s has no readable save_hdf5/from_hdf5 pair' % (GEN, c))
    try:
        txt = render(state_rows, hdf5_rows, call_rows)
    except Bad as e:
        problems.append('%s|%s' % (GEN, e))
        txt = '(* NOT GENERATED: %s *)\n' % e
    if problems:
        # fail closed: no `states_complete`, Proofs/StatesP.v does not compile
        txt += '\n(* PROBLEMS:\n' + '\n'.join(p.replace('*)', '* )') for p in problems) + '\n*)\n'
    else:
        txt += 'Definition states_complete : bool := true.\n'
    p = os.path.join(gendir, GEN + '.v')
    old = open(p).read() if os.path.exists(p) else None
    if old != txt:
        with open(p, 'w') as f:
            f.write(txt)
    return problems


if __name__ == '__main__':
    import json
    import sys
    repo = sys.argv[1] if len(sys.argv) > 1 else '/repo'
    s, h, c, p = analyse(repo)
    print(json.dumps({'state': s, 'hdf5': h, 'calls': c, 'problems': p}, indent=1))
