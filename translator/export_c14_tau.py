"""Exporter for property C14 (tie T): the complex step `tau` that TEBDEngine.calc_U records per type_evo and
the increments of `evolved_time` in TEBDEngine.evolve / update_imag, read from the source text on every run
into coq/Gen/G_tau.v.

  tebd_tau   : list (string * (Z * Z))   type_evo -> (a, b) meaning  tau = (a + b*i) * delta_t
  tebd_incr  : list (string * bool)      method -> its single evolved_time statement is
                                          self.evolved_time = self.evolved_time + N_steps * self._U_param['tau']

Fail-closed: any other shape of these statements is reported as a problem (the generated table is then empty and
the theorems over it do not check)."""
import ast
import os

GEN = 'G_tau'
REL = 'tenpy/algorithms/tebd.py'


def _coeff(node, var):
    """(re, im) integer coefficients if node is  c * var  for a literal complex constant c in {+-1, +-1j}."""
    def const(n):
        if isinstance(n, ast.UnaryOp) and isinstance(n.op, ast.USub):
            c = const(n.operand)
            return None if c is None else -c
        if isinstance(n, ast.UnaryOp) and isinstance(n.op, ast.UAdd):
            return const(n.operand)
        if isinstance(n, ast.Constant) and isinstance(n.value, (int, float, complex)) and not isinstance(n.value, bool):
            return complex(n.value)
        return None

    def is_var(n):
        return isinstance(n, ast.Name) and n.id == var
    c = None
    if is_var(node):
        c = 1 + 0j
    elif isinstance(node, ast.UnaryOp) and isinstance(node.op, ast.USub) and is_var(node.operand):
        c = -1 + 0j
    elif isinstance(node, ast.BinOp) and isinstance(node.op, ast.Mult):
        if is_var(node.right):
            c = const(node.left)
        elif is_var(node.left):
            c = const(node.right)
        elif isinstance(node.left, ast.UnaryOp) and isinstance(node.left.op, ast.USub) and is_var(node.left.operand):
            c = const(node.right)
            c = None if c is None else -c
    if c is None or c.real != int(c.real) or c.imag != int(c.imag):
        return None
    return int(c.real), int(c.imag)


def _is_tau_target(t):
    return (isinstance(t, ast.Subscript) and isinstance(t.value, ast.Name) and t.value.id == 'U_param'
            and isinstance(t.slice, ast.Constant) and t.slice.value == 'tau')


def _tau_table(fn, problems):
    """calc_U: an if/elif chain on `type_evo == '<lit>'` whose bodies are exactly one assignment U_param['tau'] = c*delta_t."""
    rows = []
    n_assign = 0
    for node in ast.walk(fn):
        if isinstance(node, (ast.Assign, ast.AugAssign)):
            tg = node.targets if isinstance(node, ast.Assign) else [node.target]
            if any(_is_tau_target(t) for t in tg):
                n_assign += 1
        if isinstance(node, ast.Call) and isinstance(node.func, ast.Name) and node.func.id == 'dict' and \
                any(k.arg == 'tau' for k in node.keywords):
            problems.append("%s|calc_U: 'tau' set in the dict() call" % GEN)
    chain = [s for s in fn.body if isinstance(s, ast.If) and isinstance(s.test, ast.Compare)
             and isinstance(s.test.left, ast.Name) and s.test.left.id == 'type_evo']
    if len(chain) != 1:
        problems.append('%s|calc_U: expected exactly one top-level `if type_evo == ...` chain, found %d' % (GEN, len(chain)))
        return []
    node = chain[0]
    while True:
        t = node.test
        ok = (isinstance(t, ast.Compare) and isinstance(t.left, ast.Name) and t.left.id == 'type_evo' and len(t.ops) == 1
              and isinstance(t.ops[0], ast.Eq) and isinstance(t.comparators[0], ast.Constant)
              and isinstance(t.comparators[0].value, str))
        if not ok:
            problems.append('%s|calc_U: unrecognised test in the type_evo chain' % GEN)
            return []
        if len(node.body) != 1 or not isinstance(node.body[0], ast.Assign) or len(node.body[0].targets) != 1 \
                or not _is_tau_target(node.body[0].targets[0]):
            problems.append('%s|calc_U: branch type_evo == %r is not a single assignment to U_param[\'tau\']' % (GEN, t.comparators[0].value))
            return []
        c = _coeff(node.body[0].value, 'delta_t')
        if c is None:
            problems.append('%s|calc_U: tau for type_evo == %r is not (+-1 | +-1j) * delta_t' % (GEN, t.comparators[0].value))
            return []
        rows.append((t.comparators[0].value, c))
        if len(node.orelse) == 1 and isinstance(node.orelse[0], ast.If):
            node = node.orelse[0]
            continue
        if not (len(node.orelse) == 1 and isinstance(node.orelse[0], ast.Raise)):
            problems.append('%s|calc_U: the type_evo chain does not end in `else: raise`' % GEN)
            return []
        break
    if n_assign != len(rows):
        problems.append("%s|calc_U: %d assignments to U_param['tau'], %d in the recognised chain" % (GEN, n_assign, len(rows)))
        return []
    return rows


def _incr_is_n_tau(fn, problems, where):
    """the method has exactly one top-level statement touching self.evolved_time, of the form
    self.evolved_time = self.evolved_time + N_steps * self._U_param['tau']   (or +=)"""
    def is_et(n):
        return isinstance(n, ast.Attribute) and n.attr == 'evolved_time' and isinstance(n.value, ast.Name) and n.value.id == 'self'

    def is_n_tau(n):
        if not (isinstance(n, ast.BinOp) and isinstance(n.op, ast.Mult)):
            return False
        a, b = n.left, n.right
        if isinstance(b, ast.Name):
            a, b = b, a
        return (isinstance(a, ast.Name) and a.id == 'N_steps' and isinstance(b, ast.Subscript)
                and isinstance(b.value, ast.Attribute) and b.value.attr == '_U_param'
                and isinstance(b.value.value, ast.Name) and b.value.value.id == 'self'
                and isinstance(b.slice, ast.Constant) and b.slice.value == 'tau')
    all_stores = [n for n in ast.walk(fn) if isinstance(n, (ast.Assign, ast.AugAssign))
                  and any(is_et(t) for t in (n.targets if isinstance(n, ast.Assign) else [n.target]))]
    top = [n for n in fn.body if n in all_stores]
    if len(all_stores) != 1 or len(top) != 1:
        problems.append('%s|%s: expected exactly one top-level statement updating self.evolved_time, found %d (%d top-level)'
                        % (GEN, where, len(all_stores), len(top)))
        return False
    st = top[0]
    if isinstance(st, ast.AugAssign):
        ok = isinstance(st.op, ast.Add) and is_n_tau(st.value)
    else:
        v = st.value
        ok = (isinstance(v, ast.BinOp) and isinstance(v.op, ast.Add)
              and ((is_et(v.left) and is_n_tau(v.right)) or (is_et(v.right) and is_n_tau(v.left))))
    if not ok:
        problems.append("%s|%s: evolved_time update is not `+ N_steps * self._U_param['tau']`" % (GEN, where))
    return ok


def generate(repo, gendir):
    problems = []
    rows, incr = [], []
    try:
        tree = ast.parse(open(os.path.join(repo, REL)).read())
        cls = [n for n in tree.body if isinstance(n, ast.ClassDef) and n.name == 'TEBDEngine']
        if len(cls) != 1:
            raise ValueError('class TEBDEngine not found')
        meths = {m.name: m for m in cls[0].body if isinstance(m, ast.FunctionDef)}
        for need in ('calc_U', 'evolve', 'update_imag'):
            if need not in meths:
                raise ValueError('TEBDEngine.%s not found' % need)
        rows = _tau_table(meths['calc_U'], problems)
        for m in ('evolve', 'update_imag'):
            incr.append((m, _incr_is_n_tau(meths[m], problems, 'TEBDEngine.' + m)))
        # subclasses overriding these methods would escape the table
        for node in ast.walk(tree):
            if isinstance(node, ast.ClassDef) and node.name != 'TEBDEngine':
                for m in node.body:
                    if isinstance(m, ast.FunctionDef) and m.name == 'update_imag':
                        problems.append('%s|%s overrides update_imag' % (GEN, node.name))
    except (OSError, SyntaxError, ValueError) as e:
        problems.append('%s|%s: %s' % (GEN, REL, e))
    out = ['(* GENERATED by /verif/translator/export_c14_tau.py from %s -- do not edit. *)' % REL,
           'From Coq Require Import List String ZArith.', 'Import ListNotations.', 'Open Scope string_scope.', 'Open Scope Z_scope.', '',
           "(* TEBDEngine.calc_U: type_evo -> (a, b) with  U_param['tau'] = (a + b*i) * delta_t *)",
           'Definition tebd_tau : list (string * (Z * Z)) := [' +
           '; '.join('("%s", (%d, %d))' % (k, c[0], c[1]) for k, c in rows) + '].', '',
           "(* methods whose only evolved_time statement is  self.evolved_time + N_steps * self._U_param['tau'] *)",
           'Definition tebd_incr : list (string * bool) := [' +
           '; '.join('("%s", %s)' % (m, 'true' if ok else 'false') for m, ok in incr) + '].']
    txt = '\n'.join(out) + '\n'
    p = os.path.join(gendir, GEN + '.v')
    if not (os.path.exists(p) and open(p).read() == txt):
        with open(p, 'w') as f:
            f.write(txt)
    return problems


if __name__ == '__main__':
    import sys
    print(generate(sys.argv[1] if len(sys.argv) > 1 else '/repo', '/tmp'))
    print(open('/tmp/G_tau.v').read())
