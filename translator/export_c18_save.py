"""C18 exporter: Simulation.save_results (tenpy/simulations/simulation.py) -> coq/Gen/G_save_results.v

The body of save_results is a straight-line program over path operations.  It is translated to a
term of the type `prog` of coq/Model/Fs.v (PIf / PSeq / PUnlink / PRename / PSave over the two files
Out = self.output_filename and Bak = self._backup_filename).  Fail-closed: every statement that is not
one of the recognised forms is reported as a problem (the proof obligation T18_save_results_gen then
fails to build, because the generated definition is missing)."""
import ast
import os

REL = 'tenpy/simulations/simulation.py'
GEN = 'G_save_results'


class Bad(Exception):
    pass


def _is_self_attr(node, attr):
    return (isinstance(node, ast.Attribute) and isinstance(node.value, ast.Name) and node.value.id == 'self'
            and node.attr == attr)


def _is_time_time(node):
    return (isinstance(node, ast.Call) and isinstance(node.func, ast.Attribute) and node.func.attr == 'time'
            and isinstance(node.func.value, ast.Name) and node.func.value.id == 'time' and not node.args)


class Tr:
    def __init__(self):
        self.alias = {}          # local name -> 'Out' | 'Bak'
        self.seen_save = 0

    def fname(self, node):
        if isinstance(node, ast.Name) and node.id in self.alias:
            return self.alias[node.id]
        if _is_self_attr(node, 'output_filename'):
            return 'Out'
        if _is_self_attr(node, '_backup_filename'):
            return 'Bak'
        raise Bad('not a tracked file name: ' + ast.dump(node)[:80])

    def cond(self, node):
        if isinstance(node, ast.BoolOp) and isinstance(node.op, ast.And):
            out = self.cond(node.values[-1])
            for v in reversed(node.values[:-1]):
                out = '(CAnd %s %s)' % (self.cond(v), out)
            return out
        if isinstance(node, ast.UnaryOp) and isinstance(node.op, ast.Not):
            return '(CNot %s)' % self.cond(node.operand)
        if (isinstance(node, ast.Call) and isinstance(node.func, ast.Attribute) and node.func.attr == 'exists'
                and not node.args and not node.keywords):
            return '(CExists %s)' % self.fname(node.func.value)
        if (isinstance(node, ast.Compare) and len(node.ops) == 1 and isinstance(node.ops[0], ast.IsNot)
                and isinstance(node.comparators[0], ast.Constant) and node.comparators[0].value is None):
            if self.fname(node.left) == 'Bak':
                return 'CSafe'
        raise Bad('condition not recognised: ' + ast.unparse(node)[:80])

    def block(self, stmts):
        ps = [p for p in (self.stmt(s) for s in stmts) if p is not None]
        if not ps:
            return 'PSkip'
        out = ps[-1]
        for p in reversed(ps[:-1]):
            out = '(PSeq %s %s)' % (p, out)
        return out

    def stmt(self, s):
        if isinstance(s, ast.Pass):
            return None
        if isinstance(s, ast.If):
            return '(PIf %s %s %s)' % (self.cond(s.test), self.block(s.body), self.block(s.orelse))
        if isinstance(s, ast.Expr) and isinstance(s.value, ast.Constant) and isinstance(s.value.value, str):
            return None
        if isinstance(s, ast.Expr) and isinstance(s.value, ast.Call) and isinstance(s.value.func, ast.Attribute):
            c = s.value
            f = c.func
            if f.attr == 'unlink' and not c.args and not c.keywords:
                return '(PUnlink %s)' % self.fname(f.value)
            if f.attr in ('rename', 'replace') and len(c.args) == 1 and not c.keywords:
                return '(PRename %s %s)' % (self.fname(f.value), self.fname(c.args[0]))
            if _is_self_attr(f, '_save_to_file') and len(c.args) == 2 and not c.keywords:
                self.seen_save += 1
                return '(PSave %s)' % self.fname(c.args[1])
            if (f.attr == 'save' and isinstance(f.value, ast.Name) and f.value.id == 'hdf5_io' and len(c.args) == 2
                    and not c.keywords):
                self.seen_save += 1
                return '(PSave %s)' % self.fname(c.args[1])
            if (f.attr in ('info', 'debug') and isinstance(f.value, ast.Attribute) and _is_self_attr(f.value, 'logger')):
                return None
        if isinstance(s, ast.Assign) and len(s.targets) == 1:
            t = s.targets[0]
            if _is_time_time(s.value) and (isinstance(t, ast.Name) or _is_self_attr(t, '_last_save')):
                return None
        raise Bad('statement not recognised: ' + ast.unparse(s)[:100])


def translate(src):
    tree = ast.parse(src)
    cls = [n for n in tree.body if isinstance(n, ast.ClassDef) and n.name == 'Simulation']
    if len(cls) != 1:
        raise Bad('class Simulation not found')
    fns = {n.name: n for n in cls[0].body if isinstance(n, ast.FunctionDef)}
    if 'save_results' not in fns or '_save_to_file' not in fns:
        raise Bad('save_results / _save_to_file not found')
    # _save_to_file must be exactly: hdf5_io.save(results, output_filename)
    body = [s for s in fns['_save_to_file'].body
            if not (isinstance(s, ast.Expr) and isinstance(s.value, ast.Constant))]
    if len(body) != 1 or ast.unparse(body[0]) != 'hdf5_io.save(results, output_filename)':
        raise Bad('_save_to_file is not a single hdf5_io.save(results, output_filename)')
    fn = fns['save_results']
    tr = Tr()
    stmts = list(fn.body)
    if stmts and isinstance(stmts[0], ast.Expr) and isinstance(stmts[0].value, ast.Constant):
        stmts = stmts[1:]
    rest = []
    phase = 0
    for s in stmts:
        u = ast.unparse(s)
        if phase == 0 and u == 'if results is None:\n    results = self.prepare_results_for_save()':
            continue
        if phase == 0 and isinstance(s, ast.Assign) and len(s.targets) == 1 and isinstance(s.targets[0], ast.Name):
            if _is_self_attr(s.value, 'output_filename'):
                tr.alias[s.targets[0].id] = 'Out'
                continue
            if _is_self_attr(s.value, '_backup_filename'):
                tr.alias[s.targets[0].id] = 'Bak'
                continue
        if phase == 0 and isinstance(s, ast.If) and ast.unparse(s.test) in ('output_filename is None', 'self.output_filename is None') \
                and len(s.body) == 1 and ast.unparse(s.body[0]) == 'return results' and not s.orelse:
            phase = 1
            continue
        if isinstance(s, ast.Return) and s is stmts[-1] and ast.unparse(s) == 'return results':
            continue
        if phase == 0 and not (isinstance(s, ast.Assign) and _is_time_time(s.value)):
            raise Bad('unexpected statement before the early return: ' + u[:100])
        rest.append(s)
    term = tr.block(rest)
    if tr.seen_save != 1:
        raise Bad('expected exactly one write of the results, found %d' % tr.seen_save)
    return term


def generate(repo, gendir):
    problems = []
    head = ('(* GENERATED by translator/export_c18_save.py from %s : Simulation.save_results -- do not edit *)\n'
            'From TenpyV Require Import Base.Prelude Model.Fs.\n\n' % REL)
    try:
        src = open(os.path.join(repo, REL)).read()
        term = translate(src)
        body = 'Definition save_results_gen : prog :=\n  %s.\n' % term
    except (Bad, SyntaxError, OSError) as e:
        problems.append('%s|%s:Simulation.save_results not translatable: %s' % (GEN, REL, e))
        body = '(* NOT TRANSLATABLE: %s *)\n' % str(e).replace('*)', '* )')
    out = head + body
    p = os.path.join(gendir, GEN + '.v')
    old = open(p).read() if os.path.exists(p) else None
    if old != out:
        with open(p, 'w') as f:
            f.write(out)
    return problems
