"""Exporter for C14 (tie T): extracts from the source of every time-evolution engine class, by `ast`, WHERE
`self.trunc_err` and `self.evolved_time` are accumulated (in the resolved `evolve` and `run_evolution`
methods, following the method resolution order), and writes coq/Gen/G_acct.v.

Fail-closed: any write to self.trunc_err / self.evolved_time inside evolve/run_evolution that is not of the
recognised accumulate form  `self.X = self.X + <expr>` / `self.X += <expr>`  is reported as a problem.
"""
import ast
import os

FILES = ['tenpy/algorithms/algorithm.py', 'tenpy/algorithms/tebd.py', 'tenpy/algorithms/tdvp.py',
         'tenpy/algorithms/mpo_evolution.py', 'tenpy/algorithms/purification.py']
ROOT = 'TimeEvolutionAlgorithm'
GEN = 'G_acct'


def _base_name(b):
    if isinstance(b, ast.Name):
        return b.id
    if isinstance(b, ast.Attribute):
        return b.attr
    return None


def _c3(name, classes, seen=()):
    """C3 linearisation over the parsed classes (unknown bases are kept as leaves)."""
    if name not in classes:
        return [name]
    bases = classes[name]['bases']
    seqs = [_c3(b, classes) for b in bases] + [list(bases)]
    res = [name]
    while True:
        seqs = [s for s in seqs if s]
        if not seqs:
            return res
        for s in seqs:
            cand = s[0]
            if not any(cand in t[1:] for t in seqs):
                break
        else:
            raise ValueError('inconsistent MRO for ' + name)
        res.append(cand)
        for s in seqs:
            if s and s[0] == cand:
                del s[0]


def _is_self_attr(node, attr):
    return (isinstance(node, ast.Attribute) and node.attr == attr and isinstance(node.value, ast.Name)
            and node.value.id == 'self')


def _analyse(fn, attr, problems, where):
    """number of accumulate statements for self.<attr> at the TOP LEVEL of the body of fn.
    Any write to self.<attr> nested inside if/for/while/try/with is reported as a problem (fail closed):
    a conditional or repeated accumulation is outside the model."""
    count = 0
    top = set(id(n) for n in fn.body)
    for node in ast.walk(fn):
        hit = False
        if isinstance(node, ast.Assign):
            for tg in node.targets:
                if _is_self_attr(tg, attr):
                    v = node.value
                    if (isinstance(v, ast.BinOp) and isinstance(v.op, ast.Add) and
                            (_is_self_attr(v.left, attr) or _is_self_attr(v.right, attr))):
                        hit = True
                    else:
                        problems.append('%s|%s: unrecognised assignment to self.%s' % (GEN, where, attr))
        elif isinstance(node, ast.AugAssign):
            if _is_self_attr(node.target, attr):
                if isinstance(node.op, ast.Add):
                    hit = True
                else:
                    problems.append('%s|%s: unrecognised augmented assignment to self.%s' % (GEN, where, attr))
        if hit:
            if id(node) in top:
                count += 1
            else:
                problems.append('%s|%s: accumulation of self.%s is nested inside a compound statement' % (GEN, where, attr))
    return count


def _calls_evolve(fn):
    """('once'|'loop'|'none'): how run_evolution calls self.evolve."""
    kind = 'none'
    for node in ast.walk(fn):
        if isinstance(node, ast.For):
            for sub in ast.walk(node):
                if isinstance(sub, ast.Call) and _is_self_attr(sub.func, 'evolve'):
                    return 'loop'
        if isinstance(node, ast.Call) and _is_self_attr(node.func, 'evolve'):
            kind = 'once'
    return kind


def generate(repo, gendir):
    problems = []
    classes = {}
    for rel in FILES:
        try:
            tree = ast.parse(open(os.path.join(repo, rel)).read())
        except (OSError, SyntaxError) as e:
            problems.append('%s|cannot parse %s: %s' % (GEN, rel, e))
            continue
        for node in tree.body:
            if isinstance(node, ast.ClassDef):
                classes[node.name] = {
                    'bases': [b for b in (_base_name(x) for x in node.bases) if b],
                    'methods': {m.name: m for m in node.body if isinstance(m, ast.FunctionDef)},
                    'file': rel,
                }
    rows = []
    for name in sorted(classes):
        try:
            mro = _c3(name, classes)
        except ValueError as e:
            problems.append('%s|%s' % (GEN, e))
            continue
        if ROOT not in mro or name == ROOT or name == 'TimeDependentHAlgorithm':
            continue

        def resolve(meth):
            for c in mro:
                if c in classes and meth in classes[c]['methods']:
                    return c, classes[c]['methods'][meth]
            return None, None
        c_ev, ev = resolve('evolve')
        c_run, run = resolve('run_evolution')
        if ev is None or run is None:
            problems.append('%s|%s: evolve/run_evolution not found' % (GEN, name))
            continue
        how = _calls_evolve(run)
        if how == 'none':
            problems.append('%s|%s.run_evolution does not call self.evolve' % (GEN, c_run))
            continue
        rows.append((name, c_ev, c_run,
                     _analyse(ev, 'trunc_err', problems, c_ev + '.evolve'),
                     _analyse(run, 'trunc_err', problems, c_run + '.run_evolution'),
                     _analyse(ev, 'evolved_time', problems, c_ev + '.evolve'),
                     _analyse(run, 'evolved_time', problems, c_run + '.run_evolution'),
                     how == 'loop'))
    out = ['(* GENERATED by /verif/translator/export_c14_acct.py from %s -- do not edit. *)' % ', '.join(FILES),
           'From Coq Require Import List String.', 'Import ListNotations.', 'Open Scope string_scope.', '',
           '(* per engine class: where the resolved evolve / run_evolution accumulate trunc_err and evolved_time *)',
           'Record acct_cls := mkAcct { cname : string; ev_from : string; run_from : string;',
           '  ev_err_adds : nat; run_err_adds : nat; ev_time_adds : nat; run_time_adds : nat; run_loops : bool }.', '',
           'Definition engines : list acct_cls := [']
    out.append(';\n'.join('  mkAcct "%s" "%s" "%s" %d %d %d %d %s' % (r[0], r[1], r[2], r[3], r[4], r[5], r[6],
                                                                 'true' if r[7] else 'false') for r in rows))
    out.append('].')
    txt = '\n'.join(out) + '\n'
    p = os.path.join(gendir, GEN + '.v')
    if not (os.path.exists(p) and open(p).read() == txt):
        with open(p, 'w') as f:
            f.write(txt)
    if not rows:
        problems.append('%s|no time evolution engine classes found' % GEN)
    return problems


if __name__ == '__main__':
    import sys
    print(generate(sys.argv[1] if len(sys.argv) > 1 else '/repo', '/tmp'))
    print(open('/tmp/G_acct.v').read())
