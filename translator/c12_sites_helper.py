"""Helper of translator/export_c12_sites.py -- runs in a SUBPROCESS with PYTHONPATH=<repo>, TENPY_NO_CYTHON=1.

Evaluates every predefined site class of tenpy/networks/site.py over its parameters and `conserve` options and dumps the
raw data (dense operator matrices as exact float reprs, perm, labels, charges, hc_ops, need_JW_string, JW_exponent) as JSON
to the file given as argv[1].  No interpretation happens here; export_c12_sites.py converts to exact forms (fail-closed).
"""
import json
import sys
import warnings

import numpy as np

warnings.simplefilter('ignore')


def site_configs(level='full'):
    """(class name, key, cons label, constructor kwargs, extra numbers)"""
    out = []
    for cons in ['Sz', 'parity', 'None']:
        for sort in [True, False]:
            out.append(('SpinHalfSite', 'SpinHalfSite', cons + ('' if sort else '/nosort'),
                        dict(conserve=cons, sort_charge=sort), dict(twoS=1)))
    for twoS in [1, 2, 3, 4, 5, 6]:
        for cons in ['dipole', 'Sz', 'parity', 'None']:
            out.append(('SpinSite', 'SpinSite(%d/2)' % twoS, cons, dict(S=twoS / 2., conserve=cons), dict(twoS=twoS)))
    out.append(('SpinSite', 'SpinSite(2/2)', 'parity/nosort', dict(S=1., conserve='parity', sort_charge=False), dict(twoS=2)))
    out.append(('SpinSite', 'SpinSite(3/2)', 'parity/nosort', dict(S=1.5, conserve='parity', sort_charge=False), dict(twoS=3)))
    for fill in [0.5, 0.25, 1.0]:
        for cons in ['N', 'parity', 'None']:
            out.append(('FermionSite', 'FermionSite(%r)' % fill, cons, dict(conserve=cons, filling=fill), dict(fill=fill)))
    for cls in ['SpinHalfFermionSite', 'SpinHalfHoleSite']:
        for fill in [1.0, 0.5]:
            for cN in ['N', 'parity', 'None']:
                for cS in ['Sz', 'parity', 'None']:
                    cons = 'None' if (cN == 'None' and cS == 'None') else cN + ',' + cS
                    out.append((cls, '%s(%r)' % (cls, fill), cons, dict(cons_N=cN, cons_Sz=cS, filling=fill), dict(fill=fill)))
    for Nmax in [1, 2, 3, 4]:
        for fill in [0.0, 0.5]:
            for cons in ['dipole', 'N', 'parity', 'None']:
                out.append(('BosonSite', 'BosonSite(%d,%r)' % (Nmax, fill), cons, dict(Nmax=Nmax, conserve=cons, filling=fill),
                            dict(fill=fill, nmax=Nmax)))
    for q in [2, 3, 4, 5]:
        for cons in ['Z', 'None']:
            out.append(('ClockSite', 'ClockSite(%d)' % q, cons, dict(q=q, conserve=cons), dict(q=q)))
    out.append(('ClockSite', 'ClockSite(3)', 'Z/nosort', dict(q=3, conserve='Z', sort_charge=False), dict(q=3)))
    return out


def dump_site(site):
    d = {}
    d['dim'] = int(site.dim)
    d['perm'] = [int(x) for x in site.perm]
    d['labels'] = sorted([[str(k), int(v)] for k, v in site.state_labels.items()])
    d['mod'] = [int(m) for m in site.leg.chinfo.mod]
    d['qconj'] = int(site.leg.qconj)
    d['charges'] = [[int(x) for x in row] for row in site.leg.to_qflat()]
    d['jw_exponent'] = [repr(float(x)) for x in np.asarray(site.JW_exponent).reshape(-1)]
    d['need_JW'] = sorted(str(x) for x in site.need_JW_string)
    d['hc_ops'] = sorted([[str(a), str(b)] for a, b in site.hc_ops.items()])
    d['opnames'] = sorted(str(x) for x in site.opnames)
    ops = {}
    for name in sorted(site.opnames):
        op = site.get_op(name)
        m = np.asarray(op.to_ndarray(), dtype=np.complex128)
        ops[name] = {'qtotal': [int(x) for x in op.qtotal],
                     'labels': [str(x) for x in op.get_leg_labels()],
                     'mat': [[[repr(float(z.real)), repr(float(z.imag))] for z in row] for row in m]}
    d['ops'] = ops
    return d


def main():
    import tenpy.networks.site as S
    res = []
    for (cls, key, cons, kwargs, extra) in site_configs():
        entry = {'class': cls, 'key': key, 'cons': cons, 'kwargs': {k: (v if not isinstance(v, float) else repr(v)) for k, v in kwargs.items()},
                 'extra': extra}
        try:
            site = getattr(S, cls)(**kwargs)
            entry.update(dump_site(site))
        except Exception as e:   # reported by the exporter as a problem (fail closed)
            entry['error'] = '%s: %s' % (type(e).__name__, str(e)[:200])
        res.append(entry)
    with open(sys.argv[1], 'w') as f:
        json.dump({'tenpy_file': S.__file__, 'configs': res}, f)


if __name__ == '__main__':
    main()
