"""Compact random generator of charge structures, block-sparse tensors and operation programs.

Used by harness/c04.py (py <-> cy differential) and harness/c03.py (aliasing histories).
Everything is plain JSON data; all randomness comes from the `rng` (random.Random) passed in.

A *case* is  {'mods': [...], 'pool': [legspec...], 'steps': [step...]}  where
  legspec = {'sizes': [..], 'charges': [[..]..], 'qconj': +-1}       (block sizes, one charge row per block)
  step    = {'op': name, ...register indices / literal arguments...}; every step appends exactly one register.
The generator tracks an abstract type for every register (leg types, labels as far as known) so that most
programs are valid; a share of deliberately ill-typed steps exercises the error paths.

leg type:  ['L', pool_index, c]           c = +1: the pool leg, -1: its conj()
           ['O', reg, i, c]               leg i of register reg (a pipe made by combine_legs), c = -1: its conj()
"""
import itertools

DTYPES = ['float64', 'float64', 'float64', 'complex128', 'complex128', 'float32', 'complex64', 'int64']
LABELS = ['a', 'b', 'c', 'd', 'e', 'f', 'g', 'h', 'p', 'q', 'a*', 'b*', 'c*']
UNK = '?'          # label not tracked by the generator (never used as an axis argument)


def gen_mods(rng):
    n = rng.choice([0, 1, 1, 1, 2, 2, 3])
    return [rng.choice([1, 1, 2, 3, 4, 5]) for _ in range(n)]


def gen_charge(rng, mods):
    return [rng.randint(-2, 2) if m == 1 else rng.randrange(m) for m in mods]


def gen_leg(rng, mods, maxb=4, empty_blocks=True):
    nb = rng.choice([1, 2, 2, 3, 3, 4][:maxb + 2])
    sizes = [rng.choice([1, 1, 2, 2, 3]) for _ in range(nb)]
    if empty_blocks and rng.random() < 0.05:
        sizes[rng.randrange(nb)] = 0
    ch = []
    for _ in range(nb):
        if ch and rng.random() < 0.25:
            ch.append(list(rng.choice(ch)))           # duplicated charge (leg not blocked)
        else:
            ch.append(gen_charge(rng, mods))
    if rng.random() < 0.3:
        # sorted the way tenpy sorts (np.lexsort of the columns: last column is the primary key)
        ch.sort(key=lambda r: tuple(reversed(r)))
    return {'sizes': sizes, 'charges': ch, 'qconj': rng.choice([1, -1]), 'claim': rng.random() < 0.5}


def conj_t(t):
    if t[0] == 'L':
        return ['L', t[1], -t[2]]
    if t[0] == 'O':                       # leg i of register r whose structure only the runner knows
        return ['O', t[1], t[2], -t[3]]
    return ['P', [conj_t(s) for s in t[1]], -t[2]]


def base_leg(pool, t):
    """(sizes, charges, qconj) of a base leg type"""
    l = pool[t[1]]
    return l['sizes'], l['charges'], l['qconj'] * t[2]


def charge_of(mods, legs3, combo):
    out = []
    for k, m in enumerate(mods):
        s = sum(qc * ch[q][k] for (sz, ch, qc), q in zip(legs3, combo))
        out.append(s if m == 1 else s % m)
    return out


def gen_tensor_spec(rng, mods, pool, types, labels=None, dtype=None, qtotal=None, fill=None):
    """Random tensor with the given base leg types: chooses qtotal, which blocks are stored, entries."""
    legs3 = [base_leg(pool, t) for t in types]
    combos = list(itertools.product(*[range(len(l[0])) for l in legs3]))
    if qtotal is None:
        r = rng.random()
        if r < 0.7 and combos:
            qtotal = charge_of(mods, legs3, rng.choice(combos))
        elif r < 0.85:
            qtotal = [0] * len(mods)
        else:
            qtotal = [rng.randint(-1, 2) if m == 1 else rng.randrange(m) for m in mods]
    ok = [c for c in combos if charge_of(mods, legs3, c) == qtotal]
    if fill is None:
        fill = rng.choice([1.0, 1.0, 0.7, 0.5, 0.3, 0.0])
    sel = [c for c in ok if rng.random() < fill]
    rng.shuffle(sel)                                   # unsorted _qdata
    dtype = dtype or rng.choice(DTYPES)
    cplx = dtype.startswith('complex')
    blocks = []
    for c in sel:
        n = 1
        for (sz, _, _), q in zip(legs3, c):
            n *= sz[q]
        zero = rng.random() < 0.05                     # a stored block that is entirely zero
        re = [0 if zero else rng.randint(-3, 3) for _ in range(n)]
        im = [0 if zero else rng.randint(-2, 2) for _ in range(n)] if cplx else None
        blocks.append({'q': list(c), 're': re, 'im': im})
    if labels is None:
        labels = gen_labels(rng, len(types))
    return {'legs': [list(t) for t in types], 'labels': labels, 'qtotal': qtotal, 'dtype': dtype,
            'blocks': blocks}


def gen_labels(rng, n):
    r = rng.random()
    if r < 0.1:
        return [None] * n
    labs = rng.sample(LABELS, n)
    if r < 0.25 and n > 0:
        labs[rng.randrange(n)] = None
    return labs


def conj_label(l):
    if l is None or l == UNK:
        return l
    if '(' in l:
        return UNK
    return l[:-1] if l.endswith('*') else l + '*'


WRITES = {'iadd', 'isub', 'iscale', 'iscale_prefactor', 'iadd_prefactor_other'}
WORKER = {'tensordot': 'w_tensordot', 'inner': 'w_inner', 'combine': 'w_combine', 'split': 'w_split'}
SCALARS = [1.0, -1.0, 2.0, 0.5, 3, -2, 0.0, 0, ['c', 0.0, 1.0], ['c', 1.0, -2.0], 2.0, -1.5]


class Prog:
    """Builds one program, tracking abstract register types."""

    def __init__(self, rng, mods=None, npool=None, empty_blocks=True, bad_rate=0.06, allow_alias_writes=False,
                 worker_rate=0.25):
        self.rng = rng
        self.allow_alias_writes = allow_alias_writes   # C03: in-place writes through shallow copies are generated
        self.worker_rate = worker_rate                 # share of tensordot/inner/combine/split steps calling the worker directly
        self.alias = {}                                # register -> set of registers sharing block buffers
        self.mods = gen_mods(rng) if mods is None else mods
        npool = npool or rng.choice([2, 3, 3, 4])
        self.pool = [gen_leg(rng, self.mods, empty_blocks=empty_blocks) for _ in range(npool)]
        self.steps = []
        self.regs = []      # abstract: {'kind': 'arr'|'scalar'|'pipe'|'junk', 'legs': [...], 'labels': [...], 'dtype': str}
        self.bad_rate = bad_rate

    # ---- helpers
    def case(self):
        return {'mods': self.mods, 'pool': self.pool, 'steps': self.steps}

    def arrs(self, pred=None):
        return [i for i, r in enumerate(self.regs) if r['kind'] == 'arr' and (pred is None or pred(r))]

    def push(self, step, reg):
        op = step['op']
        if op in WRITES and not self.allow_alias_writes and len(self.alias.get(step['a'], ())) > 1:
            # the effect of a write through a shallow copy on the other reference is documented as
            # unspecified (Array.copy): replace by the copying variant
            step = dict(step)
            step['op'] = {'iadd': 'add', 'isub': 'sub', 'iscale': 'scale', 'iscale_prefactor': 'scale',
                          'iadd_prefactor_other': 'add'}[op]
            step.pop('s', None) if step['op'] == 'add' else None
            reg = dict(self.regs[step['a']])
        if step['op'] == 'copy_shallow':
            grp = self.alias.setdefault(step['a'], {step['a']})
            grp.add(len(self.regs))
            self.alias[len(self.regs)] = grp
        if step['op'] in WORKER and self.rng.random() < self.worker_rate:
            ok = True
            if step['op'] == 'combine':
                ok = step['new_axes'] is None and step['qconj'] is None
            if step['op'] == 'inner':
                ok = step['axes'] == 'range'
            if step['op'] == 'split':
                ok = step['axes'] is None
            if ok:
                step = dict(step)
                step['op'] = WORKER[step['op']]
                if step['op'] in ('w_tensordot',):
                    reg = {'kind': 'tuple'}
        self.steps.append(step)
        self.regs.append(reg)
        return len(self.regs) - 1

    def arr(self, legs, labels, dtype='?', opaque=False):
        return {'kind': 'arr', 'legs': legs, 'labels': labels, 'dtype': dtype, 'opaque': opaque}

    def axis_ref(self, r, i):
        """how to name axis i of register r in a step: label when known (50 %), else the index"""
        l = self.regs[r]['labels'][i]
        if l is not None and l != UNK and self.regs[r]['labels'].count(l) == 1 and self.rng.random() < 0.5:
            return l
        return i if self.rng.random() < 0.8 else i - len(self.regs[r]['legs'])

    # ---- steps
    def new(self, types=None, like=None, **kw):
        rng = self.rng
        if like is not None:
            src = self.regs[like]
            types, kw = src['legs'], dict(kw)
            kw.setdefault('labels', list(src['labels']))
        if types is None:
            rank = rng.choice([1, 2, 2, 3, 3, 4])
            types = []
            others = [t for r in self.regs if r['kind'] == 'arr' for t in r['legs'] if t[0] == 'L']
            for _ in range(rank):
                if others and rng.random() < 0.6:
                    types.append(conj_t(rng.choice(others)))
                else:
                    types.append(['L', rng.randrange(len(self.pool)), rng.choice([1, -1])])
        spec = gen_tensor_spec(rng, self.mods, self.pool, types, **kw)
        return self.push({'op': 'new', 'spec': spec}, self.arr([list(t) for t in types], list(spec['labels']), spec['dtype']))

    def base_only(self, r):
        return all(t[0] == 'L' for t in self.regs[r]['legs'])

    def tensordot(self, a, b, bad=False):
        rng = self.rng
        A, B = self.regs[a], self.regs[b]
        pairs = []
        usedb = set()
        ia = list(range(len(A['legs'])))
        rng.shuffle(ia)
        for i in ia:
            for j in range(len(B['legs'])):
                if j not in usedb and B['legs'][j] == conj_t(A['legs'][i]) and not (a == b and i == j):
                    if a == b and (j in [p[0] for p in pairs] or i in usedb):
                        continue
                    pairs.append((i, j))
                    usedb.add(j)
                    break
        if a == b:
            # contracting a tensor with itself: axes sets may overlap only as (i<->j); keep it simple
            pairs = pairs[:1] if pairs else []
        k = rng.randint(0, len(pairs)) if rng.random() < 0.2 else len(pairs)
        pairs = pairs[:k] if rng.random() < 0.7 else rng.sample(pairs, k)
        if bad and len(A['legs']) and len(B['legs']):
            pairs = [(rng.randrange(len(A['legs'])), rng.randrange(len(B['legs'])))]
        ka = [i for i in range(len(A['legs'])) if i not in [p[0] for p in pairs]]
        kb = [j for j in range(len(B['legs'])) if j not in [p[1] for p in pairs]]
        if len(ka) + len(kb) > 4 and not bad:
            return self.new()                       # keep ranks (and dense sizes) small
        std = [p[0] for p in pairs] == list(range(len(A['legs']) - len(pairs), len(A['legs']))) and \
            [p[1] for p in pairs] == list(range(len(pairs)))
        if std and rng.random() < 0.7:
            axes = len(pairs)
        else:
            axes = [[self.axis_ref(a, p[0]) for p in pairs], [self.axis_ref(b, p[1]) for p in pairs]]
        la = [A['labels'][i] for i in ka]
        lb = [B['labels'][j] for j in kb]
        for i, l in enumerate(la):
            if l is not None and l != UNK and l in lb:
                la[i] = None
                lb[lb.index(l)] = None
        if UNK in la + lb:
            la = [UNK] * len(la)
            lb = [UNK] * len(lb)
        if bad:
            reg = {'kind': 'junk'}
        elif not ka and not kb:
            reg = {'kind': 'scalar'}
        else:
            reg = self.arr([A['legs'][i] for i in ka] + [B['legs'][j] for j in kb], la + lb)
        return self.push({'op': 'tensordot', 'a': a, 'b': b, 'axes': axes}, reg)

    def inner(self, a, b, do_conj):
        """b must have legs conj (do_conj=False) / equal (True) to a's, possibly permuted"""
        A, B = self.regs[a], self.regs[b]
        want = [t if do_conj else conj_t(t) for t in A['legs']]
        if len(B['legs']) != len(want):
            return None
        perm = []
        used = set()
        for t in want:
            js = [j for j in range(len(B['legs'])) if j not in used and B['legs'][j] == t]
            if not js:
                return None
            perm.append(js[0])
            used.add(js[0])
        if perm == list(range(len(perm))) and self.rng.random() < 0.6:
            axes = 'range'
        else:
            axes = [list(range(len(perm))), perm]
        return self.push({'op': 'inner', 'a': a, 'b': b, 'axes': axes, 'do_conj': do_conj}, {'kind': 'scalar'})

    def combine(self, a):
        rng = self.rng
        A = self.regs[a]
        n = len(A['legs'])
        if n < 1:
            return None
        axes = list(range(n))
        rng.shuffle(axes)
        ngroups = 1 if n < 3 or rng.random() < 0.6 else 2
        groups = []
        for g in range(ngroups):
            k = rng.choice([1, 2, 2, 2, 3])
            grp, axes = axes[:k], axes[k:]
            if grp:
                if rng.random() < 0.5:
                    grp.sort()
                groups.append(grp)
        rest = sorted(axes)
        qconj = None if rng.random() < 0.6 else [rng.choice([1, -1]) for _ in groups]
        new_axes = None
        nres = len(rest) + len(groups)
        if rng.random() < 0.3:
            new_axes = rng.sample(range(nres), len(groups))
        # abstract result (default new_axes = position of the first leg of each group among the remaining)
        step = {'op': 'combine', 'a': a, 'groups': [[self.axis_ref(a, i) for i in g] for g in groups],
                'new_axes': new_axes, 'qconj': qconj}
        # legs of the result are only known to the runner (default qconj = that of the first leg): mark
        # pipes with unknown orientation as opaque -> such registers are used for split/transpose/scale/self-ops only
        return self.push(step, self.arr([['O', len(self.regs), i, 1] for i in range(nres)], [UNK] * nres))

    def finish_random(self, nsteps):
        for _ in range(nsteps):
            self.random_step()
        return self.case()

    def random_step(self):
        rng = self.rng
        arrs = self.arrs()
        if not arrs or (len(arrs) < 3 and rng.random() < 0.5):
            return self.new()
        bad = rng.random() < self.bad_rate
        r = rng.random()
        a = rng.choice(arrs)
        A = self.regs[a]
        n = len(A['legs'])
        if A.get('opaque'):
            # rank/legs unknown to the generator: whole-tensor operations only
            op = rng.choice(['scale', 'iscale', 'conj_inner', 'transpose', 'split', 'add', 'copy_deep', 'sort_legcharge', 'conj'])
            if op in ('scale', 'iscale'):
                return self.push({'op': op, 'a': a, 's': rng.choice(SCALARS)}, self.arr_opaque() if op == 'scale' else {'kind': 'none'})
            if op == 'conj_inner':
                c = self.push({'op': 'conj', 'a': a}, self.arr_opaque())
                return self.push({'op': 'inner', 'a': a, 'b': c, 'axes': 'range', 'do_conj': False}, {'kind': 'scalar'})
            if op == 'transpose':
                return self.push({'op': 'transpose', 'a': a, 'axes': None}, self.arr_opaque())
            if op == 'split':
                return self.push({'op': 'split', 'a': a, 'axes': None, 'cutoff': 0.0}, self.arr_opaque())
            if op == 'add':
                return self.push({'op': rng.choice(['add', 'sub']), 'a': a, 'b': a}, self.arr_opaque())
            if op == 'sort_legcharge':
                return self.push({'op': op, 'a': a, 'sort': True, 'bunch': rng.random() < 0.7}, self.arr_opaque())
            return self.push({'op': op, 'a': a}, self.arr_opaque())
        if r < 0.22:
            cands = [b for b in arrs if any(conj_t(t) in self.regs[b]['legs'] for t in A['legs'])]
            b = rng.choice(cands) if cands and not bad else rng.choice(arrs)
            return self.tensordot(a, b, bad=bad)
        if r < 0.30:
            # inner with a conjugate partner: make one
            if self.base_only(a) and rng.random() < 0.7:
                do_conj = rng.random() < 0.5
                b = self.new(types=[t if do_conj else conj_t(t) for t in A['legs']], qtotal=None,
                             labels=[l if do_conj else conj_label(l) for l in A['labels']])
                # same qtotal (do_conj) / opposite is needed for a non-zero result; random is fine too
                perm = list(range(n))
                if rng.random() < 0.4:
                    rng.shuffle(perm)
                    b = self.transpose(b, perm)
                got = self.inner(a, b, do_conj)
                if got is not None:
                    return got
            c = self.push({'op': 'conj', 'a': a}, self.arr([conj_t(t) for t in A['legs']], [conj_label(l) for l in A['labels']],
                                                           opaque=A.get('opaque', False)))
            return self.push({'op': 'inner', 'a': a, 'b': c, 'axes': rng.choice(['range', 'labels']), 'do_conj': False},
                             {'kind': 'scalar'})
        if r < 0.42:
            return self.combine(a) or self.new()
        if r < 0.50:
            # split: only useful on results of combine (opaque legs); otherwise an error path / no-op copy
            cands = [b for b in arrs if any(t[0] in 'OP' for t in self.regs[b]['legs'])]
            b = rng.choice(cands) if cands and not bad else a
            nb = len(self.regs[b]['legs'])
            axes = None if rng.random() < 0.7 else [rng.randrange(nb)]
            return self.push({'op': 'split', 'a': b, 'axes': axes, 'cutoff': rng.choice([0.0, 0.0, 0.0, 1e-16, 0.5])},
                             self.arr_opaque())
        if r < 0.66:
            return self.addlike(a, bad)
        if r < 0.76:
            s = rng.choice(SCALARS)
            op = rng.choice(['scale', 'rscale', 'iscale', 'iscale_prefactor', 'div'])
            if op == 'div' and (s in (0, 0.0)):
                s = 2.0
            inplace = op in ('iscale', 'iscale_prefactor')
            return self.push({'op': op, 'a': a, 's': s}, self.arr(A['legs'], A['labels'], opaque=A.get('opaque', False)) if not inplace else {'kind': 'none'})
        if r < 0.88:
            perm = list(range(n))
            rng.shuffle(perm)
            if bad and n > 1:
                perm[0] = perm[1]
            if rng.random() < 0.15:
                perm = None
            return self.transpose(a, perm, inplace=rng.random() < 0.3, bad=bad)
        if r < 0.93:
            op = rng.choice(['conj', 'iconj', 'copy_deep', 'copy_shallow', 'astype'])
            legs = A['legs']
            labels = A['labels']
            if op in ('conj', 'iconj'):
                legs = [conj_t(t) for t in legs]
                labels = [conj_label(l) for l in labels]
            if op == 'iconj':
                A['legs'], A['labels'] = legs, labels
                return self.push({'op': op, 'a': a}, {'kind': 'none'})
            st = {'op': op, 'a': a}
            if op == 'astype':
                st['dtype'] = rng.choice(DTYPES)
            return self.push(st, self.arr(legs, labels))
        if r < 0.97 and n >= 1:
            k = rng.randint(1, min(3, n))
            axes = rng.sample(range(n), k)
            return self.push({'op': 'make_pipe', 'a': a, 'axes': [self.axis_ref(a, i) for i in axes],
                              'qconj': rng.choice([1, -1]), 'sort': rng.random() < 0.8, 'bunch': rng.random() < 0.8},
                             {'kind': 'pipe'})
        return self.push({'op': 'sort_legcharge', 'a': a, 'sort': rng.random() < 0.8, 'bunch': rng.random() < 0.8},
                         self.arr_opaque())

    def arr_opaque(self):
        # rank unknown to the generator: legs = None marks "use only whole-tensor operations"
        return {'kind': 'arr', 'legs': [], 'labels': [], 'dtype': '?', 'opaque': True}

    def transpose(self, a, perm, inplace=False, bad=False):
        A = self.regs[a]
        n = len(A['legs'])
        p = perm if perm is not None else list(reversed(range(n)))
        axes = None if perm is None else [self.axis_ref(a, i) if not bad else i for i in perm]
        if bad:
            return self.push({'op': 'transpose', 'a': a, 'axes': axes}, {'kind': 'junk'})
        legs = [A['legs'][i] for i in p]
        labels = [A['labels'][i] for i in p]
        if inplace:
            A['legs'], A['labels'] = legs, labels
            return self.push({'op': 'itranspose', 'a': a, 'axes': axes}, {'kind': 'none'})
        return self.push({'op': 'transpose', 'a': a, 'axes': axes}, self.arr(legs, labels))

    def addlike(self, a, bad=False):
        """a (+|-) b, iadd_prefactor_other: b has the same legs, possibly with permuted labels"""
        rng = self.rng
        A = self.regs[a]
        n = len(A['legs'])
        r = rng.random()
        labels_ok = all(l is not None and l != UNK for l in A['labels']) and len(set(A['labels'])) == n
        if self.base_only(a) and not A.get('opaque') and r < 0.75:
            qt = None
            src = [s for s in self.steps if s['op'] == 'new']
            # same qtotal as a (needed for a valid sum) unless a deliberately bad case
            qt = self.qtotal_of(a)
            kw = {}
            if qt is not None and not bad:
                kw['qtotal'] = qt
            b = self.new(like=a, **kw)
            if labels_ok and n > 1 and rng.random() < 0.5:
                perm = list(range(n))
                rng.shuffle(perm)
                b = self.transpose(b, perm)          # same labels in a different order
        elif r < 0.9:
            b = a                                    # a + a
        else:
            b = self.push({'op': 'copy_shallow', 'a': a}, self.arr(A['legs'], A['labels']))
        op = rng.choice(['add', 'add', 'sub', 'iadd', 'isub', 'iadd_prefactor_other'])
        st = {'op': op, 'a': a, 'b': b}
        if op == 'iadd_prefactor_other':
            st['s'] = rng.choice(SCALARS)
        inplace = op in ('iadd', 'isub', 'iadd_prefactor_other')
        return self.push(st, {'kind': 'none'} if inplace else self.arr(A['legs'], A['labels']))

    def qtotal_of(self, r):
        """qtotal of a register when the generator knows it (fresh tensors and their transposes/scalings)"""
        st = self.steps[r]
        if st['op'] == 'new':
            return st['spec']['qtotal']
        if st['op'] in ('transpose', 'copy_deep', 'copy_shallow', 'scale', 'rscale', 'div', 'astype'):
            return self.qtotal_of(st['a'])
        return None


def gen_program(rng, nsteps=None, **kw):
    p = Prog(rng, **kw)
    return p.finish_random(nsteps or rng.choice([4, 5, 6, 7, 8]))


def gen_f5_like(rng):
    """targeted: a + b where b has the same labels in a different order (legs differ position-wise or not)"""
    p = Prog(rng, empty_blocks=False, bad_rate=0.0)
    rank = rng.choice([2, 2, 3])
    if rng.random() < 0.5:
        i = rng.randrange(len(p.pool))
        types = [['L', i, 1] for _ in range(rank)]           # all legs equal: the leg test passes position-wise
    else:
        types = [['L', rng.randrange(len(p.pool)), rng.choice([1, -1])] for _ in range(rank)]
    a = p.new(types=types, labels=rng.sample(LABELS[:8], rank), fill=rng.choice([1.0, 0.6]))
    b = p.new(like=a, qtotal=p.steps[a]['spec']['qtotal'], fill=rng.choice([1.0, 0.6]))
    perm = list(range(rank))
    while perm == list(range(rank)):
        rng.shuffle(perm)
    c = p.transpose(b, perm)
    op = rng.choice(['add', 'sub', 'iadd', 'iadd_prefactor_other'])
    st = {'op': op, 'a': a, 'b': c}
    if op == 'iadd_prefactor_other':
        st['s'] = rng.choice([1.0, 2.0, -1.0, ['c', 0.0, 1.0]])
    p.push(st, {'kind': 'none'} if op.startswith('i') else p.arr(types, p.regs[a]['labels']))
    return p.case()


def gen_self_alias(rng):
    """targeted: a.iadd_prefactor_other(s, a) / a + a / tensordot(a, a) with the SAME object on both sides"""
    p = Prog(rng, empty_blocks=False, bad_rate=0.0)
    a = p.new(dtype=rng.choice(['float64', 'complex128', 'float64', 'int64']), fill=1.0)
    A = p.regs[a]
    op = rng.choice(['iadd_prefactor_other', 'iadd_prefactor_other', 'iadd', 'isub', 'add'])
    st = {'op': op, 'a': a, 'b': a}
    if op == 'iadd_prefactor_other':
        st['s'] = rng.choice([['c', 1.0, -2.0], ['c', 0.0, 1.0], 2.0, -1.0, ['c', 0.5, 0.5]])
    p.push(st, {'kind': 'none'} if op != 'add' else p.arr(A['legs'], A['labels']))
    return p.case()


# ---- targeted: tensors WITHOUT stored blocks as receivers / operands of dtype-changing operations ------------------------
# The dtype of an Array is an observable of its own (it is not determined by the stored blocks when there are none, or when the
# blocks of the wider operand are missing), so the programs below put block-free tensors of every dtype into every operation that
# may change the dtype: *=, /=, iscale_prefactor, *, /, +, -, +=, -=, iadd_prefactor_other (python and numpy-typed prefactors),
# iunary/unary_blockwise with dtype-changing functions, conj/iconj/complex_conj, astype, negation.

DTYPES5 = ['float64', 'complex128', 'float32', 'complex64', 'int64']
TYPED_SCALARS = [2.0, -1.5, 3, ['c', 0.0, 1.0], ['c', 1.0, -2.0], 0.5, ['n', 'float64', 2.0, 0.0], ['n', 'float32', 0.5, 0.0],
                 ['n', 'complex128', 0.0, 1.0], ['n', 'complex64', 1.0, 1.0], ['n', 'int64', 3, 0], 0.0, ['c', 0.0, 0.0]]


def gen_blockfree_inplace(rng):
    p = Prog(rng, empty_blocks=False, bad_rate=0.0, worker_rate=0.0)
    rank = rng.choice([1, 2, 2, 3])
    types = [['L', rng.randrange(len(p.pool)), rng.choice([1, -1])] for _ in range(rank)]
    labels = rng.sample(LABELS[:8], rank)
    a = p.new(types=types, labels=labels, dtype=rng.choice(DTYPES5), fill=0.0)
    qt = p.steps[a]['spec']['qtotal']
    A = p.regs[a]
    live = [a]
    for _ in range(rng.choice([1, 2, 2])):
        live.append(p.new(like=a, qtotal=qt, dtype=rng.choice(DTYPES5), fill=rng.choice([0.0, 0.0, 0.5, 1.0])))
    for _ in range(rng.randint(2, 5)):
        # the block-free tensor is preferred as receiver; with two operands it is on either side
        x = a if rng.random() < 0.5 else rng.choice(live)
        r = rng.random()
        if r < 0.35:
            op = rng.choice(['iscale', 'iscale_prefactor', 'idiv', 'scale', 'rscale', 'div'])
            s = rng.choice(TYPED_SCALARS)
            if op in ('div', 'idiv') and s in (0.0, 0, ['c', 0.0, 0.0]):
                s = 2.0
            if op in ('iscale', 'iscale_prefactor', 'idiv'):
                p.push({'op': op, 'a': x, 's': s}, {'kind': 'none'})
            else:
                live.append(p.push({'op': op, 'a': x, 's': s}, p.arr(A['legs'], A['labels'])))
        elif r < 0.7:
            y = rng.choice([t for t in live if t != x] or live)
            if rng.random() < 0.5:
                x, y = y, x
            op = rng.choice(['add', 'sub', 'iadd', 'isub', 'iadd_prefactor_other', 'iadd_prefactor_other'])
            st = {'op': op, 'a': x, 'b': y}
            if op == 'iadd_prefactor_other':
                st['s'] = rng.choice(TYPED_SCALARS)
            if op in ('add', 'sub'):
                live.append(p.push(st, p.arr(A['legs'], A['labels'])))
            else:
                p.push(st, {'kind': 'none'})
        elif r < 0.85:
            op = rng.choice(['iunary', 'unary'])
            st = {'op': op, 'a': x, 'f': rng.choice(['real', 'imag', 'abs', 'sqrt', 'conj', 'negative', 'square'])}
            if op == 'unary':
                live.append(p.push(st, p.arr(A['legs'], A['labels'])))
            else:
                p.push(st, {'kind': 'none'})
        else:
            op = rng.choice(['astype', 'neg', 'complex_conj', 'copy_deep', 'norm'])
            st = {'op': op, 'a': x}
            if op == 'astype':
                st['dtype'] = rng.choice(DTYPES5)
            if op == 'norm':
                p.push(st, {'kind': 'scalar'})
            else:
                live.append(p.push(st, p.arr(A['legs'], A['labels'])))
    return p.case()


# ---- targeted: public indexing (results of rank >= 1 AND scalars: the Array class has no rank 0) ---------------------------

def gen_indexing(rng):
    """a[...] with integers / slices / masks / index arrays / Ellipsis per axis, a[i, j, ...] = value, take_slice, squeeze;
    integer indices on every axis give a scalar (the only 'rank-0' result the public interface produces)"""
    p = Prog(rng, empty_blocks=False, bad_rate=0.0, worker_rate=0.0)
    rank = rng.choice([1, 2, 2, 3, 3])
    types = [['L', rng.randrange(len(p.pool)), rng.choice([1, -1])] for _ in range(rank)]
    a = p.new(types=types, dtype=rng.choice(DTYPES5), fill=rng.choice([1.0, 1.0, 0.6, 0.3, 0.0]))
    lens = [sum(p.pool[t[1]]['sizes']) for t in types]

    def one(n, kinds):
        k = rng.choice(kinds)
        if k == 'int':
            return rng.randrange(-n, n) if rng.random() < 0.95 else n
        if k == 'all':
            return 'all'
        if k == 'slice':
            lo = rng.choice([None, 0, rng.randrange(n), rng.randrange(n)])
            hi = rng.choice([None, n, rng.randint(0, n), (lo or 0) + 1])
            return ['s', lo, hi, rng.choice([None, None, 1, 2, -1])]
        if k == 'mask':
            return ['m', [rng.random() < 0.6 for _ in range(n)]]
        ii = [rng.randrange(n) for _ in range(rng.randint(1, n))]
        if rng.random() < 0.6:
            ii = sorted(set(ii))
        return ['i', ii]

    for _ in range(rng.randint(3, 6)):
        r = rng.random()
        if r < 0.3:      # every axis an integer: a scalar
            idx = [one(n, ['int']) for n in lens]
            if rng.random() < 0.3:
                p.push({'op': 'setitem', 'a': a, 'idx': idx, 's': rng.choice([1.0, 0.0, 2, ['c', 0.0, 1.0], -3.5])}, {'kind': 'none'})
            else:
                p.push({'op': 'getitem', 'a': a, 'idx': idx}, {'kind': 'scalar'})
        elif r < 0.75:
            idx = [one(n, ['int', 'int', 'all', 'slice', 'slice', 'mask', 'ind']) for n in lens]
            if all(isinstance(x, int) for x in idx):
                idx[rng.randrange(rank)] = 'all'
            if rng.random() < 0.2:
                idx = idx[:rng.randint(1, rank)]
            elif rng.random() < 0.15:
                k = rng.randrange(rank)
                idx = idx[:k] + ['ell'] + idx[k + rng.randint(0, rank - k):]
            g = p.push({'op': 'getitem', 'a': a, 'idx': idx}, p.arr_opaque())
            if rng.random() < 0.4:
                p.push({'op': rng.choice(['squeeze', 'norm', 'copy_deep']), 'a': g}, p.arr_opaque())
        elif r < 0.9:
            k = rng.randint(1, rank)
            axes = rng.sample(range(rank), k)
            p.push({'op': 'take_slice', 'a': a, 'indices': [rng.randrange(lens[i]) for i in axes],
                    'axes': [p.axis_ref(a, i) for i in axes]}, p.arr_opaque() if k < rank else {'kind': 'junk'})
        else:            # slices of length one on every axis, then squeeze: a scalar again
            idx = []
            for n in lens:
                i = rng.randrange(n)
                idx.append(['s', i, i + 1, None])
            g = p.push({'op': 'getitem', 'a': a, 'idx': idx}, p.arr_opaque())
            p.push({'op': 'squeeze', 'a': g}, {'kind': 'scalar'})
    return p.case()


# ---- targeted: tensors whose blocks are NON-CONTIGUOUS VIEWS as receivers and operands of the in-place / BLAS kernels --------
# take_slice / a[:, i, :] leave blocks `block[:, ri, :]` (strided sub-views WITH GAPS of the deep copy's buffers), itranspose leaves
# permuted views of whole buffers, and blocks may be handed over in any memory layout (spec['layout']: Fortran order / a sub-view of a
# larger buffer).  The compiled kernels hand raw data pointers to BLAS, so each of them has to make such blocks contiguous first; the
# programs below apply every in-place kernel (iscale_prefactor, *=, /=, +=, -=, iadd_prefactor_other, itranspose, iconj) and the
# BLAS-backed ones (tensordot, inner; directly and through the workers) to FRESH views, as receiver and as operand, and keep the
# tensor the view was taken from alive (its fingerprint is part of every step record).

VIEW_DTYPES = ['float64', 'float64', 'float64', 'complex128', 'complex128', 'complex128', 'float32', 'complex64', 'int64']
VIEW_SCALARS = [2.5, -3.0, 0.5, 4.0, 2, -1, ['c', 0.5, 2.0], ['c', 0.0, 1.0], -1.0, ['n', 'float64', 1.5, 0.0],
                ['n', 'float32', 0.5, 0.0], ['n', 'complex128', 1.0, -1.0]]


def _valid(mods, q):
    return [x if m == 1 else x % m for x, m in zip(q, mods)]


def gen_strided_views(rng):
    p = Prog(rng, empty_blocks=False, bad_rate=0.0, worker_rate=0.3)
    for l in p.pool:                                   # blocks of size >= 2 on most legs: an index inside a block leaves gaps
        l['sizes'] = [rng.choice([1, 2, 2, 3, 3, 4]) for _ in l['sizes']]
    mods, pool = p.mods, p.pool
    rank = rng.choice([2, 3, 3, 3, 3, 4])
    types = [['L', rng.randrange(len(pool)), rng.choice([1, -1])] for _ in range(rank)]
    dtype = rng.choice(VIEW_DTYPES)
    info = {}       # register -> {'qtotal', 'blocks' (block indices believed to be stored), 'dtype', 'origin'}

    def distinct_entries(spec):
        for blk in spec['blocks']:
            blk['re'] = [rng.randint(1, 9) * rng.choice([1, -1]) for _ in blk['re']]
            if blk['im'] is not None:
                blk['im'] = [rng.randint(-4, 4) for _ in blk['re']]

    def fresh(legs, labels, qtotal=None, dt=None, fill=None, layout='rand'):
        legs3 = [base_leg(pool, t) for t in legs]
        if qtotal is None:
            qtotal = charge_of(mods, legs3, [rng.randrange(len(l[0])) for l in legs3])
        r = p.new(types=[list(t) for t in legs], labels=list(labels), dtype=dt or dtype, qtotal=list(qtotal),
                  fill=fill if fill is not None else rng.choice([1.0, 1.0, 0.7]))
        spec = p.steps[r]['spec']
        distinct_entries(spec)
        if layout == 'rand':
            layout = rng.choice([None, None, None, 'F', 'strided'])
        if layout:
            spec['layout'] = layout
        info[r] = {'qtotal': list(qtotal), 'blocks': [list(b['q']) for b in spec['blocks']], 'dtype': spec['dtype'],
                   'layout': layout}
        return r

    a = fresh(types, rng.sample(LABELS[:8], rank))
    roots = [a]
    lazy = {}

    def conj_of(r):
        if ('conj', r) not in lazy:
            R = p.regs[r]
            lazy[('conj', r)] = p.push({'op': 'conj', 'a': r}, p.arr([conj_t(t) for t in R['legs']], [conj_label(l) for l in R['labels']]))
        return lazy[('conj', r)]

    def make_view(src, same_as=None):
        """a.take_slice(...) / a[:, i, :]: returns the register of the view or None.  same_as: (axes, block index per axis) of an
        earlier view of src -> same legs and qtotal, other index inside the same charge blocks"""
        S = p.regs[src]
        n = len(S['legs'])
        if n < 2 or src not in info:
            return None
        if same_as is not None:
            axes, qis = same_as
        else:
            k = 1 if (n == 2 or rng.random() < 0.75) else 2
            axes = []
            while len(axes) < k:                       # the first axis (contiguous slices) is the control, rarely chosen
                ax = rng.choice([0] + list(range(1, n)) * 3)
                if ax not in axes:
                    axes.append(ax)
            blk = rng.choice(info[src]['blocks']) if info[src]['blocks'] and rng.random() < 0.9 else None
            qis = [blk[ax] if blk is not None else rng.randrange(len(base_leg(pool, S['legs'][ax])[0])) for ax in axes]
        idxs = []
        for ax, qi in zip(axes, qis):
            sizes = base_leg(pool, S['legs'][ax])[0]
            idxs.append(sum(sizes[:qi]) + rng.randrange(sizes[qi]))
        if rng.random() < 0.6:
            st = {'op': 'take_slice', 'a': src, 'indices': idxs, 'axes': [p.axis_ref(src, ax) for ax in axes]}
        else:
            ix = ['all'] * n
            for ax, i in zip(axes, idxs):
                ln = sum(base_leg(pool, S['legs'][ax])[0])
                ix[ax] = i if rng.random() < 0.8 else i - ln
            while ix and ix[-1] == 'all' and rng.random() < 0.5:
                ix.pop()
            if len(ix) < n and rng.random() < 0.3:
                ix.append('ell')
            st = {'op': 'getitem', 'a': src, 'idx': ix}
        keep = [i for i in range(n) if i not in axes]
        v = p.push(st, p.arr([S['legs'][i] for i in keep], [S['labels'][i] for i in keep]))
        qt = list(info[src]['qtotal'])
        for ax, qi in zip(axes, qis):
            sz, ch, qc = base_leg(pool, S['legs'][ax])
            qt = [x - qc * c for x, c in zip(qt, ch[qi])]
        info[v] = {'qtotal': _valid(mods, qt), 'dtype': info[src]['dtype'], 'origin': (src, list(axes), list(qis)),
                   'blocks': [[b[i] for i in keep] for b in info[src]['blocks'] if all(b[ax] == qi for ax, qi in zip(axes, qis))],
                   'layout': 'view'}
        return v

    def partner(v, kinds=('same-slice', 'fresh', 'fresh', 'copy')):
        """a tensor with the legs, labels and qtotal of v"""
        V = p.regs[v]
        kind = rng.choice(kinds)
        if kind == 'same-slice' and 'origin' in info[v]:
            src, axes, qis = info[v]['origin']
            w = make_view(src, same_as=(axes, qis))
            if w is not None and p.regs[w]['legs'] == V['legs'] and p.regs[w]['labels'] == V['labels'] and \
                    info[w]['qtotal'] == info[v]['qtotal']:
                return w
        if kind == 'copy':
            w = p.push({'op': 'copy_deep', 'a': v}, p.arr(list(V['legs']), list(V['labels'])))
            info[w] = dict(info[v], layout=None)
            info[w].pop('origin', None)
            return w
        dt = info[v]['dtype'] if rng.random() < 0.75 else rng.choice(VIEW_DTYPES)
        return fresh(V['legs'], V['labels'], qtotal=info[v]['qtotal'], dt=dt, fill=rng.choice([1.0, 0.6]))

    def op_on(v):
        V = p.regs[v]
        n = len(V['legs'])
        r = rng.random()
        if r < 0.30:
            op = rng.choice(['iscale', 'iscale_prefactor', 'idiv'])
            p.push({'op': op, 'a': v, 's': rng.choice(VIEW_SCALARS)}, {'kind': 'none'})
        elif r < 0.55:
            w = partner(v)
            x, y = (v, w) if rng.random() < 0.5 else (w, v)          # the view as receiver / as operand
            st = {'op': rng.choice(['iadd', 'isub', 'iadd_prefactor_other', 'iadd_prefactor_other']), 'a': x, 'b': y}
            if st['op'] == 'iadd_prefactor_other':
                st['s'] = rng.choice(VIEW_SCALARS)
            p.push(st, {'kind': 'none'})
        elif r < 0.61:
            op = rng.choice(['add', 'sub', 'scale', 'rscale', 'div'])
            if op in ('add', 'sub'):
                w = partner(v)
                x, y = (v, w) if rng.random() < 0.5 else (w, v)
                st = {'op': op, 'a': x, 'b': y}
            else:
                st = {'op': op, 'a': v, 's': rng.choice(VIEW_SCALARS)}
            nr = p.push(st, p.arr(list(V['legs']), list(V['labels'])))
            info[nr] = dict(info[v], layout=None)
            info[nr].pop('origin', None)
        elif r < 0.70:
            perm = list(range(n))
            rng.shuffle(perm)
            p.transpose(v, perm, inplace=True)
            info[v]['blocks'] = [[b[i] for i in perm] for b in info[v]['blocks']]
            info[v].pop('origin', None)
        elif r < 0.75:
            V['legs'], V['labels'] = [conj_t(t) for t in V['legs']], [conj_label(l) for l in V['labels']]
            p.push({'op': 'iconj', 'a': v}, {'kind': 'none'})
            info[v]['qtotal'] = _valid(mods, [-x for x in info[v]['qtotal']])
            info[v].pop('origin', None)
        elif r < 0.87:
            other = rng.choice([conj_of(v), conj_of(a), conj_of(a), conj_of(rng.choice(roots))])
            if rng.random() < 0.5:
                p.tensordot(v, other)
            else:
                p.tensordot(other, v)
        elif r < 0.95:
            if rng.random() < 0.5:
                p.inner(v, partner(v, kinds=('same-slice', 'fresh', 'copy')), True)
            else:
                w = partner(v, kinds=('same-slice', 'fresh'))
                p.inner(v, conj_of(w), False)
        else:
            op = rng.choice(['norm', 'copy_deep', 'combine', 'combine'])
            if op == 'combine':
                p.combine(v)
            else:
                p.push({'op': op, 'a': v}, {'kind': 'scalar'} if op == 'norm' else p.arr(list(V['legs']), list(V['labels'])))

    def whole_tensor_ops(g):
        """register with legs the generator does not track (projected legs): whole-tensor kernels only"""
        for _ in range(rng.randint(1, 2)):
            r = rng.random()
            if r < 0.45:
                p.push({'op': rng.choice(['iscale', 'iscale_prefactor', 'idiv']), 'a': g, 's': rng.choice(VIEW_SCALARS)}, {'kind': 'none'})
            elif r < 0.6:
                p.push({'op': rng.choice(['iconj', 'imake_contiguous']), 'a': g}, {'kind': 'none'})
            elif r < 0.7:
                p.push({'op': 'itranspose', 'a': g, 'axes': None}, {'kind': 'none'})
            elif r < 0.85:
                c = p.push({'op': 'conj', 'a': g}, p.arr_opaque())
                p.push({'op': 'inner', 'a': g, 'b': c, 'axes': 'range', 'do_conj': False}, {'kind': 'scalar'})
            else:
                c = p.push({'op': 'copy_deep', 'a': g}, p.arr_opaque())
                p.push({'op': rng.choice(['iadd', 'isub', 'iadd_prefactor_other']), 'a': c, 'b': g, 's': rng.choice(VIEW_SCALARS)}, {'kind': 'none'})

    for _ in range(rng.choice([2, 3, 3, 4])):
        r = rng.random()
        src = rng.choice(roots)
        S = p.regs[src]
        n = len(S['legs'])
        lens = [sum(base_leg(pool, t)[0]) for t in S['legs']]
        if r < 0.62:
            v = make_view(src)
            if v is not None and len(p.regs[v]['legs']) >= 2 and rng.random() < 0.2:
                v = make_view(v) or v                   # a view of a view
        elif r < 0.72:
            # the tensor as handed over (blocks in Fortran order / sub-views of a larger buffer) or a new one
            v = src if info[src].get('layout') and rng.random() < 0.5 else fresh(S['legs'], S['labels'], layout=rng.choice(['F', 'strided']))
            if v not in roots:
                roots.append(v)
        elif r < 0.80:
            perm = list(range(n))
            rng.shuffle(perm)
            v = p.transpose(src, perm)
            info[v] = dict(info[src], blocks=[[b[i] for i in perm] for b in info[src]['blocks']], layout='T')
            info[v].pop('origin', None)
        elif r < 0.86:
            v = p.push({'op': 'from_ndarray_strided', 'a': src}, p.arr(list(S['legs']), list(S['labels'])))
            info[v] = dict(info[src], layout=None)
            info[v].pop('origin', None)
        else:
            # projections: a[mask / slice / index array, i, ...] (take_slice + iproject + permute), iproject in place, squeeze
            k = rng.random()
            if k < 0.4:
                c = p.push({'op': 'copy_deep', 'a': src}, p.arr_opaque())
                ax = rng.randrange(n)
                mask = [rng.random() < 0.7 for _ in range(lens[ax])]
                mask[rng.randrange(lens[ax])] = True
                p.push({'op': 'iproject', 'a': c, 'mask': mask, 'axis': p.axis_ref(src, ax)}, {'kind': 'none'})
                whole_tensor_ops(c)
            else:
                ix = []
                for ln in lens:
                    q = rng.random()
                    if q < 0.35:
                        ix.append(rng.randrange(ln))
                    elif q < 0.55:
                        ix.append('all')
                    elif q < 0.8:
                        lo = rng.randrange(ln)
                        ix.append(['s', lo, rng.randint(lo + 1, ln), rng.choice([None, None, 2])])
                    else:
                        m = [rng.random() < 0.7 for _ in range(ln)]
                        m[rng.randrange(ln)] = True
                        ix.append(['m', m])
                if all(isinstance(x, int) for x in ix):
                    ix[rng.randrange(n)] = 'all'
                g = p.push({'op': 'getitem', 'a': src, 'idx': ix}, p.arr_opaque())
                if k < 0.6:
                    g = p.push({'op': 'squeeze', 'a': g}, p.arr_opaque())
                whole_tensor_ops(g)
            continue
        if v is None:
            continue
        for _ in range(rng.choice([1, 1, 2, 2, 3])):
            op_on(v)
    # the sources once more at the end (they must be what they were: part of the final state, and usable)
    if rng.random() < 0.5:
        p.push({'op': 'norm', 'a': a}, {'kind': 'scalar'})
    return p.case()


# ---- targeted: the input classes of every function with a compiled twin (coverage audit, see harness/c04_audit.py) ----------------
# Each stratum below is one program family aimed at branch conditions of tenpy/linalg/_npc_helper.pyx (and the lines of the Python
# twins) that random programs reach rarely or never: tensordot with INTEGER axes (the only way non-contiguous / _qdata-sorted
# operands reach the compiled _tensordot_worker: the (axes_a, axes_b) form always re-transposes into fresh contiguous blocks),
# split_legs / combine_legs of tensors of rank 4-6 with Fortran-ordered or strided blocks, iadd_prefactor_other with a SHALLOW COPY
# or a second view of the same buffers as operand, integer tensors, boolean / nan / inf / numpy-typed prefactors, prefactor 0 with a
# dtype mix, the error classes (different rank / legs / qtotal / ChargeInfo, non-scalar prefactor, non-Array operand, axes of
# different lengths), and valid programs under optimization level 3 (skip_arg_checks: both twins skip their argument tests).
# Results are used again (scaled in place, contracted with their conjugate, split after combine, added to each other).

PC_DTYPES = ['float64', 'complex128', 'float32', 'complex64', 'int64']
PC_PREF = [1.0, -1.0, 2.5, 0.0, 0, 1, -1, 3, ['c', 0.0, 1.0], ['c', 1.5, -0.5], ['c', 2.0, 0.0], ['c', 0.0, 0.0], ['c', 1.0, 0.0],
           ['b', True], ['b', False], ['n', 'bool', 1, 0], ['n', 'float64', -1.0, 0.0], ['n', 'float32', 1.0, 0.0], ['n', 'int64', -1, 0],
           ['n', 'int64', 0, 0], ['n', 'complex128', 0.0, 2.0], ['n', 'complex64', 1.0, 0.0], ['n', 'float64', 0.0, 0.0],
           1e-300, 1e300]        # (finite only: see the assumption on non-finite prefactors in harness/c04.py)
PC_BAD_PREF = [['raw', 'array0d'], ['raw', 'list'], ['raw', 'none'], ['raw', 'str'], ['raw', 'array1']]
PC_LAYOUT = [None, 'F', 'strided']


# (dtype self, dtype other, prefactor, alias, layout self, layout other, fills): integer arithmetic, shared buffers without BLAS,
# the same object with a complex prefactor / prefactor 0, shared buffers under different block tables
PC_IADD_FORCED = [
    ('int64', 'int64', 1, 'none', None, None, (0.6, 0.6)), ('int64', 'int64', -1.0, 'none', None, 'strided', (0.5, 1.0)),
    ('int64', 'int64', 3, 'same-blocks', 'F', None, (1.0, 1.0)), ('int64', 'int64', 0, 'none', None, None, (1.0, 0.5)),
    ('float32', 'float32', 2.5, 'shallow', None, None, (1.0, 1.0)), ('complex64', 'complex64', ['c', 0.0, 1.0], 'shallow', None, None, (1.0, 1.0)),
    ('int64', 'int64', ['b', True], 'shallow', None, None, (1.0, 1.0)), ('complex128', 'complex128', ['c', 1.5, -0.5], 'self', None, None, (1.0, 1.0)),
    ('float64', 'float64', 0.0, 'self', None, None, (1.0, 1.0)), ('float64', 'float64', 2.5, 'shallow-extend', None, None, (1.0, 1.0)),
    ('complex128', 'complex128', -1.0, 'shallow-extend', None, None, (1.0, 1.0)), ('float64', 'float64', 3, 'shallow-extend', None, None, (1.0, 1.0)),
    ('float64', 'complex128', 0.0, 'none', None, None, (0.6, 0.6)), ('float64', 'float64', ['n', 'bool', 1, 0], 'none', 'asfortran', None, (0.6, 0.6)),
    ('float64', 'float64', 1.0, 'shallow', 'asfortran', None, (1.0, 1.0)), ('complex128', 'float64', ['c', 0.0, 2.0], 'shallow', 'F', None, (1.0, 1.0)),
    ('complex128', 'complex128', ['c', 0.0, 1.0], 'shallow', None, None, (1.0, 1.0)), ('complex128', 'complex128', ['c', 0.5, 2.0], 'shallow-extend', None, None, (1.0, 1.0)),
    ('float64', 'float64', -1.5, 'shallow', None, None, (1.0, 1.0)),
    # a prefactor beyond the range of the single-precision operand, within the range of the receiver (finding F04.3)
    ('float64', 'float32', 1e300, 'none', None, None, (1.0, 1.0)), ('complex128', 'complex64', -1e39, 'none', None, None, (0.6, 0.6)),
]


# (dtype, prefactor, layout, fill, operation): the BLAS routine x memory layout classes and the argument classes of iscale_prefactor
PC_ISCALE_FORCED = [
    ('complex128', ['c', 0.0, 1.0], 'F', 1.0, 'iscale_prefactor'), ('complex128', 2.0, 'asfortran', 1.0, 'iscale_prefactor'),
    ('float64', -3.0, 'F', 1.0, 'iscale'), ('float32', 2.0, 'F', 1.0, 'iscale_prefactor'), ('complex128', ['c', 1.5, -0.5], 'strided', 1.0, 'iscale_prefactor'),
    ('complex128', ['c', 2.0, 0.0], 'strided', 1.0, 'iscale'), ('float64', ['n', 'bool', 1, 0], None, 0.7, 'iscale_prefactor'),
    ('int64', ['b', True], 'strided', 1.0, 'iscale_prefactor'), ('float64', ['raw', 'array0d'], None, 1.0, 'iscale_prefactor'),
    ('complex64', ['n', 'complex64', 1.0, 1.0], 'asfortran', 1.0, 'iscale_prefactor'), ('int64', ['n', 'int64', 3, 0], 'F', 1.0, 'iscale_prefactor'),
    ('float64', 0.0, 'strided', 1.0, 'iscale_prefactor'), ('float64', ['raw', 'none'], None, 0.0, 'iscale_prefactor'),
    ('float64', ['n', 'float32', 0.5, 0.0], None, 1.0, 'iscale'), ('float32', ['n', 'float64', 2.0, 0.0], 'strided', 1.0, 'iscale_prefactor'),
    ('float64', ['n', 'complex128', 0.0, 2.0], None, 0.0, 'iscale_prefactor'), ('complex128', -1, 'strided', 0.5, 'iscale_prefactor'),
]


def _pc_prog(rng, nq=None, nblocks=None, sizes=(1, 1, 2, 2, 3)):
    """a Prog whose pool legs have distinct (mostly) charges and the given number of blocks"""
    p = Prog(rng, empty_blocks=False, bad_rate=0.0, worker_rate=0.0)
    if nq is not None:
        p.mods = [rng.choice([1, 2, 3, 5]) for _ in range(nq)]
    for k in range(len(p.pool)):
        nb = nblocks or rng.choice([1, 2, 3, 3, 4])
        ch = []
        while len(ch) < nb:
            c = gen_charge(rng, p.mods)
            if c not in ch or rng.random() < 0.2 or len(p.mods) == 0 or len(ch) > 4:
                ch.append(c)
        if rng.random() < 0.5:
            ch.sort(key=lambda r: tuple(reversed(r)))
        p.pool[k] = {'sizes': [rng.choice(sizes) for _ in range(nb)], 'charges': ch, 'qconj': rng.choice([1, -1]),
                     'claim': rng.random() < 0.5}
    return p


def _pc_fresh(p, rng, types, labels=None, dtype='float64', qtotal=None, fill=None, layout=None):
    if qtotal is None:
        # the total charge of some block: at least one block is allowed (so `fill` decides the sparsity, not the draw of qtotal)
        legs3 = [base_leg(p.pool, t) for t in types]
        qtotal = charge_of(p.mods, legs3, [rng.randrange(len(l[0])) for l in legs3])
    r = p.new(types=[list(t) for t in types], labels=labels if labels is not None else rng.sample(LABELS[:8], len(types)),
              dtype=dtype, qtotal=qtotal, fill=fill if fill is not None else rng.choice([1.0, 1.0, 0.7]))
    spec = p.steps[r]['spec']
    for blk in spec['blocks']:
        blk['re'] = [rng.randint(1, 9) * rng.choice([1, -1]) for _ in blk['re']]
        if blk['im'] is not None:
            blk['im'] = [rng.randint(-4, 4) for _ in blk['re']]
    if layout:
        spec['layout'] = layout
    return r


def _pc_relayout(p, rng, r, how):
    """change the memory layout of the blocks of register r through the public interface"""
    if how == 'asfortran':
        p.push({'op': 'iunary', 'a': r, 'f': 'asfortran'}, {'kind': 'none'})
    elif how == 'real':          # np.real of complex blocks: views with gaps (stride 16, itemsize 8)
        p.push({'op': 'iunary', 'a': r, 'f': 'real'}, {'kind': 'none'})
    elif how == 'imag':
        p.push({'op': 'iunary', 'a': r, 'f': 'imag'}, {'kind': 'none'})
    elif how == 'sort':
        p.push({'op': 'isort_qdata', 'a': r}, {'kind': 'none'})


def _pc_reuse(p, rng, r, scalar=True):
    """use a result again: scale it in place, contract it with its conjugate, take the norm"""
    for _ in range(rng.choice([1, 2])):
        k = rng.random()
        if k < 0.35:
            c = p.push({'op': 'conj', 'a': r}, p.arr_opaque())
            p.push({'op': rng.choice(['inner', 'w_inner']), 'a': r, 'b': c, 'axes': 'range', 'do_conj': False}, {'kind': 'scalar'})
        elif k < 0.6:
            p.push({'op': rng.choice(['iscale', 'iscale_prefactor']), 'a': r, 's': rng.choice([2.0, -1.0, ['c', 0.0, 1.0], 0.5])}, {'kind': 'none'})
        elif k < 0.8:
            c = p.push({'op': 'copy_deep', 'a': r}, p.arr_opaque())
            p.push({'op': rng.choice(['iadd', 'isub', 'iadd_prefactor_other']), 'a': c, 'b': r, 's': rng.choice([2.0, -1.0, 1.0])}, {'kind': 'none'})
        else:
            p.push({'op': 'norm', 'a': r}, {'kind': 'scalar'})


def pc_tdot_int_axes(rng, dtype_a, dtype_b, lay_a, lay_b, sort_b, nq, keep=None, fill=None, ncon=None, const_last=False):
    p = _pc_prog(rng, nq=nq, nblocks=rng.choice([2, 3, 3, 4]) if ncon is None else 2)
    if const_last and nq >= 2:
        # the LAST charge (the primary sort key of the charge matching) is the same everywhere: every comparison of two different
        # charge vectors is decided by an earlier column
        for l in p.pool:
            l['charges'] = [c[:-1] + [0] for c in l['charges']]
    n = ncon or rng.choice([1, 1, 2])
    ka, kb = rng.choice([0, 1, 1, 2]), rng.choice([0, 1, 1, 2])
    if keep is not None:                               # (0, k): a fully contracted, (k, 0): b fully contracted
        ka, kb = keep
        n = ncon or 2
    if ka + kb == 0:
        ka = 1
    ta = [['L', rng.randrange(len(p.pool)), rng.choice([1, -1])] for _ in range(ka + n)]
    tb = [conj_t(t) for t in ta[ka:]] + [['L', rng.randrange(len(p.pool)), rng.choice([1, -1])] for _ in range(kb)]
    la = rng.sample(LABELS[:6], ka + n)
    lb = rng.sample(LABELS[6:], n + kb)
    a = _pc_fresh(p, rng, ta, la, dtype_a, layout=lay_a if lay_a in ('F', 'strided') else None, fill=fill or rng.choice([1.0, 0.8, 0.6]))
    # a qtotal of b that leaves blocks: any
    b = _pc_fresh(p, rng, tb, lb, dtype_b, layout=lay_b if lay_b in ('F', 'strided') else None, fill=fill or rng.choice([1.0, 0.8, 0.6]))
    if keep is not None and nq == 0:
        # by construction a column (row) of the result whose charge matches but which has NO common inner index with the fully
        # contracted operand: the contracted side keeps only blocks with first contracted index 0, the other side loses exactly
        # those inside its first column (row)
        sa, sb = p.steps[a]['spec'], p.steps[b]['spec']
        if ka == 0:
            sa['blocks'] = [x for x in sa['blocks'] if x['q'][0] == 0] or sa['blocks']
            sb['blocks'] = [x for x in sb['blocks'] if not (x['q'][0] == 0 and x['q'][-1] == 0)] or sb['blocks']
        else:
            sb['blocks'] = [x for x in sb['blocks'] if x['q'][0] == 0] or sb['blocks']
            sa['blocks'] = [x for x in sa['blocks'] if not (x['q'][ka] == 0 and x['q'][0] == 0)] or sa['blocks']
    for r, l in ((a, lay_a), (b, lay_b)):
        if l in ('asfortran', 'real', 'imag'):
            _pc_relayout(p, rng, r, l)
    if sort_b in ('b', 'both'):
        _pc_relayout(p, rng, b, 'sort')
    if sort_b in ('a', 'both'):
        _pc_relayout(p, rng, a, 'sort')
    res = []
    for _ in range(rng.choice([1, 2])):
        op = rng.choice(['tensordot', 'tensordot', 'w_tensordot'])
        st = {'op': op, 'a': a, 'b': b, 'axes': n}
        if rng.random() < 0.25:
            st['axes_np'] = True
        r = p.push(st, p.arr_opaque() if op == 'tensordot' else {'kind': 'tuple'})
        if op == 'tensordot':
            res.append(r)
    if res:
        _pc_reuse(p, rng, res[-1])
    if len(res) == 2:
        p.push({'op': 'isub', 'a': res[0], 'b': res[1]}, {'kind': 'none'})       # equal results: difference without values
        p.push({'op': 'norm', 'a': res[0]}, {'kind': 'scalar'})
    return p.case()


def pc_combine_split(rng, dtype, rank, how, relayout, nested, fill=None, one_group=None, pipes_opt=False):
    """a tensor of rank 3-6, combine_legs (groups of 2-3 legs), optionally a second combine over the pipe (nested pipes), a change of
    the memory layout, then split_legs (public and worker), and the result used again"""
    p = _pc_prog(rng, nq=rng.choice([0, 1, 1, 2]), nblocks=None if rank <= 4 else rng.choice([1, 2, 2]),
                 sizes=(1, 1, 2, 2, 3) if rank <= 4 else (1, 1, 2))
    types = [['L', rng.randrange(len(p.pool)), rng.choice([1, -1])] for _ in range(rank)]
    labels = rng.sample(LABELS[:8], rank)
    a = _pc_fresh(p, rng, types, labels, dtype, layout=how if how in ('F', 'strided') else None,
                  fill=fill if fill is not None else rng.choice([1.0, 1.0, 0.6, 0.3]))
    if how in ('asfortran', 'real', 'imag'):
        _pc_relayout(p, rng, a, how)
    axes = list(range(rank))
    if rng.random() < 0.6:
        rng.shuffle(axes)
    ng = 1 if rank < 4 or rng.random() < 0.5 or one_group else 2
    groups = []
    for _ in range(ng):
        k = rng.choice([2, 2, 3]) if len(axes) >= 3 else min(2, len(axes))
        if one_group:
            k = one_group
        g, axes = axes[:k], axes[k:]
        if g:
            groups.append(sorted(g) if rng.random() < 0.6 else g)
    st = {'op': 'combine' if pipes_opt else rng.choice(['combine', 'combine', 'w_combine']), 'a': a, 'groups': [[labels[i] if rng.random() < 0.5 else i for i in g] for g in groups],
          'new_axes': None, 'qconj': None}
    if st['op'] == 'combine' and rng.random() < 0.3:
        st['qconj'] = [rng.choice([1, -1]) for _ in groups]
    elif st['op'] == 'combine' and (pipes_opt or rng.random() < 0.2):
        st['pipes'] = [{'qconj': rng.choice([1, -1]), 'sort': rng.random() < 0.5, 'bunch': rng.random() < 0.5} for _ in groups]
    c = p.push(st, p.arr_opaque())
    if nested and rank - sum(len(g) for g in groups) + len(groups) >= 2:
        c = p.push({'op': 'combine', 'a': c, 'groups': [[0, 1]], 'new_axes': None, 'qconj': None}, p.arr_opaque())
    if relayout:
        _pc_relayout(p, rng, c, relayout)
    if rng.random() < 0.3:
        _pc_relayout(p, rng, c, 'sort')
    s = None
    for _ in range(rng.choice([1, 2])):
        op = rng.choice(['split', 'w_split'])
        s = p.push({'op': op, 'a': c, 'axes': None, 'cutoff': rng.choice([0.0, 0.0, 1e-16])}, p.arr_opaque())
    if nested and rng.random() < 0.7:
        s = p.push({'op': rng.choice(['split', 'w_split']), 'a': s, 'axes': None, 'cutoff': 0.0}, p.arr_opaque())
    _pc_reuse(p, rng, s)
    _pc_reuse(p, rng, c)
    return p.case()


def pc_iadd(rng, dtype_a, dtype_b, pref, alias, lay_a, lay_b, fills, err=None):
    if alias == 'shallow-extend':                      # (no charges, >= 2 blocks per leg, rank >= 2: at least 4 blocks to divide)
        p = _pc_prog(rng, nq=0, nblocks=rng.choice([2, 3]), sizes=(1, 2, 2, 3))
    else:
        p = _pc_prog(rng, nq=rng.choice([0, 1, 1, 2]), sizes=(2, 2, 3) if (lay_a or lay_b) else (1, 2, 2, 3))
    p.allow_alias_writes = True
    rank = rng.choice([1, 2, 2, 3]) if not (lay_a or lay_b or alias == 'shallow-extend') else rng.choice([2, 2, 3])
    types = [['L', rng.randrange(len(p.pool)), rng.choice([1, -1])] for _ in range(rank)]
    labels = rng.sample(LABELS[:8], rank)
    if alias == 'views':
        # two views of the SAME index of one source: equal legs/qtotal/blocks and the SAME (non-contiguous) buffers
        src_t = types[:1] + [['L', rng.randrange(len(p.pool)), 1]] + types[1:]
        src_l = labels[:1] + ['p'] + labels[1:]
        src = _pc_fresh(p, rng, src_t, src_l, dtype_a, fill=1.0)
        ln = sum(p.pool[src_t[1][1]]['sizes'])
        i = rng.randrange(ln)
        a = p.push({'op': 'take_slice', 'a': src, 'indices': [i], 'axes': ['p']}, p.arr(types, labels))
        b = p.push({'op': 'getitem', 'a': src, 'idx': ['all', i]}, p.arr(types, labels))
    else:
        a = _pc_fresh(p, rng, types, labels, dtype_a, fill=fills[0], layout=lay_a if lay_a in ('F', 'strided') else None)
        qt = p.steps[a]['spec']['qtotal']
        if lay_a in ('asfortran', 'real', 'imag'):     # (before a shallow copy is taken: the copy shall share the buffers)
            _pc_relayout(p, rng, a, lay_a)
            lay_a = None
        if alias == 'self':
            b = a
        elif alias == 'shallow':
            b = p.push({'op': 'copy_shallow', 'a': a}, p.arr(types, labels))
        elif alias == 'shallow-extend':
            # b = shallow copy of a; then a gets ADDITIONAL blocks (a += c, c stored exactly where a is not): a keeps the buffers it shares
            # with b but has another block table -> the general merge meets blocks with the same data pointer
            blocks = p.steps[a]['spec']['blocks']
            h = max(1, len(blocks) // 2)
            c = _pc_fresh(p, rng, types, labels, dtype_a, qtotal=qt, fill=1.0)
            p.steps[c]['spec']['blocks'] = [dict(x) for x in blocks[h:]]
            p.steps[a]['spec']['blocks'] = blocks[:h]
            b = p.push({'op': 'copy_shallow', 'a': a}, p.arr(types, labels))
            p.steps.append({'op': 'iadd', 'a': a, 'b': c})
            p.regs.append({'kind': 'none'})
        elif alias == 'same-blocks':
            b = _pc_fresh(p, rng, types, labels, dtype_b, qtotal=qt, fill=1.0, layout=lay_b if lay_b in ('F', 'strided') else None)
            p.steps[b]['spec']['blocks'] = [dict(x) for x in p.steps[a]['spec']['blocks']]
            if dtype_b.startswith('complex') != dtype_a.startswith('complex'):
                for x in p.steps[b]['spec']['blocks']:
                    x['im'] = [1 for _ in x['re']] if dtype_b.startswith('complex') else None
            rng.shuffle(p.steps[b]['spec']['blocks'])
        else:
            b = _pc_fresh(p, rng, types, labels, dtype_b, qtotal=qt, fill=fills[1], layout=lay_b if lay_b in ('F', 'strided') else None)
        for r, l in ((a, lay_a), (b, lay_b)):
            if l in ('asfortran', 'real', 'imag') and not (r == a and alias in ('self',) and l != lay_a):
                _pc_relayout(p, rng, r, l)
    if err == 'rank':
        b = _pc_fresh(p, rng, types + [types[0]], labels + ['q'], dtype_b)
    elif err == 'legs':
        t2 = [list(t) for t in types]
        t2[rng.randrange(rank)][2] *= -1
        b = _pc_fresh(p, rng, t2, labels, dtype_b)
    elif err == 'qtotal':
        qt = p.steps[a]['spec']['qtotal']
        if p.mods:
            q2 = list(qt)
            q2[0] = q2[0] + 1 if p.mods[0] == 1 else (q2[0] + 1) % p.mods[0]
            b = _pc_fresh(p, rng, types, labels, dtype_b, qtotal=q2)
    elif err == 'chinfo':
        b = _pc_fresh(p, rng, types, labels, dtype_b)
        p.steps[b]['spec']['chinfo'] = 'other'
    elif err == 'not-array':
        p.push({'op': 'iadd_prefactor_other', 'a': a, 'b_raw': rng.choice(['ndarray', 'float', 'none']), 's': pref}, {'kind': 'none'})
        _pc_reuse(p, rng, a)
        return p.case()
    if rng.random() < 0.3:
        _pc_relayout(p, rng, rng.choice([a, b]), 'sort')
    op = 'iadd_prefactor_other'
    if pref in (1.0, -1.0) and rng.random() < 0.5:
        op = {1.0: rng.choice(['iadd', 'add']), -1.0: rng.choice(['isub', 'sub'])}[pref]
    st = {'op': op, 'a': a, 'b': b}
    if op == 'iadd_prefactor_other':
        st['s'] = pref
    r = a
    if op in ('add', 'sub'):
        r = p.push(st, p.arr(types, labels))
    else:
        p.steps.append(st)                        # (not through push: the write through a shallow copy is the point)
        p.regs.append({'kind': 'none'})
    _pc_reuse(p, rng, r)
    # (after a write through a shallow copy that changed the copy in one configuration, harness/c04.py stops comparing the copy:
    #  its state is documented as unspecified)
    if b != a and alias not in ('shallow', 'shallow-extend') and rng.random() < 0.5:
        _pc_reuse(p, rng, b)
    return p.case()


def pc_iscale(rng, dtype, pref, lay, fill, op=None):
    p = _pc_prog(rng, nq=rng.choice([0, 1, 2]), sizes=(2, 2, 3) if lay else (1, 2, 2, 3))      # (blocks >= 2 x 2: Fortran order differs from C order)
    rank = rng.choice([1, 2, 3, 4]) if not lay else rng.choice([2, 3, 4])
    types = [['L', rng.randrange(len(p.pool)), rng.choice([1, -1])] for _ in range(rank)]
    a = _pc_fresh(p, rng, types, None, dtype, fill=fill, layout=lay if lay in ('F', 'strided') else None)
    if lay in ('asfortran', 'real', 'imag'):
        _pc_relayout(p, rng, a, lay)
    keep = p.push({'op': 'copy_deep', 'a': a}, p.arr_opaque())
    op = op or rng.choice(['iscale_prefactor', 'iscale_prefactor', 'iscale', 'scale', 'rscale'])
    if op in ('scale', 'rscale'):
        r = p.push({'op': op, 'a': a, 's': pref}, p.arr_opaque())
    else:
        p.push({'op': op, 'a': a, 's': pref}, {'kind': 'none'})
        r = a
    _pc_reuse(p, rng, r)
    p.push({'op': 'iadd_prefactor_other', 'a': keep, 'b': r, 's': -1.0}, {'kind': 'none'})
    return p.case()


def pc_inner(rng, dtype_a, dtype_b, do_conj, lay_a, lay_b, sort, fills, disjoint=False):
    """inner(a, b) (public, with and without a transposition, and the worker) for operands with independent block sparsity"""
    p = _pc_prog(rng, nq=rng.choice([0, 1, 1, 2]), sizes=(2, 2, 3) if (lay_a or lay_b) else (1, 2, 2, 3))
    rank = rng.choice([1, 2, 2, 3, 4]) if not (lay_a or lay_b) else rng.choice([2, 2, 3, 4])
    types = [['L', rng.randrange(len(p.pool)), rng.choice([1, -1])] for _ in range(rank)]
    labels = rng.sample(LABELS[:8], rank)
    a = _pc_fresh(p, rng, types, labels, dtype_a, fill=fills[0], layout=lay_a if lay_a in ('F', 'strided') else None)
    qt = p.steps[a]['spec']['qtotal']
    tb = [list(t) for t in types] if do_conj else [conj_t(t) for t in types]
    lb = list(labels) if do_conj else [conj_label(l) for l in labels]
    qb = list(qt) if do_conj else [(-x if m == 1 else (-x) % m) for x, m in zip(qt, p.mods)]
    if rng.random() < 0.1:
        qb = None                                    # mostly a different total charge: the result is an exact zero
    b = _pc_fresh(p, rng, tb, lb, dtype_b, qtotal=qb, fill=fills[1], layout=lay_b if lay_b in ('F', 'strided') else None)
    if disjoint:
        # stored blocks of b exactly where a has none (same legs up to conj, same block indices): no common block
        sa, sb = p.steps[a]['spec'], p.steps[b]['spec']
        full = gen_tensor_spec(rng, p.mods, p.pool, tb, labels=lb, dtype=dtype_b, qtotal=sb['qtotal'], fill=1.0)['blocks']
        have = {tuple(x['q']) for x in sa['blocks']}
        rest = [x for x in full if tuple(x['q']) not in have]
        if rest and sa['blocks']:
            sb['blocks'] = rest
    for r, l in ((a, lay_a), (b, lay_b)):
        if l == 'asfortran':
            _pc_relayout(p, rng, r, l)
    if sort in ('a', 'both'):
        _pc_relayout(p, rng, a, 'sort')
    if sort in ('b', 'both'):
        _pc_relayout(p, rng, b, 'sort')
    for _ in range(rng.choice([1, 2])):
        k = rng.random()
        if k < 0.4:
            p.push({'op': 'w_inner', 'a': a, 'b': b, 'do_conj': do_conj}, {'kind': 'scalar'})
        elif k < 0.7:
            p.push({'op': 'inner', 'a': a, 'b': b, 'axes': rng.choice(['range', 'labels']), 'do_conj': do_conj}, {'kind': 'scalar'})
        else:
            p.push({'op': 'tensordot', 'a': a, 'b': b, 'axes': rank}, {'kind': 'scalar'}) if not do_conj else \
                p.push({'op': 'inner', 'a': b, 'b': a, 'axes': 'range', 'do_conj': True}, {'kind': 'scalar'})
    # the operands once more (they must be unchanged, whatever copies the workers made)
    p.push({'op': 'iadd_prefactor_other', 'a': a, 'b': a, 's': 1.0}, {'kind': 'none'})
    return p.case()


def pc_contract_errors(rng, kind, dtype):
    """error classes of tensordot / inner: another ChargeInfo, axes lists of different lengths, legs that are not contractible,
    different rank; and the argument forms of `axes` (single label, single int, numpy integers, tuples)"""
    p = _pc_prog(rng, nq=rng.choice([1, 2]))
    rank = rng.choice([2, 3])
    types = [['L', rng.randrange(len(p.pool)), rng.choice([1, -1])] for _ in range(rank)]
    labels = rng.sample(LABELS[:8], rank)
    a = _pc_fresh(p, rng, types, labels, dtype, fill=1.0)
    b = _pc_fresh(p, rng, [conj_t(t) for t in types], [conj_label(l) for l in labels], dtype, fill=1.0)
    if kind == 'chinfo':
        p.steps[b]['spec']['chinfo'] = 'other'
        p.push({'op': 'tensordot', 'a': a, 'b': b, 'axes': rng.choice([1, [[rank - 1], [0]]])}, {'kind': 'junk'})
        p.push({'op': 'inner', 'a': a, 'b': b, 'axes': 'range', 'do_conj': False}, {'kind': 'junk'})
    elif kind == 'axes-lengths':
        p.push({'op': 'tensordot', 'a': a, 'b': b, 'axes': [[0, 1], [0]]}, {'kind': 'junk'})
        p.push({'op': 'tensordot', 'a': a, 'b': b, 'axes': [[], [0]]}, {'kind': 'junk'})
    elif kind == 'not-contractible':
        p.push({'op': 'tensordot', 'a': a, 'b': a, 'axes': rng.choice([1, [[0], [0]]])}, {'kind': 'junk'})
        p.push({'op': 'inner', 'a': a, 'b': a, 'axes': 'range', 'do_conj': False}, {'kind': 'junk'})
    elif kind == 'inner-rank':
        c = _pc_fresh(p, rng, [conj_t(t) for t in types[:-1]], [conj_label(l) for l in labels[:-1]], dtype, fill=1.0)
        p.push({'op': 'inner', 'a': a, 'b': c, 'axes': 'range', 'do_conj': False}, {'kind': 'junk'})
        p.push({'op': 'w_inner', 'a': a, 'b': b, 'do_conj': True}, {'kind': 'junk'})     # legs conjugated: qtotal test only
    elif kind == 'axes-forms':
        i = rng.randrange(rank)
        for ax in ([labels[i], conj_label(labels[i])], [i, i], [i - rank, [i]], [[labels[i]], i]):
            r = p.push({'op': 'tensordot', 'a': a, 'b': b, 'axes': ax}, p.arr_opaque())
        p.push({'op': 'tensordot', 'a': a, 'b': b, 'axes': 0}, p.arr_opaque())
        p.push({'op': 'tensordot', 'a': a, 'b': b, 'axes': rank, 'axes_np': True}, {'kind': 'scalar'})
        _pc_reuse(p, rng, r)
    return p.case()


def pc_skip_arg_checks(rng):
    """VALID programs executed at optimization level 3 (skip_arg_checks): both twins skip their argument tests"""
    k = rng.random()
    dt1, dt2 = rng.choice(PC_DTYPES), rng.choice(PC_DTYPES)
    if k < 0.35:
        c = pc_tdot_int_axes(rng, dt1, dt2, None, None, None, rng.choice([0, 1, 2]))
        # also the forms that need a transposition and the outer product
        a = [i for i, s in enumerate(c['steps']) if s['op'] == 'new'][:2]
        c['steps'].append({'op': 'tensordot', 'a': a[0], 'b': a[1], 'axes': 0})
        sa, sb = c['steps'][a[0]]['spec'], c['steps'][a[1]]['spec']
        n = [s['axes'] for s in c['steps'] if s['op'] in ('tensordot', 'w_tensordot')][0]
        # (leg rank_a - n + i of a is the conjugate of leg i of b: contract ONE such pair, by label: needs transpositions)
        i = rng.randrange(n)
        c['steps'].append({'op': 'tensordot', 'a': a[0], 'b': a[1], 'axes': [[sa['labels'][len(sa['labels']) - n + i]], [sb['labels'][i]]]})
    elif k < 0.6:
        c = pc_iadd(rng, dt1, dt2, rng.choice([1.0, -1.0, 2.0, ['c', 0.0, 1.0]]), rng.choice(['none', 'none', 'self', 'same-blocks']),
                    None, None, (rng.choice([1.0, 0.5]), rng.choice([1.0, 0.5, 0.0])))
    elif k < 0.8:
        c = pc_combine_split(rng, dt1, rng.choice([3, 4]), None, None, False)
    else:
        c = gen_inplace_chain_like(rng)
    c['optimize'] = 3
    return c


def gen_inplace_chain_like(rng):
    p = _pc_prog(rng, nq=rng.choice([0, 1, 2]))
    rank = rng.choice([2, 3])
    types = [['L', rng.randrange(len(p.pool)), rng.choice([1, -1])] for _ in range(rank)]
    labels = rng.sample(LABELS[:8], rank)
    a = _pc_fresh(p, rng, types, labels, rng.choice(PC_DTYPES))
    b = _pc_fresh(p, rng, [conj_t(t) for t in types], [conj_label(l) for l in labels], rng.choice(PC_DTYPES))
    perm = list(range(rank))
    rng.shuffle(perm)
    bt = p.push({'op': 'transpose', 'a': b, 'axes': perm}, p.arr_opaque())
    p.push({'op': 'inner', 'a': a, 'b': bt, 'axes': [list(range(rank)), [perm.index(i) for i in range(rank)]], 'do_conj': False}, {'kind': 'scalar'})
    p.push({'op': 'inner', 'a': a, 'b': a, 'axes': 'labels', 'do_conj': True}, {'kind': 'scalar'})
    p.push({'op': 'tensordot', 'a': a, 'b': b, 'axes': [[labels[0]], [conj_label(labels[0])]]}, p.arr_opaque())
    return p.case()


def gen_pair_classes(rng, i):
    """the i-th program of the stratified family (the strata are cycled deterministically; details from rng)"""
    k = i % 18
    j = i // 18
    dts = PC_DTYPES
    if k in (0, 1, 2):          # tensordot with integer axes: dtype pair x layouts x sortedness x number of charges
        lays = [None, 'F', 'strided', 'asfortran', 'real']
        da, db = dts[j % 5], dts[(j // 5 + j) % 5]
        la, lb = lays[(j + k) % 5], lays[(j // 2 + 2 * k) % 5]
        if la == 'real' and not da.startswith('complex'):
            la = 'strided'
        if lb == 'real' and not db.startswith('complex'):
            lb = 'strided'
        keep = [(0, 1), (1, 0), (0, 2), (2, 0)][(j // 3) % 4] if (k == 2 and j % 3 == 0) else None
        if k == 1 and j % 4 == 1:                      # three contracted legs
            return pc_tdot_int_axes(rng, da, db, la, lb, None, [0, 1, 2][(j // 4) % 3], keep=(1, 1), fill=1.0, ncon=3)
        if k == 0 and j % 4 == 2:
            return pc_tdot_int_axes(rng, da, db, la, lb, [None, 'b'][(j // 4) % 2], 2, fill=0.8, const_last=True)
        return pc_tdot_int_axes(rng, da, db, la, lb, [None, 'b', 'both', 'a'][(j + k) % 4], 0 if keep else [0, 1, 2, 2][(j // 3) % 4],
                                keep=keep, fill=1.0 if keep else None)
    if k in (3, 4, 5):          # combine / split: dtype x rank 3-6 x layouts x nested pipes
        d = dts[(j + k) % 5]
        how = [None, 'F', 'strided', 'asfortran'][(j // 2) % 4]
        rel = [None, 'asfortran', 'real' if d.startswith('complex') else 'asfortran', None][(j + k) % 4]
        rank = [3, 4, 5, 6, 4, 5][(j + k) % 6]
        return pc_combine_split(rng, d, rank, how, rel, nested=(j % 3 == 1), fill=0.0 if (k == 5 and j % 6 == 5) else None,
                                one_group=2 if (rank == 6 and j % 2 == 0) else None, pipes_opt=(j % 4 == 3))
    if k == 6 and j < len(PC_IADD_FORCED):
        return pc_iadd(rng, *PC_IADD_FORCED[j])
    if k in (6, 7, 8, 9):       # iadd_prefactor_other: calc dtype x prefactor class x aliasing x merge arms x layouts
        da, db = dts[j % 5], dts[(j // 5 + j + k) % 5]
        pref = PC_PREF[(j * 4 + k) % len(PC_PREF)]
        alias = ['none', 'none', 'self', 'shallow', 'same-blocks', 'views', 'shallow-extend'][(j + k) % 7]
        if alias == 'shallow-extend' and j % 2 == 0:      # keep the buffers shared: no dtype change by the operation
            da = db = ['float64', 'complex128'][(j // 2) % 2]
            pref = [2.5, -1.0, 1.0, 3][(j // 4) % 4]
        lays = [None, None, 'F', 'strided', 'asfortran']
        fills = [(1.0, 1.0), (0.5, 0.5), (1.0, 0.3), (0.3, 1.0), (0.0, 1.0), (1.0, 0.0), (0.0, 0.0)][(j // 2 + k) % 7]
        return pc_iadd(rng, da, db, pref, alias, None if alias == 'shallow-extend' else lays[(j + 1) % 5], lays[(j // 3) % 5],
                       (1.0, 1.0) if alias == 'shallow-extend' else fills)
    if k == 10:                 # iscale_prefactor: dtype x prefactor class (incl. non-scalars) x layout x number of blocks
        prefs = PC_PREF + PC_BAD_PREF
        if j < len(PC_ISCALE_FORCED):
            return pc_iscale(rng, *PC_ISCALE_FORCED[j])
        return pc_iscale(rng, dts[j % 5], prefs[(7 * j + 5) % len(prefs)], [None, 'F', 'strided', 'asfortran'][(j // 5 + j) % 4], [1.0, 0.5, 0.0, 1.0][(j // 3) % 4])
    if k == 11:                 # error classes of iadd_prefactor_other
        err = ['rank', 'legs', 'qtotal', 'chinfo', 'not-array', 'bad-pref'][j % 6]
        pref = rng.choice(PC_BAD_PREF) if err == 'bad-pref' else rng.choice([1.0, 2.0, ['c', 0.0, 1.0], 0.0])
        return pc_iadd(rng, dts[j % 5], dts[(j + 2) % 5], pref, 'none', None, None, (1.0, 1.0), err=None if err == 'bad-pref' else err)
    if k == 12:                 # error classes / argument forms of tensordot and inner
        return pc_contract_errors(rng, ['chinfo', 'axes-lengths', 'not-contractible', 'inner-rank', 'axes-forms'][j % 5], dts[(j // 5) % 5])
    if k in (13, 14):
        return pc_skip_arg_checks(rng)
    if k in (16, 17):           # inner: dtype pair x do_conj x layouts x sortedness x common blocks
        lays = [None, 'F', 'strided', 'asfortran', 'F']
        return pc_inner(rng, dts[j % 5], dts[(j // 5 + j + k) % 5], bool((j + k) % 2), lays[(j + k) % 5], lays[(j // 2 + k) % 5],
                        [None, 'a', 'b', 'both'][(j // 2) % 4],
                        (0.5, 1.0) if (k == 17 and j % 4 == 2) else [(1.0, 1.0), (0.5, 0.5), (1.0, 0.3), (0.3, 0.3)][(j // 3) % 4],
                        disjoint=(k == 17 and j % 4 == 2))
    # k == 15: many result blocks (more than the 64 pre-reserved constants of the batched gemm), no / trivial charges
    p = _pc_prog(rng, nq=rng.choice([0, 0, 1]), nblocks=3, sizes=(1, 1, 2))
    if p.mods:
        for l in p.pool:
            l['charges'] = [[0] * len(p.mods) for _ in l['charges']]
    d = dts[j % 2]
    ta = [['L', rng.randrange(len(p.pool)), 1] for _ in range(3)]
    tb = [conj_t(ta[2])] + [['L', rng.randrange(len(p.pool)), -1] for _ in range(2)]
    a = _pc_fresh(p, rng, ta, ['a', 'b', 'c'], d, qtotal=[0] * len(p.mods), fill=1.0)
    b = _pc_fresh(p, rng, tb, ['c*', 'd', 'e'], dts[(j // 2) % 2], qtotal=[0] * len(p.mods), fill=1.0)
    r = p.push({'op': 'tensordot', 'a': a, 'b': b, 'axes': rng.choice([1, [['c'], ['c*']]])}, p.arr_opaque())
    _pc_reuse(p, rng, r)
    return p.case()
