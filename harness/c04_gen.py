"""Compact random generator of charge structures, block-sparse tensors and operation programs.

Used by harness/c04.py (py <-> cy differential) and harness/c03.py (aliasing histories).
Everything is plain JSON data; all randomness comes from the `rng` (random.Random) passed in.

A *case* is  {'mods': [...], 'pool': [legspec...], 'steps': [step...]}  where
  legspec = {'sizes': [..], 'charges': [[..]..], 'qconj': +-1}       (block sizes, one charge row per block)
  step    = {'op': name, ...register indices / literal arguments...}; every step appends exactly one register.
The generator tracks an abstract type for every register (leg types, labels as far as known) so that most
programs are valid; a share of deliberately ill-typed steps exercises the error paths.

leg type:  ['L', pool_index, c]           c = +1: the pool leg, -1: its conj()
           ['O', reg, i, c]               leg i of register reg (a pipe made by combine_legs), c = -1: its conj()
"""
import itertools

DTYPES = ['float64', 'float64', 'float64', 'complex128', 'complex128', 'float32', 'complex64', 'int64']
LABELS = ['a', 'b', 'c', 'd', 'e', 'f', 'g', 'h', 'p', 'q', 'a*', 'b*', 'c*']
UNK = '?'          # label not tracked by the generator (never used as an axis argument)


def gen_mods(rng):
    n = rng.choice([0, 1, 1, 1, 2, 2, 3])
    return [rng.choice([1, 1, 2, 3, 4, 5]) for _ in range(n)]


def gen_charge(rng, mods):
    return [rng.randint(-2, 2) if m == 1 else rng.randrange(m) for m in mods]


def gen_leg(rng, mods, maxb=4, empty_blocks=True):
    nb = rng.choice([1, 2, 2, 3, 3, 4][:maxb + 2])
    sizes = [rng.choice([1, 1, 2, 2, 3]) for _ in range(nb)]
    if empty_blocks and rng.random() < 0.05:
        sizes[rng.randrange(nb)] = 0
    ch = []
    for _ in range(nb):
        if ch and rng.random() < 0.25:
            ch.append(list(rng.choice(ch)))           # duplicated charge (leg not blocked)
        else:
            ch.append(gen_charge(rng, mods))
    if rng.random() < 0.3:
        # sorted the way tenpy sorts (np.lexsort of the columns: last column is the primary key)
        ch.sort(key=lambda r: tuple(reversed(r)))
    return {'sizes': sizes, 'charges': ch, 'qconj': rng.choice([1, -1]), 'claim': rng.random() < 0.5}


def conj_t(t):
    if t[0] == 'L':
        return ['L', t[1], -t[2]]
    if t[0] == 'O':                       # leg i of register r whose structure only the runner knows
        return ['O', t[1], t[2], -t[3]]
    return ['P', [conj_t(s) for s in t[1]], -t[2]]


def base_leg(pool, t):
    """(sizes, charges, qconj) of a base leg type"""
    l = pool[t[1]]
    return l['sizes'], l['charges'], l['qconj'] * t[2]


def charge_of(mods, legs3, combo):
    out = []
    for k, m in enumerate(mods):
        s = sum(qc * ch[q][k] for (sz, ch, qc), q in zip(legs3, combo))
        out.append(s if m == 1 else s % m)
    return out


def gen_tensor_spec(rng, mods, pool, types, labels=None, dtype=None, qtotal=None, fill=None):
    """Random tensor with the given base leg types: chooses qtotal, which blocks are stored, entries."""
    legs3 = [base_leg(pool, t) for t in types]
    combos = list(itertools.product(*[range(len(l[0])) for l in legs3]))
    if qtotal is None:
        r = rng.random()
        if r < 0.7 and combos:
            qtotal = charge_of(mods, legs3, rng.choice(combos))
        elif r < 0.85:
            qtotal = [0] * len(mods)
        else:
            qtotal = [rng.randint(-1, 2) if m == 1 else rng.randrange(m) for m in mods]
    ok = [c for c in combos if charge_of(mods, legs3, c) == qtotal]
    if fill is None:
        fill = rng.choice([1.0, 1.0, 0.7, 0.5, 0.3, 0.0])
    sel = [c for c in ok if rng.random() < fill]
    rng.shuffle(sel)                                   # unsorted _qdata
    dtype = dtype or rng.choice(DTYPES)
    cplx = dtype.startswith('complex')
    blocks = []
    for c in sel:
        n = 1
        for (sz, _, _), q in zip(legs3, c):
            n *= sz[q]
        zero = rng.random() < 0.05                     # a stored block that is entirely zero
        re = [0 if zero else rng.randint(-3, 3) for _ in range(n)]
        im = [0 if zero else rng.randint(-2, 2) for _ in range(n)] if cplx else None
        blocks.append({'q': list(c), 're': re, 'im': im})
    if labels is None:
        labels = gen_labels(rng, len(types))
    return {'legs': [list(t) for t in types], 'labels': labels, 'qtotal': qtotal, 'dtype': dtype,
            'blocks': blocks}


def gen_labels(rng, n):
    r = rng.random()
    if r < 0.1:
        return [None] * n
    labs = rng.sample(LABELS, n)
    if r < 0.25 and n > 0:
        labs[rng.randrange(n)] = None
    return labs


def conj_label(l):
    if l is None or l == UNK:
        return l
    if '(' in l:
        return UNK
    return l[:-1] if l.endswith('*') else l + '*'


WRITES = {'iadd', 'isub', 'iscale', 'iscale_prefactor', 'iadd_prefactor_other'}
WORKER = {'tensordot': 'w_tensordot', 'inner': 'w_inner', 'combine': 'w_combine', 'split': 'w_split'}
SCALARS = [1.0, -1.0, 2.0, 0.5, 3, -2, 0.0, 0, ['c', 0.0, 1.0], ['c', 1.0, -2.0], 2.0, -1.5]


class Prog:
    """Builds one program, tracking abstract register types."""

    def __init__(self, rng, mods=None, npool=None, empty_blocks=True, bad_rate=0.06, allow_alias_writes=False,
                 worker_rate=0.25):
        self.rng = rng
        self.allow_alias_writes = allow_alias_writes   # C03: in-place writes through shallow copies are generated
        self.worker_rate = worker_rate                 # share of tensordot/inner/combine/split steps calling the worker directly
        self.alias = {}                                # register -> set of registers sharing block buffers
        self.mods = gen_mods(rng) if mods is None else mods
        npool = npool or rng.choice([2, 3, 3, 4])
        self.pool = [gen_leg(rng, self.mods, empty_blocks=empty_blocks) for _ in range(npool)]
        self.steps = []
        self.regs = []      # abstract: {'kind': 'arr'|'scalar'|'pipe'|'junk', 'legs': [...], 'labels': [...], 'dtype': str}
        self.bad_rate = bad_rate

    # ---- helpers
    def case(self):
        return {'mods': self.mods, 'pool': self.pool, 'steps': self.steps}

    def arrs(self, pred=None):
        return [i for i, r in enumerate(self.regs) if r['kind'] == 'arr' and (pred is None or pred(r))]

    def push(self, step, reg):
        op = step['op']
        if op in WRITES and not self.allow_alias_writes and len(self.alias.get(step['a'], ())) > 1:
            # the effect of a write through a shallow copy on the other reference is documented as
            # unspecified (Array.copy): replace by the copying variant
            step = dict(step)
            step['op'] = {'iadd': 'add', 'isub': 'sub', 'iscale': 'scale', 'iscale_prefactor': 'scale',
                          'iadd_prefactor_other': 'add'}[op]
            step.pop('s', None) if step['op'] == 'add' else None
            reg = dict(self.regs[step['a']])
        if step['op'] == 'copy_shallow':
            grp = self.alias.setdefault(step['a'], {step['a']})
            grp.add(len(self.regs))
            self.alias[len(self.regs)] = grp
        if step['op'] in WORKER and self.rng.random() < self.worker_rate:
            ok = True
            if step['op'] == 'combine':
                ok = step['new_axes'] is None and step['qconj'] is None
            if step['op'] == 'inner':
                ok = step['axes'] == 'range'
            if step['op'] == 'split':
                ok = step['axes'] is None
            if ok:
                step = dict(step)
                step['op'] = WORKER[step['op']]
                if step['op'] in ('w_tensordot',):
                    reg = {'kind': 'tuple'}
        self.steps.append(step)
        self.regs.append(reg)
        return len(self.regs) - 1

    def arr(self, legs, labels, dtype='?', opaque=False):
        return {'kind': 'arr', 'legs': legs, 'labels': labels, 'dtype': dtype, 'opaque': opaque}

    def axis_ref(self, r, i):
        """how to name axis i of register r in a step: label when known (50 %), else the index"""
        l = self.regs[r]['labels'][i]
        if l is not None and l != UNK and self.regs[r]['labels'].count(l) == 1 and self.rng.random() < 0.5:
            return l
        return i if self.rng.random() < 0.8 else i - len(self.regs[r]['legs'])

    # ---- steps
    def new(self, types=None, like=None, **kw):
        rng = self.rng
        if like is not None:
            src = self.regs[like]
            types, kw = src['legs'], dict(kw)
            kw.setdefault('labels', list(src['labels']))
        if types is None:
            rank = rng.choice([1, 2, 2, 3, 3, 4])
            types = []
            others = [t for r in self.regs if r['kind'] == 'arr' for t in r['legs'] if t[0] == 'L']
            for _ in range(rank):
                if others and rng.random() < 0.6:
                    types.append(conj_t(rng.choice(others)))
                else:
                    types.append(['L', rng.randrange(len(self.pool)), rng.choice([1, -1])])
        spec = gen_tensor_spec(rng, self.mods, self.pool, types, **kw)
        return self.push({'op': 'new', 'spec': spec}, self.arr([list(t) for t in types], list(spec['labels']), spec['dtype']))

    def base_only(self, r):
        return all(t[0] == 'L' for t in self.regs[r]['legs'])

    def tensordot(self, a, b, bad=False):
        rng = self.rng
        A, B = self.regs[a], self.regs[b]
        pairs = []
        usedb = set()
        ia = list(range(len(A['legs'])))
        rng.shuffle(ia)
        for i in ia:
            for j in range(len(B['legs'])):
                if j not in usedb and B['legs'][j] == conj_t(A['legs'][i]) and not (a == b and i == j):
                    if a == b and (j in [p[0] for p in pairs] or i in usedb):
                        continue
                    pairs.append((i, j))
                    usedb.add(j)
                    break
        if a == b:
            # contracting a tensor with itself: axes sets may overlap only as (i<->j); keep it simple
            pairs = pairs[:1] if pairs else []
        k = rng.randint(0, len(pairs)) if rng.random() < 0.2 else len(pairs)
        pairs = pairs[:k] if rng.random() < 0.7 else rng.sample(pairs, k)
        if bad and len(A['legs']) and len(B['legs']):
            pairs = [(rng.randrange(len(A['legs'])), rng.randrange(len(B['legs'])))]
        ka = [i for i in range(len(A['legs'])) if i not in [p[0] for p in pairs]]
        kb = [j for j in range(len(B['legs'])) if j not in [p[1] for p in pairs]]
        if len(ka) + len(kb) > 4 and not bad:
            return self.new()                       # keep ranks (and dense sizes) small
        std = [p[0] for p in pairs] == list(range(len(A['legs']) - len(pairs), len(A['legs']))) and \
            [p[1] for p in pairs] == list(range(len(pairs)))
        if std and rng.random() < 0.7:
            axes = len(pairs)
        else:
            axes = [[self.axis_ref(a, p[0]) for p in pairs], [self.axis_ref(b, p[1]) for p in pairs]]
        la = [A['labels'][i] for i in ka]
        lb = [B['labels'][j] for j in kb]
        for i, l in enumerate(la):
            if l is not None and l != UNK and l in lb:
                la[i] = None
                lb[lb.index(l)] = None
        if UNK in la + lb:
            la = [UNK] * len(la)
            lb = [UNK] * len(lb)
        if bad:
            reg = {'kind': 'junk'}
        elif not ka and not kb:
            reg = {'kind': 'scalar'}
        else:
            reg = self.arr([A['legs'][i] for i in ka] + [B['legs'][j] for j in kb], la + lb)
        return self.push({'op': 'tensordot', 'a': a, 'b': b, 'axes': axes}, reg)

    def inner(self, a, b, do_conj):
        """b must have legs conj (do_conj=False) / equal (True) to a's, possibly permuted"""
        A, B = self.regs[a], self.regs[b]
        want = [t if do_conj else conj_t(t) for t in A['legs']]
        if len(B['legs']) != len(want):
            return None
        perm = []
        used = set()
        for t in want:
            js = [j for j in range(len(B['legs'])) if j not in used and B['legs'][j] == t]
            if not js:
                return None
            perm.append(js[0])
            used.add(js[0])
        if perm == list(range(len(perm))) and self.rng.random() < 0.6:
            axes = 'range'
        else:
            axes = [list(range(len(perm))), perm]
        return self.push({'op': 'inner', 'a': a, 'b': b, 'axes': axes, 'do_conj': do_conj}, {'kind': 'scalar'})

    def combine(self, a):
        rng = self.rng
        A = self.regs[a]
        n = len(A['legs'])
        if n < 1:
            return None
        axes = list(range(n))
        rng.shuffle(axes)
        ngroups = 1 if n < 3 or rng.random() < 0.6 else 2
        groups = []
        for g in range(ngroups):
            k = rng.choice([1, 2, 2, 2, 3])
            grp, axes = axes[:k], axes[k:]
            if grp:
                if rng.random() < 0.5:
                    grp.sort()
                groups.append(grp)
        rest = sorted(axes)
        qconj = None if rng.random() < 0.6 else [rng.choice([1, -1]) for _ in groups]
        new_axes = None
        nres = len(rest) + len(groups)
        if rng.random() < 0.3:
            new_axes = rng.sample(range(nres), len(groups))
        # abstract result (default new_axes = position of the first leg of each group among the remaining)
        step = {'op': 'combine', 'a': a, 'groups': [[self.axis_ref(a, i) for i in g] for g in groups],
                'new_axes': new_axes, 'qconj': qconj}
        # legs of the result are only known to the runner (default qconj = that of the first leg): mark
        # pipes with unknown orientation as opaque -> such registers are used for split/transpose/scale/self-ops only
        return self.push(step, self.arr([['O', len(self.regs), i, 1] for i in range(nres)], [UNK] * nres))

    def finish_random(self, nsteps):
        for _ in range(nsteps):
            self.random_step()
        return self.case()

    def random_step(self):
        rng = self.rng
        arrs = self.arrs()
        if not arrs or (len(arrs) < 3 and rng.random() < 0.5):
            return self.new()
        bad = rng.random() < self.bad_rate
        r = rng.random()
        a = rng.choice(arrs)
        A = self.regs[a]
        n = len(A['legs'])
        if A.get('opaque'):
            # rank/legs unknown to the generator: whole-tensor operations only
            op = rng.choice(['scale', 'iscale', 'conj_inner', 'transpose', 'split', 'add', 'copy_deep', 'sort_legcharge', 'conj'])
            if op in ('scale', 'iscale'):
                return self.push({'op': op, 'a': a, 's': rng.choice(SCALARS)}, self.arr_opaque() if op == 'scale' else {'kind': 'none'})
            if op == 'conj_inner':
                c = self.push({'op': 'conj', 'a': a}, self.arr_opaque())
                return self.push({'op': 'inner', 'a': a, 'b': c, 'axes': 'range', 'do_conj': False}, {'kind': 'scalar'})
            if op == 'transpose':
                return self.push({'op': 'transpose', 'a': a, 'axes': None}, self.arr_opaque())
            if op == 'split':
                return self.push({'op': 'split', 'a': a, 'axes': None, 'cutoff': 0.0}, self.arr_opaque())
            if op == 'add':
                return self.push({'op': rng.choice(['add', 'sub']), 'a': a, 'b': a}, self.arr_opaque())
            if op == 'sort_legcharge':
                return self.push({'op': op, 'a': a, 'sort': True, 'bunch': rng.random() < 0.7}, self.arr_opaque())
            return self.push({'op': op, 'a': a}, self.arr_opaque())
        if r < 0.22:
            cands = [b for b in arrs if any(conj_t(t) in self.regs[b]['legs'] for t in A['legs'])]
            b = rng.choice(cands) if cands and not bad else rng.choice(arrs)
            return self.tensordot(a, b, bad=bad)
        if r < 0.30:
            # inner with a conjugate partner: make one
            if self.base_only(a) and rng.random() < 0.7:
                do_conj = rng.random() < 0.5
                b = self.new(types=[t if do_conj else conj_t(t) for t in A['legs']], qtotal=None,
                             labels=[l if do_conj else conj_label(l) for l in A['labels']])
                # same qtotal (do_conj) / opposite is needed for a non-zero result; random is fine too
                perm = list(range(n))
                if rng.random() < 0.4:
                    rng.shuffle(perm)
                    b = self.transpose(b, perm)
                got = self.inner(a, b, do_conj)
                if got is not None:
                    return got
            c = self.push({'op': 'conj', 'a': a}, self.arr([conj_t(t) for t in A['legs']], [conj_label(l) for l in A['labels']],
                                                           opaque=A.get('opaque', False)))
            return self.push({'op': 'inner', 'a': a, 'b': c, 'axes': rng.choice(['range', 'labels']), 'do_conj': False},
                             {'kind': 'scalar'})
        if r < 0.42:
            return self.combine(a) or self.new()
        if r < 0.50:
            # split: only useful on results of combine (opaque legs); otherwise an error path / no-op copy
            cands = [b for b in arrs if any(t[0] in 'OP' for t in self.regs[b]['legs'])]
            b = rng.choice(cands) if cands and not bad else a
            nb = len(self.regs[b]['legs'])
            axes = None if rng.random() < 0.7 else [rng.randrange(nb)]
            return self.push({'op': 'split', 'a': b, 'axes': axes, 'cutoff': rng.choice([0.0, 0.0, 0.0, 1e-16, 0.5])},
                             self.arr_opaque())
        if r < 0.66:
            return self.addlike(a, bad)
        if r < 0.76:
            s = rng.choice(SCALARS)
            op = rng.choice(['scale', 'rscale', 'iscale', 'iscale_prefactor', 'div'])
            if op == 'div' and (s in (0, 0.0)):
                s = 2.0
            inplace = op in ('iscale', 'iscale_prefactor')
            return self.push({'op': op, 'a': a, 's': s}, self.arr(A['legs'], A['labels'], opaque=A.get('opaque', False)) if not inplace else {'kind': 'none'})
        if r < 0.88:
            perm = list(range(n))
            rng.shuffle(perm)
            if bad and n > 1:
                perm[0] = perm[1]
            if rng.random() < 0.15:
                perm = None
            return self.transpose(a, perm, inplace=rng.random() < 0.3, bad=bad)
        if r < 0.93:
            op = rng.choice(['conj', 'iconj', 'copy_deep', 'copy_shallow', 'astype'])
            legs = A['legs']
            labels = A['labels']
            if op in ('conj', 'iconj'):
                legs = [conj_t(t) for t in legs]
                labels = [conj_label(l) for l in labels]
            if op == 'iconj':
                A['legs'], A['labels'] = legs, labels
                return self.push({'op': op, 'a': a}, {'kind': 'none'})
            st = {'op': op, 'a': a}
            if op == 'astype':
                st['dtype'] = rng.choice(DTYPES)
            return self.push(st, self.arr(legs, labels))
        if r < 0.97 and n >= 1:
            k = rng.randint(1, min(3, n))
            axes = rng.sample(range(n), k)
            return self.push({'op': 'make_pipe', 'a': a, 'axes': [self.axis_ref(a, i) for i in axes],
                              'qconj': rng.choice([1, -1]), 'sort': rng.random() < 0.8, 'bunch': rng.random() < 0.8},
                             {'kind': 'pipe'})
        return self.push({'op': 'sort_legcharge', 'a': a, 'sort': rng.random() < 0.8, 'bunch': rng.random() < 0.8},
                         self.arr_opaque())

    def arr_opaque(self):
        # rank unknown to the generator: legs = None marks "use only whole-tensor operations"
        return {'kind': 'arr', 'legs': [], 'labels': [], 'dtype': '?', 'opaque': True}

    def transpose(self, a, perm, inplace=False, bad=False):
        A = self.regs[a]
        n = len(A['legs'])
        p = perm if perm is not None else list(reversed(range(n)))
        axes = None if perm is None else [self.axis_ref(a, i) if not bad else i for i in perm]
        if bad:
            return self.push({'op': 'transpose', 'a': a, 'axes': axes}, {'kind': 'junk'})
        legs = [A['legs'][i] for i in p]
        labels = [A['labels'][i] for i in p]
        if inplace:
            A['legs'], A['labels'] = legs, labels
            return self.push({'op': 'itranspose', 'a': a, 'axes': axes}, {'kind': 'none'})
        return self.push({'op': 'transpose', 'a': a, 'axes': axes}, self.arr(legs, labels))

    def addlike(self, a, bad=False):
        """a (+|-) b, iadd_prefactor_other: b has the same legs, possibly with permuted labels"""
        rng = self.rng
        A = self.regs[a]
        n = len(A['legs'])
        r = rng.random()
        labels_ok = all(l is not None and l != UNK for l in A['labels']) and len(set(A['labels'])) == n
        if self.base_only(a) and not A.get('opaque') and r < 0.75:
            qt = None
            src = [s for s in self.steps if s['op'] == 'new']
            # same qtotal as a (needed for a valid sum) unless a deliberately bad case
            qt = self.qtotal_of(a)
            kw = {}
            if qt is not None and not bad:
                kw['qtotal'] = qt
            b = self.new(like=a, **kw)
            if labels_ok and n > 1 and rng.random() < 0.5:
                perm = list(range(n))
                rng.shuffle(perm)
                b = self.transpose(b, perm)          # same labels in a different order
        elif r < 0.9:
            b = a                                    # a + a
        else:
            b = self.push({'op': 'copy_shallow', 'a': a}, self.arr(A['legs'], A['labels']))
        op = rng.choice(['add', 'add', 'sub', 'iadd', 'isub', 'iadd_prefactor_other'])
        st = {'op': op, 'a': a, 'b': b}
        if op == 'iadd_prefactor_other':
            st['s'] = rng.choice(SCALARS)
        inplace = op in ('iadd', 'isub', 'iadd_prefactor_other')
        return self.push(st, {'kind': 'none'} if inplace else self.arr(A['legs'], A['labels']))

    def qtotal_of(self, r):
        """qtotal of a register when the generator knows it (fresh tensors and their transposes/scalings)"""
        st = self.steps[r]
        if st['op'] == 'new':
            return st['spec']['qtotal']
        if st['op'] in ('transpose', 'copy_deep', 'copy_shallow', 'scale', 'rscale', 'div', 'astype'):
            return self.qtotal_of(st['a'])
        return None


def gen_program(rng, nsteps=None, **kw):
    p = Prog(rng, **kw)
    return p.finish_random(nsteps or rng.choice([4, 5, 6, 7, 8]))


def gen_f5_like(rng):
    """targeted: a + b where b has the same labels in a different order (legs differ position-wise or not)"""
    p = Prog(rng, empty_blocks=False, bad_rate=0.0)
    rank = rng.choice([2, 2, 3])
    if rng.random() < 0.5:
        i = rng.randrange(len(p.pool))
        types = [['L', i, 1] for _ in range(rank)]           # all legs equal: the leg test passes position-wise
    else:
        types = [['L', rng.randrange(len(p.pool)), rng.choice([1, -1])] for _ in range(rank)]
    a = p.new(types=types, labels=rng.sample(LABELS[:8], rank), fill=rng.choice([1.0, 0.6]))
    b = p.new(like=a, qtotal=p.steps[a]['spec']['qtotal'], fill=rng.choice([1.0, 0.6]))
    perm = list(range(rank))
    while perm == list(range(rank)):
        rng.shuffle(perm)
    c = p.transpose(b, perm)
    op = rng.choice(['add', 'sub', 'iadd', 'iadd_prefactor_other'])
    st = {'op': op, 'a': a, 'b': c}
    if op == 'iadd_prefactor_other':
        st['s'] = rng.choice([1.0, 2.0, -1.0, ['c', 0.0, 1.0]])
    p.push(st, {'kind': 'none'} if op.startswith('i') else p.arr(types, p.regs[a]['labels']))
    return p.case()


def gen_self_alias(rng):
    """targeted: a.iadd_prefactor_other(s, a) / a + a / tensordot(a, a) with the SAME object on both sides"""
    p = Prog(rng, empty_blocks=False, bad_rate=0.0)
    a = p.new(dtype=rng.choice(['float64', 'complex128', 'float64', 'int64']), fill=1.0)
    A = p.regs[a]
    op = rng.choice(['iadd_prefactor_other', 'iadd_prefactor_other', 'iadd', 'isub', 'add'])
    st = {'op': op, 'a': a, 'b': a}
    if op == 'iadd_prefactor_other':
        st['s'] = rng.choice([['c', 1.0, -2.0], ['c', 0.0, 1.0], 2.0, -1.0, ['c', 0.5, 0.5]])
    p.push(st, {'kind': 'none'} if op != 'add' else p.arr(A['legs'], A['labels']))
    return p.case()


# ---- targeted: tensors WITHOUT stored blocks as receivers / operands of dtype-changing operations ------------------------
# The dtype of an Array is an observable of its own (it is not determined by the stored blocks when there are none, or when the
# blocks of the wider operand are missing), so the programs below put block-free tensors of every dtype into every operation that
# may change the dtype: *=, /=, iscale_prefactor, *, /, +, -, +=, -=, iadd_prefactor_other (python and numpy-typed prefactors),
# iunary/unary_blockwise with dtype-changing functions, conj/iconj/complex_conj, astype, negation.

DTYPES5 = ['float64', 'complex128', 'float32', 'complex64', 'int64']
TYPED_SCALARS = [2.0, -1.5, 3, ['c', 0.0, 1.0], ['c', 1.0, -2.0], 0.5, ['n', 'float64', 2.0, 0.0], ['n', 'float32', 0.5, 0.0],
                 ['n', 'complex128', 0.0, 1.0], ['n', 'complex64', 1.0, 1.0], ['n', 'int64', 3, 0], 0.0, ['c', 0.0, 0.0]]


def gen_blockfree_inplace(rng):
    p = Prog(rng, empty_blocks=False, bad_rate=0.0, worker_rate=0.0)
    rank = rng.choice([1, 2, 2, 3])
    types = [['L', rng.randrange(len(p.pool)), rng.choice([1, -1])] for _ in range(rank)]
    labels = rng.sample(LABELS[:8], rank)
    a = p.new(types=types, labels=labels, dtype=rng.choice(DTYPES5), fill=0.0)
    qt = p.steps[a]['spec']['qtotal']
    A = p.regs[a]
    live = [a]
    for _ in range(rng.choice([1, 2, 2])):
        live.append(p.new(like=a, qtotal=qt, dtype=rng.choice(DTYPES5), fill=rng.choice([0.0, 0.0, 0.5, 1.0])))
    for _ in range(rng.randint(2, 5)):
        # the block-free tensor is preferred as receiver; with two operands it is on either side
        x = a if rng.random() < 0.5 else rng.choice(live)
        r = rng.random()
        if r < 0.35:
            op = rng.choice(['iscale', 'iscale_prefactor', 'idiv', 'scale', 'rscale', 'div'])
            s = rng.choice(TYPED_SCALARS)
            if op in ('div', 'idiv') and s in (0.0, 0, ['c', 0.0, 0.0]):
                s = 2.0
            if op in ('iscale', 'iscale_prefactor', 'idiv'):
                p.push({'op': op, 'a': x, 's': s}, {'kind': 'none'})
            else:
                live.append(p.push({'op': op, 'a': x, 's': s}, p.arr(A['legs'], A['labels'])))
        elif r < 0.7:
            y = rng.choice([t for t in live if t != x] or live)
            if rng.random() < 0.5:
                x, y = y, x
            op = rng.choice(['add', 'sub', 'iadd', 'isub', 'iadd_prefactor_other', 'iadd_prefactor_other'])
            st = {'op': op, 'a': x, 'b': y}
            if op == 'iadd_prefactor_other':
                st['s'] = rng.choice(TYPED_SCALARS)
            if op in ('add', 'sub'):
                live.append(p.push(st, p.arr(A['legs'], A['labels'])))
            else:
                p.push(st, {'kind': 'none'})
        elif r < 0.85:
            op = rng.choice(['iunary', 'unary'])
            st = {'op': op, 'a': x, 'f': rng.choice(['real', 'imag', 'abs', 'sqrt', 'conj', 'negative', 'square'])}
            if op == 'unary':
                live.append(p.push(st, p.arr(A['legs'], A['labels'])))
            else:
                p.push(st, {'kind': 'none'})
        else:
            op = rng.choice(['astype', 'neg', 'complex_conj', 'copy_deep', 'norm'])
            st = {'op': op, 'a': x}
            if op == 'astype':
                st['dtype'] = rng.choice(DTYPES5)
            if op == 'norm':
                p.push(st, {'kind': 'scalar'})
            else:
                live.append(p.push(st, p.arr(A['legs'], A['labels'])))
    return p.case()


# ---- targeted: public indexing (results of rank >= 1 AND scalars: the Array class has no rank 0) ---------------------------

def gen_indexing(rng):
    """a[...] with integers / slices / masks / index arrays / Ellipsis per axis, a[i, j, ...] = value, take_slice, squeeze;
    integer indices on every axis give a scalar (the only 'rank-0' result the public interface produces)"""
    p = Prog(rng, empty_blocks=False, bad_rate=0.0, worker_rate=0.0)
    rank = rng.choice([1, 2, 2, 3, 3])
    types = [['L', rng.randrange(len(p.pool)), rng.choice([1, -1])] for _ in range(rank)]
    a = p.new(types=types, dtype=rng.choice(DTYPES5), fill=rng.choice([1.0, 1.0, 0.6, 0.3, 0.0]))
    lens = [sum(p.pool[t[1]]['sizes']) for t in types]

    def one(n, kinds):
        k = rng.choice(kinds)
        if k == 'int':
            return rng.randrange(-n, n) if rng.random() < 0.95 else n
        if k == 'all':
            return 'all'
        if k == 'slice':
            lo = rng.choice([None, 0, rng.randrange(n), rng.randrange(n)])
            hi = rng.choice([None, n, rng.randint(0, n), (lo or 0) + 1])
            return ['s', lo, hi, rng.choice([None, None, 1, 2, -1])]
        if k == 'mask':
            return ['m', [rng.random() < 0.6 for _ in range(n)]]
        ii = [rng.randrange(n) for _ in range(rng.randint(1, n))]
        if rng.random() < 0.6:
            ii = sorted(set(ii))
        return ['i', ii]

    for _ in range(rng.randint(3, 6)):
        r = rng.random()
        if r < 0.3:      # every axis an integer: a scalar
            idx = [one(n, ['int']) for n in lens]
            if rng.random() < 0.3:
                p.push({'op': 'setitem', 'a': a, 'idx': idx, 's': rng.choice([1.0, 0.0, 2, ['c', 0.0, 1.0], -3.5])}, {'kind': 'none'})
            else:
                p.push({'op': 'getitem', 'a': a, 'idx': idx}, {'kind': 'scalar'})
        elif r < 0.75:
            idx = [one(n, ['int', 'int', 'all', 'slice', 'slice', 'mask', 'ind']) for n in lens]
            if all(isinstance(x, int) for x in idx):
                idx[rng.randrange(rank)] = 'all'
            if rng.random() < 0.2:
                idx = idx[:rng.randint(1, rank)]
            elif rng.random() < 0.15:
                k = rng.randrange(rank)
                idx = idx[:k] + ['ell'] + idx[k + rng.randint(0, rank - k):]
            g = p.push({'op': 'getitem', 'a': a, 'idx': idx}, p.arr_opaque())
            if rng.random() < 0.4:
                p.push({'op': rng.choice(['squeeze', 'norm', 'copy_deep']), 'a': g}, p.arr_opaque())
        elif r < 0.9:
            k = rng.randint(1, rank)
            axes = rng.sample(range(rank), k)
            p.push({'op': 'take_slice', 'a': a, 'indices': [rng.randrange(lens[i]) for i in axes],
                    'axes': [p.axis_ref(a, i) for i in axes]}, p.arr_opaque() if k < rank else {'kind': 'junk'})
        else:            # slices of length one on every axis, then squeeze: a scalar again
            idx = []
            for n in lens:
                i = rng.randrange(n)
                idx.append(['s', i, i + 1, None])
            g = p.push({'op': 'getitem', 'a': a, 'idx': idx}, p.arr_opaque())
            p.push({'op': 'squeeze', 'a': g}, {'kind': 'scalar'})
    return p.case()


# ---- targeted: tensors whose blocks are NON-CONTIGUOUS VIEWS as receivers and operands of the in-place / BLAS kernels --------
# take_slice / a[:, i, :] leave blocks `block[:, ri, :]` (strided sub-views WITH GAPS of the deep copy's buffers), itranspose leaves
# permuted views of whole buffers, and blocks may be handed over in any memory layout (spec['layout']: Fortran order / a sub-view of a
# larger buffer).  The compiled kernels hand raw data pointers to BLAS, so each of them has to make such blocks contiguous first; the
# programs below apply every in-place kernel (iscale_prefactor, *=, /=, +=, -=, iadd_prefactor_other, itranspose, iconj) and the
# BLAS-backed ones (tensordot, inner; directly and through the workers) to FRESH views, as receiver and as operand, and keep the
# tensor the view was taken from alive (its fingerprint is part of every step record).

VIEW_DTYPES = ['float64', 'float64', 'float64', 'complex128', 'complex128', 'complex128', 'float32', 'complex64', 'int64']
VIEW_SCALARS = [2.5, -3.0, 0.5, 4.0, 2, -1, ['c', 0.5, 2.0], ['c', 0.0, 1.0], -1.0, ['n', 'float64', 1.5, 0.0],
                ['n', 'float32', 0.5, 0.0], ['n', 'complex128', 1.0, -1.0]]


def _valid(mods, q):
    return [x if m == 1 else x % m for x, m in zip(q, mods)]


def gen_strided_views(rng):
    p = Prog(rng, empty_blocks=False, bad_rate=0.0, worker_rate=0.3)
    for l in p.pool:                                   # blocks of size >= 2 on most legs: an index inside a block leaves gaps
        l['sizes'] = [rng.choice([1, 2, 2, 3, 3, 4]) for _ in l['sizes']]
    mods, pool = p.mods, p.pool
    rank = rng.choice([2, 3, 3, 3, 3, 4])
    types = [['L', rng.randrange(len(pool)), rng.choice([1, -1])] for _ in range(rank)]
    dtype = rng.choice(VIEW_DTYPES)
    info = {}       # register -> {'qtotal', 'blocks' (block indices believed to be stored), 'dtype', 'origin'}

    def distinct_entries(spec):
        for blk in spec['blocks']:
            blk['re'] = [rng.randint(1, 9) * rng.choice([1, -1]) for _ in blk['re']]
            if blk['im'] is not None:
                blk['im'] = [rng.randint(-4, 4) for _ in blk['re']]

    def fresh(legs, labels, qtotal=None, dt=None, fill=None, layout='rand'):
        legs3 = [base_leg(pool, t) for t in legs]
        if qtotal is None:
            qtotal = charge_of(mods, legs3, [rng.randrange(len(l[0])) for l in legs3])
        r = p.new(types=[list(t) for t in legs], labels=list(labels), dtype=dt or dtype, qtotal=list(qtotal),
                  fill=fill if fill is not None else rng.choice([1.0, 1.0, 0.7]))
        spec = p.steps[r]['spec']
        distinct_entries(spec)
        if layout == 'rand':
            layout = rng.choice([None, None, None, 'F', 'strided'])
        if layout:
            spec['layout'] = layout
        info[r] = {'qtotal': list(qtotal), 'blocks': [list(b['q']) for b in spec['blocks']], 'dtype': spec['dtype'],
                   'layout': layout}
        return r

    a = fresh(types, rng.sample(LABELS[:8], rank))
    roots = [a]
    lazy = {}

    def conj_of(r):
        if ('conj', r) not in lazy:
            R = p.regs[r]
            lazy[('conj', r)] = p.push({'op': 'conj', 'a': r}, p.arr([conj_t(t) for t in R['legs']], [conj_label(l) for l in R['labels']]))
        return lazy[('conj', r)]

    def make_view(src, same_as=None):
        """a.take_slice(...) / a[:, i, :]: returns the register of the view or None.  same_as: (axes, block index per axis) of an
        earlier view of src -> same legs and qtotal, other index inside the same charge blocks"""
        S = p.regs[src]
        n = len(S['legs'])
        if n < 2 or src not in info:
            return None
        if same_as is not None:
            axes, qis = same_as
        else:
            k = 1 if (n == 2 or rng.random() < 0.75) else 2
            axes = []
            while len(axes) < k:                       # the first axis (contiguous slices) is the control, rarely chosen
                ax = rng.choice([0] + list(range(1, n)) * 3)
                if ax not in axes:
                    axes.append(ax)
            blk = rng.choice(info[src]['blocks']) if info[src]['blocks'] and rng.random() < 0.9 else None
            qis = [blk[ax] if blk is not None else rng.randrange(len(base_leg(pool, S['legs'][ax])[0])) for ax in axes]
        idxs = []
        for ax, qi in zip(axes, qis):
            sizes = base_leg(pool, S['legs'][ax])[0]
            idxs.append(sum(sizes[:qi]) + rng.randrange(sizes[qi]))
        if rng.random() < 0.6:
            st = {'op': 'take_slice', 'a': src, 'indices': idxs, 'axes': [p.axis_ref(src, ax) for ax in axes]}
        else:
            ix = ['all'] * n
            for ax, i in zip(axes, idxs):
                ln = sum(base_leg(pool, S['legs'][ax])[0])
                ix[ax] = i if rng.random() < 0.8 else i - ln
            while ix and ix[-1] == 'all' and rng.random() < 0.5:
                ix.pop()
            if len(ix) < n and rng.random() < 0.3:
                ix.append('ell')
            st = {'op': 'getitem', 'a': src, 'idx': ix}
        keep = [i for i in range(n) if i not in axes]
        v = p.push(st, p.arr([S['legs'][i] for i in keep], [S['labels'][i] for i in keep]))
        qt = list(info[src]['qtotal'])
        for ax, qi in zip(axes, qis):
            sz, ch, qc = base_leg(pool, S['legs'][ax])
            qt = [x - qc * c for x, c in zip(qt, ch[qi])]
        info[v] = {'qtotal': _valid(mods, qt), 'dtype': info[src]['dtype'], 'origin': (src, list(axes), list(qis)),
                   'blocks': [[b[i] for i in keep] for b in info[src]['blocks'] if all(b[ax] == qi for ax, qi in zip(axes, qis))],
                   'layout': 'view'}
        return v

    def partner(v, kinds=('same-slice', 'fresh', 'fresh', 'copy')):
        """a tensor with the legs, labels and qtotal of v"""
        V = p.regs[v]
        kind = rng.choice(kinds)
        if kind == 'same-slice' and 'origin' in info[v]:
            src, axes, qis = info[v]['origin']
            w = make_view(src, same_as=(axes, qis))
            if w is not None and p.regs[w]['legs'] == V['legs'] and p.regs[w]['labels'] == V['labels'] and \
                    info[w]['qtotal'] == info[v]['qtotal']:
                return w
        if kind == 'copy':
            w = p.push({'op': 'copy_deep', 'a': v}, p.arr(list(V['legs']), list(V['labels'])))
            info[w] = dict(info[v], layout=None)
            info[w].pop('origin', None)
            return w
        dt = info[v]['dtype'] if rng.random() < 0.75 else rng.choice(VIEW_DTYPES)
        return fresh(V['legs'], V['labels'], qtotal=info[v]['qtotal'], dt=dt, fill=rng.choice([1.0, 0.6]))

    def op_on(v):
        V = p.regs[v]
        n = len(V['legs'])
        r = rng.random()
        if r < 0.30:
            op = rng.choice(['iscale', 'iscale_prefactor', 'idiv'])
            p.push({'op': op, 'a': v, 's': rng.choice(VIEW_SCALARS)}, {'kind': 'none'})
        elif r < 0.55:
            w = partner(v)
            x, y = (v, w) if rng.random() < 0.5 else (w, v)          # the view as receiver / as operand
            st = {'op': rng.choice(['iadd', 'isub', 'iadd_prefactor_other', 'iadd_prefactor_other']), 'a': x, 'b': y}
            if st['op'] == 'iadd_prefactor_other':
                st['s'] = rng.choice(VIEW_SCALARS)
            p.push(st, {'kind': 'none'})
        elif r < 0.61:
            op = rng.choice(['add', 'sub', 'scale', 'rscale', 'div'])
            if op in ('add', 'sub'):
                w = partner(v)
                x, y = (v, w) if rng.random() < 0.5 else (w, v)
                st = {'op': op, 'a': x, 'b': y}
            else:
                st = {'op': op, 'a': v, 's': rng.choice(VIEW_SCALARS)}
            nr = p.push(st, p.arr(list(V['legs']), list(V['labels'])))
            info[nr] = dict(info[v], layout=None)
            info[nr].pop('origin', None)
        elif r < 0.70:
            perm = list(range(n))
            rng.shuffle(perm)
            p.transpose(v, perm, inplace=True)
            info[v]['blocks'] = [[b[i] for i in perm] for b in info[v]['blocks']]
            info[v].pop('origin', None)
        elif r < 0.75:
            V['legs'], V['labels'] = [conj_t(t) for t in V['legs']], [conj_label(l) for l in V['labels']]
            p.push({'op': 'iconj', 'a': v}, {'kind': 'none'})
            info[v]['qtotal'] = _valid(mods, [-x for x in info[v]['qtotal']])
            info[v].pop('origin', None)
        elif r < 0.87:
            other = rng.choice([conj_of(v), conj_of(a), conj_of(a), conj_of(rng.choice(roots))])
            if rng.random() < 0.5:
                p.tensordot(v, other)
            else:
                p.tensordot(other, v)
        elif r < 0.95:
            if rng.random() < 0.5:
                p.inner(v, partner(v, kinds=('same-slice', 'fresh', 'copy')), True)
            else:
                w = partner(v, kinds=('same-slice', 'fresh'))
                p.inner(v, conj_of(w), False)
        else:
            op = rng.choice(['norm', 'copy_deep', 'combine', 'combine'])
            if op == 'combine':
                p.combine(v)
            else:
                p.push({'op': op, 'a': v}, {'kind': 'scalar'} if op == 'norm' else p.arr(list(V['legs']), list(V['labels'])))

    def whole_tensor_ops(g):
        """register with legs the generator does not track (projected legs): whole-tensor kernels only"""
        for _ in range(rng.randint(1, 2)):
            r = rng.random()
            if r < 0.45:
                p.push({'op': rng.choice(['iscale', 'iscale_prefactor', 'idiv']), 'a': g, 's': rng.choice(VIEW_SCALARS)}, {'kind': 'none'})
            elif r < 0.6:
                p.push({'op': rng.choice(['iconj', 'imake_contiguous']), 'a': g}, {'kind': 'none'})
            elif r < 0.7:
                p.push({'op': 'itranspose', 'a': g, 'axes': None}, {'kind': 'none'})
            elif r < 0.85:
                c = p.push({'op': 'conj', 'a': g}, p.arr_opaque())
                p.push({'op': 'inner', 'a': g, 'b': c, 'axes': 'range', 'do_conj': False}, {'kind': 'scalar'})
            else:
                c = p.push({'op': 'copy_deep', 'a': g}, p.arr_opaque())
                p.push({'op': rng.choice(['iadd', 'isub', 'iadd_prefactor_other']), 'a': c, 'b': g, 's': rng.choice(VIEW_SCALARS)}, {'kind': 'none'})

    for _ in range(rng.choice([2, 3, 3, 4])):
        r = rng.random()
        src = rng.choice(roots)
        S = p.regs[src]
        n = len(S['legs'])
        lens = [sum(base_leg(pool, t)[0]) for t in S['legs']]
        if r < 0.62:
            v = make_view(src)
            if v is not None and len(p.regs[v]['legs']) >= 2 and rng.random() < 0.2:
                v = make_view(v) or v                   # a view of a view
        elif r < 0.72:
            # the tensor as handed over (blocks in Fortran order / sub-views of a larger buffer) or a new one
            v = src if info[src].get('layout') and rng.random() < 0.5 else fresh(S['legs'], S['labels'], layout=rng.choice(['F', 'strided']))
            if v not in roots:
                roots.append(v)
        elif r < 0.80:
            perm = list(range(n))
            rng.shuffle(perm)
            v = p.transpose(src, perm)
            info[v] = dict(info[src], blocks=[[b[i] for i in perm] for b in info[src]['blocks']], layout='T')
            info[v].pop('origin', None)
        elif r < 0.86:
            v = p.push({'op': 'from_ndarray_strided', 'a': src}, p.arr(list(S['legs']), list(S['labels'])))
            info[v] = dict(info[src], layout=None)
            info[v].pop('origin', None)
        else:
            # projections: a[mask / slice / index array, i, ...] (take_slice + iproject + permute), iproject in place, squeeze
            k = rng.random()
            if k < 0.4:
                c = p.push({'op': 'copy_deep', 'a': src}, p.arr_opaque())
                ax = rng.randrange(n)
                mask = [rng.random() < 0.7 for _ in range(lens[ax])]
                mask[rng.randrange(lens[ax])] = True
                p.push({'op': 'iproject', 'a': c, 'mask': mask, 'axis': p.axis_ref(src, ax)}, {'kind': 'none'})
                whole_tensor_ops(c)
            else:
                ix = []
                for ln in lens:
                    q = rng.random()
                    if q < 0.35:
                        ix.append(rng.randrange(ln))
                    elif q < 0.55:
                        ix.append('all')
                    elif q < 0.8:
                        lo = rng.randrange(ln)
                        ix.append(['s', lo, rng.randint(lo + 1, ln), rng.choice([None, None, 2])])
                    else:
                        m = [rng.random() < 0.7 for _ in range(ln)]
                        m[rng.randrange(ln)] = True
                        ix.append(['m', m])
                if all(isinstance(x, int) for x in ix):
                    ix[rng.randrange(n)] = 'all'
                g = p.push({'op': 'getitem', 'a': src, 'idx': ix}, p.arr_opaque())
                if k < 0.6:
                    g = p.push({'op': 'squeeze', 'a': g}, p.arr_opaque())
                whole_tensor_ops(g)
            continue
        if v is None:
            continue
        for _ in range(rng.choice([1, 1, 2, 2, 3])):
            op_on(v)
    # the sources once more at the end (they must be what they were: part of the final state, and usable)
    if rng.random() < 0.5:
        p.push({'op': 'norm', 'a': a}, {'kind': 'scalar'})
    return p.case()
