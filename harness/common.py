"""Shared machinery of the /verif checks (see DESIGN.md section 2).

Every check is  ./check Cxx --tier quick|thorough  ->  harness/cXX.py:main(ctx).
This module provides: scratch handling, Coq build + proof-obligation gate, evaluation of
generated case files inside Coq (vm_compute), running the implementation in a fresh
interpreter, verdict/evidence/replay writing and the known-findings protocol.
"""
import atexit
import fcntl
import hashlib
import json
import os
import random
import re
import shutil
import subprocess
import sys
import time

VERIF = os.path.dirname(os.path.dirname(os.path.abspath(__file__)))
REPO = os.environ.get('VERIF_REPO', '/repo')
COQ = os.path.join(VERIF, 'coq')
# evidence/ and replays/ of runs against a scratch copy of the repository go next to that copy
OUT = os.environ.get('VERIF_OUT') or (VERIF if REPO == '/repo' else os.path.join(os.path.dirname(os.path.abspath(REPO)), 'verif_out'))
PRIVATE_COQ = REPO != '/repo' or bool(os.environ.get('VERIF_PRIVATE_COQ'))
PY = '/venv/bin/python'
NPROC = os.cpu_count() or 4

ALLOWED_AXIOMS = {
    # stdlib axioms that may appear (named in DESIGN.md section 6); none is needed so far.
}

FORBIDDEN = re.compile(r'\b(Admitted|admit|Axiom|Axioms|Parameter|Parameters|Conjecture|Conjectures|'
                       r'Admit Obligations|bypass_check)\b|Unset Guard|Unset Positivity|Unset Universe|'
                       r'type-in-type|impredicative-set')

_scratch = None


def scratch():
    """Scratch directory outside /repo and /verif, removed at exit."""
    global _scratch
    if _scratch is None:
        base = os.environ.get('VERIF_SCRATCH_BASE', '/var/tmp')
        _scratch = os.path.join(base, 'verif-%d' % os.getpid())
        os.makedirs(_scratch, exist_ok=True)
        atexit.register(lambda: shutil.rmtree(_scratch, ignore_errors=True))
    return _scratch


def sh(cmd, timeout=1800, cwd=None, env=None, input=None):
    """Run a command, return (rc, stdout+stderr)."""
    try:
        p = subprocess.run(cmd, shell=isinstance(cmd, str), cwd=cwd, env=env, input=input,
                           stdout=subprocess.PIPE, stderr=subprocess.STDOUT, timeout=timeout,
                           text=True)
        return p.returncode, p.stdout
    except subprocess.TimeoutExpired as e:
        out = e.stdout if isinstance(e.stdout, str) else (e.stdout or b'').decode('utf8', 'replace')
        return 124, (out or '') + '\n[timeout after %ss]' % timeout


# ----------------------------------------------------------------------------------------
# Coq literals
# ----------------------------------------------------------------------------------------

class CoqRaw(str):
    """A string that is emitted verbatim as Coq text."""


def coq_lit(x):
    """Python value -> Coq term text.  ints are Z literals; use N(n)/Nat(n) wrappers else."""
    if isinstance(x, CoqRaw):
        return str(x)
    if isinstance(x, bool):
        return 'true' if x else 'false'
    if isinstance(x, Nat):
        return '%d%%nat' % x.v
    if isinstance(x, int):
        return '(%d)%%Z' % x
    if x is None:
        return 'None'
    if isinstance(x, Some):
        return '(Some %s)' % coq_lit(x.v)
    if isinstance(x, str):
        assert '"' not in x
        return '"%s"%%string' % x
    if isinstance(x, tuple):
        if len(x) == 0:
            return 'tt'
        return '(' + ', '.join(coq_lit(y) for y in x) + ')'
    if isinstance(x, list):
        return '[' + '; '.join(coq_lit(y) for y in x) + ']'
    raise TypeError('coq_lit: %r' % (x,))


class Nat:
    def __init__(self, v):
        assert v >= 0 and v < 5000
        self.v = int(v)


class Some:
    def __init__(self, v):
        self.v = v


def opt(x):
    return None if x is None else Some(x)


# ----------------------------------------------------------------------------------------
# Coq build and proof-obligation gate
# ----------------------------------------------------------------------------------------

class ProofStatus:
    def __init__(self):
        self.ok = True
        self.obligations = 0
        self.discharged = 0
        self.problems = []      # strings
        self.assumptions = {}   # theorem -> text
        self.checker_cmd = ''
        self.partial = []
        self.refuted = []
        self.build_log_tail = ''


def _lock():
    f = open(os.path.join(VERIF, '.build.lock'), 'w')
    fcntl.flock(f, fcntl.LOCK_EX)
    return f


def regenerate_gen():
    """Run the translator: /repo sources -> coq/Gen/*.v.  Returns list of problems."""
    sys.path.insert(0, os.path.join(VERIF, 'translator'))
    import importlib
    import py2coq
    importlib.reload(py2coq)
    return py2coq.generate_all(REPO, os.path.join(COQ, 'Gen'))


def _private_coq():
    """When checking a scratch copy of the repository (VERIF_REPO=...), work on a private copy of
    coq/ so that the regenerated Gen/*.v do not disturb checks running against /repo."""
    global COQ
    if PRIVATE_COQ and not COQ.startswith(scratch()):
        dst = os.path.join(scratch(), 'coq')
        sh(['rsync', '-a', '--exclude', '.build.lock', os.path.join(VERIF, 'coq') + '/', dst + '/'])
        COQ = dst


def coq_build(targets=None, timeout=1500, keep_going=True):
    """(Re)build the Coq development (full .vo build).  Returns (rc, log, translator problems).
    With targets (e.g. ['Props/C15.vo']) only those and their dependencies are built."""
    _private_coq()
    lock = _lock()
    try:
        problems = regenerate_gen()
        # refresh _CoqProject file list
        files = []
        for sub in ('Base', 'Model', 'Gen', 'Proofs', 'Props'):
            d = os.path.join(COQ, sub)
            for fn in sorted(os.listdir(d)):
                if fn.endswith('.v'):
                    files.append('%s/%s' % (sub, fn))
        proj = '-Q . TenpyV\n' + '\n'.join(files) + '\n'
        pj = os.path.join(COQ, '_CoqProject')
        old = open(pj).read() if os.path.exists(pj) else ''
        if old != proj or not os.path.exists(os.path.join(COQ, 'Makefile')):
            with open(pj, 'w') as f:
                f.write(proj)
            rc, out = sh('coq_makefile -f _CoqProject -o Makefile', cwd=COQ, timeout=120)
            if rc != 0:
                return rc, out, problems
        if targets:
            tg = ' '.join(t if t.endswith('.vo') else t + 'o' for t in targets)
            # a stale .vo of a file that no longer compiles must not survive
            for t in targets:
                pass
        else:
            tg = ''
        rc, out = sh('timeout %d make %s -j%d %s 2>&1' % (timeout, '-k' if keep_going else '', NPROC, tg), cwd=COQ,
                     timeout=timeout + 30)
        return rc, out, problems
    finally:
        lock.close()


def _gen_deps(prop_id):
    """names of Gen files the property file depends on (transitively), via coqdep."""
    return [os.path.basename(f)[:-2] for f in _dep_files(prop_id) if f.startswith('Gen/')]


def _dep_files(prop_id):
    rc, out = sh('coqdep -Q . TenpyV -sort Props/%s.v 2>/dev/null' % prop_id, cwd=COQ, timeout=120)
    return [f for f in (out or '').split() if f.endswith('.v')]


def hygiene(prop_id=None):
    """grep gate: no Admitted/Axiom/... in the development (comments stripped).  With prop_id only
    the files Props/<prop_id>.v depends on (so that another property's work in progress does not
    interfere); without, every file."""
    bad = []
    if prop_id is not None:
        files = [os.path.join(COQ, f) for f in _dep_files(prop_id)]
    else:
        files = [os.path.join(root, fn) for root, _, fns in os.walk(COQ) for fn in fns if fn.endswith('.v')]
    if True:
        for p in files:
            fn = os.path.basename(p)
            txt = open(p).read()
            txt = strip_coq_comments(txt)
            for i, line in enumerate(txt.split('\n')):
                if FORBIDDEN.search(line):
                    bad.append('%s:%d: %s' % (os.path.relpath(p, VERIF), i + 1, line.strip()))
                if re.match(r'\s*(Variable|Variables|Hypothesis|Hypotheses|Context)\b', line):
                    # allowed only inside a Section: checked structurally below
                    pass
            bad.extend(_vars_outside_sections(txt, os.path.relpath(p, VERIF)))
    return bad


def strip_coq_comments(txt):
    out = []
    depth = 0
    i = 0
    n = len(txt)
    instr = False
    while i < n:
        if depth == 0 and txt[i] == '"':
            instr = not instr
            out.append(txt[i])
            i += 1
            continue
        if not instr and txt.startswith('(*', i):
            depth += 1
            i += 2
            continue
        if not instr and depth > 0 and txt.startswith('*)', i):
            depth -= 1
            i += 2
            continue
        if depth == 0:
            out.append(txt[i])
        elif txt[i] == '\n':
            out.append('\n')
        i += 1
    return ''.join(out)


def _vars_outside_sections(txt, name):
    bad = []
    depth = 0
    for i, line in enumerate(txt.split('\n')):
        s = line.strip()
        if re.match(r'Section\s+\w+\s*\.', s):
            depth += 1
        elif re.match(r'End\s+\w+\s*\.', s) and depth > 0:
            depth -= 1
        elif re.match(r'(Variable|Variables|Hypothesis|Hypotheses|Context)\b', s) and depth == 0:
            bad.append('%s:%d: %s outside a Section' % (name, i + 1, s.split()[0]))
    return bad


def load_obligations():
    out = {}
    d = os.path.join(VERIF, 'harness', 'obligations')
    for fn in sorted(os.listdir(d)):
        if fn.endswith('.json'):
            out.update(json.load(open(os.path.join(d, fn))))
    return out


def check_proofs(prop_id, extra_targets=()):
    """Build everything Props/<prop_id>.v needs, compile it, read Print Assumptions.

    Returns ProofStatus.  A failure here is a broken proof obligation (not yet a violation of
    the property: the caller then searches for a failing input).
    """
    st = ProofStatus()
    obl = load_obligations().get(prop_id, [])
    st.obligations = len(obl)
    st.partial = [t for t in obl if t.endswith('_partial')]
    st.refuted = [t for t in obl if t.endswith('_refuted')]
    t0 = time.time()
    rc, out, problems = coq_build(targets=['Props/%s.vo' % prop_id] + list(extra_targets))
    # translator problems of functions this property does not use are not its obligations
    used = open(os.path.join(COQ, 'Props', prop_id + '.v')).read() if os.path.exists(os.path.join(COQ, 'Props', prop_id + '.v')) else ''
    st.checker_cmd = ('python3 translator/py2coq.py (regenerate coq/Gen from /repo) && cd coq && '
                      'coq_makefile -f _CoqProject -o Makefile && make -j%d (full .vo build) && '
                      'coqc -Q . TenpyV Props/%s.v (Print Assumptions)' % (NPROC, prop_id))
    st.build_log_tail = out[-3000:]
    gens = set(_gen_deps(prop_id))
    for p in problems:
        if p.split('|')[0] in gens or '|' not in p:
            st.ok = False
            st.problems.append('translator: ' + p)
    if rc != 0:
        st.ok = False
        m = re.findall(r'File "([^"]+)", line (\d+)[^\n]*\n((?:[^\n]*\n){0,12})', out)
        if m:
            f, l, txt = m[0]
            st.problems.append('coq build failed at %s:%s: %s' % (f, l, ' '.join(txt.split())[:600]))
        else:
            st.problems.append('coq build failed (rc=%d): %s' % (rc, out[-600:]))
    bad = hygiene(prop_id)
    if bad:
        st.ok = False
        st.problems.extend('hygiene: ' + b for b in bad[:10])
    props_v = os.path.join(COQ, 'Props', prop_id + '.v')
    src = strip_coq_comments(open(props_v).read())
    declared = re.findall(r'^\s*Theorem\s+(\w+)', src, re.M)
    printed = re.findall(r'^\s*Print Assumptions\s+(\w+)\s*\.', src, re.M)
    for t in obl:
        if t not in declared:
            st.ok = False
            st.problems.append('obligation %s missing from Props/%s.v' % (t, prop_id))
        if t not in printed:
            st.ok = False
            st.problems.append('no Print Assumptions for %s' % t)
    for t in declared:
        if t not in obl:
            st.ok = False
            st.problems.append('theorem %s in Props/%s.v is not in harness/obligations.json' % (t, prop_id))
    if rc == 0:
        # compile the property file once more, capturing its output (Print Assumptions)
        d = scratch()
        tmpv = os.path.join(d, 'PA_%s.v' % prop_id)
        with open(tmpv, 'w') as f:
            f.write('From TenpyV Require Import Props.%s.\n' % prop_id)
            for t in obl:
                f.write('Print Assumptions %s.\n' % t)
        rc2, out2 = sh('timeout 600 coqc -Q %s TenpyV %s' % (COQ, tmpv), cwd=d, timeout=620)
        if rc2 != 0:
            st.ok = False
            st.problems.append('Print Assumptions run failed: ' + out2[-400:])
        else:
            blocks = re.split(r'(?=Closed under the global context|Axioms:)', out2)
            blocks = [b.strip() for b in blocks if b.strip().startswith(('Closed', 'Axioms:'))]
            if len(blocks) != len(obl):
                st.ok = False
                st.problems.append('expected %d assumption reports, got %d' % (len(obl), len(blocks)))
            for t, b in zip(obl, blocks):
                st.assumptions[t] = ' '.join(b.split())[:400]
                if b.startswith('Closed'):
                    st.discharged += 1
                else:
                    names = re.findall(r'^(\S+)\s*:', b[len('Axioms:'):], re.M)
                    if all(n in ALLOWED_AXIOMS for n in names) and names:
                        st.discharged += 1
                    else:
                        st.ok = False
                        st.problems.append('theorem %s depends on %s' % (t, names))
    st.wall = time.time() - t0
    return st


def coq_eval(name, body, imports, timeout=900):
    """Compile a generated case file in scratch; return (rc, stdout).

    `body` is Coq text that ends in vernacular printing something (Eval vm_compute in ...).
    """
    d = scratch()
    fn = os.path.join(d, name + '.v')
    with open(fn, 'w') as f:
        f.write('From Coq Require Import ZArith List String Bool.\nImport ListNotations.\n')
        f.write('Open Scope Z_scope.\n')
        for imp in imports:
            f.write('From TenpyV Require Import %s.\n' % imp)
        f.write(body)
    return sh('ulimit -s unlimited; timeout %d coqc -Q %s TenpyV %s' % (timeout, COQ, fn), cwd=d,
              timeout=timeout + 30)


def coq_failing_indices(name, imports, checker, cases, timeout=900, shard=400, preamble=''):
    """Evaluate `checker : case -> bool` on the cases (Coq literals) inside Coq.

    Returns (failing_indices, error_text_or_None).  One coqc per shard, run in parallel.
    """
    d = scratch()
    jobs = []
    for s in range(0, len(cases), shard):
        part = cases[s:s + shard]
        # the element type is taken from the checker, so that a shard whose literals do not determine it
        # (only `None`s / empty lists) still elaborates
        body = 'Definition dom_of_ {A B : Type} (f : A -> B) : Type := A.\n'
        body += 'Definition cases : list (dom_of_ %s) := [\n' % checker + ';\n'.join(part) + '\n].\n'
        body += ('Definition bad := map fst (filter (fun ic => negb (%s (snd ic))) '
                 '(combine (seq 0 (length cases)) cases)).\n' % checker)
        body += 'Eval vm_compute in bad.\n'
        nm = '%s_%d' % (name, s // shard)
        fn = os.path.join(d, nm + '.v')
        with open(fn, 'w') as f:
            f.write('From Coq Require Import ZArith List String Bool.\nImport ListNotations.\n')
            f.write('Open Scope Z_scope.\n')
            for imp in imports:
                f.write('From TenpyV Require Import %s.\n' % imp)
            f.write(preamble)
            f.write(body)
        jobs.append((s, fn))
    procs = []
    failing = []
    err = None
    maxpar = max(1, NPROC // 2)
    pending = list(jobs)
    running = []
    while pending or running:
        while pending and len(running) < maxpar:
            s, fn = pending.pop(0)
            p = subprocess.Popen('ulimit -s unlimited; timeout %d coqc -Q %s TenpyV %s' % (timeout, COQ, fn),
                                 shell=True, cwd=d, stdout=subprocess.PIPE, stderr=subprocess.STDOUT,
                                 text=True)
            running.append((s, fn, p))
        s, fn, p = running.pop(0)
        out, _ = p.communicate()
        if p.returncode != 0:
            err = (err or '') + 'coqc failed on %s: %s\n' % (os.path.basename(fn), out[-800:])
            continue
        m = re.search(r'=\s*\[(.*?)\]\s*:\s*list nat', out, re.S)
        if not m:
            err = (err or '') + 'cannot parse coqc output for %s: %s\n' % (os.path.basename(fn), out[-400:])
            continue
        txt = m.group(1).strip()
        if txt:
            for tok in txt.split(';'):
                tok = tok.strip().replace('%nat', '')
                failing.append(s + int(tok))
    return sorted(failing), err


# ----------------------------------------------------------------------------------------
# Implementation runs
# ----------------------------------------------------------------------------------------

def impl_env(config='py', optimize0=False, extra=None):
    env = dict(os.environ)
    env['PYTHONHASHSEED'] = '0'
    env['PYTHONDONTWRITEBYTECODE'] = '1'
    env['OMP_NUM_THREADS'] = '1'
    env['MKL_NUM_THREADS'] = '1'
    env['OPENBLAS_NUM_THREADS'] = '1'
    env['PYTHONWARNINGS'] = 'ignore'
    if config == 'py':
        env['PYTHONPATH'] = REPO
        env['TENPY_NO_CYTHON'] = '1'
    elif config == 'cy':
        env['PYTHONPATH'] = cy_build()
        env.pop('TENPY_NO_CYTHON', None)
    else:
        raise ValueError(config)
    if optimize0 and config == 'py':
        # (the compiled replacements are inactive at TENPY_OPTIMIZE=0, so 'cy' always runs at the default level)
        env['TENPY_OPTIMIZE'] = '0'
    env['VERIF_DIR'] = VERIF
    if extra:
        env.update(extra)
    return env


def run_impl(script, payload, config='py', optimize0=False, timeout=1800, extra_env=None):
    """Run harness/impl/<script> in a fresh interpreter on `payload` (JSON via files).

    Returns (result_obj or None, error text or None)."""
    d = scratch()
    tag = hashlib.sha1(('%s%s%f%d' % (script, config, time.time(), random.random() * 1e9)).encode()).hexdigest()[:10]
    fin = os.path.join(d, 'in_%s.json' % tag)
    fout = os.path.join(d, 'out_%s.json' % tag)
    with open(fin, 'w') as f:
        json.dump(payload, f)
    env = impl_env(config, optimize0, extra_env)
    rc, out = sh([PY, os.path.join(VERIF, 'harness', 'impl', script), fin, fout], timeout=timeout,
                 env=env, cwd=d)
    if rc != 0 or not os.path.exists(fout):
        return None, 'impl runner %s failed rc=%s: %s' % (script, rc, out[-2000:])
    res = json.load(open(fout))
    os.unlink(fin)
    os.unlink(fout)
    return res, None


def run_impl_parallel(script, payloads, config='py', optimize0=False, timeout=1800, extra_env=None,
                      maxpar=None):
    """Run several payloads in parallel processes; returns list of (res, err)."""
    from concurrent.futures import ThreadPoolExecutor
    maxpar = maxpar or NPROC
    with ThreadPoolExecutor(max_workers=maxpar) as ex:
        futs = [ex.submit(run_impl, script, p, config, optimize0, timeout, extra_env) for p in payloads]
        return [f.result() for f in futs]


_cy_dir = None
_cy_lock = __import__('threading').Lock()


def cy_build():
    with _cy_lock:
        return _cy_build()


def _cy_build():
    """Rebuild the compiled extension from the *current* /repo tree into a cache directory
    (outside /repo and /verif) keyed by the content of the compiled sources.  Returns the
    directory to put on PYTHONPATH."""
    global _cy_dir
    if _cy_dir:
        return _cy_dir
    h = hashlib.sha256()
    rels = ['setup.py'] + sorted('tenpy/linalg/' + f for f in os.listdir(os.path.join(REPO, 'tenpy', 'linalg'))
                                 if f.endswith(('.pyx', '.pxd')))
    for rel in rels:
        h.update(open(os.path.join(REPO, rel), 'rb').read())
    key = h.hexdigest()[:16]
    base = os.environ.get('VERIF_SCRATCH_BASE', '/var/tmp')
    cache = os.path.join(base, 'verif-cy-cache')
    os.makedirs(cache, exist_ok=True)
    dest = os.path.join(cache, key)
    lockf = open(os.path.join(cache, '.lock'), 'w')
    fcntl.flock(lockf, fcntl.LOCK_EX)
    try:
        so_dir = os.path.join(dest, 'so')
        if not (os.path.isdir(so_dir) and any(f.endswith('.so') for f in os.listdir(so_dir))):
            # prune old caches: keep the four most recent builds (scratch-copy runs have other keys)
            olds = sorted((o for o in os.listdir(cache) if o not in (key, '.lock')),
                          key=lambda o: os.path.getmtime(os.path.join(cache, o)))
            for old in olds[:-3]:
                shutil.rmtree(os.path.join(cache, old), ignore_errors=True)
            shutil.rmtree(dest, ignore_errors=True)
            os.makedirs(dest)
            bdir = os.path.join(dest, 'build')
            os.makedirs(os.path.join(bdir, 'tenpy', 'linalg'))
            shutil.copy(os.path.join(REPO, 'setup.py'), bdir)
            for rel in rels[1:]:
                shutil.copy(os.path.join(REPO, rel), os.path.join(bdir, 'tenpy', 'linalg'))
            for f in ('__init__.py', 'version.py'):
                shutil.copy(os.path.join(REPO, 'tenpy', f), os.path.join(bdir, 'tenpy'))
            open(os.path.join(bdir, 'tenpy', 'linalg', '__init__.py'), 'w').close()
            env = dict(os.environ)
            env['PYTHONPATH'] = ''
            rc, out = sh([PY, 'setup.py', 'build_ext', '--inplace'], cwd=bdir, timeout=900, env=env)
            sos = [f for f in os.listdir(os.path.join(bdir, 'tenpy', 'linalg')) if f.endswith('.so')]
            if rc != 0 or not sos:
                raise RuntimeError('cython rebuild failed: ' + out[-1500:])
            os.makedirs(so_dir)
            shutil.copy(os.path.join(bdir, 'tenpy', 'linalg', sos[0]), so_dir)
            shutil.rmtree(bdir, ignore_errors=True)
    finally:
        lockf.close()
    # overlay directory: symlink tree of the current /repo/tenpy with the rebuilt .so
    ov = os.path.join(scratch(), 'cy_overlay')
    if not os.path.isdir(ov):
        _overlay(os.path.join(REPO, 'tenpy'), os.path.join(ov, 'tenpy'), so_dir)
    _cy_dir = ov
    return ov


def _overlay(src, dst, so_dir):
    os.makedirs(dst)
    for name in os.listdir(src):
        s = os.path.join(src, name)
        d = os.path.join(dst, name)
        if name == '__pycache__' or name.endswith('.so') or name.endswith('.cpp'):
            continue
        if os.path.isdir(s):
            _overlay(s, d, so_dir)
        else:
            os.symlink(s, d)
    if dst.endswith(os.path.join('tenpy', 'linalg')):
        for f in os.listdir(so_dir):
            os.symlink(os.path.join(so_dir, f), os.path.join(dst, f))


# ----------------------------------------------------------------------------------------
# Verdict, evidence, replay, known findings
# ----------------------------------------------------------------------------------------

def _known_file():
    return os.path.join(VERIF, 'KNOWN_FINDINGS.json')


class Ctx:
    """State of one check run."""

    def __init__(self, prop_id, tier, seed, replay=None):
        self.prop = prop_id
        self.tier = tier
        self.seed = seed
        self.replay_in = replay
        self.t0 = time.time()
        self.rng = random.Random(seed * 1000003 + int(prop_id[1:]))
        self.proof = None
        self.violations = []      # dicts: {kind, what, input, ...}
        self.known_hits = {}      # finding id -> text
        self.cov = {'evaluations': 0, 'distinct_nontrivial': 0, 'samples': [], 'streams': {}}
        self._distinct = set()
        self.assumptions = []
        self.notes = []
        self.level = 'proof'
        self.known = [k for k in json.load(open(os.path.join(VERIF, 'KNOWN_FINDINGS.json')))['findings']
                      if k['property'] == prop_id and k.get('status') == 'known']

    def thorough(self):
        return self.tier == 'thorough'

    def pick(self, quick, thorough):
        return thorough if self.tier == 'thorough' else quick

    def count(self, stream, case_key, nontrivial=True, sample=None):
        """Account one explored case."""
        self.cov['evaluations'] += 1
        s = self.cov['streams'].setdefault(stream, {'evaluations': 0, 'nontrivial': 0})
        s['evaluations'] += 1
        if nontrivial:
            s['nontrivial'] += 1
            k = hashlib.sha1((stream + '|' + json.dumps(case_key, sort_keys=True, default=str)).encode()).digest()[:10]
            self._distinct.add(k)
        if sample is not None and len(self.cov['samples']) < 12:
            if sum(1 for x in self.cov['samples'] if x.get('stream') == stream) < 2:
                self.cov['samples'].append({'stream': stream, 'case': sample})

    def matches_known(self, what_key):
        """Return the known finding whose 'match' key equals what_key (exact string)."""
        for k in self.known:
            if k['match'] == what_key:
                return k
        return None

    def fail(self, kind, what, case, match_key=None):
        """Record a failing input.  kind: 'oracle' (impl violates the property on `case`),
        'correspondence' (model and impl disagree), 'proof' (obligation broken)."""
        if match_key is not None:
            k = self.matches_known(match_key)
            if k is not None:
                self.known_hits[k['id']] = k['what']
                return
        self.violations.append({'kind': kind, 'what': what, 'case': case, 'match_key': match_key})

    def finish(self, rule, explanation=''):
        """Write evidence, print verdict lines, return exit code."""
        prop = self.prop
        st = self.proof
        rc = 0
        lines = []
        for fid, what in sorted(self.known_hits.items()):
            lines.append('KNOWN-FINDING: property=%s %s (%s)' % (prop, what, fid))
        # known findings that did not reproduce are reported as a note (not an alarm)
        for k in self.known:
            if k['id'] not in self.known_hits:
                self.notes.append('known finding %s did not reproduce in this run' % k['id'])
        oracle_v = [v for v in self.violations if v['kind'] == 'oracle']
        other_v = [v for v in self.violations if v['kind'] != 'oracle']
        proof_broken = st is not None and not st.ok
        os.makedirs(os.path.join(OUT, 'replays'), exist_ok=True)
        if oracle_v:
            v = oracle_v[0]
            path = self._write_replay(v, st, found=True)
            lines.append('VIOLATION property=%s replay=%s' % (prop, path))
            rc = 1
        elif other_v or proof_broken:
            v = other_v[0] if other_v else {'kind': 'proof', 'what': '; '.join(st.problems[:3]), 'case': None}
            path = self._write_replay(v, st, found=False)
            lines.append('VIOLATION property=%s replay=%s no-failing-input-found' % (prop, path))
            rc = 1
        self.cov['distinct_nontrivial'] = len(self._distinct)
        self.cov['rule'] = rule
        if st is not None:
            if st.discharged >= 1:
                self.cov['obligations'] = st.obligations
                self.cov['discharged'] = st.discharged
            else:   # schema: proof-level keys need discharged >= 1; fall back to the generic keys
                self.cov['obligations_total'] = st.obligations
                self.cov['discharged_count'] = 0
            self.cov['checker_cmd'] = st.checker_cmd
            self.cov['print_assumptions'] = st.assumptions
            self.cov['partial_theorems'] = st.partial
            self.cov['refuted_theorems'] = st.refuted
            self.cov['proof_problems'] = st.problems
        self.cov['trusted_base'] = TRUSTED_BASE + self.assumptions
        self.cov['explanation'] = explanation
        self.cov['known_findings_hit'] = sorted(self.known_hits)
        self.cov['notes'] = self.notes
        ev = {
            'property_id': prop, 'tier': self.tier, 'seed': self.seed, 'level': self.level,
            'coverage': self.cov, 'assumptions': TRUSTED_BASE + self.assumptions,
            'wall_s': round(time.time() - self.t0, 2), 'violations': len(self.violations),
        }
        os.makedirs(os.path.join(OUT, 'evidence'), exist_ok=True)
        with open(os.path.join(OUT, 'evidence', prop + '.json'), 'w') as f:
            json.dump(ev, f, indent=1, default=str)
        for l in lines:
            print(l)
        print('%s %s tier=%s seed=%d evaluations=%d distinct_nontrivial=%d obligations=%s/%s wall=%.0fs' % (
            'FAIL' if rc else 'OK', prop, self.tier, self.seed, self.cov['evaluations'],
            self.cov['distinct_nontrivial'], st.discharged if st else '-', st.obligations if st else '-',
            time.time() - self.t0))
        sys.stdout.flush()
        return rc

    def _write_replay(self, v, st, found):
        h = hashlib.sha1(json.dumps(v, sort_keys=True, default=str).encode()).hexdigest()[:12]
        path = os.path.join(OUT, 'replays', '%s-%s.json' % (self.prop, h))
        doc = {
            'property': self.prop, 'seed': self.seed, 'tier': self.tier, 'kind': v['kind'],
            'what': v['what'], 'input': v['case'], 'failing_input_found': found,
            'all_violations': [{'kind': x['kind'], 'what': x['what']} for x in self.violations[:20]],
            'how_to_rerun': './check %s --replay %s' % (self.prop, path),
        }
        if not found:
            doc['no_longer_checks'] = (st.problems if st is not None and not st.ok else []) + \
                [x['what'] for x in self.violations if x['kind'] != 'oracle'][:10]
        with open(path, 'w') as f:
            json.dump(doc, f, indent=1, default=str)
        return path


TRUSTED_BASE = [
    'Coq 8.16.1 kernel incl. its VM (vm_compute); no native_compute',
    'no axioms: every property theorem must print "Closed under the global context"',
    'harness: generators, canonicalisation and numpy oracles in /verif/harness (python)',
    'translator/py2coq.py for the regenerated coq/Gen/*.v files',
    'correspondence by generated case files evaluated with vm_compute inside coqc (no extraction)',
]


def corpus_cases(prop_id):
    d = os.path.join(VERIF, 'corpus', prop_id)
    out = []
    if os.path.isdir(d):
        for fn in sorted(os.listdir(d)):
            if fn.endswith('.json'):
                out.append(json.load(open(os.path.join(d, fn))))
    return out
