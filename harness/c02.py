"""C02 - charge rule and storage invariants are closed under every operation.

proof gate (coq/Props/C02.v) + the random programs of harness/npc_gen.py (shared with C01): after EVERY step, on EVERY
live object: the object's own test_sanity() and an independent recomputation of the invariants (no duplicate _qdata row,
charge rule per stored block, block shapes / dtype, _qdata_sorted truthful against a recomputed lexsort, C-contiguity,
LegCharge.sorted / bunched truthful, is_sorted()/is_bunched()/is_blocked() correct, qtotal = documented function of the
operands' qtotals).  Configurations: pure Python at TENPY_OPTIMIZE=0 (all self-checks of tenpy active) and the rebuilt
extension at the default level (the extension is only used there).  Leg-level programs exercise LegCharge / LegPipe methods.
The operations covered by coq/Model/TensorOps.v are executed by the Coq model: the boolean WF predicate of the model is
evaluated on the storage the implementation produced, and the model's qtotal is compared.
Streams of harness/c02_linalg.py (kind 'c02x' of the shared runner): the public functions / classes of tenpy.linalg that return tensors or
legs but are no methods reached by the program generator - LegCharge lookups (get_charge / get_qindex_of_charges / get_qindex / get_slice ...
round trips on legs of both directions), sparse.FlatLinearOperator / FlatHermitianOperator (every charge sector of legs with both qconj, compact
and non-compact flat mode, from_NpcArray / constructor / charge_sector setter / from_guess_with_pipe, flat <-> npc round trips, the tensors
handed to the user's matvec, eigenvectors), constructors, factorizations, gram_schmidt, the NpcLinearOperator wrappers - with the same
invariant oracle on every returned object.  The public API of tenpy.linalg is enumerated by reflection and the coverage is recorded in the evidence.
Coverage audit (harness/c02_cov.py, c02_depth.py, c02_ops2.py): the tensor / leg programs run through kind 'c02x' too (c02_depth.DepthRunner: input classes of the
operands, additional invariants - internal maps of LegPipes, storage types -, single precision tensors, stratified leg pools); line recording (sys.monitoring) and
option recording (wrappers) in every runner process of the pure-Python configuration; streams api-options / dipolar-charges / leg-histories; the tables line_coverage,
option_coverage and input_class_coverage of the evidence: unreached and unclassified = correspondence failure (`coverage hole`).
"""
import os

import common
import c01_common as cc
import c02_cov
import c02_depth
import c02_linalg
import c02_ops2
import npc_gen
from c01 import replay, coq_stream

PROP = 'C02'
COQ_IMPORTS2 = ['Base.Prelude', 'Model.Charge', 'Model.Tensor', 'Model.TensorOps', 'Model.TensorCheck', 'Model.TakeSlice', 'Model.TensorProg',
                'Model.TensorProgCheck']


def coq_stream2(ctx, results, programs, max_cases, config, opt0):
    """second correspondence stream: iswapaxes / gauge_total_charge / take_slice on one axis against Model/TensorProg.v, TakeSlice.v
    (checker check_case_c02x of Model/TensorProgCheck.v: same legs, qtotal, _qdata rows in order, claim, dense form; WF of both)"""
    cases, origin = [], []
    for pi, res in enumerate(results):
        for rec in res.get('coq2', []):
            if len(cases) >= max_cases:
                break
            try:
                lit = cc.coq_case2(rec)
            except Exception as e:
                ctx.fail('correspondence', 'cannot build Coq literal (coq2): %r' % (e,), None)
                lit = None
            if lit is not None:
                cases.append('(%s : case2)' % lit)
                origin.append((pi, 'take_slice' if rec['op'] == 'getitem' else rec['op']))
    if not cases:
        return 0, {}
    bad, err = common.coq_failing_indices('cases_c02x', COQ_IMPORTS2, 'check_case_c02x', cases, shard=150)
    if err:
        ctx.fail('correspondence', 'model evaluation failed (coq2): ' + err[-800:], None)
    per_op = {}
    for _, opn in origin:
        per_op[opn] = per_op.get(opn, 0) + 1
    for b in bad[:5]:
        pi, opn = origin[b]
        ctx.fail('correspondence', 'Coq model (check_case_c02x) and implementation disagree on operation %s' % opn,
                 {'stream': 'c02x', 'program': programs[pi], 'config': config, 'optimize0': opt0, 'coq_case': cases[b][:3000]})
    for _ in cases:
        ctx.count('model-vs-impl', len(ctx._distinct), nontrivial=False)
    return len(cases), per_op


COQ_IMPORTS3 = ['Base.Prelude', 'Model.Charge', 'Model.Tensor', 'Model.TakeSlice', 'Model.TensorCheck', 'Model.LegLookup', 'Model.LegLookupCheck']


def coq_stream3(ctx, results, cases, max_cases, config, opt0):
    """third correspondence stream: LegCharge.get_charge / get_qindex_of_charges against Model/LegLookup.v (checker check_lookup_case of
    Model/LegLookupCheck.v: get_charge of every block and the result of every recorded look-up, ValueError = None)"""
    lits, origin = [], []
    for ci, res in enumerate(results):
        for rec in res.get('coq3', []):
            if len(lits) >= max_cases:
                break
            lg = rec['leg']
            lit = common.coq_lit((rec['mods'], (lg['sizes'], lg['charges'], lg['qconj']), rec['blockcharges'],
                                  [(c, common.opt(r)) for c, r in rec['queries']]))
            lits.append('(%s : lookup_case)' % lit)
            origin.append(ci)
    if not lits:
        return 0
    bad, err = common.coq_failing_indices('cases_c02_lookup', COQ_IMPORTS3, 'check_lookup_case', lits, shard=400)
    if err:
        ctx.fail('correspondence', 'model evaluation failed (coq3): ' + err[-800:], None)
    for b in bad[:5]:
        ctx.fail('correspondence', 'Coq model (check_lookup_case: get_charge / get_qindex_of_charges) and implementation disagree',
                 {'stream': 'c02x', 'program': cases[origin[b]], 'config': config, 'optimize0': opt0, 'coq_case': lits[b][:3000]})
    for _ in lits:
        ctx.count('model-vs-impl', len(ctx._distinct), nontrivial=False)
    return len(lits)


XSTREAM = {'flatop': 'flat-operator', 'flatpipe': 'flat-operator-pipe', 'leglookup': 'leg-lookups', 'linalg': 'linalg-functions',
           'apiopts': 'api-options', 'dipolar': 'dipolar-charges', 'legops': 'leg-histories'}


class Cov:
    """line / option recording of the runner processes (pure-Python configuration), merged over all streams"""

    def __init__(self):
        self.lines = {}
        self.params = set()
        self.src = {}

    def add(self, results):
        for r in results:
            for s_, ls in (r.get('cov') or {}).items():
                self.lines.setdefault(s_, set()).update(ls)
            for t in r.get('params') or ():
                self.params.add(tuple(t))
            for s_, sha in (r.get('cov_src') or {}).items():
                self.src.setdefault(s_, set()).add(sha)


def wrap(prog, inner_kind, cov):
    """a tensor / leg program of npc_gen.py as a case of kind 'c02x' (harness/c02_linalg.run_wrap)"""
    w = {'kind2': 'wrap', 'inner_kind': inner_kind, 'inner': prog, 'seed': prog.get('seed'), 'mods': prog.get('mods')}
    if cov:
        w['cov'] = True
    return w


def linalg_streams(ctx, rng, seen, all_hist, cov):
    """streams of harness/c02_linalg.py + coverage table of the public API of tenpy.linalg (by reflection, in the implementation's interpreter)"""
    nx = {'leglookup': ctx.pick(400, 4000), 'flatop': ctx.pick(300, 2800), 'flatpipe': ctx.pick(120, 1200), 'linalg': ctx.pick(200, 2000)}
    if not ctx.proof.ok:
        nx = {k: 3 * v for k, v in nx.items()}
    nx2 = {'apiopts': ctx.pick(72, 640), 'dipolar': ctx.pick(80, 600), 'legops': ctx.pick(400, 3000)}
    if not ctx.proof.ok:
        nx2 = {k: 3 * v for k, v in nx2.items()}
    cases = [c['xcase'] for c in common.corpus_cases(PROP) if 'xcase' in c]
    cases += [c02_linalg.gen_case(rng, k) for k, n in nx.items() for _ in range(n)]
    cases += c02_ops2.extra_cases(rng, nx2)
    api_calls = {}
    for config, opt0, sel in (('py', True, [dict(c, cov=True) for c in cases]), ('cy', False, cases[::4])):
        results, infos, crashes = cc.run_programs('c02x', sel, config, opt0)
        cov.add(results)
        for kind2, stream in XSTREAM.items():
            idx = [i for i, c in enumerate(sel) if c['kind2'] == kind2]
            hist, notes = cc.collect(ctx, PROP, '%s-%s' % (stream, config), [sel[i] for i in idx], [results[i] for i in idx],
                                     [], config, opt0, kind='c02x', seen_keys=seen)
            all_hist['%s-%s' % (stream, config)] = {k: v for k, v in sorted(hist.items()) if not k.startswith('api:')}
            for k, v in hist.items():
                if k.startswith('api:'):
                    api_calls[k[4:]] = api_calls.get(k[4:], 0) + v
            if notes:
                ctx.notes.append('%s-%s: observations outside C02 (not counted): %s' % (stream, config, dict(sorted(notes.items())[:12])))
        if config == 'py':
            ctx.cov['lookup_model_vs_impl_cases'] = coq_stream3(ctx, results, sel, ctx.pick(400, 4000), config, opt0)
        for c in crashes:
            ctx.fail('correspondence', 'the interpreter running the c02x streams died (exit %s): %s' % (c['rc'], c['out'][-300:]),
                     {'stream': 'c02x', 'config': config, 'optimize0': opt0, 'program': sel[c['index']]})
    res, infos, crashes = cc.run_programs('c02x', [{'kind2': 'reflect', 'seed': 0, 'mods': [], 'names': []}], 'py', True, nchunks=1)
    api = res[0].get('api_list') if res else None
    if not api:
        ctx.fail('correspondence', 'reflection of the public API of tenpy.linalg failed: %s' % (res[0].get('fails') if res else crashes), None)
        return api_calls
    prog_ops = {}
    for stream in ('py', 'cy', 'legs'):
        for k, v in all_hist.get(stream, {}).items():
            if k.startswith('op:'):
                full = k[3:]
                for key in {full, full.split('.')[-1]} if stream != 'legs' else {full}:
                    prog_ops[key] = prog_ops.get(key, 0) + v
    gen_source = ''.join(open(os.path.join(common.VERIF, 'harness', f)).read() for f in ('npc_gen.py', 'c02_depth.py', 'c02_ops2.py'))
    table = c02_linalg.coverage_table(api, api_calls, gen_source, prog_ops)
    unc = sorted(k for k, v in table.items() if v == 'UNCOVERED')
    ctx.cov['public_api_coverage'] = {'modules': ['tenpy.linalg.' + m for m in c02_linalg.API_MODULES], 'names': len(table),
                                      'by_c02x_streams': sum(1 for v in table.values() if v.startswith('c02x')),
                                      'by_programs': sum(1 for v in table.values() if v.startswith('tensor')),
                                      'not_in_C02': sum(1 for v in table.values() if v.startswith('not in C02')), 'uncovered': unc, 'table': table}
    if unc:
        ctx.fail('correspondence', 'coverage hole (public API): public names of tenpy.linalg neither reached by a C02 stream nor classified: %s' % unc, None)
    return api_calls


def main(ctx):
    if ctx.replay_in:
        ctx.proof = None
        return replay(ctx, PROP)
    rng = ctx.rng
    ctx.proof = common.check_proofs(PROP, extra_targets=['Model/TensorCheck.vo', 'Model/TensorProgCheck.vo', 'Model/LegLookupCheck.vo'])
    nprog = ctx.pick(1400, 12000)
    nleg = ctx.pick(2500, 20000)
    if not ctx.proof.ok:
        nprog *= 3
    corpus = [c['program'] for c in common.corpus_cases(PROP) if 'program' in c]
    programs = corpus + [npc_gen.make_program(rng, ctx.tier, record_coq=2) for _ in range(nprog)]
    for i, p in enumerate(programs[len(corpus):]):
        # histories: longer than for C01 (the false claim only hurts a few steps later)
        p['nsteps'] = p['n_init'] + rng.randint(2, ctx.pick(10, 25))
        # single precision tensors in the histories; leg classes of the pool forced by stratification (harness/c02_depth.DepthRunner, c02_ops2.stratify_pool)
        p['single_p'] = 0.2
        c02_ops2.stratify_pool(p, i, rng)
    seen, all_hist, coq_done = {}, {}, {}
    cov = Cov()
    for config, opt0 in (('py', True), ('cy', False)):
        # through kind 'c02x' of the shared runner: harness/c02_depth.DepthRunner = the program runner of npc_gen.py + input classes of the
        # operands + the additional invariants (+ line / option recording in the pure-Python configuration)
        wrapped = [wrap(p, 'programs', config == 'py') for p in programs]
        results, infos, crashes = cc.run_programs('c02x', wrapped, config, opt0)
        cov.add(results)
        if config == 'cy' and not all(i.get('have_cython') for i in infos if i):
            ctx.fail('correspondence', 'the rebuilt extension was not loaded in the cy configuration', None)
        hist, notes = cc.collect(ctx, PROP, 'histories-' + config, wrapped, results, crashes, config, opt0, kind='c02x', seen_keys=seen)
        all_hist[config] = {k: v for k, v in sorted(hist.items())}
        if notes:
            ctx.notes.append('%s: observations outside C02 (not counted): %s' % (config, dict(sorted(notes.items())[:12])))
        n, per_op = coq_stream(ctx, PROP, results, wrapped, 'check_case_c02', ctx.pick(700, 4000))
        n2, per_op2 = coq_stream2(ctx, results, wrapped, ctx.pick(400, 2500), config, opt0)
        per_op.update(per_op2)
        coq_done[config] = {'cases': n + n2, 'per_op': per_op}
    legprogs = [npc_gen.make_leg_program(rng) for _ in range(nleg)]
    wrapped = [wrap(p, 'legs', True) for p in legprogs]
    results, infos, crashes = cc.run_programs('c02x', wrapped, 'py', True)
    cov.add(results)
    hist, notes = cc.collect(ctx, PROP, 'legs', wrapped, results, crashes, 'py', True, kind='c02x', seen_keys=seen)
    all_hist['legs'] = hist
    import time
    t0 = time.time()
    linalg_streams(ctx, rng, seen, all_hist, cov)
    ctx.cov['c02x_wall_s'] = round(time.time() - t0, 1)
    c02_cov.evaluate(ctx, common.REPO, cov.lines, cov.params, all_hist, cov.src)
    ctx.cov['traces_validated_against_impl'] = sum(v['cases'] for v in coq_done.values()) + ctx.cov.get('lookup_model_vs_impl_cases', 0)
    ctx.cov['model_vs_impl'] = coq_done
    ctx.cov['input_distribution'] = all_hist
    ctx.assumptions += [
        'C02 oracle: independent recomputation of the storage invariants documented in doc/intro/npc.rst + the object\'s own test_sanity() at TENPY_OPTIMIZE=0',
        'C02: the compiled extension is only active at the default optimization level, where LegCharge.test_sanity does not check its flags; there the recomputation alone decides',
        'C02 not generated: legs without any block and selections that keep nothing (see C01)',
        'C02 Coq model: WF (charge rule, no duplicate rows, truthful sortedness claim) proved closed under transpose, conj, scalar multiplication, addition, outer and the '
        'block pairing of tensordot; for all other operations the invariant is checked by the oracle only',
        'C02 c02x streams: a call on valid arguments that raises counts as a failure, except FlatLinearOperator in the situations of the registered defects F16.3 '
        '(qconj=-1 leg, non-compact, sector != -sector) and F16.4 (from_NpcArray(labelled matrix, charge_sector=None).matvec) of property C16, and '
        'svd(full_matrices=True) refusing (ValueError) total charges of the factors that the full form cannot carry',
        'C02 speaks about tensors / legs that are RETURNED or MODIFIED IN PLACE; the following calls raise on every input of the named class at every optimization level, '
        'return nothing and leave their operands untouched (defects of tenpy outside the statement of C02), and are therefore not generated: '
        'Array.add_leg(leg, i, axis=rank) (IndexError; axis <= rank-1 and negative axes are generated), '
        'Array.add_charge(qtotal=None) on a tensor with at least one charge (IndexError in the detection of the total charge), '
        'LegCharge.from_qdict for a ChargeInfo without charges (ValueError in a reshape), '
        'LegCharge.perm_qind_from_perm_flat (IndexError already for the identity; returns a permutation, no tensor / leg: counted as an observation for C01 only); '
        'FlatLinearOperator.possible_charge_sectors lists raw leg charges (not multiplied by qconj): a plain ndarray attribute, no tensor / leg (see F16.3 of C16)',
        'C02 c02x streams: charge_sector=None on legs that are not sorted and bunched IS generated (flat_to_npc: when it raises in its own sanity check the tensor it '
        'built is fetched with tenpy.tools.optimization.temporary_level(skip_arg_checks), the level at which it is returned, and judged by the invariant oracle); '
        'svd(full_matrices=True) IS generated for the consistency of the factors (exactness / unitarity: C05); float32 / complex64 tensors in 30% of the linalg cases',
        'C02 c02x streams not generated: compact mode for a sector without states, from_qdict '
        'with empty blocks, BoostNpcLinearOperator.to_matrix, legs with empty blocks in the operator streams (tensordot over empty blocks: C01)',
        'C02 coverage tables (evidence keys line_coverage / option_coverage / input_class_coverage): measured in the pure-Python configuration only (the compiled extension replaces '
        'the workers, its lines cannot be recorded); unreached lines inside raise / assert statements and statement lists ending in raise are error paths (no object returned); the '
        'classified exclusions carry their reason in harness/c02_cov.EXCLUDED (HDF5: C17; functions returning strings / numbers / bools / ndarrays; dead private helpers; the '
        'LAPACK fallback of _svd_worker: C05); Array.add_charge(qtotal=None) is CALLED by the api-options stream and its raise on every input is recorded (statistic add_charge(qtotal=None):raises)',
        'C02 coverage tables: every runner process reports the sha1 of the two source files it imported; when the tree changed while the check was running the recorded line '
        'numbers cannot be matched against the current source: the line table of that run is written but not evaluated for holes (note in the evidence; line_coverage.source_changed_during_run)',
        'C02 api-options stream at optimization level skip_arg_checks (a sixth of the cases): the tensors\' own test_sanity() is off there, the recomputation alone decides; '
        'DipolarChargeInfo.shift_charges with a sublattice component du != 0 is the documented NotImplementedError (expected, nothing returned); change_charge is generated for '
        'new_qmod dividing the old one (or any new_qmod for U(1)) only: another modulus does not preserve the charge rule',
    ]
    return ctx.finish(RULE, 'theorems of coq/Props/C02.v (WF closed under the modelled operations, documented qtotal); boolean WF of the model evaluated on the storage produced by '
                      'the implementation; invariant oracle after every step on every live object in two configurations')


RULE = ('histories: the programs of C01 with 2-10 (quick) / 2-25 (thorough) steps incl. in-place methods, shallow copies and element assignment; after every step every live '
        'object is checked.  One case = one history; evaluations counts steps; non-trivial when some step produced a tensor with a non-zero entry; '
        'distinct = distinct (seed, operation sequence).  legs: 1-5 LegCharge/LegPipe method calls on random legs.  '
        'c02x streams (leg-lookups, flat-operator, flat-operator-pipe, linalg-functions): one case = one random leg / operator / matrix with all its '
        'sectors and modes; evaluations counts the API calls groups; non-trivial when the leg / sector is not empty.  api-options: one case = one charge structure + leg pool '
        '(class of the first leg forced by the case index) on which every item of harness/c02_ops2.APIOPTS_ITEMS runs; dipolar-charges: one DipolarChargeInfo + shift vector; '
        'leg-histories: 3-7 leg-returning calls with their options, every returned leg used in tensors.')
