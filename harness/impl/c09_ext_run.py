"""Executor extensions of check C09 (fresh interpreter, installed by c09_impl.py on top of the shared c07_exec).

install(ex) replaces ex.do_op by a version that
  * passes a keyword to tenpy ONLY when the operation record contains it (an absent key = the documented default),
  * knows the option values the shared executor cannot express: apply_local_op(cutoff, understood_infinite, operator
    legs in any order, negative site index), apply_product_op(single operator), swap_sites / permute_sites(swap_op =
    'autoInv' / explicit Array / None, trunc_par, perm as ndarray), add(cutoff, other = self / a copy with its own
    history / other stored forms / other charge gauge), group_sites(grouped_sites), group_split(trunc_par default),
    enlarge_chi(None / LegCharge entries, default random_fct, returned permutations), compress(variational),
    roll / enlarge defaults,
  * adds the methods compute_K, perturb, subspace_expansion, get_grouped_mps, extract_segment,
    extract_enlarged_segment, gauge_total_charge, copy,
  * `fork`: the history continues on the object the operation RETURNS (copy / get_grouped_mps / add / extract_segment);
    a bitwise fingerprint of the original (tensors, singular values, forms, norm, sites) is taken before and compared
    again after the rest of the history has been performed on the returned object,
  * logs the class of every option value each call received (OPTLOG; compared with c09_cover.OPTION_SPACE).
observe() additionally dumps the dense state of a grouped finite MPS split back to the original sites by npc.split_legs.
main() records which lines of the anchored methods were executed (c09_cov_run)."""
import json
import os
import sys
import warnings

import numpy as np

sys.path.insert(0, os.path.join(os.environ.get('VERIF_DIR', '/verif'), 'harness'))
import mps_gen as G  # noqa: E402
import c09_cov_run  # noqa: E402

OPTLOG = {}
FORKS = []          # (step, label, object, fingerprint) of the current case


def log_opt(method, **kw):
    row = OPTLOG.setdefault(method, {})
    for k, v in kw.items():
        for x in (v if isinstance(v, (list, tuple, set)) else [v]):
            col = row.setdefault(k, {})
            col[str(x)] = col.get(str(x), 0) + 1


def present(op, key, default='default'):
    """class of an optional key: 'default' when absent"""
    return str(op[key]) if key in op else default


def kwargs(op, keys, conv=None):
    out = {}
    for k in keys:
        if k in op:
            out[k] = conv[k](op[k]) if conv and k in conv else op[k]
    return out


def cmat(m):
    return np.array(m[0]) + 1j * np.array(m[1])


def fingerprint(psi):
    fp = {'norm': complex(psi.norm), 'form': [None if f is None else tuple(f) for f in psi.form], 'L': psi.L, 'bc': psi.bc,
          'dims': [int(s.dim) for s in psi.sites], 'sites': [id(s) for s in psi.sites], 'grouped': int(psi.grouped),
          'B': [(tuple(B.get_leg_labels()), B.to_ndarray().copy(), np.array(B.qtotal).copy()) for B in psi._B],
          'S': [None if s is None else np.array(s.to_ndarray() if hasattr(s, 'to_ndarray') else s).copy() for s in psi._S]}
    U, V = psi.segment_boundaries if psi.bc == 'segment' else (None, None)
    fp['UV'] = [None if x is None else x.to_ndarray().copy() for x in (U, V)]
    return fp


def fp_diff(a, b):
    for k in ('norm', 'form', 'L', 'bc', 'dims', 'sites', 'grouped'):
        if a[k] != b[k]:
            return '%s changed: %r -> %r' % (k, a[k], b[k])
    for i, (x, y) in enumerate(zip(a['B'], b['B'])):
        if x[0] != y[0]:
            return 'leg labels of _B[%d] changed: %s -> %s' % (i, x[0], y[0])
        if x[1].shape != y[1].shape or not np.array_equal(x[1], y[1]):
            return 'entries of _B[%d] changed (max difference %.3e)' % (i, np.max(np.abs(x[1] - y[1])) if x[1].shape == y[1].shape else -1)
        if not np.array_equal(x[2], y[2]):
            return 'qtotal of _B[%d] changed' % i
    for i, (x, y) in enumerate(zip(a['S'], b['S'])):
        if (x is None) != (y is None) or (x is not None and (x.shape != y.shape or not np.array_equal(x, y))):
            return '_S[%d] changed' % i
    for i, (x, y) in enumerate(zip(a['UV'], b['UV'])):
        if (x is None) != (y is None) or (x is not None and (x.shape != y.shape or not np.array_equal(x, y))):
            return 'segment_boundaries[%d] changed' % i
    return None


def swap_array(psi, i, how):
    """the explicit swap operators of the docstring of swap_sites (labels p1, p0, p0*, p1*)"""
    import tenpy.linalg.np_conserved as npc
    siteL, siteR = psi.get_site(i), psi.get_site(i + 1)
    dL, dR = siteL.dim, siteR.dim
    legL, legR = siteL.leg, siteR.leg
    if how == 'plain':
        dense = np.eye(dL * dR)
    elif how == 'auto':
        n_i_n_j = np.outer(siteL.JW_exponent, siteR.JW_exponent).reshape(dL * dR)
        dense = np.diag((-1.) ** n_i_n_j)
    else:
        n_i = np.outer(siteL.JW_exponent, np.ones(dR)).reshape(dL * dR)
        n_j = np.outer(np.ones(dL), siteR.JW_exponent).reshape(dL * dR)
        dense = np.diag((-1.) ** (n_i * n_j) * (-1.j) ** n_i * (-1.j) ** n_j)
    return npc.Array.from_ndarray(dense.reshape([dL, dR, dL, dR]), [legL, legR, legL.conj(), legR.conj()],
                                  labels=['p1', 'p0', 'p0*', 'p1*'])


def swap_kwargs(psi, op, i=None):
    kw = {}
    cls = 'default'
    if 'swap_op' in op:
        so = op['swap_op']
        cls = str(so)
        if isinstance(so, dict):
            cls = 'Array'
            so = swap_array(psi, i, so['array'])
        kw['swap_op'] = so
    tcls = 'default'
    if 'trunc_par' in op:
        kw['trunc_par'] = None if op['trunc_par'] is None else dict(op['trunc_par'])
        tcls = 'None' if op['trunc_par'] is None else op.get('trunc_class', 'loose')
    return kw, cls, tcls


def perm_class(perm):
    L = len(perm)
    p = list(perm)
    if p == list(range(L)):
        return 'identity'
    if p == list(range(L))[::-1] and L > 2:
        return 'reversal'
    if sum(1 for a, b in enumerate(p) if a != b) == 2:
        return 'transposition'
    if any(all(p[a] == (a + k) % L for a in range(L)) for k in range(1, L)):
        return 'cyclic'
    return 'generic'


def site_class(psi, i, n=1):
    if psi.bc == 'infinite':
        if i < 0 or i + n > psi.L:
            return 'beyond-cell'
    if i < 0:
        return 'negative'
    if i == 0:
        return '0'
    if i + n == psi.L:
        return 'last'
    return 'inner'


def leg_from_spec(psi, i, spec):
    """extra LegCharge (qconj=+1) for enlarge_chi at bond i: blocks of the charges present on that bond"""
    import tenpy.linalg.np_conserved as npc
    if i < psi.L:
        leg = psi._B[i].get_leg('vL')
    else:
        leg = psi._B[-1].get_leg('vR').conj()
    charges = leg.charges * leg.qconj
    rows, sl = [], [0]
    for b, m in spec['blocks']:
        rows.append(psi.chinfo.make_valid(charges[b % len(charges)] + np.array(spec.get('dq', [0] * psi.chinfo.qnumber), dtype=charges.dtype)))
        sl.append(sl[-1] + m)
    if psi.chinfo.qnumber == 0:
        return npc.LegCharge.from_trivial(sl[-1], psi.chinfo)
    return npc.LegCharge.from_qind(psi.chinfo, sl, np.array(rows, dtype=charges.dtype).reshape(len(rows), psi.chinfo.qnumber))


def shifted_leg(leg, dq):
    import tenpy.linalg.np_conserved as npc
    ci = leg.chinfo
    ch = ci.make_valid(leg.charges + leg.qconj * np.array(dq, dtype=leg.charges.dtype)[np.newaxis, :])
    return npc.LegCharge(ci, leg.slices, ch, leg.qconj)


def env_part(parent, sites, form):
    """dense product of the parent's tensors on the listed sites (vL, p..., vR)"""
    import tenpy.linalg.np_conserved as npc
    env = None
    for k, i in enumerate(sites):
        B = parent.get_B(i, form).replace_label('p', 'p%d' % k)
        env = B if env is None else npc.tensordot(env, B, axes=['vR', 'vL'])
    return env.transpose(['vL'] + ['p%d' % k for k in range(len(sites))] + ['vR']).to_ndarray()


def install(ex):
    orig_do_op, orig_observe, orig_run = ex.do_op, ex.observe, ex._run_case

    def observe(psi, A, key, want):
        want = dict(want)
        grouped = psi.bc == 'finite' and any(hasattr(s, 'n_sites') for s in psi.sites)
        if grouped:
            want['ent'] = True
        o = orig_observe(psi, A, key, want)
        o['aliased_B'] = len(set(id(B) for B in psi._B)) < len(psi._B)       # two sites share one tensor object
        if grouped and all(f is not None for f in psi.form):
            try:
                th = psi.get_theta(0, psi.L)
                th = th.split_legs()
                A[key + '_ungrouped'] = th.to_ndarray().reshape(-1)
                o['ungrouped_dims'] = [int(s2.dim) for s in psi.sites for s2 in (s.sites if hasattr(s, 'sites') else [s])]
            except Exception as e:
                o['ungrouped_error'] = '%s: %s' % (type(e).__name__, str(e)[:200])
        return o

    def do_op(psi, op, A, key, SI):
        import tenpy.linalg.np_conserved as npc
        t = op['op']
        ex_ = {}
        bc = psi.bc
        if 'np_seed' in op:
            np.random.seed(op['np_seed'])
        if 'must_raise' in op:
            # a documented refusal: the call has to raise and must leave the state as it was
            inner = {k_: v_ for k_, v_ in op.items() if k_ != 'must_raise'}
            fp = fingerprint(psi)
            try:
                if t == 'call':
                    parent = ex.build(op['parent'], SI) if 'parent' in op else None

                    def arg(a):
                        if a == 'self':
                            return psi
                        if a == 'parent':
                            return parent
                        if isinstance(a, dict) and 'badop' in a:
                            import tenpy.linalg.np_conserved as npc2
                            st = psi.sites[0]
                            o1 = st.get_op('Id')
                            if a['badop'] == 'unpaired':
                                return o1.replace_labels(['p', 'p*'], ['p', 'q*'])
                            if a['badop'] == 'p0only':
                                return o1.replace_labels(['p', 'p*'], ['p0', 'p0*'])
                            o2 = npc2.outer(o1.replace_labels(['p', 'p*'], ['p0', 'p0*']), psi.sites[1].get_op('Id').replace_labels(['p', 'p*'], ['p1', 'p1*']))
                            if a['badop'] == 'mixed':
                                return o2.replace_labels(['p1', 'p1*'], ['p', 'p*'])
                            return o2.replace_labels(['p1', 'p1*'], ['p1x', 'p1x*'])
                        if isinstance(a, list):
                            return [arg(x) for x in a] if any(isinstance(x, (dict, str)) for x in a) else (tuple(a) if op['method'] == 'extract_enlarged_segment' else a)
                        return a
                    getattr(psi, op['method'])(*[arg(a) for a in op.get('args', [])], **{k_: arg(v_) for k_, v_ in op.get('kwargs', {}).items()})
                else:
                    do_op(psi, inner, A, key, SI)
                ex_['raised'] = None
            except Exception as e:
                ex_['raised'] = [type(e).__name__, str(e)[:200]]
            d = fp_diff(fp, fingerprint(psi))
            if d:
                ex_['changed'] = d
            log_opt('refusals', **{op.get('method', t): op['must_raise']})
            return psi, ex_
        if t == 'apply_local_op':
            i = op['i']
            kw = kwargs(op, ['unitary', 'renormalize', 'cutoff', 'understood_infinite'])
            if 'understood_infinite' not in op and not op.get('ui_default'):
                kw['understood_infinite'] = True          # (histories of the older generators: never the default)
            if 'name' in op:
                o = op['name']
                n = 1
                ocls = 'name-JW' if psi.get_site(i).op_needs_JW(o) else 'name'
                uni = None
            else:
                n = op['n']
                sites = [psi.get_site(i + k) for k in range(n)]
                mat = cmat(op['mat'])
                o = ex.npc_op(sites, mat)
                ocls = 'Array:%d' % n
                if op.get('legperm'):
                    o = o.transpose(op['legperm'])
                    ocls = 'Array:legs-permuted'
                uni = np.linalg.norm(mat @ mat.conj().T - np.eye(len(mat))) < 1e-10
            ucls = present(op, 'unitary')
            if ucls == 'False' and uni:
                ucls = ['False', 'False-on-unitary']
            with warnings.catch_warnings(record=True) as wl:
                warnings.simplefilter('always')
                psi.apply_local_op(i, o, **kw)
            ex_['warned'] = [str(w.message)[:80] for w in wl if 'infinite' in str(w.message)]
            log_opt(t, i=site_class(psi, i, n), op=ocls, unitary=ucls, renormalize=present(op, 'renormalize'),
                    cutoff=present(op, 'cutoff'), understood_infinite=present(op, 'understood_infinite') if ('understood_infinite' in op or op.get('ui_default')) else 'True',
                    **{'<bc>': bc})
        elif t == 'apply_product_op':
            def conv(i, o):
                return o if isinstance(o, str) else ex.npc_op([psi.sites[i]], cmat(o))
            if 'single' in op:
                ops = conv(0, op['single'])
                ocls = 'single:name' if isinstance(ops, str) else 'single:Array'
            else:
                ops = [conv(i, o) for i, o in enumerate(op['ops'])]
                ocls = 'list:L' if len(ops) == psi.L else 'list:divisor'
            psi.apply_product_op(ops, **kwargs(op, ['unitary', 'renormalize']))
            log_opt(t, ops=ocls, unitary=present(op, 'unitary'), renormalize=present(op, 'renormalize'), **{'<bc>': bc})
        elif t == 'apply_local_term':
            term = [(a, b) for a, b in op['term']]
            psi.apply_local_term(term, **kwargs(op, ['autoJW', 'i_offset', 'canonicalize', 'renormalize']))
            off = op.get('i_offset', 0)
            njw = sum(1 for a, b in term if psi.get_site(b + off).op_needs_JW(a))
            tc = ['len1' if len(term) == 1 else ('len2' if len(term) == 2 else 'len3+'), 'odd-JW' if njw % 2 else 'even-JW']
            if len(set(b for a, b in term)) < len(term):
                tc.append('same-site')
            log_opt(t, term=tc, autoJW=present(op, 'autoJW'), canonicalize=present(op, 'canonicalize'), renormalize=present(op, 'renormalize'),
                    i_offset='default' if 'i_offset' not in op else ('0' if off == 0 else ('positive' if off > 0 else 'negative')), **{'<bc>': bc})
        elif t == 'swap_sites':
            i = op['i']
            kw, scls, tcls = swap_kwargs(psi, op, i)
            err = psi.swap_sites(i, **kw)
            ex_['eps'] = float(err.eps)
            ic = site_class(psi, i, 2)
            if bc == 'infinite' and i % psi.L == psi.L - 1:
                ic = ['cell-boundary'] + ([ic] if ic == 'beyond-cell' and not 0 <= i < psi.L else [])
            log_opt(t, i=ic, swap_op=scls, trunc_par=tcls, **{'<bc>': bc})
        elif t == 'permute_sites':
            log = []
            orig = psi.swap_sites
            kw = {}
            scls = 'default'
            if 'swap_op' in op:
                scls = str(op['swap_op'])
                kw['swap_op'] = op['swap_op']
                if isinstance(op['swap_op'], dict):
                    scls = 'Array'
            tcls = 'default'
            if 'trunc_par' in op:
                kw['trunc_par'] = None if op['trunc_par'] is None else dict(op['trunc_par'])
                tcls = 'None' if op['trunc_par'] is None else op.get('trunc_class', 'loose')
            eps_list = []

            def wrapped(i, swap_op='auto', trunc_par=None):
                log.append(int(i))
                if isinstance(swap_op, dict):
                    swap_op = swap_array(psi, i, swap_op['array'])
                e = orig(i, swap_op, trunc_par)
                eps_list.append(float(e.eps))
                return e
            psi.swap_sites = wrapped
            perm = list(op['perm'])
            pc = [perm_class(perm)]
            if op.get('as_ndarray'):
                perm = np.array(perm)
                pc.append('ndarray')
            try:
                err = psi.permute_sites(perm, **kw)
            finally:
                del psi.swap_sites
            ex_['swaps'] = log
            ex_['eps'] = float(err.eps)
            ex_['eps_list'] = eps_list
            log_opt(t, perm=pc, swap_op=scls, trunc_par=tcls, **{'<bc>': bc})
        elif t == 'compute_K':
            perm = op['perm']
            pcls = 'list'
            if op.get('as_ndarray'):
                perm = np.array(perm)
                pcls = 'ndarray'
            if op.get('lattice'):
                from tenpy.models import lattice as LT
                Lx, Ly = op['lattice']
                perm = LT.Square(Lx, Ly, psi.sites[0], bc=['periodic', 'periodic'], bc_MPS='infinite')
                ex_['lat_perm'] = [int(x) for x in perm.lat2mps_idx(np.array([[x_, (y_ + 1) % Ly, 0] for x_, y_, u_ in perm.order]))]
                pcls = 'Lattice'
            kw = kwargs(op, ['swap_op', 'trunc_par', 'canonicalize', 'expected_mean_k'])
            s0 = np.array(psi.get_SL(0)).copy()
            U, W, q, ov, err = psi.compute_K(perm, **kw)
            A[key + '_K_U'] = U.to_ndarray()
            A[key + '_K_W'] = np.asarray(W)
            A[key + '_K_S0'] = s0
            ex_['ov'] = ex.cnum(ov)
            ex_['eps'] = float(err.eps)
            ex_['q_len'] = int(q.ind_len)
            log_opt(t, perm=pcls, swap_op=present(op, 'swap_op'), trunc_par='default' if 'trunc_par' not in op else 'loose',
                    canonicalize='default' if 'canonicalize' not in op else 'tiny',
                    expected_mean_k='default' if 'expected_mean_k' not in op else ('nonzero' if op['expected_mean_k'] else '0'), **{'<bc>': bc})
        elif t == 'add':
            oc = ['MPS']
            ox = op.get('other_x')
            if ox == 'self':
                other = psi
                oc = ['self']
            elif ox is not None:
                other = psi.copy()
                for k2, o2 in enumerate(ox['fork_ops']):
                    other, _ = do_op(other, o2, A, '%s_o%d' % (key, k2), SI)
            else:
                other = ex.build(op['other'], SI)
            if 'other_norm' in op:
                if other is psi:
                    pass
                else:
                    other.norm = op['other_norm']
            if 'other_form' in op:
                other.convert_form(ex.form_arg(op['other_form']))
                oc.append('other-form')
            if 'other_gauge' in op and psi.chinfo.qnumber > 0:
                qt = np.zeros((other.L, psi.chinfo.qnumber), dtype=int)
                tot = other.get_total_charge()
                qt[op['other_gauge'] % other.L] = tot
                other.gauge_total_charge(qt)
                oc.append('other-charge-gauge')
            al = complex(*op['alpha']) if op['alpha'][1] else op['alpha'][0]
            be = complex(*op['beta']) if op['beta'][1] else op['beta'][0]
            kw = kwargs(op, ['cutoff'])
            fp_self = fingerprint(psi)
            fp_other = None if other is psi else fingerprint(other)
            new = psi.add(other, al, be, **kw)
            FORKS.append((key, 'self of add', psi, fp_self))
            if fp_other is not None:
                FORKS.append((key, 'other of add', other, fp_other))

            def cls(x):
                return '0' if x == 0 else ('1' if x == 1 else ('complex' if isinstance(x, complex) else 'real'))
            log_opt(t, other=oc, alpha=cls(al), beta=cls(be), cutoff=present(op, 'cutoff'), **{'<bc>': bc})
            psi = new
        elif t == 'group_sites':
            kw = kwargs(op, ['n'])
            n = op.get('n', 2)
            gcls = 'default'
            if 'grouped_sites' in op:
                gcls = 'None'
                kw['grouped_sites'] = None
                if op['grouped_sites']:
                    from tenpy.networks.site import group_sites
                    kw['grouped_sites'] = group_sites(psi.sites, n, charges='same')
                    gcls = 'list'
            ncls = ['default' if 'n' not in op else str(n)]
            if n == psi.L:
                ncls.append('L')
            if psi.L % n:
                ncls.append('not-dividing-L')
            psi.group_sites(**kw)
            log_opt(t, n=ncls, grouped_sites=gcls, **{'<bc>': bc})
        elif t == 'group_split':
            if 'trunc' in op:
                err = psi.group_split(None if op['trunc'] is None else dict(op['trunc']))
                tcls = 'None' if op['trunc'] is None else op.get('trunc_class', 'loose')
            else:
                err = psi.group_split()
                tcls = 'default'
            ex_['eps'] = float(err.eps)
            log_opt(t, trunc_par=tcls, **{'<bc>': bc})
        elif t == 'get_grouped_mps':
            fp = fingerprint(psi)
            new = psi.get_grouped_mps(op['n'])
            FORKS.append((key, 'original of get_grouped_mps', psi, fp))
            log_opt(t, blocklen=str(op['n']), **{'<bc>': bc})
            psi = new
        elif t == 'copy':
            fp = fingerprint(psi)
            new = psi.copy()
            FORKS.append((key, 'original of copy', psi, fp))
            log_opt(t, **{'<bc>': bc})
            psi = new
        elif t == 'enlarge_chi':
            extra = []
            ecls = set()
            for i, e in enumerate(op['extra']):
                if isinstance(e, dict):
                    extra.append(leg_from_spec(psi, i, e))
                    ecls.add('LegCharge')
                elif e is None:
                    extra.append(None)
                    ecls.add('None')
                else:
                    extra.append(int(e))
                    ecls.add('int')
            if all(isinstance(e, int) and e == 0 for e in extra):
                ecls.add('int:0-only')
            if 'seed' in op:
                rs = np.random.RandomState(op['seed'])
                perms = psi.enlarge_chi(extra, random_fct=rs.normal)
                rcls = 'RandomState.normal'
            else:
                perms = psi.enlarge_chi(extra)
                rcls = 'default'
            ex_['perms'] = [None if p is None else [int(x) for x in p] for p in perms]
            ex_['extra_len'] = [0 if e is None else (int(e) if isinstance(e, int) else int(e.ind_len)) for e in extra]
            log_opt(t, extra_legs=sorted(ecls), random_fct=rcls, **{'<bc>': bc})
        elif t == 'subspace_expansion':
            kw = {}
            ecls = 'default'
            others = []
            if 'expand_into' in op:
                for sp in op['expand_into']:
                    if isinstance(sp, dict) and 'fork_ops' in sp:
                        o_ = psi.copy()
                        for k2, o2 in enumerate(sp['fork_ops']):
                            o_, _ = do_op(o_, o2, A, '%s_e%d' % (key, k2), SI)
                    else:
                        o_ = ex.build(sp, SI)
                    others.append(o_)
                kw['expand_into'] = others
                ecls = 'empty' if not others else 'MPS:%d' % min(2, len(others))
            tcls = 'default'
            if 'trunc_par' in op:
                kw['trunc_par'] = dict(op['trunc_par'])
                tcls = 'chi_max' if 'chi_max' in op['trunc_par'] else 'svd_min'
            fps = [fingerprint(o_) for o_ in others]
            err = psi.subspace_expansion(**kw)
            for o_, fp in zip(others, fps):
                FORKS.append((key, 'state of expand_into', o_, fp))
            ex_['eps'] = float(err.eps)
            log_opt(t, expand_into=ecls, trunc_par=tcls, **{'<bc>': bc})
        elif t == 'perturb':
            kw = kwargs(op, ['randomize_params', 'close_1', 'canonicalize'])
            if 'randomize_params' in kw and kw['randomize_params'] is not None:
                kw['randomize_params'] = dict(kw['randomize_params'])
            ex_['dtype_before'] = psi.dtype.kind
            psi.perturb(**kw)
            ex_['dtype_after'] = psi.dtype.kind
            log_opt(t, randomize_params='default' if 'randomize_params' not in op else ('None' if op['randomize_params'] is None else 'dict'),
                    close_1=present(op, 'close_1'), canonicalize=present(op, 'canonicalize'), **{'<bc>': bc})
        elif t == 'compress_svd':
            err = psi.compress_svd(dict(op['trunc']))
            ex_['eps'] = float(err.eps)
            ex_['ov'] = float(err.ov)
            log_opt(t, trunc_par=op.get('trunc_class', sorted(op['trunc'])), **{'<bc>': bc})
        elif t == 'compress':
            meth = op.get('method', 'SVD')
            opts = {'compression_method': meth, 'trunc_params': dict(op['trunc'])}
            opts.update(op.get('options', {}))
            err = psi.compress(opts)
            ex_['eps'] = float(err.eps)
            log_opt(t, options=meth, **{'<bc>': bc})
        elif t == 'spatial_inversion':
            rec = 'recorded' if (bc == 'segment' and psi.segment_boundaries[0] is not None) else 'none'
            ret = psi.spatial_inversion()
            ex_['returns_self'] = ret is psi
            log_opt(t, **{'<bc>': bc, '<recorded boundaries of a segment>': rec})
        elif t == 'enlarge_mps_unit_cell':
            psi.enlarge_mps_unit_cell(**kwargs(op, ['factor']))
            log_opt(t, factor=present(op, 'factor'), **{'<bc>': bc})
        elif t == 'roll_mps_unit_cell':
            psi.roll_mps_unit_cell(**kwargs(op, ['shift']))
            s = op.get('shift')
            log_opt(t, shift='default' if s is None else ('L' if s == psi.L else (str(s) if s in (0, 1, -1) else 'other')), **{'<bc>': bc})
        elif t == 'extract_segment':
            first, last = op['first'], op['last']
            fp = fingerprint(psi)
            bcls = 'none'
            if bc == 'segment' and psi.segment_boundaries[0] is not None:
                bcls = {(True, False): 'kept-left', (False, True): 'kept-right', (True, True): 'kept-both', (False, False): 'dropped'}[(first == 0, last == psi.L - 1)]
            new = psi.extract_segment(first, last)
            FORKS.append((key, 'original of extract_segment', psi, fp))
            log_opt(t, first='negative' if first < 0 else ('0' if first == 0 else 'inner'),
                    last='beyond-cell' if last >= psi.L else ('L-1' if last == psi.L - 1 else 'inner'),
                    **{'<bc>': bc, '<recorded boundaries of a segment>': bcls})
            psi = new
        elif t == 'extract_enlarged_segment':
            parent = ex.build(op['parent'], SI)
            for k2, o2 in enumerate(op.get('parent_ops', [])):
                parent, _ = do_op(parent, o2, A, '%s_p%d' % (key, k2), SI)
            first, last = op['first'], op['last']
            kw = {}
            if 'add_unitcells' in op:
                kw['add_unitcells'] = tuple(op['add_unitcells']) if isinstance(op['add_unitcells'], list) else op['add_unitcells']
            if 'new_first_last' in op:
                kw['new_first_last'] = tuple(op['new_first_last'])
            if 'cutoff' in op:
                kw['cutoff'] = op['cutoff']
            fp = fingerprint(psi)
            fpp = fingerprint(parent)
            new, nf, nl = psi.extract_enlarged_segment(parent, parent, first, last, **kw)
            ex_['new_first_last'] = [int(nf), int(nl)]
            ex_['same_object'] = new is psi
            if new is not psi:
                FORKS.append((key, 'segment given to extract_enlarged_segment', psi, fp))
            FORKS.append((key, 'parent given to extract_enlarged_segment', parent, fpp))
            if nf < first:
                A[key + '_xL'] = env_part(parent, list(range(nf, first)), 'A')
            if nl > last:
                A[key + '_xR'] = env_part(parent, list(range(last + 1, nl + 1)), 'B')
            au = op.get('add_unitcells')
            log_opt(t, psi_left='MPS', psi_right='MPS', first=str(first), last=str(last),
                    add_unitcells='default' if au is None else ('pair' if isinstance(au, list) else 'int'),
                    new_first_last='default' if 'new_first_last' not in op else (
                        ['unchanged'] if [nf, nl] == [first, last] else ['pair', 'one-side' if (nf == first) != (nl == last) else 'both-sides'] +
                        (['whole-finite-chain'] if new.bc == 'finite' else [])),
                    cutoff=present(op, 'cutoff'), **{'<bc>': bc})
            psi = new
        elif t == 'gauge_total_charge':
            kw = {}
            qcls = 'default'
            if 'qtotal_rel' in op:
                tot = psi.get_total_charge()
                if op['qtotal_rel'] == 'total':
                    op = dict(op, qtotal=[int(x) for x in tot])
                else:
                    rel = [list(x) for x in op['qtotal_rel']]
                    lastq = [int(t) - sum(r_[c_] for r_ in rel) for c_, t in enumerate(tot)]
                    op = dict(op, qtotal=rel + [lastq])
            if 'qtotal' in op:
                q = op['qtotal']
                kw['qtotal'] = q
                qcls = 'None' if q is None else ('list' if q and isinstance(q[0], list) else 'charge')
                ex_['qtotal_arg'] = q
            vL, vR = psi._B[0].get_leg('vL'), psi._B[-1].get_leg('vR')
            lcls = {'vL_leg': 'default', 'vR_leg': 'default'}
            for nm, leg in (('vL_leg', vL), ('vR_leg', vR)):
                if nm in op:
                    kw[nm] = None if op[nm] is None else shifted_leg(leg, op[nm])
                    lcls[nm] = 'None' if op[nm] is None else 'LegCharge'
            psi.gauge_total_charge(**kw)
            ex_['qtotal_after'] = [int(x) for x in psi.get_total_charge()]
            ex_['B_qtotal'] = [[int(x) for x in B.qtotal] for B in psi._B]
            ex_['outer'] = [[[int(y) for y in x] for x in (l.charges * l.qconj)] for l in (psi._B[0].get_leg('vL'), psi._B[-1].get_leg('vR'))]
            log_opt(t, qtotal=qcls, **lcls, **{'<bc>': bc})
        else:
            return orig_do_op(psi, op, A, key, SI)
        return psi, ex_

    def _run_case(case, A, key, SI):
        del FORKS[:]
        res = orig_run(case, A, key, SI)
        bad = []
        for k, label, obj, fp in FORKS:
            try:
                d = fp_diff(fp, fingerprint(obj))
            except Exception as e:
                d = 'fingerprint raises %s: %s' % (type(e).__name__, str(e)[:200])
            if d:
                bad.append({'key': k, 'label': label, 'diff': d})
        res['forks'] = {'n': len(FORKS), 'bad': bad}
        del FORKS[:]
        return res

    ex.do_op = do_op
    ex.observe = observe
    ex._run_case = _run_case


def main(ex, argv):
    payload = json.load(open(argv[1]))
    tracing = bool(payload.get('cov_names')) and c09_cov_run.start(payload['cov_names'])
    ex.main(argv)
    if payload.get('kind') == 'cases':
        out = json.load(open(argv[2]))
        out['cov_lines'] = c09_cov_run.stop() if tracing else None
        out['optlog'] = OPTLOG
        with open(argv[2], 'w') as f:
            json.dump(out, f)
