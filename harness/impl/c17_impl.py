"""Runs tenpy's export/import (HDF5 in every LegCharge format, pickle, copy.deepcopy) on the cases of
harness/c17.py in a fresh interpreter.

kinds of payload
  discover : reflection - every class of the tenpy package that offers HDF5 export
  objects  : named instance generators (c17_gen.py) -> round trips -> independent deep comparison
             (values, dtypes, identity pattern), test_sanity() of the loaded object, canonical heaps
  graphs   : container graphs given as abstract heaps (sharing, cycles) -> round trips -> canonical heap
  states   : __getstate__/__setstate__ and save_hdf5/from_hdf5 facts observed at run time (arity probe)
  reduce   : objects whose __reduce__ returns listitems / dictitems / state (F13)
  pipe_reinit : LegPipe(legs, qconj, sort, bunch) -> Hdf5Saver into an h5py file (read back RAW with h5py: attrs
             sorted/bunched/qconj, chinfo, legs, slices/charges) -> Hdf5Loader and pickle; attributes of the
             constructed / loaded / unpickled pipe (checked by Model/PipeReinitCheck.v:check_pipe_reinit)
"""
import copy
import io
import json
import os
import pickle
import sys
import tempfile
import traceback
import warnings

import numpy as np

warnings.simplefilter('ignore')
sys.setrecursionlimit(3000)
sys.path.insert(0, os.path.dirname(os.path.abspath(__file__)))


# ------------------------------------------------------------------------------------------------
# round trips
# ------------------------------------------------------------------------------------------------

def roundtrip(obj, method):
    """method: 'hdf5:<LegCharge format>' | 'pickle' | 'deepcopy' | 'io:<ext>' (tenpy.tools.hdf5_io.save/load)."""
    from tenpy.tools import hdf5_io
    if method.startswith('hdf5:'):
        import h5py
        fmt = method.split(':')[1]
        with tempfile.TemporaryDirectory(prefix='c17_', dir=os.environ.get('C17_TMP', None)) as d:
            fn = os.path.join(d, 'x.h5')
            with h5py.File(fn, 'w') as f:
                saver = hdf5_io.Hdf5Saver(f, {'LegCharge': fmt} if fmt != 'default' else None)
                saver.save(obj)
            with h5py.File(fn, 'r') as f:
                return hdf5_io.Hdf5Loader(f, ignore_unknown=False).load()
    if method == 'pickle':
        return pickle.loads(pickle.dumps(obj))
    if method == 'deepcopy':
        return copy.deepcopy(obj)
    if method == 'copy':             # shallow copy: __reduce_ex__ -> __getstate__ / __setstate__ of the root object
        return copy.copy(obj)
    if method.startswith('io:'):
        with tempfile.TemporaryDirectory(prefix='c17_') as d:
            fn = os.path.join(d, 'x.' + method.split(':')[1])
            hdf5_io.save(obj, fn)
            return hdf5_io.load(fn)
    raise ValueError(method)


# ------------------------------------------------------------------------------------------------
# classification of python values (shared by the oracle and by the canonical heap)
# ------------------------------------------------------------------------------------------------

LEAF_TYPES = (int, float, complex, str, bytes, bool, type(None), np.generic, np.dtype, range)


def is_global(x):
    import types
    return isinstance(x, (type, types.FunctionType, types.BuiltinFunctionType, types.ModuleType))


def _fill_key(x):
    """the fill value as filled() inserts it (numpy casts it to the dtype of the array when used)"""
    with np.errstate(all='ignore'), warnings.catch_warnings():
        warnings.simplefilter('ignore')
        try:
            return np.asarray(x.fill_value).astype(x.dtype).tobytes().hex()
        except Exception:
            return repr(x.fill_value)


def leaf_key(x):
    """hashable description of a leaf value: type and exact content."""
    if isinstance(x, np.ma.MaskedArray):
        return ('masked', str(x.dtype), x.shape, np.ma.getdata(x).tobytes().hex()[:64], hash(np.ma.getdata(x).tobytes()),
                np.ma.getmaskarray(x).tobytes().hex()[:64], _fill_key(x))
    if isinstance(x, np.ndarray):
        return ('ndarray', str(x.dtype), x.shape, hash(np.ascontiguousarray(x).tobytes()))
    if isinstance(x, np.dtype):
        return ('dtype', str(x.descr))
    if isinstance(x, np.bool_):
        return ('bool', repr(bool(x)))
    if isinstance(x, np.generic):
        return (type(x).__name__, repr(x.item()))
    if isinstance(x, range):
        return ('range', x.start, x.stop, x.step)
    if is_global(x):
        return ('global', getattr(x, '__module__', ''), getattr(x, '__qualname__', getattr(x, '__name__', '')))
    if isinstance(x, np.random.Generator):
        return ('rng', json.dumps(x.bit_generator.state, sort_keys=True, default=str))
    if isinstance(x, float) and x != x:
        return ('float', 'nan')
    return (type(x).__name__, repr(x))


def norm_leaf_key(x):
    """leaf key for attribute values of instances: python and numpy scalars of the same kind are identified."""
    if isinstance(x, (bool, np.bool_)):
        return ('bool', bool(x))
    if isinstance(x, (int, np.integer)):
        return ('int', int(x))
    if isinstance(x, (float, np.floating)):
        return ('float', repr(float(x)))
    return leaf_key(x)


def is_leaf(x):
    return isinstance(x, LEAF_TYPES) or is_global(x) or isinstance(x, np.random.Generator)


def is_arraylike(x):
    return isinstance(x, np.ndarray)


# attributes that are deliberately not part of the exported state (caches, loggers): class -> names
def hidden_attrs(x):
    return tuple(a for b in type(x).__mro__ for a in HIDDEN.get(b.__name__, ()))


HIDDEN = {
    # lazily recomputed caches of the lattice (reset to None by from_hdf5, filled again on first use)
    'Lattice': ('_mps_sites_cache', '_BZ', '_reciprocal_basis'),
}


CACHE_VALUE = '<lazily recomputed cache: value not compared, presence is>'


def obj_items(x):
    """(name, value) pairs of the COMPLETE __dict__ of an instance, sorted by name.  Every attribute name takes part in
    the comparison (an attribute that exists before saving and is missing after loading, or vice versa, is a
    difference); only the *value* of the declared caches is replaced by a fixed placeholder."""
    d = getattr(x, '__dict__', None)
    if d is None:
        return None
    hid = set(hidden_attrs(x))
    return sorted((k, CACHE_VALUE if k in hid else v) for k, v in d.items())


def bound_method_parts(x):
    import types
    if isinstance(x, types.MethodType):
        return x.__self__, x.__func__.__name__
    return None


# ------------------------------------------------------------------------------------------------
# oracle: independent deep comparison original <-> loaded  (values + identity pattern)
# ------------------------------------------------------------------------------------------------

class Compare:
    def __init__(self, flat=False, track_identity=True):
        self.fwd = {}       # id(orig) -> loaded
        self.bwd = {}       # id(loaded) -> orig
        self.keep = []
        self.problems = []
        self.flat = flat    # LegCharge format 'flat': compare legs by to_qflat / qconj only
        self.track_identity = track_identity
        self.n = 0
        self.shared = 0
        self.in_obj = 0     # > 0 while below a class instance (attribute values)
        self.lattices = []  # (original, loaded, path) of every lattice met: interface-level observations afterwards

    def bad(self, path, msg):
        if len(self.problems) < 8:
            self.problems.append('%s: %s' % (path or '<root>', msg))

    def pair(self, a, b, path, mutable):
        """register the pair; returns True when already compared."""
        self.keep.append((a, b))
        ia, ib = id(a), id(b)
        if ia in self.fwd:
            self.shared += 1
            if self.fwd[ia] is not b:
                self.bad(path, 'object shared by reference before saving is a different object after loading (%s)' % type(a).__name__)
            return True
        if ib in self.bwd and mutable:
            self.bad(path, 'two distinct %s objects became one object after loading' % type(a).__name__)
            return True
        self.fwd[ia] = b
        self.bwd[ib] = a
        return False

    def cmp(self, a, b, path=''):
        self.n += 1
        if self.n > 400000:
            return
        if type(a) is not type(b) and isinstance(a, (bool, np.bool_)) and isinstance(b, (bool, np.bool_)) and bool(a) == bool(b):
            return      # the format has a single 'bool' representation for bool and np.bool_ (documented)
        if type(a) is not type(b) and self.in_obj:
            # an attribute of an instance may come back from an HDF5 attribute as a numpy scalar instead of a python
            # scalar and vice versa: observational equality of the instance only needs the same *kind* of number
            # (for values in plain python containers the exact type must survive)
            if isinstance(a, (bool, np.bool_)) and isinstance(b, (bool, np.bool_)) and bool(a) == bool(b):
                return
            if (isinstance(a, (int, np.integer)) and isinstance(b, (int, np.integer))
                    and not isinstance(a, bool) and not isinstance(b, bool) and int(a) == int(b)):
                return
            if isinstance(a, (float, np.floating)) and isinstance(b, (float, np.floating)) and (float(a) == float(b) or (a != a and b != b)):
                return
        if isinstance(a, np.dtype) and isinstance(b, np.dtype):      # (numpy has alias dtype classes, e.g. LongLongDType / Int64DType)
            if leaf_key(a) != leaf_key(b) or a != b:
                self.bad(path, 'value %r became %r' % (a, b))
            return
        if type(a) is not type(b):
            self.bad(path, '%s %s became %s %s' % (type(a).__module__ + '.' + type(a).__name__, repr(a)[:60],
                                                  type(b).__module__ + '.' + type(b).__name__, repr(b)[:60]))
            return
        if isinstance(a, np.ma.MaskedArray):
            if self.pair(a, b, path, True):
                return
            ma, mb = np.ma.getmaskarray(a), np.ma.getmaskarray(b)
            if a.shape != b.shape or a.dtype != b.dtype or not np.array_equal(ma, mb) or \
                    np.ascontiguousarray(np.ma.getdata(a)[~ma]).tobytes() != np.ascontiguousarray(np.ma.getdata(b)[~mb]).tobytes():
                self.bad(path, 'masked array differs')
            return
        if isinstance(a, np.ndarray):
            # identity of arrays is tracked in plain containers only: arrays *inside* tenpy instances are internal
            # (e.g. a leg and its conj() share `slices`), their sharing is not observable through the API
            if not self.in_obj and self.pair(a, b, path, True):
                return
            if a.shape != b.shape:
                self.bad(path, 'array shape %s became %s' % (a.shape, b.shape))
            elif a.dtype != b.dtype:
                self.bad(path, 'array dtype %s became %s' % (a.dtype, b.dtype))
            elif a.dtype == object:
                for i, (x, y) in enumerate(zip(a.flat, b.flat)):
                    self.cmp(x, y, path + '.flat[%d]' % i)
            elif not np.array_equal(a, b, equal_nan=a.dtype.kind in 'fc'):
                self.bad(path, 'array values differ')
            return
        if is_leaf(a):
            if leaf_key(a) != leaf_key(b):
                self.bad(path, 'value %r became %r' % (a, b))
            return
        if isinstance(a, (list, tuple)):
            # (tuples inside instances: like internal arrays, identity not observable)
            if not (self.in_obj and isinstance(a, tuple)) and self.pair(a, b, path, isinstance(a, list)):
                return
            if len(a) != len(b):
                self.bad(path, 'length %d became %d' % (len(a), len(b)))
                return
            for i, (x, y) in enumerate(zip(a, b)):
                self.cmp(x, y, '%s[%d]' % (path, i))
            return
        if isinstance(a, (set, frozenset)):
            if self.pair(a, b, path, True):
                return
            if a != b or sorted(map(leaf_key, a)) != sorted(map(leaf_key, b)):
                self.bad(path, 'set %r became %r' % (a, b))
            return
        if isinstance(a, dict):
            if self.pair(a, b, path, True):
                return
            if len(a) != len(b) or set(a.keys()) != set(b.keys()):
                self.bad(path, 'dict keys %r became %r' % (sorted(map(repr, a.keys()))[:8], sorted(map(repr, b.keys()))[:8]))
                return
            kb = {k: k for k in b.keys()}
            for k in a.keys():
                self.cmp(k, kb[k], '%s.key(%r)' % (path, k))
                self.cmp(a[k], b[k], '%s[%r]' % (path, k))
            return
        bm = bound_method_parts(a)
        if bm is not None:
            bm2 = bound_method_parts(b)
            if bm[1] != bm2[1]:
                self.bad(path, 'bound method name differs')
            self.cmp(bm[0], bm2[0], path + '.__self__')
            return
        # instances
        if self.pair(a, b, path, True):
            return
        if any(c.__name__ == 'Lattice' and c.__module__ == 'tenpy.models.lattice' for c in type(a).__mro__):
            self.lattices.append((a, b, path))
        if self.flat and type(a).__name__ in ('LegCharge', 'LegPipe'):
            self.cmp_leg_flat(a, b, path)
            return
        ia, ib = obj_items(a), obj_items(b)
        if ia is None:
            if hasattr(a, '__getstate__') and not isinstance(a.__getstate__(), type(None)):
                self.cmp(a.__getstate__(), b.__getstate__(), path + '.__getstate__()')
            elif repr(a) != repr(b):
                self.bad(path, 'opaque object %r became %r' % (a, b))
            return
        na, nb = [k for k, _ in ia], [k for k, _ in ib]
        if na != nb:
            self.bad(path, 'attributes of %s: lost %s, gained %s' % (type(a).__name__, sorted(set(na) - set(nb)), sorted(set(nb) - set(na))))
        db = dict(ib)
        self.in_obj += 1
        for k, v in ia:
            if k in db:
                self.cmp(v, db[k], '%s.%s' % (path, k))
        self.in_obj -= 1

    def cmp_leg_flat(self, a, b, path):
        """'flat' is documented as insufficient for the blocks; what must survive: the charge of every index."""
        if a.ind_len != b.ind_len or a.qconj != b.qconj:
            self.bad(path, 'flat leg: ind_len/qconj differ')
            return
        self.cmp(a.chinfo, b.chinfo, path + '.chinfo')
        if not np.array_equal(a.to_qflat(), b.to_qflat()):
            self.bad(path, 'flat leg: to_qflat() differs')
        if bool(b.sorted) != bool(b.is_sorted()) and b.sorted:
            self.bad(path, 'flat leg: claims sorted but is not')
        if b.bunched and not b.is_bunched():
            self.bad(path, 'flat leg: claims bunched but is not')
        if type(a).__name__ == 'LegPipe':
            self.cmp(a.legs, b.legs, path + '.legs')


def dense_checks(a, b, path, flat):
    """dense-level observations for the important tenpy classes (independent of attribute layout)."""
    probs = []
    name = type(a).__name__
    try:
        import tenpy.linalg.np_conserved as npc
        from tenpy.linalg import charges
        if isinstance(a, npc.Array):
            if not np.array_equal(a.to_ndarray(), b.to_ndarray()):
                probs.append('Array.to_ndarray() differs')
            if a.get_leg_labels() != b.get_leg_labels() or a.dtype != b.dtype:
                probs.append('Array labels/dtype differ')
            if not np.array_equal(a.qtotal, b.qtotal):
                probs.append('Array.qtotal differs')
            for la, lb in zip(a.legs, b.legs):
                if not np.array_equal(la.to_qflat(), lb.to_qflat()) or la.qconj != lb.qconj:
                    probs.append('Array leg charges differ')
            if not flat and npc.norm(a - b) != 0:
                probs.append('norm(a - loaded) != 0')
        elif isinstance(a, charges.LegCharge):
            if not np.array_equal(a.to_qflat(), b.to_qflat()) or a.qconj != b.qconj or a.ind_len != b.ind_len:
                probs.append('leg qflat/qconj differ')
            if not flat:
                try:
                    a.test_equal(b)
                except Exception as e:
                    probs.append('leg.test_equal fails: %r' % (e,))
        elif isinstance(a, charges.ChargeInfo):
            if not (a == b) or a != b:
                probs.append('ChargeInfo not ==')
        elif name in ('MPS', 'PurificationMPS') and not flat:
            if a.L != b.L or a.bc != b.bc or a.form != b.form or a.norm != b.norm:
                probs.append('MPS L/bc/form/norm differ')
            elif a.bc != 'segment' and a.finite:
                ov = a.overlap(b)
                if abs(ov - a.overlap(a)) > 1e-13 * max(1, abs(ov)):
                    probs.append('MPS overlap with loaded differs from own norm')
        elif name == 'MPO' and not flat:
            if not a.is_equal(b, 1e-15):
                probs.append('MPO.is_equal(loaded) is False')
    except Exception as e:
        probs.append('dense check raised %s: %s' % (type(e).__name__, str(e)[:200]))
    return ['%s: %s' % (path, p) for p in probs]


def _observe(f):
    try:
        v = f()
    except Exception as e:
        return ('raised', type(e).__name__)
    if isinstance(v, np.ndarray):
        return ('array', v.shape, v.tolist())
    if isinstance(v, (tuple, list)):
        return ('seq', [x.item() if isinstance(x, np.generic) else (x.tolist() if isinstance(x, np.ndarray) else x) for x in v])
    if isinstance(v, np.generic):
        return ('value', v.item())
    return ('value', v)


def lattice_observations(lat):
    """what the documented interface of a lattice shows (independent of how the attributes are stored); the optional
    attribute segment_first_last is read the way the segment simulations read it (AttributeError is an observation)."""
    n = _observe(lambda: int(lat.N_sites))
    idx = np.arange(n[1]) if n[0] == 'value' else np.arange(0)
    return {
        'N_sites': n, 'N_cells': _observe(lambda: int(lat.N_cells)), 'Ls': _observe(lambda: tuple(int(i) for i in lat.Ls)),
        'shape': _observe(lambda: tuple(int(i) for i in lat.shape)), 'dim': _observe(lambda: int(lat.dim)),
        'bc_MPS': _observe(lambda: str(lat.bc_MPS)), 'bc': _observe(lambda: [bool(b) for b in lat.bc]),
        'bc_shift': _observe(lambda: None if lat.bc_shift is None else np.asarray(lat.bc_shift)),
        'boundary_conditions': _observe(lambda: [b if isinstance(b, str) else int(b) for b in lat.boundary_conditions]),
        'order': _observe(lambda: np.asarray(lat.order)),
        'segment_first_last': _observe(lambda: tuple(int(i) for i in lat.segment_first_last)),
        'mps2lat_idx': _observe(lambda: np.asarray(lat.mps2lat_idx(idx))),
        'lat2mps_idx': _observe(lambda: np.asarray(lat.lat2mps_idx(lat.mps2lat_idx(idx)))),
        'mps_sites': _observe(lambda: [type(s).__name__ + ':%d' % s.dim for s in lat.mps_sites()]),
        'position': _observe(lambda: np.asarray(lat.position(lat.mps2lat_idx(idx)))),
        'pairs': _observe(lambda: sorted(lat.pairs.keys())),
        # documented read-only properties, backed by the lazily filled caches _reciprocal_basis / _BZ (whose stored values
        # are not compared): what the property RETURNS must be the same for the original and the loaded lattice
        'reciprocal_basis': _observe(lambda: np.asarray(lat.reciprocal_basis)),
        'BZ': _observe(lambda: _bz_record(lat.BZ)),
    }


def _bz_record(bz):
    return (type(bz).__name__, int(bz.dim), np.asarray(bz.basis).shape, np.asarray(bz.basis).tolist(),
            np.asarray(bz.vertices).shape, np.asarray(bz.vertices).tolist())


def lattice_checks(pairs):
    probs = []
    for a, b, path in pairs:
        oa, ob = lattice_observations(a), lattice_observations(b)
        for k in oa:
            if oa[k] != ob[k]:
                probs.append('%s: lattice observation %s of %s: %s became %s' % (path or '<root>', k, type(a).__name__, repr(oa[k])[:120],
                                                                                 repr(ob[k])[:120]))
    return probs[:6]


def sanity_walk(b, seen, out, depth=0):
    """call test_sanity() on every loaded object that has one."""
    if id(b) in seen or depth > 40 or len(seen) > 20000:
        return
    seen.add(id(b))
    if is_leaf(b) or isinstance(b, np.ndarray):
        return
    if isinstance(b, (list, tuple, set, frozenset)):
        for x in b:
            sanity_walk(x, seen, out, depth + 1)
        return
    if isinstance(b, dict):
        for x in b.values():
            sanity_walk(x, seen, out, depth + 1)
        return
    ts = getattr(b, 'test_sanity', None)
    if ts is not None and not isinstance(b, type):
        try:
            ts()
            out['n'] += 1
        except Exception as e:
            if len(out['bad']) < 5:
                out['bad'].append('%s.test_sanity() raised %s: %s' % (type(b).__name__, type(e).__name__, str(e)[:200]))
    d = getattr(b, '__dict__', None)
    if d:
        for x in d.values():
            sanity_walk(x, seen, out, depth + 1)


# ------------------------------------------------------------------------------------------------
# canonical heap of a python object graph (what is compared with the Coq model)
# ------------------------------------------------------------------------------------------------

class Canon:
    """DFS preorder numbering; numbering and child order are those of Model/Heap.v `canon`:
    ids are allocated on entry; list/tuple children in order; set children sorted by leaf value; dict: all keys then
    all values (entries sorted by key when every key is a leaf, insertion order otherwise); instance: attribute values
    sorted by name.  Leaves are never shared.  ndarrays and opaque objects are identity-carrying childless instances."""

    def __init__(self, codes, opaque_instances=False, max_nodes=4000):
        self.codes = codes      # shared table: hashable -> int  (same table for original and loaded)
        self.nodes = []
        self.ids = {}
        self.keep = []
        self.opaque = opaque_instances
        self.max_nodes = max_nodes
        self.overflow = False
        self.in_obj = 0

    def code(self, key):
        key = repr(key)
        if key not in self.codes:
            self.codes[key] = len(self.codes)
        return self.codes[key]

    def visit(self, x):
        if len(self.nodes) >= self.max_nodes:
            self.overflow = True
            self.nodes.append(['L', self.code('overflow')])
            return len(self.nodes) - 1
        if is_leaf(x) and not isinstance(x, np.ndarray):
            self.nodes.append(['L', self.code(norm_leaf_key(x) if self.in_obj else leaf_key(x))])
            return len(self.nodes) - 1
        if isinstance(x, np.ndarray) and self.in_obj:     # internal array of an instance: a value, no identity
            self.nodes.append(['L', self.code(leaf_key(x))])
            return len(self.nodes) - 1
        untracked = self.in_obj and isinstance(x, tuple)
        if id(x) in self.ids and not untracked:
            return self.ids[id(x)]
        self.keep.append(x)
        me = len(self.nodes)
        if not untracked:
            self.ids[id(x)] = me
        self.nodes.append(None)
        if isinstance(x, np.ndarray):
            self.nodes[me] = ['O', self.code(('arr', leaf_key(x))), []]
        elif isinstance(x, list):
            self.nodes[me] = ['l', [self.visit(y) for y in x]]
        elif isinstance(x, tuple):
            self.nodes[me] = ['t', [self.visit(y) for y in x]]
        elif isinstance(x, (set, frozenset)):
            self.nodes[me] = ['s', [self.visit(y) for y in sorted(x, key=lambda y: repr(leaf_key(y)))]]
        elif isinstance(x, dict):
            items = list(x.items())
            if all(is_leaf(k) for k, _ in items):
                items.sort(key=lambda kv: repr(leaf_key(kv[0])))
            ks = [self.visit(k) for k, _ in items]
            vs = [self.visit(v) for _, v in items]
            self.nodes[me] = ['d', list(zip(ks, vs))]
        else:
            bm = bound_method_parts(x)
            if bm is not None:
                self.nodes[me] = ['O', self.code(('method', bm[1])), [[self.code('__self__'), self.visit(bm[0])]]]
                return me
            cls = self.code(('class', type(x).__module__, type(x).__qualname__))
            items = obj_items(x)
            if items is None or self.opaque:
                self.nodes[me] = ['O', self.code(('opaque', type(x).__qualname__, repr(x)[:200])), []]
            else:
                self.in_obj += 1
                self.nodes[me] = ['O', cls, [[self.code(k), self.visit(v)] for k, v in items]]
                self.in_obj -= 1
        return me


def canon_pair(orig, loaded, max_nodes=4000):
    codes = {}
    c1 = Canon(codes, max_nodes=max_nodes)
    r1 = c1.visit(orig)
    c2 = Canon(codes, max_nodes=max_nodes)
    r2 = c2.visit(loaded)
    return {'orig': c1.nodes, 'orig_root': r1, 'loaded': c2.nodes, 'loaded_root': r2,
            'overflow': c1.overflow or c2.overflow}


# ------------------------------------------------------------------------------------------------
# streams
# ------------------------------------------------------------------------------------------------

def discover():
    import importlib
    import inspect
    import pkgutil
    import tenpy
    from tenpy.tools.hdf5_io import Hdf5Exportable
    found = {}
    errs = []
    for m in pkgutil.walk_packages(tenpy.__path__, 'tenpy.'):
        try:
            mod = importlib.import_module(m.name)
        except Exception as e:
            errs.append('%s: %r' % (m.name, e))
            continue
        for n, c in list(vars(mod).items()):
            if inspect.isclass(c) and c.__module__ == mod.__name__ and (hasattr(c, 'save_hdf5') or issubclass(c, Hdf5Exportable)):
                found[c.__module__ + '.' + c.__qualname__] = {
                    'own': [k for k in ('save_hdf5', 'from_hdf5', '__getstate__', '__setstate__', '__reduce__') if k in vars(c)],
                    'abstract_hint': bool(getattr(c, '__abstractmethods__', None)),
                    'bases': [b.__module__ + '.' + b.__qualname__ for b in c.__mro__[1:-1]]}
    return {'classes': found, 'import_errors': errs}


def classes_inside(x, seen, out, depth=0):
    """full names of all instance classes reachable in x (to credit generators with the classes they cover)."""
    if id(x) in seen or depth > 30 or len(seen) > 30000:
        return
    seen.add(id(x))
    if is_leaf(x) or isinstance(x, np.ndarray):
        return
    if isinstance(x, (list, tuple, set, frozenset)):
        for y in x:
            classes_inside(y, seen, out, depth + 1)
        return
    if isinstance(x, dict):
        for y in x.values():
            classes_inside(y, seen, out, depth + 1)
        return
    out.add(type(x).__module__ + '.' + type(x).__qualname__)
    d = getattr(x, '__dict__', None)
    if d:
        for y in d.values():
            classes_inside(y, seen, out, depth + 1)


def wrap_object(obj):
    """the generated object referenced from several containers (plain and general dictionary, list, tuple, instance attributes)
    which themselves lie on reference cycles: every reference must come back as ONE object"""
    from tenpy.tools.hdf5_io import Hdf5Exportable
    h = Hdf5Exportable()
    h.first = obj
    h.second = obj
    lst = [obj, h]
    root = {'alone': obj, 'again': lst, 'tuple': (obj, lst), 'general': {1: obj, (2, 3): h}}
    lst.append(root)        # cycle root -> lst -> root
    h.back = root           # cycle through an instance
    return root


def wrap_checks(orig, loaded):
    probs = []
    try:
        L = loaded
        refs = [L['alone'], L['again'][0], L['again'][1].first, L['again'][1].second, L['tuple'][0], L['general'][1], L['general'][(2, 3)].first]
        if any(r is not refs[0] for r in refs):
            probs.append('wrapped: the object referenced from 7 places was loaded as %d different objects' % len({id(r) for r in refs}))
        if type(refs[0]) is not type(orig['alone']):
            probs.append('wrapped: %s became %s' % (type(orig['alone']).__name__, type(refs[0]).__name__))
        if not (L['again'][2] is L and L['again'][1].back is L and L['tuple'][1] is L['again'] and L['general'][(2, 3)] is L['again'][1]):
            probs.append('wrapped: the reference cycles of the surrounding containers are not restored')
    except Exception as e:
        probs.append('wrapped: structure lost (%s: %s)' % (type(e).__name__, str(e)[:100]))
    return probs


def run_object(spec):
    import c17_gen
    res = {'name': spec['gen'], 'methods': {}}
    try:
        rng = np.random.default_rng(spec.get('seed', 0))
        obj = c17_gen.GENERATORS[spec['gen']](rng, **spec.get('args', {}))
    except Exception:
        res['gen_error'] = traceback.format_exc()[-1500:]
        return res
    res['root_class'] = type(obj).__module__ + '.' + type(obj).__qualname__
    cls = set()
    classes_inside(obj, set(), cls)
    res['classes'] = sorted(cls)
    plain = obj
    todo = [(m, False) for m in spec['methods']] + [('wrapped+' + m, True) for m in spec.get('wrap_methods', [])]
    for method, wrapped in todo:
        out = {}
        res['methods'][method] = out
        if wrapped and obj is plain:
            obj = wrap_object(plain)
        try:
            loaded = roundtrip(obj, method.split('+')[-1])
        except Exception as e:
            tb = traceback.extract_tb(sys.exc_info()[2])
            where = [f for f in tb if '/tenpy/' in f.filename]
            out['error'] = type(e).__name__
            out['message'] = str(e)[:300]
            out['where'] = '%s:%s' % (os.path.basename(where[-1].filename), where[-1].name) if where else ''
            out['where_chain'] = ['%s:%s' % (os.path.basename(f.filename), f.name) for f in where[-6:]]
            continue
        flat = method.endswith('hdf5:flat')
        try:
            c = Compare(flat=flat)
            c.cmp(obj, loaded)
            out['problems'] = c.problems + dense_checks(obj, loaded, '<root>', flat) + lattice_checks(c.lattices)
            out['lattices'] = len(c.lattices)
            out['compared'] = c.n
            out['shared'] = c.shared
            so = {'n': 0, 'bad': []}
            sanity_walk(loaded, set(), so)
            if so['bad']:      # "passes its own sanity check": a check the ORIGINAL fails in the same way says nothing about saving
                so0 = {'n': 0, 'bad': []}
                sanity_walk(obj, set(), so0)
                so['bad'] = [b for b in so['bad'] if b not in so0['bad']]
            out['sanity_n'] = so['n']
            out['sanity_bad'] = so['bad']
            if wrapped:
                out['problems'] += wrap_checks(obj, loaded)
            if spec.get('shape') and not flat and method in spec.get('shape_methods', [method]):
                out['shape'] = canon_pair(obj, loaded, spec.get('max_nodes', 1500))
        except Exception:
            out['runner_error'] = traceback.format_exc()[-1500:]
    return res


# ---- abstract heaps -> python graphs

class Exportable:
    pass


def build_graph(case):
    """case: {'nodes': [[kind, ...]], 'root': i}; kinds: ['L', value-spec], ['l', ids], ['t', ids], ['s', ids],
    ['d', [[k, v]...]], ['O', class-index, [[name, id]...]] (instances of tenpy.tools.hdf5_io.Hdf5Exportable)."""
    from tenpy.tools.hdf5_io import Hdf5Exportable
    nodes = case['nodes']
    objs = [None] * len(nodes)
    # pass 1: leaves and empty mutable containers
    for i, nd in enumerate(nodes):
        k = nd[0]
        if k == 'L':
            objs[i] = leaf_value(nd[1])
        elif k == 'l':
            objs[i] = []
        elif k == 'd':
            objs[i] = {}
        elif k == 's':
            objs[i] = set()
        elif k == 'O':
            objs[i] = Hdf5Exportable()
    # pass 2: tuples in dependency order (python can only build a tuple from existing objects)
    todo = [i for i, nd in enumerate(nodes) if nd[0] == 't']
    while todo:
        rest = []
        for i in todo:
            if all(nodes[c][0] != 't' or objs[c] is not None for c in nodes[i][1]):
                objs[i] = tuple(objs[c] for c in nodes[i][1])
            else:
                rest.append(i)
        if len(rest) == len(todo):
            raise ValueError('tuple cycle in case')
        todo = rest
    # pass 3: fill
    for i, nd in enumerate(nodes):
        k = nd[0]
        if k == 'l':
            objs[i].extend(objs[c] for c in nd[1])
        elif k == 's':
            objs[i].update(objs[c] for c in nd[1])
        elif k == 'd':
            for kk, vv in nd[1]:
                objs[i][objs[kk]] = objs[vv]
        elif k == 'O':
            for name, c in nd[2]:
                setattr(objs[i], name, objs[c])
    return objs[case['root']]


def leaf_value(spec):
    t, v = spec
    if t == 'int':
        return int(v)
    if t == 'bigint':
        return int(v)
    if t == 'str':
        return str(v)
    if t == 'float':
        return float(v)
    if t == 'complex':
        return complex(v[0], v[1])
    if t == 'none':
        return None
    if t == 'bool':
        return bool(v)
    if t == 'np':
        return getattr(np, v[0])(v[1])
    if t == 'npc':
        return getattr(np, v[0])(complex(v[1], v[2]))
    if t == 'dtype':
        return np.dtype(v) if isinstance(v, str) else np.dtype([tuple(x) if len(x) == 2 else (x[0], x[1], x[2]) for x in v])
    if t == 'range':
        return range(*v)
    if t == 'bytes':
        return bytes(v, 'ascii')
    raise ValueError(spec)


def run_graph(case):
    out = {}
    try:
        obj = build_graph(case)
    except Exception:
        return {'build_error': traceback.format_exc()[-800:]}
    for method in case['methods']:
        o = {}
        out[method] = o
        try:
            loaded = roundtrip(obj, method)
        except RecursionError:
            o['error'] = 'RecursionError'
            continue
        except Exception as e:
            o['error'] = type(e).__name__
            o['message'] = str(e)[:300]
            continue
        try:
            c = Compare()
            c.cmp(obj, loaded)
            o['problems'] = c.problems
            o['shape'] = canon_pair(obj, loaded)
        except Exception:
            o['runner_error'] = traceback.format_exc()[-800:]
    return out


# ---- F13 : objects whose __reduce__ uses listitems / dictitems / state

class ReduceState:
    def __init__(self, v=None):
        self.v = v

    def __reduce__(self):
        return (ReduceState, (), {'v': self.v})


def run_reduce(case):
    import collections
    out = {}
    objs = {
        'reduce_returns_str': lambda: np.sin,
        'state_only': lambda: ReduceState([1, 2]),
        'ordered_dict': lambda: collections.OrderedDict([('x', 1), ('y', [2])]),
        'deque': lambda: collections.deque([1, 2, 3]),
        'defaultdict': lambda: collections.defaultdict(list, {'a': [1]}),
    }
    for name, mk in objs.items():
        o = {}
        out[name] = o
        obj = mk()
        try:
            rv = obj.__reduce__()
            if isinstance(rv, str):
                rv = (rv,)
            o['reduce_len'] = len(rv)
            o['has_listitems'] = len(rv) > 3 and rv[3] is not None
            o['has_dictitems'] = len(rv) > 4 and rv[4] is not None
            o['has_state'] = len(rv) > 2 and rv[2] is not None
        except Exception as e:
            o['reduce_error'] = repr(e)[:200]
        for method in ('hdf5:default', 'pickle'):
            try:
                # a global is stored as an HDF5 dataset (like int/str/functions), which cannot be the root object of a file:
                # save it inside a list
                loaded = roundtrip([obj], method)[0] if name == 'reduce_returns_str' else roundtrip(obj, method)
                same = (loaded is obj) if name == 'reduce_returns_str' else (type(loaded) is type(obj)) and (
                    (list(loaded) == list(obj) if isinstance(obj, (list, collections.deque)) else True) and
                    (dict(loaded) == dict(obj) if isinstance(obj, dict) else True) and
                    (getattr(loaded, '__dict__', None) == getattr(obj, '__dict__', None)))
                o[method] = {'equal': bool(same), 'loaded': repr(loaded)[:200], 'orig': repr(obj)[:200]}
            except Exception as e:
                o[method] = {'error': type(e).__name__, 'message': str(e)[:300]}
    return out


def run_states(case):
    """observed at run time: __getstate__ lengths and __setstate__ acceptance for the positional-state classes."""
    import c17_gen
    out = {}
    rng = np.random.default_rng(0)
    for name in ('chinfo', 'dipolar_chinfo', 'legcharge', 'legpipe', 'array'):
        obj = c17_gen.GENERATORS[name](rng)
        st = obj.__getstate__()
        new = type(obj).__new__(type(obj))
        o = {'class': type(obj).__name__, 'state_type': type(st).__name__, 'state_len': len(st)}
        try:
            new.__setstate__(st)
            c = Compare()
            c.cmp(obj, new)
            o['setstate_ok'] = not c.problems
            o['problems'] = c.problems
        except Exception as e:
            o['setstate_ok'] = False
            o['problems'] = [repr(e)[:200]]
        out[name] = o
    return out


# ------------------------------------------------------------------------------------------------
# LegPipe re-initialisation (Model/PipeReinit.v): what save_hdf5 writes, what from_hdf5 / pickle rebuild
# ------------------------------------------------------------------------------------------------

def _ilist(a):
    return [int(x) for x in np.asarray(a).reshape(-1)]


def _ill(a, ncol=None):
    a = np.asarray(a)
    if a.ndim != 2:
        raise ValueError('expected a 2D array, got shape %r' % (a.shape,))
    return [[int(x) for x in row] for row in a]


def _rd(ds):
    """dataset -> integer array (h5py cannot slice datasets with a zero dimension)"""
    if 0 in ds.shape:
        return np.zeros(ds.shape, np.int64)
    return np.asarray(ds[...])


def _raw_leg(g):
    """(block sizes+charges, qconj) of the LegCharge part stored in h5py group g (formats blocks / compact), read raw"""
    fmt = g.attrs['format']
    fmt = fmt.decode() if isinstance(fmt, bytes) else str(fmt)
    if fmt == 'blocks':
        slices = _ilist(_rd(g['slices']))
        charges = _ill(_rd(g['charges']))
    elif fmt == 'compact':
        bc = _rd(g['blockcharges'])
        slices = _ilist(bc[:, 0]) + [int(bc[-1, 1])]
        charges = _ill(bc[:, 2:])
    else:
        raise ValueError('format %r' % fmt)
    if len(charges) != len(slices) - 1 or len(charges) != int(g.attrs['block_number']):
        raise ValueError('block_number / slices / charges of the file do not fit')
    return slices, charges, int(g.attrs['qconj'])


def _pipe_rec(p):
    from tenpy.linalg.charges import LegPipe
    assert type(p) is LegPipe, type(p)
    legs = []
    for l in p.legs:
        sl = _ilist(l.slices)
        legs.append([[b - a for a, b in zip(sl[:-1], sl[1:])], _ill(l.charges), int(l.qconj)])
    return {'charges': _ill(p.charges), 'slices': _ilist(p.slices), 'q_map': _ill(p.q_map), 'q_map_slices': _ilist(p.q_map_slices),
            'perm': None if p._perm is None else _ilist(p._perm), 'strides': _ilist(p._strides),
            'sorted': bool(p.sorted), 'bunched': bool(p.bunched), 'is_bool': [type(p.sorted).__name__, type(p.bunched).__name__],
            'legs': legs, 'qconj': int(p.qconj), 'mods': _ilist(p.chinfo.mod),
            'nlegs': int(p.nlegs), 'subshape': _ilist(p.subshape), 'subqshape': _ilist(p.subqshape), 'ind_len': int(p.ind_len),
            'block_number': int(p.block_number)}


def run_pipe_reinit(case):
    import h5py
    from tenpy.linalg.charges import ChargeInfo, LegCharge, LegPipe
    from tenpy.tools import hdf5_io
    out = {}
    try:
        ci = ChargeInfo(list(case['mods']))
        legs = []
        for sizes, charges, qconj in case['legs']:
            ch = ci.make_valid(np.array(charges, dtype=np.int64).reshape(len(sizes), ci.qnumber))
            legs.append(LegCharge.from_qind(ci, np.cumsum([0] + list(sizes)), ch, qconj))
        p = LegPipe(legs, qconj=case['qconj'], sort=case['sort'], bunch=case['bunch'])
        out['orig'] = _pipe_rec(p)
        with tempfile.TemporaryDirectory(prefix='c17p_', dir=os.environ.get('C17_TMP', None)) as d:
            fn = os.path.join(d, 'p.h5')
            with h5py.File(fn, 'w') as f:
                hdf5_io.Hdf5Saver(f, {'LegCharge': case['format']}).save(p)       # -> LegPipe.save_hdf5
            with h5py.File(fn, 'r') as f:
                g = f['/']
                fr = {'attrs': sorted(g.attrs.keys()), 'members': sorted(g.keys())}
                for k in ('sorted', 'bunched'):
                    v = g.attrs[k]
                    if np.asarray(v).dtype.kind != 'b' or np.asarray(v).shape != ():
                        raise ValueError('attribute %r of the file is not a boolean scalar: %r' % (k, v))
                    fr[k] = bool(v)
                sl, ch, qc = _raw_leg(g)
                fr.update(slices=sl, charges=ch, qconj=qc, ind_len=int(g.attrs['ind_len']))
                fr['mods'] = _ilist(_rd(g['chinfo']['U1_ZN']))
                lg = g['legs']
                n = int(lg.attrs['len'])
                fl = []
                for i in range(n):
                    lsl, lch, lqc = _raw_leg(lg[str(i)])
                    fl.append([[b - a for a, b in zip(lsl[:-1], lsl[1:])], lch, lqc])
                    lm = _ilist(_rd(lg[str(i)]['chinfo']['U1_ZN']))
                    if lm != fr['mods']:
                        raise ValueError('chinfo of leg %d in the file differs from the chinfo of the pipe' % i)
                if sorted(lg.keys()) != sorted(str(i) for i in range(n)):
                    raise ValueError('legs group has members %r' % (sorted(lg.keys()),))
                fr['legs'] = fl
                out['file'] = fr
            with h5py.File(fn, 'r') as f:
                q = hdf5_io.Hdf5Loader(f, ignore_unknown=False).load()             # -> LegPipe.from_hdf5
            out['h5'] = _pipe_rec(q)
            q.test_sanity()
            LegCharge.test_sanity(q)
        r = pickle.loads(pickle.dumps(p))
        out['pickle'] = _pipe_rec(r)
        r.test_sanity()
        LegCharge.test_sanity(r)
    except Exception as e:
        tb = traceback.extract_tb(e.__traceback__)
        out['error'] = type(e).__name__
        out['message'] = str(e)[:300]
        out['where'] = '%s:%s' % (os.path.basename(tb[-1].filename), tb[-1].name) if tb else ''
    return out


def main():
    fin, fout = sys.argv[1], sys.argv[2]
    payload = json.load(open(fin))
    kind = payload['kind']
    if payload.get('cov_dir'):       # line coverage of the anchored functions (harness/c17_cover.py)
        import c17_cover_impl
        c17_cover_impl.start_cov()
    if kind == 'discover':
        res = discover()
    elif kind == 'objects':
        res = [run_object(s) for s in payload['specs']]
    elif kind == 'graphs':
        res = [run_graph(c) for c in payload['cases']]
    elif kind == 'reduce':
        res = run_reduce(payload)
    elif kind == 'states':
        res = run_states(payload)
    elif kind == 'pipe_reinit':
        res = [run_pipe_reinit(c) for c in payload['cases']]
    elif kind == 'list_generators':
        import c17_gen
        res = {'generators': {k: getattr(v, 'variants', 1) for k, v in c17_gen.GENERATORS.items()}}
    else:
        raise ValueError(kind)
    if payload.get('cov_dir'):
        c17_cover_impl.dump_cov(payload['cov_dir'], kind)
    with open(fout, 'w') as f:
        json.dump(res, f, default=str)


if __name__ == '__main__':
    main()
