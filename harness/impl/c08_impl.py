"""Runs the measurement functions of tenpy.networks.mps of the tree under test on the cases of harness/c08.py and evaluates the
dense reference <bra|O|ket> (harness/c12_oracle.py operators, harness/c08_gen.py dense windows) next to each returned number.
Fresh interpreter, JSON in/out.  Every record is {'what': ..., 'got': [...], 'want': [...]} (complex numbers as [re, im])."""
import json
import os
import sys
import traceback
import warnings

import numpy as np

warnings.simplefilter('ignore')
sys.path.insert(0, os.path.join(os.environ.get('VERIF_DIR', '/verif'), 'harness'))
import c12_oracle as orc  # noqa: E402
import c08_gen as gen  # noqa: E402


def cl(x):
    x = np.asarray(x, dtype=complex).reshape(-1)
    return [[float(z.real), float(z.imag)] for z in x]


class Ref:
    """dense reference of a (bra, ket) pair on a chain"""

    def __init__(self, chain, bra, ket):
        self.chain, self.bra, self.ket = chain, bra, ket
        self.L = len(chain.sites)
        self.finite = ket.finite
        self.cache = {}

    def window(self, lo, hi):
        if self.ket.bc == 'finite' or self.ket.bc == 'segment':
            lo, hi = 0, self.L - 1
        key = (lo, hi)
        if key not in self.cache:
            n = hi - lo + 1
            tk = gen.window_to_doc(self.chain, gen.dense_window(self.ket, lo, n), lo)
            tb = tk if self.bra is self.ket else gen.window_to_doc(self.chain, gen.dense_window(self.bra, lo, n), lo)
            self.cache[key] = (lo, gen.window_docs(self.chain, lo, n), tb, tk)
        return self.cache[key]

    def term(self, term):
        sites = [i for _, i in term]
        lo, docs, tb, tk = self.window(min(sites), max(sites))
        O = orc.term_op(docs, [(op, i - lo) for op, i in term])
        return gen.expect_window(tb, O, tk)

    def words(self, lo, words):
        """words: list (one per site lo, lo+1, ...) of lists of operator names multiplied left to right"""
        lo0, docs, tb, tk = self.window(lo, lo + len(words) - 1)
        full = [[] for _ in docs]
        for k, w in enumerate(words):
            full[lo + k - lo0] = list(w)
        return gen.expect_window(tb, orc.product_op(docs, full), tk)

    def matrix(self, lo, n, M):
        """operator given as a dense matrix in the doc bases acting on sites lo..lo+n-1"""
        lo0, docs, tb, tk = self.window(lo, lo + n - 1)
        mats = [d.ops['Id'] for d in docs]
        left = orc.kron_all(mats[:lo - lo0])
        right = orc.kron_all(mats[lo - lo0 + n:])
        return gen.expect_window(tb, np.kron(np.kron(left, M), right), tk)

    def rho(self, segment):
        lo0, docs, tb, tk = self.window(min(segment), max(segment))
        n = tk.ndim - 2
        seg = [s - lo0 for s in segment]
        rest = [k for k in range(n) if k not in seg]
        t = np.transpose(tk, [0, n + 1] + [1 + k for k in rest] + [1 + k for k in seg])
        dseg = int(np.prod([docs[k].dim for k in seg]))
        t = t.reshape(-1, dseg)
        return t.T @ t.conj()        # rho[s, s'] = sum_rest psi[rest, s] conj(psi[rest, s'])


def build_state(rng, st):
    ch = gen.Chain(st['sites'])
    kind = st['kind']
    if kind == 'finite':
        psi, q = gen.random_finite_mps(rng, ch, cplx=st.get('cplx', True), chi_max=st.get('chi_max'))
        return ch, psi
    if kind == 'segment':
        big = gen.Chain(st['big_sites'])
        psi0, q = gen.random_finite_mps(rng, big, cplx=True, chi_max=st.get('chi_max'))
        first = st['first']
        seg = psi0.extract_segment(first, first + len(st['sites']) - 1)
        return ch, seg
    if kind == 'infinite' and st.get('charged'):
        return ch, gen.random_charged_infinite_mps(rng, ch, chi=st.get('chi', 4), steps=st.get('steps', 4))
    if kind == 'infinite':
        return ch, gen.random_infinite_mps(rng, ch, chi=st.get('chi', 3), cplx=st.get('cplx', True))
    raise ValueError(kind)


def npc_product_op(chain, i0, names, labels=None):
    import tenpy.linalg.np_conserved as npc
    L = len(chain.sites)
    op = None
    for k, nm in enumerate(names):
        o = chain.sites[(i0 + k) % L].get_op(nm)
        a, b = (labels[0][k], labels[1][k]) if labels else ('p%d' % k, 'p%d*' % k)
        o = o.replace_labels(['p', 'p*'], [a, b])
        op = o if op is None else npc.outer(op, o)
    return op


def measure(ref, psi_or_env, m, rng):
    """one measurement -> record(s)"""
    chain = ref.chain
    L = ref.L
    k = m['f']
    obj = psi_or_env
    if k == 'ev':
        ops, sites = m['ops'], m.get('sites')
        got = obj.expectation_value(ops if len(ops) > 1 else ops[0], sites)
        ss = sites if sites is not None else list(range(L))
        want = [ref.words(i, [[ops[(i % L) % len(ops)]]]) for i in ss]
        return {'got': cl(got), 'want': cl(want)}
    if k == 'ev_multi':       # n-site npc operator, optional custom axes
        names, i_list = m['names'], m['sites']
        n = len(names[0])
        got, want = [], []
        for i in i_list:
            nm = names[i % len(names)]
            if m.get('axes'):
                labels = (['x%d' % t for t in range(n)], ['y%d' % t for t in range(n)])
                op = npc_product_op(chain, i, nm, labels)
                got.append(obj.expectation_value(op, [i], axes=labels)[0])
            else:
                op = npc_product_op(chain, i, nm)
                got.append(obj.expectation_value(op, [i])[0])
            want.append(ref.words(i, [[x] for x in nm]))
        return {'got': cl(got), 'want': cl(want)}
    if k == 'ev_multi_sites':
        got = obj.expectation_value_multi_sites(m['ops'], m['i0'])
        return {'got': cl([got]), 'want': cl([ref.words(m['i0'], [[x] for x in m['ops']])])}
    if k == 'ev_term':
        term = [(a, int(b)) for a, b in m['term']]
        got = obj.expectation_value_term(term, autoJW=m.get('autoJW', True))
        return {'got': cl([got]), 'want': cl([ref.term(term)])}
    if k == 'terms_sum':
        from tenpy.networks.terms import TermList
        terms = [[(a, int(b)) for a, b in t] for t in m['terms']]
        tl = TermList(terms, m['strength'])
        got, _ = obj.expectation_value_terms_sum(tl)
        want = sum(s * ref.term(t) for t, s in zip(terms, m['strength']))
        return {'got': cl([got]), 'want': cl([want])}
    if k == 'corr':
        kw = dict(m.get('kwargs', {}))
        o1, o2 = m['ops1'], m['ops2']
        s1 = kw.get('sites1', list(range(L)))
        s2 = kw.get('sites2', list(range(L)))
        s1 = list(range(s1)) if isinstance(s1, int) else sorted(s1)
        s2 = list(range(s2)) if isinstance(s2, int) else sorted(s2)
        got = obj.correlation_function(o1 if len(o1) > 1 else o1[0], o2 if len(o2) > 1 else o2[0], **kw)
        opstr = kw.get('opstr')
        sof = kw.get('str_on_first', True)
        want = np.empty((len(s1), len(s2)), dtype=complex)
        for x, i in enumerate(s1):
            for y, j in enumerate(s2):
                a = o1[(i % L) % len(o1)]
                b = o2[(j % L) % len(o2)]
                if opstr is None:
                    want[x, y] = ref.term([(a, i), (b, j)]) if kw.get('autoJW', True) else ref.words(min(i, j), _plain(a, b, i, j))
                else:
                    ol = opstr if isinstance(opstr, list) else [opstr]
                    lo, hi = min(i, j), max(i, j)
                    words = [[] for _ in range(hi - lo + 1)]
                    # documented: i<j: ops1[i] prod_{i<=r<j} opstr[r] ops2[j] ; i>j: prod_{j<=r<i} opstr[r] ops1[i] ops2[j]
                    if i < j:
                        words[0].append(a)
                        for r in range(i if sof else i + 1, j):
                            words[r - lo].append(ol[(r % L) % len(ol)])
                        words[j - lo].append(b)
                    elif i > j:
                        for r in range(j if sof else j + 1, i):
                            words[r - lo].append(ol[(r % L) % len(ol)])
                        words[i - lo].append(a)
                        words[0].append(b)
                    else:
                        words[0] = [a, b]
                    want[x, y] = ref.words(lo, words)
        return {'got': cl(got), 'want': cl(want), 'shape': list(np.shape(got))}
    if k == 'corr_words':     # bridge to the Coq model: per-site words computed by Model/Corr.v
        kw = dict(m.get('kwargs', {}))
        got = obj.correlation_function(m['op1'], m['op2'], sites1=[m['i']], sites2=[m['j']], **kw)
        return {'got': cl(got), 'want': cl([ref.words(m['lo'], m['words'])])}
    if k in ('tcf_right', 'tcf_left'):
        tL = [(a, int(b)) for a, b in m['term_L']]
        tR = [(a, int(b)) for a, b in m['term_R']]
        if k == 'tcf_right':
            got = obj.term_correlation_function_right(tL, tR, m['i_L'], m['j_R'], autoJW=m.get('autoJW', True))
            want = [ref.term([(a, i + m['i_L']) for a, i in tL] + [(a, i + j) for a, i in tR]) for j in sorted(m['j_R'])]
        else:
            got = obj.term_correlation_function_left(tL, tR, m['i_L'], m['j_R'], autoJW=m.get('autoJW', True))
            want = [ref.term([(a, i + iL) for a, i in tL] + [(a, i + m['j_R']) for a, i in tR]) for iL in sorted(m['i_L'], reverse=True)]
        return {'got': cl(got), 'want': cl(want)}
    if k == 'tlcf_right':
        # <bra| (sum_a s_a A_a)(i_L) (sum_b t_b B_b)(j) |ket> for j in sorted(j_R): the double sum of dense term values.  Documented
        # assumption of the function (autoJW): terms with an odd TOTAL number of Jordan-Wigner operators do not contribute.
        from tenpy.networks.terms import TermList
        tLs = [[(a, int(b)) for a, b in t] for t in m['terms_L']]
        tRs = [[(a, int(b)) for a, b in t] for t in m['terms_R']]
        sL = [complex(*z) for z in m['strength_L']]
        sR = [complex(*z) for z in m['strength_R']]
        auto = m.get('autoJW', True)
        kw = {} if auto else {'autoJW': False, 'opstr': m.get('opstr')}
        i_L = m['i_L']
        got = obj.term_list_correlation_function_right(TermList(tLs, sL), TermList(tRs, sR), i_L, m['j_R'], **kw)
        jR = m['j_R']
        if jR is None:       # documented default (finite): the right list starts one site right of the left list, up to the end
            max_L = max(i for t in tLs for _, i in t)
            min_R = min(i for t in tRs for _, i in t)
            max_R = max(i for t in tRs for _, i in t)
            jR = list(range(i_L + max_L + 1 - min_R, L - max(0, max_R)))

        def par(t, off):
            return sum(1 for a, i in t if chain.docs[(i + off) % L].needs_JW(a)) % 2
        want, parts = [], []
        for j in sorted(jR):
            tot, mx = 0.0, 0.0
            for ta, sa in zip(tLs, sL):
                for tb, sb in zip(tRs, sR):
                    if auto and par(ta, i_L) != par(tb, j):
                        continue
                    full = [(a, i + i_L) for a, i in ta] + [(a, i + j) for a, i in tb]
                    if auto:
                        v = ref.term(full)
                    else:     # no Jordan-Wigner strings; opstr on the sites between the terms and as filling inside the lists' windows
                        lo = min(i for _, i in full)
                        hi = max(i for _, i in full)
                        words = [[] for _ in range(hi - lo + 1)]
                        for a, i in full:
                            words[i - lo].append(a)
                        if m.get('opstr'):
                            la = max(i for _, i in ta) + i_L
                            fb = min(i for _, i in tb) + j
                            for r in range(la + 1, fb):
                                words[r - lo].append(m['opstr'])
                        v = ref.words(lo, words)
                    tot += sa * sb * v
                    mx = max(mx, abs(sa * sb * v))
            want.append(tot)
            parts.append(mx)
        return {'got': cl(got), 'want': cl(want), 'max_part': [float(x) for x in parts]}
    if k == 'ent':
        # Schmidt decomposition of the dense state at every bond (finite chain)
        n_ = m.get('n', 1)
        lo0, docs, tb, tk = ref.window(0, L - 1)
        dims = [d.dim for d in docs]
        v = tk.reshape(-1)

        def ent(p):
            p = p[p > 1e-30]
            if n_ == 1:
                return float(-np.sum(p * np.log(p)))
            return float(np.log(np.sum(p ** n_)) / (1. - n_))
        got = list(obj.entanglement_entropy(n=n_))
        want, spec_got, spec_want = [], [], []
        spectrum = obj.entanglement_spectrum(by_charge=False)
        by_q = obj.entanglement_spectrum(by_charge=True)
        for b in range(1, L):
            sv = np.linalg.svd(v.reshape(int(np.prod(dims[:b])), -1), compute_uv=False)
            want.append(ent(sv ** 2))
            p_got = np.sort(np.exp(-np.asarray(spectrum[b - 1])))[::-1]
            p_q = np.sort(np.exp(-np.concatenate([np.asarray(x) for _, x in by_q[b - 1]])))[::-1]
            p_want = np.sort(sv ** 2)[::-1]
            n_max = max(len(p_got), len(p_want), len(p_q))
            for arr, dest in ((p_got, spec_got), (p_q, spec_got), (p_want, spec_want), (p_want, spec_want)):
                dest.extend(list(arr[:n_max]) + [0.0] * (n_max - len(arr)))
        seg = sorted(m['segment'])
        got.append(obj.entanglement_entropy_segment2(seg, n=n_))
        want.append(ent(np.linalg.eigvalsh(ref.rho(seg)).clip(0, None)))
        return {'got': cl(got + spec_got), 'want': cl(want + spec_want), 'tol': 1e-8}
    if k == 'rho':
        seg = m['segment']
        rho = obj.get_rho_segment(seg)
        n = len(seg)
        arr = rho.itranspose(['p%d' % t for t in range(n)] + ['p%d*' % t for t in range(n)]).to_ndarray()
        # to doc bases
        for t, s in enumerate(sorted(seg)):
            inv = np.argsort(chain.maps[s % L])
            arr = np.take(np.take(arr, inv, axis=t), inv, axis=n + t)
        D = int(np.prod(arr.shape[:n]))
        return {'got': cl(arr.reshape(D, D)), 'want': cl(ref.rho(sorted(seg)))}
    if k == 'mutinf':
        coords, mi = obj.mutinf_two_site(max_range=m.get('max_range'))

        def S(rho):
            p = np.linalg.eigvalsh((rho + rho.conj().T) / 2)
            p = p[p > 1e-30]
            return float(-np.sum(p * np.log(p)))
        want = [S(ref.rho([i])) + S(ref.rho([j])) - S(ref.rho([i, j])) for i, j in coords]
        ee = obj.entanglement_entropy_segment(segment=[0, 1]) if m.get('seg2') else []
        want2 = [S(ref.rho([i, i + 1])) for i in range(len(ee))]
        return {'got': cl(list(mi) + list(ee)), 'want': cl(want + want2), 'coords': [[int(a), int(b)] for a, b in coords], 'tol': 1e-8}
    if k == 'prob_charge':
        b = m['bond']
        charges, ps = obj.probability_per_charge(b)
        avg = obj.average_charge(b)
        var = obj.charge_variance(b)
        # dense: distribution of the total charge of the sites left of the bond (finite chain)
        lo0, docs, tb, tk = ref.window(0, L - 1)
        prob = np.abs(tk.reshape([d.dim for d in docs])) ** 2
        chinfo = chain.sites[0].leg.chinfo
        dist = {}
        for idx in np.ndindex(*prob.shape):
            if prob[idx] == 0:
                continue
            q = np.zeros(chinfo.qnumber, dtype=int)
            for s in range(b):
                site_idx = int(np.nonzero(chain.maps[s] == idx[s])[0][0])
                q = q + chain.sites[s].leg.to_qflat()[site_idx]
            q = tuple(int(x) for x in chinfo.make_valid(q))
            dist[q] = dist.get(q, 0.0) + prob[idx]
        got_d = {}
        for c, p in zip(charges, ps):
            c = tuple(int(x) for x in chinfo.make_valid(c))
            got_d[c] = got_d.get(c, 0.0) + float(p)
        keys = sorted(set(dist) | set(k_ for k_, v in got_d.items() if v > 1e-14))
        return {'got': cl([got_d.get(k_, 0.0) for k_ in keys]), 'want': cl([dist.get(k_, 0.0) for k_ in keys]), 'keys': [list(k_) for k_ in keys],
                'nonmod': bool(all(mm == 1 for mm in chinfo.mod)),
                'avg': cl(avg), 'avg_want': cl(np.sum([np.array(k_) * v for k_, v in dist.items()], axis=0) if dist else []),
                'var': cl(var),
                'var_want': cl(np.sum([np.array(k_, dtype=float) ** 2 * v for k_, v in dist.items()], axis=0)
                               - np.sum([np.array(k_) * v for k_, v in dist.items()], axis=0) ** 2 if dist else [])}
    if k == 'sample':
        r = np.random.default_rng(m['seed'])
        first, last = m.get('first', 0), m.get('last', L - 1)
        sig, w = obj.sample_measurements(first, last, ops=m.get('ops'), rng=r, complex_amplitude=m.get('complex_amplitude', True))
        lo0, docs, tb, tk = ref.window(first, last)
        n = tk.ndim - 2
        if m.get('ops') is None:
            # sigmas are basis indices of the sites -> doc indices
            idx = [int(chain.maps[(first + t) % L][int(s)]) for t, s in enumerate(sig)]
            sl = [slice(None)] * (n + 2)
            for t, d in enumerate(idx):
                sl[1 + (first - lo0) + t] = d
            sub = tk[tuple(sl)]
            prob = float(np.sum(np.abs(sub) ** 2))
            amp = complex(sub.reshape(-1)[0]) if sub.size == 1 else None
        else:
            # projectors on the eigenspaces of the measured eigenvalues
            mats = [d.ops['Id'] for d in docs]
            for t, s in enumerate(sig):
                d = docs[(first - lo0) + t]
                O = d.op(m['ops'][t % len(m['ops'])])
                ev, V = np.linalg.eigh(O)
                sel = np.abs(ev - s) < 1e-9
                mats[(first - lo0) + t] = V[:, sel] @ V[:, sel].conj().T
            prob = float(np.real(gen.expect_window(tk, orc.kron_all(mats), tk)))
            amp = None
        return {'sigmas': [float(s) for s in sig], 'weight': cl([w]), 'prob': prob, 'amp': cl([amp]) if amp is not None else None,
                'complex_amplitude': m.get('complex_amplitude', True), 'n_sites': last - first + 1}
    raise ValueError(k)


def _plain(a, b, i, j):
    lo, hi = min(i, j), max(i, j)
    words = [[] for _ in range(hi - lo + 1)]
    if i == j:
        words[0] = [a, b]
    else:
        words[i - lo].append(a)
        words[j - lo].append(b)
    return words


def run_state(case):
    rng = np.random.default_rng(case['seed'])
    ch, psi = build_state(rng, case['state'])
    obj = psi
    bra = psi
    if case.get('bra'):     # MPSEnvironment with a different bra (finite)
        from tenpy.networks.mps import MPSEnvironment
        bra, _ = gen.random_finite_mps(rng, ch, cplx=True, chi_max=case['bra'].get('chi_max'), sector=_sector(ch, psi))
        obj = MPSEnvironment(bra, psi)
    ref = Ref(ch, bra, psi)
    out = {'chi': [int(x) for x in psi.chi], 'records': []}
    for m in case['measure']:
        try:
            r = measure(ref, obj, m, rng)
        except Exception as e:
            r = {'error': type(e).__name__, 'msg': str(e)[:300], 'tb': traceback.format_exc()[-500:]}
        out['records'].append(r)
    return out


def _sector(ch, psi):
    if ch.sites[0].leg.chinfo.qnumber == 0:
        return None
    return [int(x) for x in psi.get_total_charge()]


def run_overlap(case):
    rng = np.random.default_rng(case['seed'])
    ch = gen.Chain(case['sites'])
    L = len(ch.sites)
    if case['kind'] == 'finite':
        a, q = gen.random_finite_mps(rng, ch, cplx=True, chi_max=case.get('chi_a'))
        b, _ = gen.random_finite_mps(rng, ch, cplx=True, chi_max=case.get('chi_b'), sector=q if not case.get('other_sector') else None)
        a.norm = case.get('norm_a', 1.0)
        b.norm = case.get('norm_b', 1.0)
        got = a.overlap(b)
        got2 = a.overlap(b, ignore_form=True)
        va = gen.dense_window(a, 0, L).reshape(-1)
        vb = gen.dense_window(b, 0, L).reshape(-1)
        want = np.vdot(va, vb) * a.norm * b.norm
        return {'got': cl([got, got2]), 'want': cl([want, want])}
    a = gen.random_infinite_mps(rng, ch, chi=case.get('chi_a', 2))
    b = gen.random_infinite_mps(rng, ch, chi=case.get('chi_b', 3)) if not case.get('same') else a
    got = a.overlap(b, understood_infinite=True, charge_sector=case.get('charge_sector'))
    E = None
    for i in range(L):
        A = a.get_B(i, form='B').itranspose(['vL', 'p', 'vR']).to_ndarray()
        B = b.get_B(i, form='B').itranspose(['vL', 'p', 'vR']).to_ndarray()
        T = np.einsum('apb,cpd->acbd', A.conj(), B)
        T = T.reshape(T.shape[0] * T.shape[1], -1)
        E = T if E is None else E @ T
    ev = np.linalg.eigvals(E)
    want = ev[np.argmax(np.abs(ev))]
    return {'got': cl([got]), 'want': cl([want]), 'gap': float(np.sort(np.abs(ev))[-1] - (np.sort(np.abs(ev))[-2] if len(ev) > 1 else 0))}


def run_ops_list(case):
    """_term_to_ops_list with the multiplication of operators replaced by recording the names (instance attribute on copies
    of the sites; the source is not touched)"""
    import copy
    from tenpy.networks.mps import MPS
    ch = gen.Chain(case['sites'])
    sites = [copy.copy(s) for s in ch.sites]
    for s in sites:
        s.multiply_operators = (lambda ops: list(ops))
    L = len(sites)
    psi = MPS.from_product_state(sites, [0] * L, bc=case.get('bc', 'finite'), unit_cell_width=L)
    res = []
    for t in case['terms']:
        term = [(a, int(b)) for a, b in t['term']]
        try:
            ops, imin, extra = psi._term_to_ops_list(term, t['autoJW'], t.get('i_offset', 0), t.get('jfr', False))
            res.append({'ops': [[str(x) for x in o] for o in ops], 'imin': int(imin), 'extra': bool(extra)})
        except Exception as e:
            res.append({'error': type(e).__name__ + ': ' + str(e)[:100]})
    return res


def run_window(case):
    """expectation_value(ops, sites=[s]) with n-site operators: which entry of `ops` is selected (object identity) and which
    tensors get_theta contracts (arguments of get_B, recorded through an instance attribute; the source is not touched)"""
    import warnings
    import tenpy.linalg.np_conserved as npc
    from tenpy.networks.mps import MPS
    from tenpy.networks.site import SpinHalfSite
    L, nops = case['L'], case['nops']
    site = SpinHalfSite(conserve=None)
    psi = MPS.from_product_state([site] * L, ['up', 'down'] * (L // 2) + ['up'] * (L % 2), bc=case['bc'], unit_cell_width=L)
    calls = []
    orig_get_B = psi.get_B

    def rec_get_B(i, *a, **kw):
        calls.append(int(i))
        return orig_get_B(i, *a, **kw)
    psi.get_B = rec_get_B
    picked = []
    orig_get_op = psi.get_op

    def rec_get_op(op_list, i):
        op, jw = orig_get_op(op_list, i)
        picked.append([k for k, o in enumerate(op_list) if o is op])
        return op, jw
    psi.get_op = rec_get_op
    res = []
    for s0, n in case['queries']:
        ops = []
        for _ in range(nops):
            op = site.Sz.copy() if n == 1 else site.Sz.replace_labels(['p', 'p*'], ['p0', 'p0*'])
            for k in range(1, n):
                op = npc.outer(op, site.Sz.replace_labels(['p', 'p*'], ['p%d' % k, 'p%d*' % k]))
            ops.append(op)
        del calls[:]
        del picked[:]
        try:
            with warnings.catch_warnings():
                warnings.simplefilter('error')
                val = psi.expectation_value(ops, sites=[s0])
            if len(picked) != 1 or len(picked[0]) != 1:
                res.append({'error': 'get_op called %d times / ambiguous' % len(picked)})
                continue
            # theta_ket and theta_bra: get_theta is called twice with the same arguments
            if len(calls) != 2 * n or calls[:n] != calls[n:]:
                res.append({'error': 'unexpected get_B calls %s' % calls})
                continue
            res.append({'idx': int(picked[0][0]), 'cell': int(psi._to_valid_site_index(s0, True)[1]),
                        'reads': [[int(x) for x in psi._to_valid_site_index(i, True)] for i in calls[:n]], 'val': cl(val)})
        except ValueError as e:
            res.append({'ValueError': str(e)[:100]})
    return res


def run_sample_ops(case):
    """sample_measurements(first, last, ops): which operator name is requested from which site in which order (recorded through an
    instance attribute on copies of the sites; the source is not touched)"""
    import copy
    from tenpy.networks.mps import MPS
    from tenpy.networks.site import SpinHalfSite
    L = case['L']
    rec = []
    sites = []
    for k in range(L):
        st = copy.copy(SpinHalfSite(conserve=None))
        orig = st.get_op
        st.get_op = (lambda name, _k=k, _o=orig: (rec.append([_k, str(name)]), _o(name))[1])
        sites.append(st)
    psi = MPS.from_product_state(sites, ['up', 'down'] * (L // 2) + ['up'] * (L % 2), bc=case['bc'], unit_cell_width=L)
    res = []
    for q in case['queries']:
        del rec[:]
        r = np.random.default_rng(q['seed'])
        try:
            sig, w = psi.sample_measurements(q['first'], q['last'], ops=q['ops'], rng=r, complex_amplitude=q.get('complex_amplitude', True))
            res.append({'rec': [[k, q['ops'].index(nm)] for k, nm in rec], 'n': len(sig), 'weight': cl([w])})
        except ValueError as e:
            res.append({'ValueError': str(e)[:100]})
    return res


def run_tcf_words(case):
    """term_correlation_function_right / _left (autoJW=True) on a product state with everything that receives the per-site
    operators recorded from outside (instance attributes of the MPS object; the source is not touched):
      get_site(i)        -> proxy of the site that records get_op(name) with the ABSOLUTE site index i and whose
                            multiply_operators returns the list of names (so that _term_to_ops_list returns words)
      _corr_ops_LP/_RP   -> record (words, first site) and contract 'Id' on the same sites instead
      get_B(k, ..)       -> records the sites the loop over the gap contracts
    For every entry of the result: the word contracted on every site of a window [lo, hi] (one more site on both sides)."""
    from tenpy.networks.mps import MPS
    ch = gen.Chain(case['sites'])
    L = len(ch.sites)
    psi = MPS.from_product_state(ch.sites, [0] * L, bc=case['bc'], unit_cell_width=L)
    log = []
    st = {'mute': 0}

    class SiteProxy:
        def __init__(self, site, i):
            self._site, self._i = site, int(i)

        def get_op(self, name):
            if not st['mute']:
                log.append(('op', self._i, str(name)))
            return self._site.get_op(name)

        def multiply_operators(self, ops):
            return [str(o) for o in ops]

        def __getattr__(self, a):
            return getattr(self._site, a)

    psi.get_site = lambda i: SiteProxy(psi.sites[psi._to_valid_site_index(i)], i)
    orig_get_B = psi.get_B

    def rec_get_B(i, *a, **kw):
        if not st['mute']:
            log.append(('B', int(i)))
        return orig_get_B(i, *a, **kw)
    psi.get_B = rec_get_B

    def mk(kind, orig):
        def f(operators, i0):
            log.append((kind, [list(w) for w in operators], int(i0)))
            st['mute'] += 1
            try:
                return orig(psi, ['Id'] * len(operators), i0)
            finally:
                st['mute'] -= 1
        return f
    psi._corr_ops_LP = mk('LP', MPS._corr_ops_LP)
    psi._corr_ops_RP = mk('RP', MPS._corr_ops_RP)
    res = []
    for q in case['queries']:
        del log[:]
        tL = [(a, int(b)) for a, b in q['term_L']]
        tR = [(a, int(b)) for a, b in q['term_R']]
        right = q['variant'] == 'right'
        try:
            if right:
                vals = psi.term_correlation_function_right(tL, tR, q['i_L'], q['j_R'])
            else:
                vals = psi.term_correlation_function_left(tL, tR, q['i_L'], q['j_R'])
        except ValueError as e:
            msg = str(e)
            if msg.startswith('Odd total number of operators') or msg.startswith('i_L/j_R not such that'):
                res.append({'ValueError': msg[:80]})
            else:
                res.append({'error': 'unexpected ValueError: ' + msg[:200]})
            continue
        except Exception as e:
            res.append({'error': type(e).__name__ + ': ' + str(e)[:200]})
            continue
        # assemble the observation: fixed part (first LP resp. RP call), gap sites (accumulated), moving part
        fixed, gap, entries, cur, err = None, {}, [], None, None
        for ev in log:
            if ev[0] == 'B':
                if fixed is None:
                    err = 'get_B before the fixed part was contracted'
                    break
                if cur is not None and cur[1] == 2:
                    cur = None
                if cur is None:
                    if ev[1] in gap:
                        err = 'site %d contracted twice in the gap' % ev[1]
                        break
                    gap[ev[1]] = []
                    cur = [ev[1], 1]
                elif cur[0] == ev[1]:
                    cur[1] = 2
                else:
                    err = 'unexpected get_B sequence'
                    break
            elif ev[0] == 'op':
                if cur is None or cur[0] != ev[1] or cur[1] != 1:
                    err = 'get_op(%r) on site %d outside of a gap step' % (ev[2], ev[1])
                    break
                gap[cur[0]].append(ev[2])
            else:
                kind, words, i0 = ev
                part = {i0 + t: list(w) for t, w in enumerate(words)}
                if fixed is None:
                    if kind != ('LP' if right else 'RP'):
                        err = 'first contraction is %s' % kind
                        break
                    fixed = part
                    continue
                if kind != ('RP' if right else 'LP'):
                    err = 'unexpected %s' % kind
                    break
                if cur is not None and cur[1] != 2:
                    err = 'incomplete gap step'
                    break
                cur = None
                lp, rp = (fixed, part) if right else (part, fixed)
                if set(gap) & (set(lp) | set(rp)):
                    err = 'gap site also contracted in CL / CR'
                    break
                merged = dict(rp)
                merged.update(gap)
                merged.update(lp)       # on a common site of CL and CR the stream compares the word of CL
                lo, hi = min(merged) - 1, max(merged) + 1
                if sorted(merged) != list(range(lo + 1, hi)):
                    err = 'sites %s are not contiguous' % sorted(merged)
                    break
                entries.append({'lo': lo, 'words': [merged.get(k, []) for k in range(lo, hi + 1)],
                                'overlap': bool(set(lp) & set(rp))})
        if err is None and len(entries) != len(vals):
            err = '%d contractions for %d values' % (len(entries), len(vals))
        res.append({'error': err} if err else {'entries': entries})
    return res


def run_sample_loop(case):
    """sample_measurements(ops=None) on an MPS given by exact tensors (entries unit * 2^-k): returns the tensors the loop
    starts from / attaches (get_theta(first, 1), get_B(i)), the outcome, every value npc.norm returned during the call and
    the returned weight.  npc.norm is wrapped from outside for the duration of the call; the source is not touched."""
    import tenpy.linalg.np_conserved as npc
    import tenpy.networks.mps as mps_mod
    from tenpy.networks.mps import MPS
    from tenpy.networks.site import SpinSite
    L = case['L']
    site_of = {}
    Bs = []
    for b in case['Bs']:
        arr = np.array([[[complex(x[0], x[1]) for x in row] for row in mat] for mat in b], dtype=complex)
        Bs.append(npc.Array.from_ndarray_trivial(arr, labels=['vL', 'p', 'vR'], dtype=complex))
    SVs = [np.array(s, dtype=float) for s in case['SVs']]
    sites = [site_of.setdefault(len(b[0]), SpinSite(S=(len(b[0]) - 1) / 2., conserve='None')) for b in case['Bs']]
    psi = MPS(sites, Bs, SVs, bc=case['bc'], form='B', unit_cell_width=L)

    def nest(a):
        a = a.itranspose(['vL', 'p', 'vR']).to_ndarray()
        return [[[[float(z.real), float(z.imag)] for z in row] for row in mat] for mat in a]
    got_B = [nest(psi.get_B(i).copy()) for i in range(L)]
    res = []
    for q in case['queries']:
        first, last = q['first'], q['last']
        th0 = nest(psi.get_theta(first, n=1).replace_label('p0', 'p'))
        norms = []
        orig = npc.norm
        assert mps_mod.npc is npc

        def rec_norm(a, *args, **kw):
            v = orig(a, *args, **kw)
            norms.append(float(v))
            return v
        npc.norm = rec_norm
        try:
            sig, w = psi.sample_measurements(first, last, ops=None, rng=np.random.default_rng(q['seed']),
                                             complex_amplitude=q['complex_amplitude'])
        except ValueError as e:
            res.append({'error': 'ValueError: ' + str(e)[:200]})
            continue
        finally:
            npc.norm = orig
        w = complex(w)
        res.append({'theta0': th0, 'sigmas': [int(s) for s in sig], 'norms': norms, 'weight': [float(w.real), float(w.imag)]})
    return {'B': got_B, 'results': res}


MEASURE_PATTERNS = ('expectation_value', 'correlation_function', 'term_', 'overlap', 'rho', 'mutinf', 'probability', 'sample',
                    'entanglement', 'average_charge', 'charge_variance', 'correlation_length')


def run_reflect(case):
    """public methods of BaseMPSExpectationValue / MPS / MPSEnvironment of the tree under test whose name looks like a measurement"""
    import inspect
    import tenpy.networks.mps as M
    out = {}
    for cname in ('BaseMPSExpectationValue', 'MPS', 'MPSEnvironment'):
        c = getattr(M, cname)
        names = [n for n, f in inspect.getmembers(c, predicate=inspect.isfunction)
                 if not n.startswith('_') and any(p in n for p in MEASURE_PATTERNS)]
        out[cname] = sorted(names)
    return out


def main():
    payload = json.load(open(sys.argv[1]))
    f = {'reflect': run_reflect, 'state': run_state, 'overlap': run_overlap, 'ops_list': run_ops_list, 'window': run_window,
         'sample_ops': run_sample_ops, 'tcf_words': run_tcf_words, 'sample_loop': run_sample_loop}[payload['kind']]
    res = []
    for c in payload['cases']:
        try:
            res.append(f(c))
        except Exception:
            res.append({'runner_error': traceback.format_exc()[-1500:]})
    json.dump(res, open(sys.argv[2], 'w'))


if __name__ == '__main__':
    main()
